(* main — driver of the source-level differential harness (engine E5).

     run gen <seed> <n> <outdir> <profile> [key=value ..]
         n cases; writes  batch_<tag>.txt   nevrun batch: for case id the three programs
                                            `@@@ <id>.o` original, `<id>.u` uniquified, `<id>.r`
                                            injectively renamed
                          expect_<tag>.tsv  id, nontrivial, outcome of the evaluator, printed numbers,
                                            mechanism flags, node count
                          ast_<tag>.txt     id TAB s-expression of the original program
                          dist_<tag>.json   distribution of the generated programs
         (tag = <profile>_<seed>; key=value overrides a weight of the profile, see gen.ml)
     run eval <ast-file>            evaluate every program in the file (lines `id TAB sexp` or one bare sexp)
     run pp <ast-file> [pipe=P]     print the Never source of the first program in the file (P percent of the
                                    eligible calls spelled with |>, see pp.ml)
     run shrink <ast-file> <outdir> [pipe=P]
                                    all one-step simplifications of the first program, in the format of `gen`
     run profiles                   list profile names *)
open Evalmodel
open Conv

exception Timeout

let fuel = lazy (nat_of_int 2_000_000)
let small_fuel = lazy (nat_of_int 60_000)

let with_timeout (secs : float) (f : unit -> 'a) : ('a, string) result =
  let old = Sys.signal Sys.sigalrm (Sys.Signal_handle (fun _ -> raise Timeout)) in
  ignore (Unix.setitimer Unix.ITIMER_REAL { Unix.it_interval = 0.0; it_value = secs });
  let stop () =
    ignore (Unix.setitimer Unix.ITIMER_REAL { Unix.it_interval = 0.0; it_value = 0.0 });
    Sys.set_signal Sys.sigalrm old in
  match f () with
  | v -> stop (); Ok v
  | exception Timeout -> stop (); Error "TIMEOUT"
  | exception Stack_overflow -> stop (); Error "STACK"
  | exception Out_of_memory -> stop (); Error "MEMORY"
  | exception e -> stop (); raise e

type canon = { kind : string; printed : int list }

let canon_of = function
  | OResult (CInt z, out) -> { kind = "RESULT int " ^ string_of_int (int_of_z z); printed = List.map int_of_z out }
  | OResult (CBool b, out) -> { kind = "RESULT bool " ^ (if b then "1" else "0"); printed = List.map int_of_z out }
  | OResult (_, out) -> { kind = "RESULT other"; printed = List.map int_of_z out }
  | OUnhandled (e, out) -> { kind = "UNHANDLED " ^ exn_name e; printed = List.map int_of_z out }
  | OFuel -> { kind = "FUEL"; printed = [] }
  | OStuck -> { kind = "STUCK"; printed = [] }

let evaluate ?(fuel = fuel) ?(secs = 2.0) (p : program) : canon =
  match with_timeout secs (fun () -> run_program (Lazy.force fuel) p []) with
  | Ok o -> canon_of o
  | Error why -> { kind = why; printed = [] }

let printed_str c = String.concat "," (List.map string_of_int c.printed)

let header id = Printf.sprintf "@@@ %s stack=3000 mem=20000\n" id

let nontrivial profile (st : Gen.st) (h : Stats.t) (c : canon) : bool =
  let fl k = try Hashtbl.find st.Gen.flags k with Not_found -> 0 in
  let g = Stats.get h in
  let ok = not (List.mem c.kind ["FUEL"; "STUCK"; "TIMEOUT"; "STACK"; "MEMORY"]) in
  ok && (match profile with
      | "arith" -> g "EBin.add" + g "EBin.sub" + g "EBin.mul" + g "EBin.div" + g "EBin.mod" + g "EBin.band"
                   + g "EBin.bor" + g "EBin.bxor" + g "EBin.shl" + g "EBin.shr" >= 8
      | "order" -> fl "order_probe" > 0 && List.length c.printed >= 3
      | "alias" -> fl "alias_probe" > 0 && g "EAssign" >= 1 && List.length c.printed >= 1
      | "closure" -> fl "closure_escape" > 0 || (g "closures_capturing" >= 1 && fl "firstclass_call" > 0)
      | "shadow" -> g "shadowing_binders" >= 2
      | "loops" -> g "EWhile" + g "EDoWhile" + g "EFor" + g "EForIn" >= 1
      | "records" -> g "ERecNew" >= 1 && g "EField" >= 1
      | "arrays" -> g "EArrLit" >= 1 && g "EIndex" >= 1
      | "catch" -> List.exists (fun m -> List.mem m c.printed) st.Gen.markers
      | "tailrec" -> fl "tail_called" > 0
      | "pipe" -> fl "piped_calls" > 0
      | _ -> true)

let overrides args =
  List.filter_map (fun a ->
      match String.index_opt a '=' with
      | Some i -> Some (String.sub a 0 i, int_of_string (String.sub a (i + 1) (String.length a - i - 1)))
      | None -> None) args

let cmd_gen seed n outdir profile ovr =
  let tag = Printf.sprintf "%s_%d" profile seed in
  let ob = open_out (Filename.concat outdir ("batch_" ^ tag ^ ".txt")) in
  let oe = open_out (Filename.concat outdir ("expect_" ^ tag ^ ".tsv")) in
  let oa = open_out (Filename.concat outdir ("ast_" ^ tag ^ ".txt")) in
  let dist = Stats.create () in
  let outcomes = Stats.create () in
  let flags = Stats.create () in
  let t0 = Unix.gettimeofday () in
  let teval = ref 0.0 in
  for i = 0 to n - 1 do
    let rng = Rng.derive seed i in
    let st = Gen.make_st rng profile ovr in
    let p = Prog.gen_program st in
    let id = Printf.sprintf "%s-%d-%d" profile seed i in
    let te = Unix.gettimeofday () in
    let c = evaluate p in
    let t1 = Unix.gettimeofday () -. te in
    let pu = Uniq.uniquify p in
    let pr = Uniq.rename_injective (Rng.derive (seed + 7919) i) p in
    (* sanity of the renamings themselves: the evaluator must not see a difference.  Skipped for
       expensive cases (long tail-recursive loops): the evaluator is quadratic in the number of cells *)
    let cu, cr = if t1 < 0.25 then (evaluate pu, evaluate pr) else (c, c) in
    let lim k = List.mem k ["TIMEOUT"; "STACK"; "MEMORY"] in
    let cu = if lim cu.kind then c else cu and cr = if lim cr.kind then c else cr in
    teval := !teval +. (Unix.gettimeofday () -. te);
    Stats.add outcomes "cases" 1;
    if List.mem c.kind ["FUEL"; "STUCK"; "TIMEOUT"; "STACK"; "MEMORY"] then
      (* not a usable case: the generator produced something outside the model or too expensive *)
      (Stats.add outcomes ("dropped." ^ c.kind) 1;
       Printf.fprintf oa "%s\t%s\n" id (Sexp.program_to_string p))
    else if cu <> c || cr <> c then begin
      Stats.add outcomes "dropped.renaming-changes-evaluator-outcome" 1;
      Printf.fprintf oe "%s\t%s\t0\tHARNESS uniq-mismatch\t\t\t0\n" id profile;
      Printf.fprintf oa "%s\t%s\n" id (Sexp.program_to_string p)
    end else begin
      let h = Stats.program p in
      let pipe = Gen.w st "pp_pipe" in
      let src, _, npiped = Pp.print_program_full ~pipe p in
      if npiped > 0 then (Hashtbl.replace st.Gen.flags "piped_calls" npiped);
      Stats.merge dist h;
      Stats.add dist "programs" 1;
      let sz = Stats.get h "nodes" in
      Stats.add dist (Printf.sprintf "size.%s" (if sz < 50 then "000-049" else if sz < 100 then "050-099" else if sz < 200 then "100-199"
                                                 else if sz < 400 then "200-399" else "400+")) 1;
      let nprint = List.length c.printed in
      Stats.add dist (Printf.sprintf "printed.%s" (if nprint = 0 then "0" else if nprint < 5 then "1-4" else if nprint < 20 then "5-19" else "20+")) 1;
      Stats.setmax dist "max_nodes" sz;
      let kind = if String.length c.kind >= 6 && String.sub c.kind 0 6 = "RESULT" then "result" else c.kind in
      Stats.add outcomes ("outcome." ^ kind) 1;
      Hashtbl.iter (fun k v -> Stats.add flags ("programs_with." ^ k) 1; Stats.add flags ("count." ^ k) v) st.Gen.flags;
      if List.exists (fun m -> List.mem m c.printed) st.Gen.markers then Stats.add flags "programs_with.handler_executed" 1;
      if Stats.get h "shadowing_binders" > 0 then Stats.add flags "programs_with.shadowing" 1;
      if Stats.get h "closures_capturing" > 0 then Stats.add flags "programs_with.capturing_closure" 1;
      let nt = nontrivial profile st h c in
      if nt then Stats.add outcomes "nontrivial" 1;
      let fl = String.concat "," (Hashtbl.fold (fun k _ acc -> k :: acc) st.Gen.flags []) in
      Printf.fprintf oe "%s\t%s\t%d\t%s\t%s\t%s\t%d\n" id profile (if nt then 1 else 0) c.kind (printed_str c) fl sz;
      Printf.fprintf oa "%s\t%s\n" id (Sexp.program_to_string p);
      output_string ob (header (id ^ ".o")); output_string ob src;
      output_string ob (header (id ^ ".u")); output_string ob (Pp.print_program ~pipe pu);
      output_string ob (header (id ^ ".r")); output_string ob (Pp.print_program ~pipe pr)
    end
  done;
  close_out ob; close_out oe; close_out oa;
  let od = open_out (Filename.concat outdir ("dist_" ^ tag ^ ".json")) in
  Printf.fprintf od "{\"profile\": \"%s\", \"seed\": %d, \"gen_seconds\": %.3f, \"eval_seconds\": %.3f,\n \"constructs\": %s,\n \"outcomes\": %s,\n \"mechanisms\": %s}\n"
    profile seed (Unix.gettimeofday () -. t0) !teval (Stats.to_json dist) (Stats.to_json outcomes) (Stats.to_json flags);
  close_out od

let read_file path =
  let ic = open_in_bin path in
  let n = in_channel_length ic in
  let s = really_input_string ic n in
  close_in ic; s

(* lines `id TAB sexp`, or a single bare s-expression *)
let read_programs path : (string * program) list =
  let s = read_file path in
  let lines = List.filter (fun l -> String.trim l <> "") (String.split_on_char '\n' s) in
  match lines with
  | l :: _ when String.length (String.trim l) > 0 && (String.trim l).[0] = '(' -> [("case", Sexp.program_of_string s)]
  | _ -> List.map (fun l ->
      match String.index_opt l '\t' with
      | Some i -> (String.sub l 0 i, Sexp.program_of_string (String.sub l (i + 1) (String.length l - i - 1)))
      | None -> failwith "bad ast line") lines

let cmd_eval path =
  List.iter (fun (id, p) ->
      let c = evaluate p in
      Printf.printf "%s\t%s\t%s\n" id c.kind (printed_str c)) (read_programs path)

let cmd_pp ?(pipe = 0) path =
  match read_programs path with
  | (_, p) :: _ -> print_string (Pp.print_program ~pipe p)
  | [] -> ()

let cmd_shrink ?(pipe = 0) path outdir =
  match read_programs path with
  | [] -> ()
  | (id0, p) :: _ ->
    let cands = Shrink.program p in
    let ob = open_out (Filename.concat outdir "batch_shrink.txt") in
    let oe = open_out (Filename.concat outdir "expect_shrink.tsv") in
    let oa = open_out (Filename.concat outdir "ast_shrink.txt") in
    let seen = Hashtbl.create 997 in
    List.iteri (fun i q ->
        let src = Pp.print_program ~pipe q in
        if not (Hashtbl.mem seen src) then begin
          Hashtbl.add seen src ();
          let c = evaluate ~fuel:small_fuel ~secs:0.5 q in
          if not (List.mem c.kind ["FUEL"; "STUCK"; "TIMEOUT"; "STACK"; "MEMORY"]) then begin
            let id = Printf.sprintf "%s.s%d" id0 i in
            let sz = Stats.get (Stats.program q) "nodes" in
            Printf.fprintf oe "%s\tshrink\t0\t%s\t%s\t%s\t%d\n" id c.kind (printed_str c) (Shrink.signature q) sz;
            Printf.fprintf oa "%s\t%s\n" id (Sexp.program_to_string q);
            output_string ob (header (id ^ ".o")); output_string ob src
          end
        end) cands;
    close_out ob; close_out oe; close_out oa

let () =
  match Array.to_list Sys.argv with
  | _ :: "gen" :: seed :: n :: outdir :: profile :: rest ->
    cmd_gen (int_of_string seed) (int_of_string n) outdir profile (overrides rest)
  | [_; "eval"; path] -> cmd_eval path
  | [_; "pp"; path] -> cmd_pp path
  | [_; "pp"; path; opt] -> cmd_pp ~pipe:(List.assoc "pipe" (overrides [opt])) path
  | [_; "shrink"; path; outdir; opt] -> cmd_shrink ~pipe:(List.assoc "pipe" (overrides [opt])) path outdir
  | [_; "sig"; path] -> (match read_programs path with (_, p) :: _ -> print_endline (Shrink.signature p) | [] -> ())
  | [_; "shrink"; path; outdir] -> cmd_shrink path outdir
  | [_; "profiles"] -> List.iter print_endline Gen.profile_names
  | _ -> prerr_endline "usage: run gen <seed> <n> <outdir> <profile> [key=value ..] | eval <ast> | pp <ast> | shrink <ast> <outdir> | profiles"; exit 2
