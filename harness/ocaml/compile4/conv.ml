(* conv — conversions between OCaml ints and the extracted numeric datatypes (positive, N, Z, nat)
   of Compilemodel, plus names of exceptions as the VM prints them (back/vm.c except_to_str). *)
open Compilemodel

let rec pos_of_int n =
  if n = 1 then XH else if n land 1 = 0 then XO (pos_of_int (n lsr 1)) else XI (pos_of_int (n lsr 1))
let z_of_int n = if n = 0 then Z0 else if n > 0 then Zpos (pos_of_int n) else Zneg (pos_of_int (- n))
let rec int_of_pos = function XH -> 1 | XO p -> 2 * int_of_pos p | XI p -> 2 * int_of_pos p + 1
let int_of_z = function Z0 -> 0 | Zpos p -> int_of_pos p | Zneg p -> - (int_of_pos p)
let n_of_int n = if n = 0 then N0 else Npos (pos_of_int n)
let int_of_n = function N0 -> 0 | Npos p -> int_of_pos p
let nat_of_int n = let rec go k acc = if k <= 0 then acc else go (k - 1) (S acc) in go n O
let rec int_of_nat = function O -> 0 | S k -> 1 + int_of_nat k

let exn_name = function
  | ExDivision -> "division_by_zero" | ExArrSize -> "wrong_array_size"
  | ExIndexOob -> "index_out_of_bounds" | ExInvalid -> "invalid_domain" | ExOverflow -> "overflow"
  | ExUnderflow -> "underflow" | ExInexact -> "inexact" | ExNil -> "nil_pointer"
  | ExFfi -> "ffi_fail"
let all_exns = [ExDivision; ExArrSize; ExIndexOob; ExInvalid; ExOverflow; ExUnderflow; ExInexact; ExNil; ExFfi]
let exn_of_name s = List.find (fun e -> exn_name e = s) all_exns
