(* Exceptions in the reference evaluator (Src/Eval.v): theorems for ALL programs
   (property C03, source level).

     fault_result_unused_*       an operand / argument / element that raises makes the enclosing
                                 operator, call, constructor, assignment or index expression
                                 raise the same exception in exactly the state the fault left:
                                 nothing further is evaluated, no result cell is made, no store
                                 happens, the callee is not entered
     first_matching_clause       a call whose body raises ex runs the FIRST clause for ex of the
                                 callee, in the environment `parameters ++ closure environment`
                                 (the cells the call bound; the body's locals are not in scope),
                                 in the state the fault left; its value is the call's value
     no_clause_propagates        no matching clause and no catch-all: the call raises ex to ITS
                                 caller (the search continues outward)
     clause_exception_goes_to_later_clauses
     unhandled_at_top            run_program reports OUnhandled ex exactly when the entry
                                 function's evaluation (body, then its clauses) ends in RExc ex

   Proofs use only the unfolding equations of Src/EvalLemmas.v.  No axioms. *)
From Coq Require Import ZArith List Bool Lia.
From NV Require Import Src.Syntax Src.Eval Src.EvalLemmas.
Import ListNotations.

Lemma exn_eqb_refl ex : exn_eqb ex ex = true.
Proof. destruct ex; reflexivity. Qed.

Lemma exn_eqb_eq a b : exn_eqb a b = true -> a = b.
Proof. destruct a, b; cbn; intros H; try discriminate; reflexivity. Qed.

(* the parameters are bound to exactly the cells the arguments evaluated to *)
Lemma bind_params_cells : forall ps cs penv,
  bind_params ps cs = Some penv -> map snd penv = cs /\ map fst penv = map (fun p => fst (fst p)) ps.
Proof.
  induction ps as [|[[x v] t] ps IH]; intros [|c cs] penv H; cbn in H; try discriminate.
  - inversion H; subst. split; reflexivity.
  - destruct (bind_params ps cs) as [e|] eqn:E; [|discriminate]. inversion H; subst.
    destruct (IH _ _ E) as [H1 H2]. cbn. split; f_equal; assumption.
Qed.

Section Catch.
Variable genv : env.

Local Notation eval := (eval genv).
Local Notation eval_items := (eval_items genv).
Local Notation handlers := (handlers genv).
Local Notation eval_args := (eval_args genv).

(* ------------------------------------------------------------------ the result of a faulting operation is never used *)

Theorem fault_result_unused_binop_left op k e st a b ex st1 :
  eval k e st a = (RExc ex, st1) ->
  eval (S k) e st (EBin op a b) = (RExc ex, st1).
Proof.
  intros H. destruct (binop_cases op) as [->|[->|[H1 H2]]].
  - rewrite eval_EAnd, H. reflexivity.
  - rewrite eval_EOr, H. reflexivity.
  - rewrite eval_EBin by assumption. rewrite H. reflexivity.
Qed.

Theorem fault_result_unused_binop_right op k e st a b c1 st1 ex st2 :
  op <> And -> op <> Or ->
  eval k e st a = (ROk c1, st1) -> eval k e st1 b = (RExc ex, st2) ->
  eval (S k) e st (EBin op a b) = (RExc ex, st2).
Proof. intros H1 H2 Ha Hb. rewrite eval_EBin by assumption. rewrite Ha, Hb. reflexivity. Qed.

(* a zero divisor: both operands evaluated, the operator itself raises, no cell is made *)
Theorem division_by_zero_raises op k e st a b c1 st1 c2 st2 z1 :
  op = Div \/ op = Mod ->
  eval k e st a = (ROk c1, st1) -> eval k e st1 b = (ROk c2, st2) ->
  get_cell st2 c1 = Some (CInt z1) -> get_cell st2 c2 = Some (CInt 0%Z) ->
  eval (S k) e st (EBin op a b) = (RExc ExDivision, st2).
Proof.
  intros Hop Ha Hb H1 H2.
  rewrite eval_EBin by (destruct Hop; subst; discriminate). rewrite Ha, Hb.
  unfold binop_result, get_int. rewrite H1, H2. destruct Hop; subst; reflexivity.
Qed.

(* arguments are evaluated right to left: if the arguments after `a` evaluate and `a` raises,
   the arguments before it are never evaluated *)
Lemma eval_args_raise k e st post cs r0 st1 a ex st2 : forall pre,
  eval_args k e post st = ((Some cs, r0), st1) ->
  eval k e st1 a = (RExc ex, st2) ->
  eval_args k e (pre ++ a :: post) st = ((None, RExc ex), st2).
Proof.
  intros pre Hp Ha. induction pre as [|p pre IH]; cbn [app]; unfold EvalLemmas.eval_args in *.
  - rewrite eval_args_f_cons, Hp, Ha. reflexivity.
  - rewrite eval_args_f_cons, IH. reflexivity.
Qed.

Theorem fault_result_unused_call_arg k e st f pre a post cs r0 st1 ex st2 :
  eval_args k e post st = ((Some cs, r0), st1) ->
  eval k e st1 a = (RExc ex, st2) ->
  eval (S k) e st (ECall f (pre ++ a :: post)) = (RExc ex, st2).
Proof.
  intros Hp Ha. rewrite eval_ECall. rewrite (eval_args_raise _ _ _ _ _ _ _ _ _ _ pre Hp Ha). reflexivity.
Qed.

(* the function expression is evaluated after the arguments; if it raises the callee is not entered *)
Theorem fault_result_unused_call_fun k e st f args cs r0 st1 ex st2 :
  eval_args k e args st = ((Some cs, r0), st1) ->
  eval k e st1 f = (RExc ex, st2) ->
  eval (S k) e st (ECall f args) = (RExc ex, st2).
Proof. intros Hp Hf. rewrite eval_ECall, Hp, Hf. reflexivity. Qed.

Theorem fault_result_unused_arrlit k e st t pre a post cs r0 st1 ex st2 :
  eval_args k e post st = ((Some cs, r0), st1) ->
  eval k e st1 a = (RExc ex, st2) ->
  eval (S k) e st (EArrLit (pre ++ a :: post) t) = (RExc ex, st2).
Proof.
  intros Hp Ha. rewrite eval_EArrLit. rewrite (eval_args_raise _ _ _ _ _ _ _ _ _ _ pre Hp Ha). reflexivity.
Qed.

Theorem fault_result_unused_recnew k e st rn pre a post cs r0 st1 ex st2 :
  eval_args k e post st = ((Some cs, r0), st1) ->
  eval k e st1 a = (RExc ex, st2) ->
  eval (S k) e st (ERecNew rn (pre ++ a :: post)) = (RExc ex, st2).
Proof.
  intros Hp Ha. rewrite eval_ERecNew. rewrite (eval_args_raise _ _ _ _ _ _ _ _ _ _ pre Hp Ha). reflexivity.
Qed.

Theorem fault_result_unused_assign_lhs k e st lhs rhs ex st1 :
  eval k e st lhs = (RExc ex, st1) ->
  eval (S k) e st (EAssign lhs rhs) = (RExc ex, st1).
Proof. intros H. rewrite eval_EAssign, H. reflexivity. Qed.

(* the right side raises: nothing is stored *)
Theorem fault_result_unused_assign_rhs k e st lhs rhs cl st1 ex st2 :
  eval k e st lhs = (ROk cl, st1) -> eval k e st1 rhs = (RExc ex, st2) ->
  eval (S k) e st (EAssign lhs rhs) = (RExc ex, st2).
Proof. intros H1 H2. rewrite eval_EAssign, H1, H2. reflexivity. Qed.

Theorem fault_result_unused_index_arr k e st a i ex st1 :
  eval k e st a = (RExc ex, st1) ->
  eval (S k) e st (EIndex a i) = (RExc ex, st1).
Proof. intros H. rewrite eval_EIndex, H. reflexivity. Qed.

Theorem fault_result_unused_index_idx k e st a i ca st1 ex st2 :
  eval k e st a = (ROk ca, st1) -> eval k e st1 i = (RExc ex, st2) ->
  eval (S k) e st (EIndex a i) = (RExc ex, st2).
Proof. intros H1 H2. rewrite eval_EIndex, H1, H2. reflexivity. Qed.

(* index out of bounds / nil array: the indexing itself raises, no element is read *)
Theorem index_fault_raises k e st a i ca st1 ci st2 z :
  eval k e st a = (ROk ca, st1) -> eval k e st1 i = (ROk ci, st2) ->
  get_cell st2 ci = Some (CInt z) ->
  (get_cell st2 ca = Some (CArr None) -> eval (S k) e st (EIndex a i) = (RExc ExNil, st2)) /\
  (forall ar elems, get_cell st2 ca = Some (CArr (Some ar)) -> nth_error (arrs st2) ar = Some elems ->
     (z < 0 \/ Z.of_nat (length elems) <= z)%Z ->
     eval (S k) e st (EIndex a i) = (RExc ExIndexOob, st2)).
Proof.
  intros Ha Hi Hz. split.
  - intros Hn. rewrite eval_EIndex, Ha, Hi. unfold index_result, get_int. rewrite Hn, Hz. reflexivity.
  - intros ar elems Hc He Hb. rewrite eval_EIndex, Ha, Hi. unfold index_result, get_int. rewrite Hc, Hz, He.
    assert (E : ((z <? 0) || (Z.of_nat (length elems) <=? z))%Z = true).
    { apply orb_true_iff. destruct Hb; [left; now apply Z.ltb_lt|right; now apply Z.leb_le]. }
    rewrite E. reflexivity.
Qed.

(* a block stops at the first item that raises: later items (and their bindings) never run *)
Theorem fault_stops_block k e st a t last ex st1 :
  eval k e st a = (RExc ex, st1) ->
  eval_items (S k) e st (IExpr a :: t) last = (RExc ex, st1) /\
  (forall x, eval_items (S k) e st (ILet x a :: t) last = (RExc ex, st1)) /\
  (forall x, eval_items (S k) e st (IVar x a :: t) last = (RExc ex, st1)).
Proof.
  intros H. split; [|split]; intros.
  - rewrite eval_items_IExpr, H. reflexivity.
  - rewrite eval_items_ILet, H. reflexivity.
  - rewrite eval_items_IVar, H. reflexivity.
Qed.

(* ------------------------------------------------------------------ clause search *)

Definition no_match (ex : exn) (cl : list (exn * list item)) : Prop :=
  forall ex' b, In (ex', b) cl -> exn_eqb ex ex' = false.

Lemma handlers_skip : forall pre k e st ex rest call,
  no_match ex pre ->
  handlers (length pre + k) e st ex (pre ++ rest) call = handlers k e st ex rest call.
Proof.
  induction pre as [|[ex' b] pre IH]; intros k e st ex rest call Hn; [reflexivity|].
  cbn [length app plus]. rewrite handlers_cons.
  rewrite (Hn ex' b (or_introl eq_refl)).
  apply IH. intros ex2 b2 Hin. apply (Hn ex2 b2). now right.
Qed.

(* the clause list of one function, offered ex: the first clause for ex runs (in the same
   environment and in the state the fault left); clauses before it are skipped without being
   evaluated *)
Theorem first_matching_clause_handlers pre h post k e st ex call :
  no_match ex pre ->
  handlers (length pre + S k) e st ex (pre ++ (ex, h) :: post) call =
  match eval_items k e st h None with
  | (RExc ex2, st1) => handlers k e st1 ex2 post call
  | r => r
  end.
Proof.
  intros Hn. rewrite handlers_skip by exact Hn. rewrite handlers_cons, exn_eqb_refl. reflexivity.
Qed.

(* an exception raised inside a clause is offered to the LATER clauses of the same function
   only -- never to the clause itself or to an earlier one *)
Theorem clause_exception_goes_to_later_clauses pre h post k e st ex call ex2 st1 :
  no_match ex pre ->
  eval_items k e st h None = (RExc ex2, st1) ->
  handlers (length pre + S k) e st ex (pre ++ (ex, h) :: post) call =
  handlers k e st1 ex2 post call.
Proof. intros Hn Hh. rewrite first_matching_clause_handlers by exact Hn. rewrite Hh. reflexivity. Qed.

(* no clause matches: the catch-all clause, if there is one ... *)
Theorem catch_all_takes_the_rest cl body k e st ex :
  no_match ex cl ->
  handlers (length cl + S k) e st ex cl (Some body) = eval_items k e st body None.
Proof.
  intros Hn. rewrite <- (app_nil_r cl) at 2. rewrite handlers_skip by exact Hn.
  rewrite handlers_nil. reflexivity.
Qed.

(* ... otherwise the exception leaves the function unchanged, in the state the fault left *)
Theorem no_clause_propagates_handlers cl k e st ex :
  no_match ex cl ->
  handlers (length cl + S k) e st ex cl None = (RExc ex, st).
Proof.
  intros Hn. rewrite <- (app_nil_r cl) at 2. rewrite handlers_skip by exact Hn.
  rewrite handlers_nil. reflexivity.
Qed.

(* ------------------------------------------------------------------ calls *)

(* a call whose arguments and function expression evaluate, whose callee is fd closed over
   cenv, and whose body raises ex *)
Definition faulting_call (k : nat) (e : env) (st : state) (f : expr) (args : list expr)
           (fd : fdef) (fenv : env) (ex : exn) (st3 : state) : Prop :=
  exists cs r0 st1 cf st2 cenv penv,
    eval_args k e args st = ((Some cs, r0), st1) /\
    eval k e st1 f = (ROk cf, st2) /\
    get_cell st2 cf = Some (CFun fd cenv) /\
    bind_params (fd_params fd) cs = Some penv /\
    (* the callee's environment: its parameters (bound to the argument cells), then the
       closure environment -- and nothing else *)
    fenv = penv ++ cenv /\ map snd penv = cs /\
    eval_items k fenv st2 (fd_body fd) None = (RExc ex, st3).

(* the hypothesis is exactly: arguments, function value, arity and body as stated *)
Lemma faulting_call_intro k e st f args fd ex st3 cs r0 st1 cf st2 cenv penv :
  eval_args k e args st = ((Some cs, r0), st1) ->
  eval k e st1 f = (ROk cf, st2) ->
  get_cell st2 cf = Some (CFun fd cenv) ->
  bind_params (fd_params fd) cs = Some penv ->
  eval_items k (penv ++ cenv) st2 (fd_body fd) None = (RExc ex, st3) ->
  faulting_call k e st f args fd (penv ++ cenv) ex st3.
Proof.
  intros H1 H2 H3 H4 H5. exists cs, r0, st1, cf, st2, cenv, penv.
  do 5 (split; [auto|]). split; [|exact H5]. apply (bind_params_cells _ _ _ H4).
Qed.

Lemma faulting_call_eval k e st f args fd fenv ex st3 :
  faulting_call k e st f args fd fenv ex st3 ->
  eval (S k) e st (ECall f args) = handlers k fenv st3 ex (fd_catches fd) (fd_catch_all fd).
Proof.
  intros (cs & r0 & st1 & cf & st2 & cenv & penv & Ha & Hf & Hc & Hb & He & _ & Hbody).
  rewrite eval_ECall, Ha, Hf. unfold apply_fun. rewrite Hc, Hb. unfold call_body.
  rewrite <- He, Hbody. reflexivity.
Qed.

(* control passes to the first matching clause of the function whose body raised; the clause is
   evaluated in `parameters ++ closure environment` -- the parameters are the very cells the
   call bound (so assignments the body made to them are visible), the body's locals are not in
   scope -- in the state the fault left; what the clause yields is what the call yields *)
Theorem first_matching_clause k e st f args fd fenv ex st3 pre h post k' :
  faulting_call k e st f args fd fenv ex st3 ->
  fd_catches fd = pre ++ (ex, h) :: post -> no_match ex pre ->
  k = length pre + S k' ->
  eval (S k) e st (ECall f args) =
  match eval_items k' fenv st3 h None with
  | (RExc ex2, st4) => handlers k' fenv st4 ex2 post (fd_catch_all fd)
  | r => r
  end.
Proof.
  intros Hfc Hcl Hn ->. rewrite (faulting_call_eval _ _ _ _ _ _ _ _ _ Hfc). rewrite Hcl.
  apply first_matching_clause_handlers. exact Hn.
Qed.

Corollary clause_value_is_call_result k e st f args fd fenv ex st3 pre h post k' c st4 :
  faulting_call k e st f args fd fenv ex st3 ->
  fd_catches fd = pre ++ (ex, h) :: post -> no_match ex pre ->
  k = length pre + S k' ->
  eval_items k' fenv st3 h None = (ROk c, st4) ->
  eval (S k) e st (ECall f args) = (ROk c, st4).
Proof.
  intros Hfc Hcl Hn Hk Hh.
  rewrite (first_matching_clause _ _ _ _ _ _ _ _ _ _ _ _ _ Hfc Hcl Hn Hk). rewrite Hh. reflexivity.
Qed.

(* no clause of the callee matches and it has no catch-all: the call itself raises ex, to be
   handled by the caller's clauses (the search goes outward, one function at a time) *)
Theorem no_clause_propagates k e st f args fd fenv ex st3 k' :
  faulting_call k e st f args fd fenv ex st3 ->
  no_match ex (fd_catches fd) -> fd_catch_all fd = None ->
  k = length (fd_catches fd) + S k' ->
  eval (S k) e st (ECall f args) = (RExc ex, st3).
Proof.
  intros Hfc Hn Hall ->. rewrite (faulting_call_eval _ _ _ _ _ _ _ _ _ Hfc). rewrite Hall.
  apply no_clause_propagates_handlers. exact Hn.
Qed.

(* ... and then the caller's own clause search applies to it: a call that raises inside a
   function body makes that body raise (through blocks), so `first_matching_clause` /
   `no_clause_propagates` apply again one level further out *)
Theorem nested_call_exception_reaches_caller_clauses k e st a t last ex st1 :
  eval k e st a = (RExc ex, st1) ->
  eval_items (S k) e st (IExpr a :: t) last = (RExc ex, st1).
Proof. intros H. rewrite eval_items_IExpr, H. reflexivity. Qed.

End Catch.

(* ------------------------------------------------------------------ whole programs *)

(* the evaluation of the entry function: its body, then its clauses (None: no such function /
   wrong arity) -- run_program is this followed by reading the result cell *)
Definition main_result (fuel : nat) (p : program) (args : list Z) : option (res * state) :=
  let genv := global_env (p_funcs p) 0 in
  let st0 := init_state p in
  let '(argcells, st1) :=
    fold_left (fun acc z => let '(cs, st) := acc in
                            let (c, st') := alloc st (CInt (wrap32 z)) in (cs ++ [c], st'))
              args ([], st0) in
  match lookup (p_main p) genv with
  | None => None
  | Some cm =>
    match get_cell st1 cm with
    | Some (CFun fd cenv) =>
      match bind_params (fd_params fd) argcells with
      | Some penv =>
        Some (match eval_items genv fuel penv st1 (fd_body fd) None with
              | (RExc ex, st2) => handlers genv fuel penv st2 ex (fd_catches fd) (fd_catch_all fd)
              | r => r end)
      | None => None end
    | _ => None end
  end.

Lemma run_program_main fuel p args :
  run_program fuel p args =
  match main_result fuel p args with
  | None => OStuck
  | Some (ROk c, st2) => match get_cell st2 c with
                         | Some v => OResult v (rev (out st2))
                         | None => OStuck end
  | Some (RExc ex, st2) => OUnhandled ex (rev (out st2))
  | Some (RFuel, _) => OFuel
  | Some (RStuck, _) => OStuck
  end.
Proof.
  unfold run_program, main_result.
  destruct (fold_left _ args ([], init_state p)) as [argcells st1].
  destruct (lookup (p_main p) (global_env (p_funcs p) 0)) as [cm|]; [|reflexivity].
  destruct (get_cell st1 cm) as [[z|b|fd cenv|a|r]|]; try reflexivity.
  destruct (bind_params (fd_params fd) argcells) as [penv|]; reflexivity.
Qed.

(* "If no clause matches anywhere, the run stops with an unhandled <name> exception report":
   the run is reported unhandled with ex exactly when the entry function's evaluation -- after
   its own clauses had their chance -- ends in RExc ex; the text printed so far is kept *)
Theorem unhandled_at_top fuel p args ex printed :
  run_program fuel p args = OUnhandled ex printed <->
  exists st2, main_result fuel p args = Some (RExc ex, st2) /\ printed = rev (out st2).
Proof.
  rewrite run_program_main. split.
  - destruct (main_result fuel p args) as [[[c|ex'| |] st2]|]; try discriminate.
    + destruct (get_cell st2 c); discriminate.
    + intros H. inversion H; subst. eauto.
  - intros (st2 & -> & ->). reflexivity.
Qed.

(* and never otherwise: a run that yields a value did not end in an exception *)
Theorem result_means_no_exception fuel p args v printed :
  run_program fuel p args = OResult v printed ->
  exists c st2, main_result fuel p args = Some (ROk c, st2) /\ get_cell st2 c = Some v.
Proof.
  rewrite run_program_main.
  destruct (main_result fuel p args) as [[[c|ex'| |] st2]|]; try discriminate.
  destruct (get_cell st2 c) as [v'|] eqn:E; [|discriminate].
  intros H. inversion H; subst. eauto.
Qed.
