(* C17 — foreign calls pass and return values intact.   PARTIAL BY NATURE.
   Proved here: the struct-layout / marshalling / descriptor / decision LOGIC of
   back/vmffi.c + front/emit.c (model FFI/Layout.v).  Not provable with this technique and
   only observed by checks/c17.py: the platform ABI (register/memory classes), libffi,
   dlopen/dlsym, ownership of the argument buffers (ffi_decl_delete).
   Only statements here; every proof is `exact <lemma>` into FFI/LayoutProofs.v. *)
From Coq Require Import NArith List Bool.
From NV Require Import FFI.Layout FFI.LayoutProofs.
Import ListNotations.
Local Open Scope N_scope.

(* The offsets computed by the running-offset loop of _record_value/_record_new are the
   System V struct layout, for every nested record type over the FFI alphabet. *)
Theorem layout_is_c_layout : forall fs, wf (TRec fs) ->
  let t := TRec fs in
  let offs := field_offsets fs 0 in
  (* (1) each field offset is the least multiple of the field's alignment that is >= the end
         of the previous field (0 for the first) *)
  c_layout fs 0 offs (fields_end fs 0) /\
  (* (2) fields do not overlap *)
  (forall i j oi oj fi, (i < j)%nat -> nth_error offs i = Some oi -> nth_error offs j = Some oj ->
     nth_error fs i = Some fi -> oi + sizeof fi <= oj) /\
  (* (3) every field lies inside the struct *)
  (forall i oi fi, nth_error offs i = Some oi -> nth_error fs i = Some fi ->
     oi + sizeof fi <= sizeof t) /\
  (* (4) alignment = maximal field alignment (every field alignment divides it); the total
         size is the least multiple of it >= the end of the last field, and positive *)
  alignof t = max_align fs /\ (forall f, In f fs -> (alignof f | alignof t)) /\
  least_aligned (fields_end fs 0) (alignof t) (sizeof t) /\ 0 < sizeof t /\
  (* (5) nested records: at any start o that is a multiple of the record's own alignment
         the fields are laid out as at 0, shifted by o, and end within o + sizeof t *)
  (forall o, (alignof t | o) ->
     field_offsets fs o = map (N.add o) offs /\
     fields_end fs o = o + fields_end fs 0 /\ fields_end fs o <= o + sizeof t).
Proof. exact LayoutProofs.layout_is_c_layout. Qed.
Print Assumptions layout_is_c_layout.

(* vm_execute_func_ffi_align's bit trick is "round up to the next multiple" for every
   power-of-two alignment, and every alignment that occurs is a power of two *)
Theorem ffi_align_is_round_up : forall t v, wf t ->
  least_aligned v (alignof t) (ffi_align v (alignof t)).
Proof. exact LayoutProofs.ffi_align_is_round_up. Qed.
Print Assumptions ffi_align_is_round_up.

(* _record_value stays inside the buffer malloc'ed with param_types[i]->size *)
Theorem marshal_within_bounds : forall fs vs, wf (TRec fs) ->
  forall x, sizeof (TRec fs) <= x -> fst (marshal_arg (TRec fs) (VRec (Some vs))) x = 0.
Proof. exact LayoutProofs.marshal_within_bounds. Qed.
Print Assumptions marshal_within_bounds.

(* writing a record value with _record_value and reading it back with _record_new is the
   identity (as used by vm_execute_func_ffi: zeroed buffer, offset 0) ... *)
Theorem marshal_unmarshal_roundtrip : forall fs vs,
  wf (TRec fs) -> has_type (TRec fs) (VRec (Some vs)) = true ->
  contains_nil (VRec (Some vs)) = false ->
  snd (marshal_arg (TRec fs) (VRec (Some vs))) = false /\
  unmarshal_ret (TRec fs) (fst (marshal_arg (TRec fs) (VRec (Some vs)))) = VRec (Some vs).
Proof. exact LayoutProofs.marshal_unmarshal_roundtrip. Qed.
Print Assumptions marshal_unmarshal_roundtrip.

(* ... and at any offset inside any buffer (nested use) *)
Theorem marshal_unmarshal_roundtrip_nested : forall t, wf t -> forall v m off,
  has_type t v = true -> contains_nil v = false ->
  snd (marshal t v m off) = false /\
  fst (unmarshal t (fst (fst (marshal t v m off))) off) = v.
Proof. exact LayoutProofs.marshal_unmarshal_roundtrip_nested. Qed.
Print Assumptions marshal_unmarshal_roundtrip_nested.

(* _record_value returns 1 exactly when the record contains a nil string / nil record *)
Theorem marshal_ret_iff_nil : forall t v m off, has_type t v = true ->
  snd (marshal t v m off) = contains_nil v.
Proof. exact LayoutProofs.marshal_ret_iff_nil. Qed.
Print Assumptions marshal_ret_iff_nil.

(* emit.c's descriptors: total_count = number of descriptors; _record_type re-reads the
   declared type; skipping a nil record by total_count lands right after its sub-tree *)
Theorem descriptor_stream_wellformed : forall t rest,
  snd (emit_param t) = N.of_nat (length (fst (emit_param t))) /\
  parse_type (S (depth t)) (fst (emit_param t) ++ rest) = Some (t, rest) /\
  (forall fs, t = TRec fs -> exists total body,
     fst (emit_param t) = DRec (N.of_nat (length fs)) total :: body /\
     skip_nil_record total (body ++ rest) = rest).
Proof. exact LayoutProofs.descriptor_stream_wellformed. Qed.
Print Assumptions descriptor_stream_wellformed.

(* offsets cannot wrap around `unsigned int` for any realistic descriptor stream *)
Theorem sizeof_bound : forall t, wf t -> sizeof t + 7 <= 16 * ndesc t.
Proof. exact LayoutProofs.sizeof_bound. Qed.
Print Assumptions sizeof_bound.

(* Decision logic with `prep_vals |= ...` (accumulate = true): the function is called iff
   ffi_prep_cif succeeded, no argument contains a nil string / nil record, the library was
   found and the symbol was found; every other case is ffi_fail without a call. *)
Theorem nil_arg_is_ffi_fail : forall args prep lib sym, Forall arg_typed args ->
  (ffi_outcome true prep args lib sym = Called <->
   prep = true /\ existsb' arg_nil args = false /\ lib = true /\ sym = true).
Proof. exact LayoutProofs.nil_arg_is_ffi_fail. Qed.
Print Assumptions nil_arg_is_ffi_fail.

(* The pinned tree ASSIGNS `prep_vals = record_value(...)` (accumulate = false).  What is
   still guaranteed for either variant: a nil argument that is not followed by a record
   argument raises ffi_fail ... *)
Theorem nil_arg_is_ffi_fail_partial : forall acc pre a post prep lib sym,
  arg_typed a -> arg_nil a = true ->
  forallb' (fun b => negb (is_rec (fst b))) post = true ->
  ffi_outcome acc prep (pre ++ a :: post) lib sym = FfiFail.
Proof. exact LayoutProofs.nil_arg_is_ffi_fail_partial. Qed.
Print Assumptions nil_arg_is_ffi_fail_partial.

(* ... and the full statement is false for the assigning variant: a nil string followed by
   a non-nil record argument is called (checks/c17.py observes which variant the tree has
   and reports the violation with this very input). *)
Theorem nil_arg_is_ffi_fail_refuted : exists args,
  Forall arg_typed args /\ existsb' arg_nil args = true /\
  ffi_outcome false true args true true = Called.
Proof. exact LayoutProofs.nil_arg_is_ffi_fail_refuted. Qed.
Print Assumptions nil_arg_is_ffi_fail_refuted.

(* ---------------------------------------------------------------------------------------- *)
(* Examples: the hypotheses are satisfiable, on non-trivial nested records                    *)

(* back/fficall.h test_Types: int, long long, float, double, bool, char, char*, ptr,
   test_Point {int,int}, test_Touple {int,int} *)
Definition ex_types : fty :=
  TRec [TInt; TLong; TFloat; TDouble; TBool; TChar; TString; TCPtr;
        TRec [TInt; TInt]; TRec [TInt; TInt]].

Example ex_types_wf : wf ex_types.
Proof. reflexivity. Qed.

Example ex_types_layout :
  flat_offsets ex_types 0 = [0; 8; 16; 24; 32; 33; 40; 48; 56; 60; 64; 68] /\
  sizeof ex_types = 72 /\ alignof ex_types = 8.
Proof. vm_compute. repeat split. Qed.

(* struct { char a; struct { char b; double c; struct { int d; char e; } f; } g; float h; }:
   inner-most record is 8 bytes aligned 4; middle is 24 bytes aligned 8 and starts at 8 *)
Definition ex_nested : fty :=
  TRec [TChar; TRec [TChar; TDouble; TRec [TInt; TChar]]; TFloat].

Example ex_nested_layout :
  field_offsets [TChar; TRec [TChar; TDouble; TRec [TInt; TChar]]; TFloat] 0 = [0; 8; 32] /\
  flat_offsets ex_nested 0 = [0; 8; 16; 24; 28; 32] /\
  sizeof (TRec [TInt; TChar]) = 8 /\ sizeof (TRec [TChar; TDouble; TRec [TInt; TChar]]) = 24 /\
  sizeof ex_nested = 40 /\ alignof ex_nested = 8.
Proof. vm_compute. repeat split. Qed.

Definition ex_nested_val : fval :=
  VRec (Some [VScalar 65;
              VRec (Some [VScalar 66; VScalar 4612811918334230528 (* 2.5 *);
                          VRec (Some [VScalar 4294967295; VScalar 255])]);
              VScalar 1069547520 (* 1.5f *)]).

Example ex_nested_roundtrip :
  wf ex_nested /\ has_type ex_nested ex_nested_val = true /\
  contains_nil ex_nested_val = false /\
  unmarshal_ret ex_nested (fst (marshal_arg ex_nested ex_nested_val)) = ex_nested_val /\
  image (fst (marshal_arg ex_nested ex_nested_val)) 40 =
    [65;0;0;0;0;0;0;0;  66;0;0;0;0;0;0;0;  0;0;0;0;0;0;4;64;
     255;255;255;255; 255;0;0;0;  0;0;192;63; 0;0;0;0].
Proof. vm_compute. repeat split. Qed.

(* a nil nested record: ret = 1, the running offset still ends at the struct size *)
Example ex_nested_nil :
  let v := VRec (Some [VScalar 65; VRec None; VScalar 0]) in
  has_type ex_nested v = true /\ contains_nil v = true /\
  snd (marshal ex_nested v zero_mem 0) = true /\ snd (fst (marshal ex_nested v zero_mem 0)) = 40.
Proof. vm_compute. repeat split. Qed.

(* descriptors of ex_nested: total_count of the outer record is 9, of the middle one 6 *)
Example ex_nested_stream :
  emit_param ex_nested =
    ([DRec 3 9; DChar; DRec 3 6; DChar; DDouble; DRec 2 3; DInt; DChar; DFloat], 9).
Proof. reflexivity. Qed.

(* decision logic: satisfiable on both sides *)
Example ex_called :
  ffi_outcome true true [(TInt, VScalar 7); (ex_nested, ex_nested_val)] true true = Called.
Proof. vm_compute. reflexivity. Qed.

Example ex_nil_string_fails :
  ffi_outcome true true [(TString, VStr None); (ex_nested, ex_nested_val)] true true = FfiFail.
Proof. vm_compute. reflexivity. Qed.
