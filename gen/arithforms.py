"""Operand forms and enum-declaration sets for the arithmetic checks (C10, C11).
Unverified glue (DESIGN §8).

1. OPERAND FORMS.  A case is a one-operator tree (gen/arithcases.py: ("B", op, A, B),
   ("U", op, A) or ("C", c, A, B), operands are atoms) and one form per operand:
     lit    the operand is written with literal leaves           (the reducer sees a constant;
            a leaf of kind e is an enumerator `E::k<n>` of a generated enum)
     var    every leaf of the operand sits in a variable         (nothing to reduce)
     call   the operand's value goes through a function that prints a tag: a non-constant
            operand whose evaluation is observable               `ni(<operand no>, <var form>)`
     fault  the operand is replaced by an expression of the same type that raises
            division_by_zero when (and only when) the VM evaluates it   `(10 / zi)`
     same   (right operand only) the text of the left operand repeated: `x - x`
     call0  like call with the tag of operand 0 (the counterpart of `same` after a call: a
            second, separately written evaluation of an equal operand)
   plus, for int-valued trees, the ENUM form: the tree as an enumerator initialiser
   (gen/arithcases.program_enum).  `outcome` of a run = (tags printed, result/exception).
   `reference` computes the expected outcome from the C semantics (arithcases.pyref) and
   Never's evaluation order (operands left to right, && || ?: lazy).

2. ENUM DECLARATION SETS (family `enumdecl`).  Sets of enums mixing plain, valued and
   record-style enumerators, with backward and forward references in the initialisers, also
   across enums; the text for the extracted model (Arith/EnumIndex.v, driver command X), the
   Never program reading every enumerator back next to its initialiser evaluated by the VM on
   variables, and a Python reference of the numbering.
"""
import re

from gen import arithlib as al
from gen import arithcases as ac

FORMS = ("lit", "var", "call", "fault", "same")
NOISY = {"b": "nb", "i": "ni", "l": "nl", "f": "nf", "d": "nd"}
ZERO = {"i": ("zi", "0"), "l": ("zl", "0L"), "f": ("zf", "0.0f"), "d": ("zd", "0.0d")}
FAULT_TEXT = {"i": "(10 / zi)", "l": "(10L / zl)", "f": "(1.0f / zf)", "d": "(1.0d / zd)",
              "b": "((10 / zi) > 1)"}
TAG_RE = re.compile(r"^<\d+>$")


def operands(tree):
    """the operand atoms of a one-operator tree"""
    t = tree
    while t[0] == "P":
        t = t[1]
    if t[0] == "U":
        return [t[2]]
    if t[0] == "B":
        return [t[2], t[3]]
    if t[0] == "C":
        return [t[1], t[2], t[3]]
    raise ValueError("not an operator tree")


def static_kind(t):
    """kind (b i l f d) of a value tree / operator tree, by the promotion order"""
    while t[0] == "P":
        t = t[1]
    if t[0] == "L":
        return "i" if t[1] == "e" else t[1]
    if t[0] == "U":
        return "b" if t[1] == "not" else static_kind(t[2])
    if t[0] == "C":
        return static_kind(t[2])
    if t[1] in ac.CMP or t[1] in ("and", "or"):
        return "b"
    a, b = static_kind(t[2]), static_kind(t[3])
    if a == "b" or b == "b":
        return "b"
    return a if ac.RANK[a] >= ac.RANK[b] else b


def form_program(tree, forms, ret):
    """Never program evaluating `tree` with its operands in the given forms"""
    t = tree
    while t[0] == "P":
        t = t[1]
    ops = operands(t)
    binds, texts, helpers, zeros = [], [], set(), set()
    nvar = [0]
    # enumerator operands (leaf kind e): one enum declaring every enumerator value of the tree
    decl, enames = ac.enum_decl(t)

    def var_text(o):
        ls = ac.leaves(o)
        names = []
        for l in ls:
            names.append("v%d" % nvar[0])
            binds.append("var v%d = %s;" % (nvar[0], ac.lit_text(l, enames)))
            nvar[0] += 1
        return ac.expr_text(o, lambda i, leaf: names[i])

    for i, (o, f) in enumerate(zip(ops, forms)):
        k = static_kind(o)
        if f == "lit":
            texts.append(ac.expr_text(o, lambda j, leaf: ac.lit_text(leaf, enames)))
        elif f == "var":
            texts.append(var_text(o))
        elif f in ("call", "call0"):
            helpers.add(k)
            texts.append("%s(%d, %s)" % (NOISY[k], 0 if f == "call0" else i, var_text(o)))
        elif f == "fault":
            zeros.add("i" if k == "b" else k)
            texts.append(FAULT_TEXT[k])
        elif f == "same":
            texts.append(texts[0])
        else:
            raise ValueError(f)
    if t[0] == "U":
        body = "%s %s" % (ac.UNSYM[t[1]], texts[0])
    elif t[0] == "B":
        body = "%s %s %s" % (texts[0], ac.BINSYM[t[1]], texts[1])
    else:
        body = "%s ? %s : %s" % tuple(texts)
    funcs = "".join("func %s(t : int, v : %s) -> %s { prints(\"<\" + t + \">\\n\"); v }\n"
                    % (NOISY[k], ac.KIND_TY[k], ac.KIND_TY[k]) for k in sorted(helpers))
    zb = " ".join("var %s = %s;" % ZERO[k] for k in sorted(zeros))
    return "%s%sfunc main() -> %s { %s %s %s }" % (decl, funcs, ret, " ".join(binds), zb, body)


def trace_of(rec):
    """the tags a run printed, in order"""
    if rec is None:
        return ()
    return tuple(l for l in rec["lines"] if TAG_RE.match(l))


def reference(tree, forms):
    """expected (tags, outcome): outcome = ('val', kind, v) | ('fault', 'division_by_zero') |
    ('trap',) | ('undef', why)"""
    t = tree
    while t[0] == "P":
        t = t[1]
    ops = operands(t)
    tags = []

    class Stop(Exception):
        pass

    def ev(i):
        f = forms[i]
        if f == "same":
            f, o = forms[0], ops[0]
            i = 0
        else:
            o = ops[i]
        if f == "fault":
            raise ac.Fault("division_by_zero")
        if f in ("call", "call0"):
            tags.append("<%d>" % (0 if f == "call0" else i))
        kind, v = ac.pyref(o)
        if v is None:
            raise ac.Undefined("conversion")
        return ("L", kind, v)

    try:
        if t[0] == "U":
            kind, v = ac.pyref(("U", t[1], ev(0)))
        elif t[0] == "C":
            c = ev(0)
            kind, v = ev(1)[1:] if c[2] else ev(2)[1:]
        elif t[1] in ("and", "or"):
            a = ev(0)
            if (t[1] == "and") != bool(a[2]):
                kind, v = "b", (0 if t[1] == "and" else 1)
            else:
                kind, v = "b", (1 if ev(1)[2] else 0)
        else:
            a = ev(0)
            b = ev(1)
            kind, v = ac.pyref(("B", t[1], a, b))
        if v is None:
            raise ac.Undefined("conversion")
    except ac.Fault as e:
        return tuple(tags), ("fault", str(e))
    except ac.Trap:
        return tuple(tags), ("trap",)
    except ac.Undefined as e:
        return tuple(tags), ("undef", str(e))
    if kind == "f":
        v = al.canon32(v)
    elif kind == "d":
        v = al.canon64(v)
    names = {"i": "int", "l": "long", "f": "float", "d": "double", "b": "int", "e": "int"}
    return tuple(tags), ("val", names[kind], v)


def form_name(forms):
    return "-".join(forms)


def var_version(forms):
    """the counterpart of C10's quantifier: every literal operand in a variable; a repeated
    operand (`x - x`) replaced by a second evaluation of an equal one"""
    out = []
    for i, f in enumerate(forms):
        if f == "lit":
            out.append("var")
        elif f == "same":
            out.append("call0" if out[0] == "call" else out[0])
        else:
            out.append(f)
    return tuple(out)


# literal operands that make an operator an identity / an absorbing element: the values a
# one-sided rewrite rule (x*0 -> 0, x && false -> false, x + 0 -> x ...) would look for
SPECIAL = {"b": [0, 1], "i": [0, 1, -1], "l": [0, 1, -1], "e": [0, 1, -1],
           "f": [0x00000000, 0x3F800000, 0x80000000, 0xBF800000],
           "d": [0x0000000000000000, 0x3FF0000000000000, 0x8000000000000000, 0xBFF0000000000000]}


# ------------------------------------------------------------------ enum declaration sets ---

ENUM_NAMES = ["Ea", "Eb", "Ec", "Ed"]
INIT_INTS = [0, 1, 2, 3, 5, 7, 8, 10, 16, 31, 100, 255, 1000, 65536, 46341, 123456789,
             2147483647, -1, -2, -7, -16, -100, -2147483647, -2147483648]
INT_OPS = ["add", "sub", "mul", "div", "mod", "band", "bor", "bxor", "shl", "shr"]


def item_name(en, pos):
    return "%s::I%d" % (ENUM_NAMES[en], pos)


class EvalError(Exception):
    pass


def ix_refs(t, acc=None):
    acc = [] if acc is None else acc
    if t[0] == "R":
        acc.append((t[1], t[2]))
    elif t[0] != "L":
        for c in t[1:]:
            if isinstance(c, tuple):
                ix_refs(c, acc)
    return acc


def ix_subst(t, env, leaf=lambda v: ("L", "i", v)):
    """references replaced by int leaves"""
    if t[0] == "R":
        return leaf(env[(t[1], t[2])])
    if t[0] == "L":
        return t
    return (t[0],) + tuple(ix_subst(c, env, leaf) if isinstance(c, tuple) else c for c in t[1:])


def ix_subst_except(t, env, keep):
    """references other than `keep` replaced by int leaves holding env[ref]"""
    if t[0] == "R":
        return t if (t[1], t[2]) == keep else ("L", "i", env[(t[1], t[2])])
    if t[0] == "L":
        return t
    return (t[0],) + tuple(ix_subst_except(c, env, keep) if isinstance(c, tuple) else c for c in t[1:])


def eager_check(t):
    """evaluate every subtree (the reducer looks into both branches of ?: and both sides of
    && ||): raises EvalError on a zero divisor, MIN / -1, an out-of-range shift count"""
    if t[0] == "L":
        return
    for c in t[1:]:
        if isinstance(c, tuple):
            eager_check(c)
    if t[0] == "B" and t[1] in ("div", "mod", "shl", "shr"):
        try:
            kb, vb = ac.pyref(t[3])
            ka, va = ac.pyref(t[2])
        except (ac.Fault, ac.Trap, ac.Undefined):
            raise EvalError("nested")
        if t[1] in ("div", "mod") and (vb == 0 or (vb == -1 and va == al.INT_MIN)):
            raise EvalError("division")
        if t[1] in ("shl", "shr") and not 0 <= vb < 32:
            raise EvalError("shift")


def default_body(en, pos):
    return ("L", "i", 0) if pos == 0 else ("B", "add", ("R", en, pos - 1), ("L", "i", 1))


def body_of(es, en, pos):
    it = es[en][pos]
    return it[1] if it[0] == "v" else default_body(en, pos)


def py_indices(es):
    """Python reference of the numbering: dict key -> int; raises EvalError (cyclic, division
    by zero, ...); does NOT check distinctness"""
    memo, busy = {}, set()

    def val(k):
        if k in memo:
            return memo[k]
        if k in busy:
            raise EvalError("cyclic")
        busy.add(k)
        body = body_of(es, *k)
        env = {r: val(r) for r in ix_refs(body)}
        closed = ix_subst(body, env)
        eager_check(closed)
        o = ac.pyref_outcome(closed)
        if o[0] != "val" or o[1] not in ("i", "e"):
            raise EvalError("not an int: %r" % (o,))
        busy.discard(k)
        memo[k] = o[2]
        return o[2]
    for en, items in enumerate(es):
        for pos in range(len(items)):
            val((en, pos))
    return memo


def distinct_per_enum(es, idx):
    for en, items in enumerate(es):
        vs = [idx[(en, pos)] for pos in range(len(items))]
        if len(set(vs)) != len(vs):
            return False
    return True


def gen_init(rng, refs, depth):
    """random int-typed initialiser over the given candidate references"""
    def leaf():
        if refs and rng.random() < 0.6:
            k = rng.choice(refs)
            return ("R", k[0], k[1])
        return ("L", "i", rng.choice(INIT_INTS) if rng.random() < 0.6 else rng.randrange(-40, 40))

    def as_int(t):
        # both branches of ?: must have the same type: a reference (enum typed) is made an int
        return ("P", ("B", "add", t, ("L", "i", 0))) if t[0] == "R" else t

    def cmp_tree():
        return ("P", ("B", rng.choice(["lt", "gt", "lte", "gte"]), leaf(), leaf()))

    def boolean(d):
        r = rng.random()
        if d == 0 or r < 0.55:
            return cmp_tree()
        if r < 0.8:
            return ("P", ("B", rng.choice(["and", "or"]), boolean(d - 1), boolean(d - 1)))
        if r < 0.9:
            return ("P", ("U", "not", boolean(d - 1)))
        return ("P", ("B", rng.choice(["eq", "neq"]), boolean(d - 1), boolean(d - 1)))

    def num(d):
        if d == 0 or rng.random() < 0.2:
            return leaf()
        r = rng.random()
        if r < 0.7:
            op = rng.choice(INT_OPS)
            if op in ("shl", "shr") and rng.random() < 0.7:
                return ("P", ("B", op, num(d - 1), ("L", "i", rng.choice([0, 1, 2, 4, 13, 31]))))
            return ("P", ("B", op, num(d - 1), num(d - 1)))
        if r < 0.85:
            return ("P", ("U", rng.choice(["neg", "bnot"]), num(d - 1)))
        return ("P", ("C", boolean(d - 1), as_int(num(d - 1)), as_int(num(d - 1))))
    t = num(depth)
    return t[1] if t[0] == "P" else t


def gen_enum_set(rng, allow_bad=False):
    """-> list of enums, each a list of items ("p",) | ("r", nfields) | ("v", ixtree).
    Unless allow_bad, the set is acyclic, reducible and has distinct indices per enum
    (by the Python reference)."""
    n_enums = rng.choice([1, 1, 2, 2, 3])
    sizes = [rng.randrange(2, 6 if n_enums < 3 else 5) for _ in range(n_enums)]
    es = []
    for en in range(n_enums):
        items = []
        for pos in range(sizes[en]):
            r = rng.random()
            items.append(("p",) if r < 0.3 else ("r", rng.randrange(1, 3)) if r < 0.58 else ("v", None))
        es.append(items)
    keys = [(en, pos) for en in range(n_enums) for pos in range(sizes[en])]
    valued = [k for k in keys if es[k[0]][k[1]][0] == "v"]
    # start with literal initialisers (distinct, away from the default numbering) ...
    for n, k in enumerate(valued):
        es[k[0]][k[1]] = ("v", ("L", "i", 20 + 10 * n))
    deps = {k: set(ix_refs(body_of(es, *k))) for k in keys}

    def reaches(a, b):
        seen, todo = set(), [a]
        while todo:
            x = todo.pop()
            if x == b:
                return True
            if x not in seen:
                seen.add(x)
                todo.extend(deps[x])
        return False

    # ... then give them, in random order, initialisers with references
    order = valued[:]
    rng.shuffle(order)
    for k in order:
        for attempt in range(12):
            cands = [c for c in keys if c != k and (allow_bad or not reaches(c, k))]
            if allow_bad and rng.random() < 0.3:
                cands.append(k)
            # favour forward references (declared later) and record-style targets
            fw = [c for c in cands if c > k]
            rec = [c for c in fw if es[c[0]][c[1]][0] == "r"]
            pool = cands + fw + 2 * rec
            body = gen_init(rng, pool, rng.choice([1, 1, 2]))
            old, olddeps = es[k[0]][k[1]], deps[k]
            es[k[0]][k[1]] = ("v", body)
            deps[k] = set(ix_refs(body))
            if allow_bad:
                break
            try:
                idx = py_indices(es)
                if distinct_per_enum(es, idx):
                    break
            except EvalError:
                pass
            es[k[0]][k[1]], deps[k] = old, olddeps
    return es


def ix_sx(t):
    if t[0] == "R":
        return "(R %d %d)" % (t[1], t[2])
    if t[0] == "L":
        return "(L %s %s)" % (t[1], ac.hexnum(int(t[2])))
    if t[0] == "U":
        return "(U %s %s)" % (t[1], ix_sx(t[2]))
    if t[0] == "B":
        return "(B %s %s %s)" % (t[1], ix_sx(t[2]), ix_sx(t[3]))
    if t[0] == "P":
        return "(P %s)" % ix_sx(t[1])
    return "(C %s %s %s)" % (ix_sx(t[1]), ix_sx(t[2]), ix_sx(t[3]))


def enum_set_sx(es):
    """text for the model driver (command X)"""
    out = []
    for items in es:
        out.append("(E %s)" % " ".join("p" if it[0] == "p" else "r" if it[0] == "r" else "(v %s)" % ix_sx(it[1])
                                         for it in items))
    return "(D %s)" % " ".join(out)


def ix_text(t, ref_text, lit_text):
    """source text of an initialiser; ref_text(key), lit_text(occurrence no, value)"""
    counter = [0]

    def go(t):
        if t[0] == "R":
            return ref_text((t[1], t[2]))
        if t[0] == "L":
            if t[1] == "b":
                return "true" if t[2] else "false"
            i = counter[0]
            counter[0] += 1
            return lit_text(i, t[2])
        if t[0] == "U":
            return "%s %s" % (ac.UNSYM[t[1]], go(t[2]))
        if t[0] == "B":
            a = go(t[2])
            return "%s %s %s" % (a, ac.BINSYM[t[1]], go(t[3]))
        if t[0] == "P":
            return "(%s)" % go(t[1])
        c = go(t[1])
        a = go(t[2])
        return "%s ? %s : %s" % (c, a, go(t[3]))
    return go(t)


def enum_decl_text(es):
    out = []
    for en, items in enumerate(es):
        parts = []
        for pos, it in enumerate(items):
            name = "I%d" % pos
            if it[0] == "p":
                parts.append(name)
            elif it[0] == "r":
                parts.append("%s { %s }" % (name, " ".join("f%d : int;" % j for j in range(it[1]))))
            else:
                parts.append("%s = %s" % (name, ix_text(it[1], lambda k: item_name(*k),
                                                        lambda i, v: al.lit_int(v))))
        out.append("enum %s { %s }" % (ENUM_NAMES[en], ", ".join(parts)))
    return "\n".join(out)


def enum_set_program(es):
    """every enumerator read back three ways, one line `K <enum> <pos> <read> <folded> <vm>`:
       read    the enumerator held in a variable, converted to int at run time
       folded  `E::I + 0` written with the enumerator itself (reduced by the compiler);
               `-` for a record-style enumerator (it has to be constructed)
       vm      the enumerator's initialiser (explicit, or previous + 1, or 0) evaluated by the
               VM: references = the int variables of column `read`, literals in variables"""
    lines = ["var zero = 0;"]
    for en, items in enumerate(es):
        for pos, it in enumerate(items):
            n = item_name(en, pos)
            if it[0] == "r":
                lines.append("var r%d_%d = %s(%s);" % (en, pos, n, ", ".join("0" for _ in range(it[1]))))
            else:
                lines.append("var r%d_%d = %s;" % (en, pos, n))
            lines.append("var i%d_%d = r%d_%d + zero;" % (en, pos, en, pos))
    for en, items in enumerate(es):
        for pos, it in enumerate(items):
            body = body_of(es, en, pos)
            lits = []

            def lit_text(i, v, lits=lits, en=en, pos=pos):
                lits.append("var c%d_%d_%d = %s;" % (en, pos, i, al.lit_int(v)))
                return "c%d_%d_%d" % (en, pos, i)
            rhs = ix_text(body, lambda k: "i%d_%d" % k, lit_text)
            lines.extend(lits)
            folded = "\"-\"" if it[0] == "r" else "(%s + 0)" % item_name(en, pos)
            lines.append("prints(\"K %d %d \" + i%d_%d + \" \" + %s + \" \" + (%s) + \"\\n\");"
                         % (en, pos, en, pos, folded, rhs))
    return "%s\nfunc main() -> int {\n  %s\n  0\n}" % (enum_decl_text(es), "\n  ".join(lines))


KLINE_RE = re.compile(r"^K (\d+) (\d+) (-?\d+) (-|-?\d+) (-?\d+)$")


def parse_enum_run(rec):
    """-> dict key -> (read, folded|None, vm)"""
    out = {}
    for l in (rec["lines"] if rec else []):
        m = KLINE_RE.match(l)
        if m:
            out[(int(m.group(1)), int(m.group(2)))] = (
                int(m.group(3)), None if m.group(4) == "-" else int(m.group(4)), int(m.group(5)))
    return out


def parse_model_idx(line):
    """driver output of command X -> ('ok', [[..],..]) | ('bad', en, pos, why) | ('dup', en, pos, z)"""
    m = re.match(r"^\S+ IDX=(\S+)(?: (.*))?$", line or "")
    if not m:
        return None
    if m.group(1) == "OK":
        body = m.group(2) or ""
        return ("ok", [[int(x, 16) for x in part.split(",") if x] for part in body.split(";")])
    p = (m.group(2) or "").split()
    if m.group(1) == "BAD":
        return ("bad", int(p[0]), int(p[1]), p[2])
    return ("dup", int(p[0]), int(p[1]), int(p[2], 16))


def ref_class(es, k, r):
    """how the enumerator k refers to r: direction and kind of the target"""
    kind = {"p": "plain", "v": "valued", "r": "record"}[es[r[0]][r[1]][0]]
    if r[0] != k[0]:
        where = "other-enum-" + ("forward" if r[0] > k[0] else "backward")
    else:
        where = "forward" if r[1] > k[1] else "backward" if r[1] < k[1] else "self"
    return "%s-%s" % (where, kind)


def root_op(t):
    while t[0] == "P":
        t = t[1]
    return {"L": "lit", "R": "ref", "C": "cond"}.get(t[0]) or t[1]


def ops_of(t, acc=None):
    acc = [] if acc is None else acc
    if t[0] in ("U", "B"):
        acc.append(t[1])
    elif t[0] == "C":
        acc.append("cond")
    if t[0] not in ("L", "R"):
        for c in t[1:]:
            if isinstance(c, tuple):
                ops_of(c, acc)
    return acc


# ------------------------------------------------------------------ array forms -------------
# The operators that exist on arrays (front/typecheck.c expr_neg_check_type,
# expr_add_sub_check_type, expr_mul_check_type; back/vmexec.c vm_execute_op_*_arr_<type>):
#   neg     - a                 every element negated                    (1-D, 2-D)
#   add     a + b               element-wise, same element type and dimensions
#   sub     a - b
#   smul    s * a               scalar (int/long/float/double, converted to the ELEMENT type as
#                               by an assignment) times every element
#   matmul  a * b               2-D x 2-D matrix product: sum = 0; sum += a[i,k] * b[k,j]
# for the element types int, long, float, double.  Metamorphic oracle: every element of the
# result equals the SCALAR operators applied to the elements; expected value per element also
# from the Coq model (rt_eval on the element tree) and pyref.

ARR_OPS = ["neg", "add", "sub", "smul", "matmul"]
ARR_KINDS = ["i", "l", "f", "d"]
ARR_SHAPES = {"neg": [(1,), (3,), (2, 2), (1, 3)], "add": [(1,), (3,), (2, 2), (2, 3)],
              "sub": [(1,), (3,), (2, 2), (3, 1)], "smul": [(1,), (3,), (2, 2), (1, 3)],
              "matmul": [((2, 2), (2, 2)), ((1, 3), (3, 1)), ((2, 3), (3, 2)), ((3, 1), (1, 2))]}
ARR_FORMS = ["lit", "var", "computed"]


def _f(x):
    return al.bits_of_f32(x)


def _d(x):
    return al.bits_of_f64(x)


# operand pairs at the precision boundaries of each element type: 2^24 +- 1 (float), 2^53 +- 1
# (double), more than 24 significant bits in a double, 2^31 / 2^63 wrap-around for the integers
ARR_PAIRS = {
    "i": [(al.INT_MAX, 1), (al.INT_MIN, -1), (2 ** 30, 2 ** 30), (46341, 46341), (65536, 65536),
          (-2147483647, 2), (123456789, -1000)],
    "l": [(al.LONG_MAX, 1), (al.LONG_MIN, -1), (2 ** 31, 2 ** 31), (2 ** 62, 2 ** 62), (3037000500, 3037000500),
          (2 ** 32 + 1, 2 ** 32 - 1), (5000000000, -3)],
    "f": [(_f(16777216.0), _f(1.0)), (_f(16777215.0), _f(1.0)), (_f(16777216.0), _f(3.0)), (_f(16777215.0), _f(0.5)),
          (_f(0.1), _f(0.2)), (_f(4097.0), _f(4097.0)), (0x7F7FFFFF, 0x7F7FFFFF), (0x00000001, _f(0.5)),
          (_f(-16777216.0), _f(-1.0)), (0x80000000, 0x00000000)],
    "d": [(_d(16777216.0), _d(1.0)), (_d(9007199254740992.0), _d(1.0)), (_d(9007199254740991.0), _d(1.0)),
          (_d(9007199254740993.0), _d(2.0)), (_d(0.1), _d(0.2)), (_d(1234567890.25), _d(0.5)),
          (_d(94906267.0), _d(94906267.0)), (_d(16777217.0), _d(16777217.0)), (_d(9007199254740.0), _d(0.5)),
          (0x7FEFFFFFFFFFFFFF, 0x7FEFFFFFFFFFFFFF), (0x0000000000000001, _d(0.5)),
          (_d(-9007199254740992.0), _d(-1.0)), (0x8000000000000000, 0x0000000000000000)],
}
ARR_SCALARS = {"i": [3, -1, al.INT_MAX, 46341], "l": [3, 5000000000, -(2 ** 31) - 1, al.LONG_MAX],
               "f": [_f(1.5), _f(16777216.0), _f(-0.5), _f(3.75)],
               "d": [_d(1.5), _d(16777217.0), _d(-0.1), _d(3000000000.5)]}
KIND_ZERO = {"i": "0", "l": "0L", "f": "0.0f", "d": "0.0d"}
KIND_ONE = {"i": "1", "l": "1L", "f": "1.0f", "d": "1.0d"}


def _finite(kind, v):
    return kind in "il" or (al.is_finite32(v) if kind == "f" else al.is_finite64(v))


def arr_value(rng, kind):
    while True:
        v = ac.pick_value(rng, kind, 0.5)
        if _finite(kind, v):
            return v


def gen_arr_case(rng, op, kind, shape, form, n):
    """one array-form case; n = running number (selects the boundary pair)"""
    pair = ARR_PAIRS[kind][n % len(ARR_PAIRS[kind])]
    case = {"op": op, "kind": kind, "shape": shape, "form": form}
    if op == "matmul":
        (m, k), (k2, p) = shape
        a = [arr_value(rng, kind) for _ in range(m * k)]
        b = [arr_value(rng, kind) for _ in range(k * p)]
        # the boundary pair meets in the first product of element (0, 0); small partners elsewhere
        a[0], b[0] = pair
        if rng.random() < 0.5:
            small = {"i": [1, -1, 2], "l": [1, -1, 2], "f": [_f(1.0), _f(-1.0), _f(0.5)], "d": [_d(1.0), _d(-1.0), _d(0.5)]}[kind]
            a[1:] = [rng.choice(small) for _ in a[1:]]
        case.update({"a": a, "b": b, "dims_a": (m, k), "dims_b": (k, p), "dims_r": (m, p)})
        return case
    dims = shape
    cnt = 1
    for x in dims:
        cnt *= x
    a = [arr_value(rng, kind) for _ in range(cnt)]
    a[0] = pair[0]
    case.update({"a": a, "dims_a": dims, "dims_r": dims})
    if op in ("add", "sub"):
        b = [arr_value(rng, kind) for _ in range(cnt)]
        b[0] = pair[1]
        if cnt > 1:
            other = ARR_PAIRS[kind][(n + 3) % len(ARR_PAIRS[kind])]
            a[cnt - 1], b[cnt - 1] = other
        case.update({"b": b, "dims_b": dims})
    if op == "smul":
        ks = ARR_KINDS[n % 4]
        s = ARR_SCALARS[ks][(n // 4) % len(ARR_SCALARS[ks])]
        if ks == kind and n % 3 == 0:
            s = pair[1]
        case.update({"ks": ks, "s": s})
    return case


def shape_name(case):
    if case["op"] == "matmul":
        return "%dx%d*%dx%d" % (case["dims_a"] + case["dims_b"])
    return "x".join(str(x) for x in case["dims_a"])


def shape_class(case):
    return "matrix-product" if case["op"] == "matmul" else "%d-D" % len(case["dims_a"])


def _elem_text(kind, v):
    return ac.expr_text(ac.value_tree(kind, v), lambda i, leaf: ac.lit_text(leaf, {}))


def _arr_text(kind, vals, dims, elem):
    """array literal over the element texts elem(n)"""
    if len(dims) == 1:
        body = "[ %s ]" % ", ".join(elem(n) for n in range(dims[0]))
    else:
        rows = []
        for i in range(dims[0]):
            rows.append("[ %s ]" % ", ".join(elem(i * dims[1] + j) for j in range(dims[1])))
        body = "[ %s ]" % ", ".join(rows)
    return "%s : %s" % (body, ac.KIND_TY[kind])


def _index_text(name, dims, n):
    if len(dims) == 1:
        return "%s[%d]" % (name, n)
    return "%s[%d, %d]" % (name, n // dims[1], n % dims[1])


def arr_programs(case, n):
    """(array-form program, scalar program): both return element n of the result; the scalar one
    computes it with the scalar operators on the elements of the same arrays"""
    kind, form, op = case["kind"], case["form"], case["op"]
    ty = ac.KIND_TY[kind]
    lines = []

    def build(name, vals, dims):
        if form == "lit":
            lines.append("let %s = %s;" % (name, _arr_text(kind, vals, dims, lambda m: _elem_text(kind, vals[m]))))
        elif form == "var":
            for m, v in enumerate(vals):
                lines.append("var %s_%d = %s;" % (name, m, _elem_text(kind, v)))
            lines.append("let %s = %s;" % (name, _arr_text(kind, vals, dims, lambda m: "%s_%d" % (name, m))))
        else:       # computed: the array comes out of another array operation (1 * literal array)
            lines.append("let %s = one * %s;" % (name, _arr_text(kind, vals, dims, lambda m: _elem_text(kind, vals[m]))))
    if form == "computed":
        lines.append("var one = %s;" % KIND_ONE[kind])
    build("a", case["a"], case["dims_a"])
    if "b" in case:
        build("b", case["b"], case["dims_b"])
    if op == "smul":
        stext = _elem_text(case["ks"], case["s"])
        if form == "lit":
            arr_expr = "%s * a" % stext
        else:
            lines.append("var s = %s;" % stext)
            arr_expr = "s * a"
        lines_s = ["var c = %s;" % KIND_ZERO[kind], "c = %s;" % (stext if form == "lit" else "s")]
        sc_expr = "c * %s" % _index_text("a", case["dims_a"], n)
    elif op == "neg":
        arr_expr, lines_s = "- a", []
        sc_expr = "- %s" % _index_text("a", case["dims_a"], n)
    elif op in ("add", "sub"):
        sym = ac.BINSYM[op]
        arr_expr, lines_s = "a %s b" % sym, []
        sc_expr = "%s %s %s" % (_index_text("a", case["dims_a"], n), sym, _index_text("b", case["dims_b"], n))
    else:
        (m, k), (_, p) = case["dims_a"], case["dims_b"]
        i, j = n // p, n % p
        arr_expr = "a * b"
        lines_s = ["var z = %s;" % KIND_ZERO[kind]]
        sc_expr = "z"
        for q in range(k):
            sc_expr = "(%s + a[%d, %d] * b[%d, %d])" % (sc_expr, i, q, q, j)
    head = "\n  ".join(lines)
    pa = "func main() -> %s {\n  %s\n  let r = %s;\n  %s\n}" % (ty, head, arr_expr, _index_text("r", case["dims_r"], n))
    ps = "func main() -> %s {\n  %s\n  %s\n  %s\n}" % (ty, head, "\n  ".join(lines_s), sc_expr)
    return pa, ps


def arr_elem_tree(case, n):
    """the element computation as an expression tree over leaves of the element kind (for the
    extracted model and pyref); None if the scalar conversion of s * a is undefined in C"""
    kind, op = case["kind"], case["op"]
    L = lambda v: ac.atom(ac.value_tree(kind, v))
    if op == "neg":
        return ("U", "neg", L(case["a"][n]))
    if op in ("add", "sub"):
        return ("B", op, L(case["a"][n]), L(case["b"][n]))
    if op == "smul":
        c = ac.convert(case["ks"], kind, case["s"])
        if c is None:
            return None
        return ("B", "mul", L(c), L(case["a"][n]))
    (m, k), (_, p) = case["dims_a"], case["dims_b"]
    i, j = n // p, n % p
    t = ("L", kind, 0)
    for q in range(k):
        t = ("P", ("B", "add", t, ("P", ("B", "mul", L(case["a"][i * k + q]), L(case["b"][q * p + j])))))
    return t[1]


def arr_result_count(case):
    cnt = 1
    for x in case["dims_r"]:
        cnt *= x
    return cnt


# ------------------------------------------------------------------ string operands ----------
# String-valued and string-consuming operations (front/constred.c folds string + string; the
# others are evaluated by the VM whatever the operand form, which is exactly what the
# literal-vs-variable comparison has to confirm): s + s, s + s + s, s + char, char + s,
# s + number, number + s, s == s, s != s, length(s), s[i].

STR_VALUES = ["", "a", "abc", " ", "x" * 300, "he said \"hi\"", "tab\there\nnew line", "back\\slash \\n",
              "\"", "ends with quote\"", "0", "  padded  ", "".join(chr(33 + (i % 90)) for i in range(400)).replace("\\", "/").replace("\"", "'")]
CHAR_VALUES = ["a", "Z", "0", " ", "~"]
STR_OPS = {"cat": ("s", "s"), "cat3": ("s", "s", "s"), "cat_sc": ("s", "c"), "cat_cs": ("c", "s"),
           "cat_sn": ("s", "n"), "cat_ns": ("n", "s"), "eq": ("s", "s"), "neq": ("s", "s"),
           "length": ("s",), "index": ("s", "x")}


def nev_string(s):
    out = []
    for ch in s:
        out.append({"\\": "\\\\", "\"": "\\\"", "\n": "\\n", "\t": "\\t"}.get(ch, ch))
    return "\"%s\"" % "".join(out)


def gen_string_cases(rng, reps):
    """-> list of {op, operands: [(role, value[, kind])]}; the empty string first in every cell"""
    cases = []
    for op, roles in STR_OPS.items():
        for r in range(reps):
            ops = []
            for pos, role in enumerate(roles):
                if role == "s":
                    if r < len(roles) and pos == r:
                        v = ""                       # the empty string in every position in turn
                    elif r == len(roles):
                        v = ""                       # ... and everywhere at once
                    else:
                        v = rng.choice(STR_VALUES)
                    ops.append(("s", v))
                elif role == "c":
                    ops.append(("c", rng.choice(CHAR_VALUES)))
                elif role == "n":
                    kind = ARR_KINDS[(r + pos) % 4]
                    ops.append(("n", ac.pick_value(rng, kind, 0.5), kind))
                else:
                    s = ops[0][1]
                    ops.append(("x", rng.choice([0, max(0, len(s) - 1), len(s) // 2, len(s), -1]) if rng.random() < 0.8
                                else rng.randrange(-2, len(s) + 2)))
            if op in ("eq", "neq") and r % 3 == 1:
                ops[1] = ops[0]
            cases.append({"op": op, "operands": ops})
    return cases


def string_operand_kinds(case):
    names = {"s": "string", "c": "char", "x": "int"}
    return ",".join(names[o[0]] if o[0] != "n" else ac.KIND_TY[o[2]] for o in case["operands"])


def string_program(case, forms):
    """main prints `[<result>]`; operand i literal (forms[i] == 'lit') or held in a variable"""
    binds, texts = [], []
    for i, (o, f) in enumerate(zip(case["operands"], forms)):
        if o[0] == "s":
            lit = nev_string(o[1])
        elif o[0] == "c":
            lit = "'%s'" % o[1]
        elif o[0] == "x":
            lit = al.lit_int(o[1])
        else:
            lit = ac.expr_text(ac.value_tree(o[2], o[1]), lambda j, leaf: ac.lit_text(leaf, {}))
        if f == "lit":
            texts.append(lit)
        else:
            binds.append("var v%d = %s;" % (i, lit))
            texts.append("v%d" % i)
    op = case["op"]
    if op in ("cat", "cat_sc", "cat_cs", "cat_sn", "cat_ns"):
        body, ret = "prints(\"[\" + (%s + %s) + \"]\\n\"); 0" % tuple(texts), "int"
    elif op == "cat3":
        body = "prints(\"[\" + (%s + %s + %s) + \"]\\n\"); 0" % tuple(texts)
    elif op in ("eq", "neq"):
        body = "(%s %s %s) ? 1 : 0" % (texts[0], "==" if op == "eq" else "!=", texts[1])
    elif op == "length":
        body = "length(%s)" % texts[0]
    else:
        body = "let c = %s[%s]; prints(\"[\" + c + \"]\\n\"); 0" % tuple(texts)
    return "func main() -> int { %s %s }" % (" ".join(binds), body)


def string_outcome(rec):
    """whole observable outcome of a run: (everything printed, result / exception)"""
    if rec is None:
        return ("", ("crash", "driver-lost"))
    o = al.classify_run(rec)
    # what the program itself printed (diagnostics carry line numbers, which depend on the
    # newlines inside string literals: they are represented by the outcome class)
    txt = al.program_text(rec).replace("-nan", "nan") if o[0] in ("val", "fault") else ""
    if o[0] == "crash":
        o = ("crash", "assert" if o[1].startswith("assert") else o[1])
    return (txt, o)


def string_reference(case):
    """expected (text, outcome) for the cases the Python reference covers, else None"""
    op, ops = case["op"], case["operands"]

    def txt(o):
        if o[0] in ("s", "c"):
            return o[1]
        kind, v = o[2], o[1]
        return str(v) if kind in "il" else ac.fmt_fixed2(kind, v)
    if op.startswith("cat"):
        return ("[%s]" % "".join(txt(o) for o in ops), ("val", "int", 0))
    if op in ("eq", "neq"):
        return ("", ("val", "int", int((ops[0][1] == ops[1][1]) == (op == "eq"))))
    if op == "length":
        return ("", ("val", "int", len(ops[0][1])))
    s, i = ops[0][1], ops[1][1]
    if 0 <= i < len(s):
        return ("[%s]" % s[i], ("val", "int", 0))
    return None
