(* C07 (addition) — direct calls pass exactly the callee's number of arguments, on every path.
   Statement only.  The checker clause is Verify.direct_arity_ok (part of check_all, run on every
   compiled module by harness/ocaml/verifier/vrun.ml, which is extracted from it). *)
From Coq Require Import List Arith Bool.
From NV Require Import Gen.Opcodes Verifier.Shape Verifier.Effect Verifier.Verify Verifier.VerifyInv
     Verifier.VerifySound Verifier.DirectCall Verifier.UnwindExample.
Import ListNotations.

Theorem direct_call_arity :
  forall prog exct metas entry certs,
    check_all prog exct metas entry certs = true ->
    forall obs s g,
      run (code prog) (handler exct) (np metas) (is_entry metas) entry init obs = Next s ->
      code prog (ip s) = Some ACall -> 1 <= ip s ->
      code prog (ip s - 1) = Some (AMkFunc g) ->
      length (stk s) - 1 - F s = np metas g.
Proof. exact DirectCall.direct_call_arity. Qed.
Print Assumptions direct_call_arity.

(* not vacuous: the example module is accepted and has a direct call (address 17: CALL after
   ID_FUNC_ADDR 22 at address 16) that a run reaches with one argument slot for the 1-parameter g *)
Example ex_direct_call :
  check_all ex_prog ex_exct ex_metas ex_entry ex_certs = true /\
  code ex_prog 17 = Some ACall /\ code ex_prog 16 = Some (AMkFunc 22) /\ np ex_metas 22 = 1 /\
  exists s,
    run (code ex_prog) (handler ex_exct) (np ex_metas) (is_entry ex_metas) ex_entry init (firstn 13 obsB) = Next s /\
    ip s = 17 /\ length (stk s) - 1 - F s = 1.
Proof.
  split; [exact UnwindExample.ex_checked|]. split; [reflexivity|]. split; [reflexivity|]. split; [reflexivity|].
  eexists. split; [vm_compute; reflexivity|]. split; reflexivity.
Qed.
