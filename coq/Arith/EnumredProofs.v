(* Arith/EnumredProofs.v — front/enumred.c against the run-time evaluation, through
   Constred.fold: on trees over int and bool literals (no ?:, no == !=, no conversion) the two
   reducers compute the same thing unless enumred.c traps on INT_MIN / -1; hence
   fold_agrees_with_runtime carries over.  ?: (reduced again by enumred.c), == != on ints (no
   arm in enumred.c) and enumerator references are tied by the correspondence runs only. *)
From Coq Require Import ZArith Bool List Lia.
From NV Require Import Arith.NumTy Arith.Bits Arith.IntOps Arith.IntOpsProofs Arith.VMOps
  Arith.Promote Arith.RtEval Arith.Constred Arith.ConstredProofs Arith.Enumred.
Local Open Scope Z_scope.

Local Opaque iadd isub imul ineg idiv imod iand ior ixor ibnot ishl ishr cdiv cmod.

Definition lit_int_only (l : lit) : bool :=
  match l with LInt _ | LBool _ => true | _ => false end.

Definition lres_int_only (r : lres) : bool :=
  match r with LR l => lit_int_only l | _ => true end.

Lemma ered_bin_vs_red_bin : forall o la lb,
  lit_int_only la = true -> lit_int_only lb = true ->
  match o with OEq | ONe => false | _ => true end = true ->
  (ered_bin o la lb = LSig \/ ered_bin o la lb = red_bin o la lb) /\
  ered_bin o la lb <> LSig /\
  lres_int_only (red_bin o la lb) = true.
Proof.
  intros o la lb Ha Hb Ho.
  destruct la; try discriminate; destruct lb; try discriminate;
    destruct o; try discriminate; cbn;
    try (split; [right; reflexivity | split; [discriminate | reflexivity]]).
  - pose proof (idiv_not_sigfpe 32 z z0) as NS.
    split; [right; reflexivity|]. destruct (idiv 32 z z0); cbn; split; try discriminate; try reflexivity.
    exfalso; apply NS; reflexivity.
  - pose proof (imod_not_sigfpe 32 z z0) as NS.
    split; [right; reflexivity|]. destruct (imod 32 z z0); cbn; split; try discriminate; try reflexivity.
    exfalso; apply NS; reflexivity.
Qed.

Lemma ered_un_vs_red_un : forall o la, lit_int_only la = true ->
  ered_un o la = red_un o la /\ lres_int_only (red_un o la) = true.
Proof. intros o la Ha. destruct la; try discriminate; destruct o; cbn; split; reflexivity. Qed.

Definition same_or_crash (e : expr) : Prop :=
  efold e = FCrash \/
  (efold e = fold e /\ forall e', fold e = FOk e' -> int_only e' = true).

Lemma of_lres_int_only : forall r keep e',
  lres_int_only r = true -> int_only keep = true -> of_lres r keep = FOk e' -> int_only e' = true.
Proof.
  intros r keep e' Hr Hk H. destruct r as [l| | |]; cbn in H; try discriminate;
    inversion H; subst; [|assumption]. destruct l; try discriminate; reflexivity.
Qed.

Theorem efold_vs_fold : forall e, int_only e = true -> same_or_crash e.
Proof.
  induction e as [l | o a IHa | o a IHa b IHb | c a IHa | a IHa | c IHc a IHa b IHb];
    intro H; cbn [int_only] in H; try discriminate; unfold same_or_crash in *.
  - right. destruct l; try discriminate; cbn; (split; [reflexivity|]);
      intros e' E; inversion E; reflexivity.
  - destruct (IHa H) as [C|[E I]]; [left; cbn [efold]; rewrite C; reflexivity|].
    cbn [efold fold]. rewrite E. destruct (fold a) as [a'| |];
      [|right; split; [reflexivity | discriminate] | left; reflexivity].
    specialize (I a' eq_refl). unfold enode_un, node_un.
    destruct a' as [la| | | | |]; try (right; split; [reflexivity|]; intros e' E'; inversion E'; exact I).
    assert (La : lit_int_only la = true) by (destruct la; try discriminate; reflexivity).
    destruct (ered_un_vs_red_un o la La) as [Eq Io]. rewrite Eq.
    right. split; [reflexivity|]. intros e' E'. eapply of_lres_int_only; [exact Io | | exact E'].
    cbn [int_only]. exact I.
  - apply andb_true_iff in H. destruct H as [H Ho]. apply andb_true_iff in H. destruct H as [Ha Hb].
    apply negb_true_iff in Ho.
    cbn [efold fold].
    destruct (IHa Ha) as [Ca|[Ea Ia]].
    { left. rewrite Ca. reflexivity. }
    destruct (IHb Hb) as [Cb|[Eb Ib]].
    { left. rewrite Cb. destruct (efold a); reflexivity. }
    rewrite Ea, Eb.
    destruct (fold a) as [a'| |]; destruct (fold b) as [b'| |]; cbn [fseq];
      try (right; split; [reflexivity | discriminate]); try (left; reflexivity).
    specialize (Ia a' eq_refl). specialize (Ib b' eq_refl).
    assert (K : int_only (EBin o a' b') = true).
    { cbn [int_only]. rewrite Ia, Ib, Ho. reflexivity. }
    unfold enode_bin, node_bin.
    destruct a' as [la| | | | |];
      try (right; split; [reflexivity|]; intros e' E'; inversion E'; exact K).
    destruct b' as [lb| | | | |];
      try (right; split; [reflexivity|]; intros e' E'; inversion E'; exact K).
    assert (La : lit_int_only la = true) by (destruct la; try discriminate; reflexivity).
    assert (Lb : lit_int_only lb = true) by (destruct lb; try discriminate; reflexivity).
    assert (Oo : match o with OEq | ONe => false | _ => true end = true)
      by (destruct o; try reflexivity; discriminate).
    destruct (ered_bin_vs_red_bin o la lb La Lb Oo) as ([S|Eq] & _ & Io).
    + left. rewrite S. reflexivity.
    + rewrite Eq. right. split; [reflexivity|]. intros e' E'.
      eapply of_lres_int_only; [exact Io | exact K | exact E'].
  - destruct (IHa H) as [C|[E I]]; [left; cbn [efold]; rewrite C; reflexivity|].
    cbn [efold fold]. rewrite E. destruct (fold a) as [a'| |];
      [|right; split; [reflexivity | discriminate] | left; reflexivity].
    specialize (I a' eq_refl). unfold enode_sup, node_sup.
    destruct a' as [la| | | | |]; try (right; split; [reflexivity|]; intros e' E'; inversion E'; exact I).
    destruct la; try discriminate; right; (split; [reflexivity|]); intros e' E'; inversion E'; reflexivity.
Qed.

(* an enumerator initialiser of the fragment that enumred.c reduces computes, at run time
   with its operands in variables, exactly the reduced value *)
Theorem enumred_agrees_with_runtime_partial : forall e t e',
  ty_of e = Some t -> int_only e = true ->
  efold e = FOk e' -> ty_of e' = Some t /\ rt_eval e' = rt_eval e.
Proof.
  intros e t e' Hty Hi Hf.
  destruct (efold_vs_fold e Hi) as [C|[E _]]; [rewrite C in Hf; discriminate|].
  rewrite E in Hf. exact (fold_agrees_with_runtime e t e' Hty Hf).
Qed.

Theorem enum_index_is_runtime_value : forall e z,
  ty_of e = Some TInt -> int_only e = true ->
  enum_index e = Some z -> rt_eval e = Val (VInt z).
Proof.
  intros e z Hty Hi H. unfold enum_index in H.
  destruct (efold e) as [e'| |] eqn:F; try discriminate.
  destruct e' as [l| | | | |]; try discriminate. destruct l; try discriminate.
  inversion H; subst.
  destruct (enumred_agrees_with_runtime_partial e TInt _ Hty Hi F) as [_ R].
  rewrite <- R. reflexivity.
Qed.

(* enumred.c never traps, on any tree (after the fix of expr_div_enumred / expr_mod_enumred) *)
Lemma ered_bin_no_sig : forall o la lb, ered_bin o la lb <> LSig.
Proof.
  intros o la lb. destruct la, lb; cbn; try discriminate; destruct o; cbn; try discriminate.
  - pose proof (idiv_not_sigfpe 32 z z0) as NS. destruct (idiv 32 z z0); cbn; try discriminate.
    intros _. apply NS. reflexivity.
  - pose proof (imod_not_sigfpe 32 z z0) as NS. destruct (imod 32 z z0); cbn; try discriminate.
    intros _. apply NS. reflexivity.
Qed.

Lemma enode_sup_no_crash : forall a, enode_sup a <> FCrash.
Proof. intros a. unfold enode_sup. destruct a; try discriminate. destruct l; discriminate. Qed.

Theorem efold_never_crashes : forall e, efold e <> FCrash.
Proof.
  induction e as [l | o a IHa | o a IHa b IHb | c a IHa | a IHa | c IHc a IHa b IHb]; cbn [efold].
  - destruct l; discriminate.
  - destruct (efold a) as [a'| |]; [|discriminate | exact IHa].
    unfold enode_un. destruct a'; try discriminate. destruct o, l; cbn; discriminate.
  - destruct (efold a) as [a'| |]; [| | contradiction];
      (destruct (efold b) as [b'| |]; [| | contradiction]); cbn [fseq]; try discriminate.
    unfold enode_bin. destruct a' as [la| | | | |]; try discriminate.
    destruct b' as [lb| | | | |]; try discriminate.
    pose proof (ered_bin_no_sig o la lb) as NS.
    destruct (ered_bin o la lb); cbn; try discriminate. intros _. apply NS. reflexivity.
  - discriminate.
  - destruct (efold a) as [a'| |]; [|discriminate | exact IHa]. apply enode_sup_no_crash.
  - destruct (efold c) as [c'| |]; [| | contradiction];
      (destruct (efold a) as [a'| |]; [| | contradiction]);
      (destruct (efold b) as [b'| |]; [| | contradiction]);
      cbn [fseq3 is_crash orb]; try discriminate.
    unfold enode_cond. destruct c'; try discriminate. destruct l; try discriminate.
    destruct b0; apply enode_sup_no_crash.
Qed.

(* the conditional is reduced completely by enumred.c (regression witness of the shape used by
   seeded mutant C10-3: equal operands under <=) *)
Theorem enumred_lte_equal_operands :
  enum_index (ECond (ESup (EBin OLe (ELit (LEnum 8)) (ELit (LInt 8)))) (ELit (LInt 10)) (ELit (LInt 11)))
  = Some 10.
Proof. vm_compute. reflexivity. Qed.

(* neither reducer traps any more, so on the common fragment they are the same function *)
Corollary efold_is_fold : forall e, int_only e = true -> efold e = fold e.
Proof.
  intros e H. destruct (efold_vs_fold e H) as [C|[E _]]; [|exact E].
  exfalso. exact (efold_never_crashes e C).
Qed.
