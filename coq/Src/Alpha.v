(* Lexical scoping on the reference evaluator (C08), part 1: invariance of the observable
   outcome of a program under every injective renaming of identifiers.  No axioms. *)
From Coq Require Import ZArith NArith List Bool Lia.
From NV Require Import Src.Syntax Src.Eval Src.EvalLemmas.
Import ListNotations.

(* ---- what an embedder can observe of a run ----------------------------------------- *)

Inductive obs :=
| ObsInt (z : Z) (printed : list Z)
| ObsBool (b : bool) (printed : list Z)
| ObsOther (printed : list Z)          (* a function / array / record value: identity not observable *)
| ObsExn (e : exn) (printed : list Z)
| ObsFuel
| ObsStuck.

Definition observe (o : outcome) : obs :=
  match o with
  | OResult (CInt z) out => ObsInt z out
  | OResult (CBool b) out => ObsBool b out
  | OResult _ out => ObsOther out
  | OUnhandled e out => ObsExn e out
  | OFuel => ObsFuel
  | OStuck => ObsStuck
  end.

(* ---- renaming ---------------------------------------------------------------------- *)

Section RenameDefs.
Variable rho : ident -> ident.

Definition rename_param (p : ident * bool * ty) : ident * bool * ty :=
  let '(x, b, t) := p in (rho x, b, t).

(* rho applied to every identifier occurrence: binders, uses, function names, parameters.
   Record names and field positions are left alone. *)
Fixpoint rename_expr (x : expr) : expr :=
  match x with
  | EInt z => EInt z
  | EBool b => EBool b
  | EVar v => EVar (rho v)
  | ENeg a => ENeg (rename_expr a)
  | ENot a => ENot (rename_expr a)
  | EBNot a => EBNot (rename_expr a)
  | EBin op a b => EBin op (rename_expr a) (rename_expr b)
  | ECond c a b => ECond (rename_expr c) (rename_expr a) (rename_expr b)
  | EIf c a => EIf (rename_expr c) (rename_expr a)
  | EAssign l r => EAssign (rename_expr l) (rename_expr r)
  | ECall f args => ECall (rename_expr f) (map rename_expr args)
  | EBlock items => EBlock (map rename_item items)
  | EWhile c b => EWhile (rename_expr c) (rename_expr b)
  | EDoWhile b c => EDoWhile (rename_expr b) (rename_expr c)
  | EFor i c n b => EFor (rename_expr i) (rename_expr c) (rename_expr n) (rename_expr b)
  | EForInRange v a b body => EForInRange (rho v) (rename_expr a) (rename_expr b) (rename_expr body)
  | EForInArr v a body => EForInArr (rho v) (rename_expr a) (rename_expr body)
  | ELambda fd => ELambda (rename_fdef fd)
  | EArrLit es t => EArrLit (map rename_expr es) t
  | EIndex a i => EIndex (rename_expr a) (rename_expr i)
  | ERecNew r args => ERecNew r (map rename_expr args)
  | ERecNil r => ERecNil r
  | EField a r fld => EField (rename_expr a) r fld
  | EPrint a => EPrint (rename_expr a)
  end
with rename_item (i : item) : item :=
  match i with
  | ILet x a => ILet (rho x) (rename_expr a)
  | IVar x a => IVar (rho x) (rename_expr a)
  | IFunc fd => IFunc (rename_fdef fd)
  | IExpr a => IExpr (rename_expr a)
  end
with rename_fdef (fd : fdef) : fdef :=
  match fd with
  | FDef n ps ret body catches call =>
    FDef (rho n) (map rename_param ps) ret (map rename_item body)
         (map (fun c => match c with (ex, b) => (ex, map rename_item b) end) catches)
         (match call with Some b => Some (map rename_item b) | None => None end)
  end.

Definition rename_catch (c : exn * list item) : exn * list item :=
  match c with (ex, b) => (ex, map rename_item b) end.

Definition rename_program (p : program) : program :=
  {| p_recs := p_recs p; p_funcs := map rename_fdef (p_funcs p); p_main := rho (p_main p) |}.

Definition rename_env (e : env) : env := map (fun b => (rho (fst b), snd b)) e.

Definition rename_cell (v : cellval) : cellval :=
  match v with
  | CFun fd cenv => CFun (rename_fdef fd) (rename_env cenv)
  | v => v
  end.

Definition rename_state (st : state) : state :=
  {| cells := map rename_cell (cells st); arrs := arrs st; recs := recs st; out := out st |}.

Definition ren_res (p : res * state) : res * state := (fst p, rename_state (snd p)).

(* unfolding equations *)
Lemma rename_fdef_eq : forall n ps ret body catches call,
  rename_fdef (FDef n ps ret body catches call) =
  FDef (rho n) (map rename_param ps) ret (map rename_item body) (map rename_catch catches)
       (option_map (map rename_item) call).
Proof. intros. destruct call; reflexivity. Qed.

Lemma fd_name_rename : forall fd, fd_name (rename_fdef fd) = rho (fd_name fd).
Proof. destruct fd; reflexivity. Qed.
Lemma fd_params_rename : forall fd, fd_params (rename_fdef fd) = map rename_param (fd_params fd).
Proof. destruct fd; reflexivity. Qed.
Lemma fd_body_rename : forall fd, fd_body (rename_fdef fd) = map rename_item (fd_body fd).
Proof. destruct fd; reflexivity. Qed.
Lemma fd_catches_rename : forall fd, fd_catches (rename_fdef fd) = map rename_catch (fd_catches fd).
Proof. destruct fd; reflexivity. Qed.
Lemma fd_catch_all_rename : forall fd,
  fd_catch_all (rename_fdef fd) = option_map (map rename_item) (fd_catch_all fd).
Proof. destruct fd as [? ? ? ? ? [?|]]; reflexivity. Qed.

(* ---- the store under renaming ------------------------------------------------------ *)

Lemma get_cell_ren : forall st c, get_cell (rename_state st) c = option_map rename_cell (get_cell st c).
Proof. intros. unfold get_cell, rename_state; simpl. apply nth_error_map. Qed.

Lemma get_int_ren : forall st c, get_int (rename_state st) c = get_int st c.
Proof. intros. unfold get_int. rewrite get_cell_ren. destruct (get_cell st c) as [[]|]; reflexivity. Qed.

Lemma get_bool_ren : forall st c, get_bool (rename_state st) c = get_bool st c.
Proof. intros. unfold get_bool. rewrite get_cell_ren. destruct (get_cell st c) as [[]|]; reflexivity. Qed.

Lemma fresh_ren : forall st v, fresh (rename_state st) (rename_cell v) = ren_res (fresh st v).
Proof.
  intros. unfold fresh, alloc, ren_res, rename_state; simpl.
  rewrite map_length, map_app. reflexivity.
Qed.

Lemma fresh_ren_int : forall st z, fresh (rename_state st) (CInt z) = ren_res (fresh st (CInt z)).
Proof. intros. apply (fresh_ren st (CInt z)). Qed.
Lemma fresh_ren_bool : forall st b, fresh (rename_state st) (CBool b) = ren_res (fresh st (CBool b)).
Proof. intros. apply (fresh_ren st (CBool b)). Qed.
Lemma fresh_ren_arr : forall st a, fresh (rename_state st) (CArr a) = ren_res (fresh st (CArr a)).
Proof. intros. apply (fresh_ren st (CArr a)). Qed.
Lemma fresh_ren_rec : forall st a, fresh (rename_state st) (CRec a) = ren_res (fresh st (CRec a)).
Proof. intros. apply (fresh_ren st (CRec a)). Qed.
Lemma fresh_ren_fun : forall st fd e,
  fresh (rename_state st) (CFun (rename_fdef fd) (rename_env e)) = ren_res (fresh st (CFun fd e)).
Proof. intros. apply (fresh_ren st (CFun fd e)). Qed.

Lemma alloc_ren_int : forall st z,
  alloc (rename_state st) (CInt z) = (fst (alloc st (CInt z)), rename_state (snd (alloc st (CInt z)))).
Proof. intros. unfold alloc, rename_state; simpl. rewrite map_length, map_app. reflexivity. Qed.

Lemma set_cell_ren : forall st c v,
  set_cell (rename_state st) c (rename_cell v) = rename_state (set_cell st c v).
Proof. intros. unfold set_cell, rename_state; simpl. rewrite list_upd_map. reflexivity. Qed.

Lemma print_num_ren : forall st z, print_num (rename_state st) z = rename_state (print_num st z).
Proof. reflexivity. Qed.

Lemma new_arr_ren : forall st cs,
  new_arr (rename_state st) cs = (fst (new_arr st cs), rename_state (snd (new_arr st cs))).
Proof. reflexivity. Qed.
Lemma new_rec_ren : forall st cs,
  new_rec (rename_state st) cs = (fst (new_rec st cs), rename_state (snd (new_rec st cs))).
Proof. reflexivity. Qed.

Lemma int_binop_not_fun : forall op a b v, int_binop op a b = Some v -> rename_cell v = v.
Proof.
  intros op a b v H. destruct op; simpl in H; try destruct (b =? 0)%Z; inversion H; reflexivity.
Qed.

Lemma ref_is_nil_ren : forall v, ref_is_nil (rename_cell v) = ref_is_nil v.
Proof. destruct v; reflexivity. Qed.

Lemma nil_cmp_ren : forall op st c1 c2,
  nil_cmp op (get_cell (rename_state st) c1) (get_cell (rename_state st) c2) =
  nil_cmp op (get_cell st c1) (get_cell st c2).
Proof.
  intros. rewrite !get_cell_ren. unfold nil_cmp.
  destruct (get_cell st c1), (get_cell st c2); simpl; rewrite ?ref_is_nil_ren; reflexivity.
Qed.

Lemma binop_result_ren : forall op c1 c2 st,
  binop_result op c1 c2 (rename_state st) = ren_res (binop_result op c1 c2 st).
Proof.
  intros. unfold binop_result. rewrite !get_int_ren, !get_bool_ren, nil_cmp_ren.
  destruct (get_int st c1) as [z1|], (get_int st c2) as [z2|].
  1: { destruct (int_binop op z1 z2) as [v|] eqn:E; [|reflexivity].
       rewrite <- (int_binop_not_fun _ _ _ _ E) at 1. apply fresh_ren. }
  all: destruct op; destruct (get_bool st c1), (get_bool st c2);
       try match goal with |- context[nil_cmp ?o ?a ?b] => destruct (nil_cmp o a b) end;
       try reflexivity; apply fresh_ren_bool.
Qed.

Lemma index_result_ren : forall st ca ci,
  index_result (rename_state st) ca ci = ren_res (index_result st ca ci).
Proof.
  intros. unfold index_result. rewrite get_int_ren, get_cell_ren. simpl arrs.
  destruct (get_cell st ca) as [[| | |[ar|]|]|]; simpl; try reflexivity;
    destruct (get_int st ci); try reflexivity.
  destruct (nth_error (arrs st) ar); try reflexivity.
  destruct (_ || _); try reflexivity.
  destruct (nth_error l _); reflexivity.
Qed.

Lemma field_result_ren : forall st ca fld,
  field_result (rename_state st) ca fld = ren_res (field_result st ca fld).
Proof.
  intros. unfold field_result. rewrite get_cell_ren. simpl recs.
  destruct (get_cell st ca) as [[| | | |[r|]]|]; simpl; try reflexivity.
  destruct (nth_error (recs st) r); try reflexivity.
  destruct (nth_error l fld); reflexivity.
Qed.

(* for-in loops *)
Definition ren_lstep (l : lstep) : lstep :=
  match l with
  | LsBind c st s => LsBind c (rename_state st) s
  | l => l
  end.

Lemma forin_step_ren : forall st s, forin_step (rename_state st) s = ren_lstep (forin_step st s).
Proof.
  intros st s. destruct s as [z zb|z zb|ca i]; cbn [forin_step].
  - destruct (z <=? zb)%Z; [|reflexivity]. rewrite alloc_ren_int.
    destruct (alloc st (CInt z)); reflexivity.
  - destruct (zb <=? z)%Z; [|reflexivity]. rewrite alloc_ren_int.
    destruct (alloc st (CInt z)); reflexivity.
  - rewrite get_cell_ren. simpl arrs.
    destruct (get_cell st ca) as [[| | |[ar|]|]|]; simpl; try reflexivity.
    destruct (nth_error (arrs st) ar); try reflexivity.
    destruct (nth_error l i); reflexivity.
Qed.

Lemma forin_loop_ren : forall (ev ev' : nat -> state -> res * state),
  (forall c st, ev' c (rename_state st) = ren_res (ev c st)) ->
  forall n s st, forin_loop ev' n s (rename_state st) = ren_res (forin_loop ev n s st).
Proof.
  intros ev ev' Hev. induction n as [|n IH]; intros s st.
  - reflexivity.
  - rewrite !forin_loop_S, forin_step_ren.
    destruct (forin_step st s) as [|r|c st1 s']; cbn [ren_lstep].
    + apply fresh_ren_int.
    + reflexivity.
    + rewrite Hev. destruct (ev c st1) as [[] s2]; cbn [ren_res fst snd]; try reflexivity. apply IH.
Qed.

Lemma rename_env_app : forall a b, rename_env (a ++ b) = rename_env a ++ rename_env b.
Proof. intros; apply map_app. Qed.

Lemma bind_params_ren : forall ps cs,
  bind_params (map rename_param ps) cs = option_map rename_env (bind_params ps cs).
Proof.
  induction ps as [|[[x b] t] ps IH]; destruct cs; simpl; auto.
  rewrite IH. destruct (bind_params ps cs); reflexivity.
Qed.

Lemma global_env_ren : forall fs i,
  global_env (map rename_fdef fs) i = rename_env (global_env fs i).
Proof. induction fs; intros; simpl; auto. rewrite IHfs, fd_name_rename. reflexivity. Qed.

(* runs of function items *)
Lemma run_funcs_ren : forall l, run_funcs (map rename_item l) = map rename_fdef (run_funcs l).
Proof. induction l as [|[] l IH]; simpl; auto. now rewrite IH. Qed.
Lemma run_rest_ren : forall l, run_rest (map rename_item l) = map rename_item (run_rest l).
Proof. induction l as [|[] l IH]; simpl; auto. Qed.
Lemma func_env_ren : forall fds c e,
  func_env (map rename_fdef fds) c (rename_env e) = rename_env (func_env fds c e).
Proof.
  induction fds as [|fd t IH]; intros c e; simpl; auto.
  rewrite fd_name_rename. apply (IH (S c) ((fd_name fd, c) :: e)).
Qed.
Lemma run_env_ren : forall fds e st,
  run_env (map rename_fdef fds) (rename_env e) (rename_state st) = rename_env (run_env fds e st).
Proof. intros. unfold run_env. simpl. rewrite map_length. apply func_env_ren. Qed.
Lemma run_state_ren : forall fds e st,
  run_state (map rename_fdef fds) (rename_env e) (rename_state st) = rename_state (run_state fds e st).
Proof.
  intros. unfold run_state. rewrite run_env_ren. unfold add_cells, rename_state. simpl.
  rewrite map_app, !map_map. reflexivity.
Qed.

(* ---- injective renamings preserve lookup ------------------------------------------- *)

Hypothesis rho_inj : forall x y, rho x = rho y -> x = y.

Lemma eqb_rho : forall x y, N.eqb (rho x) (rho y) = N.eqb x y.
Proof.
  intros. destruct (N.eqb_spec x y) as [->|Hn].
  - apply N.eqb_refl.
  - apply N.eqb_neq. intro H; apply Hn, rho_inj, H.
Qed.

Lemma lookup_ren : forall x e, lookup (rho x) (rename_env e) = lookup x e.
Proof.
  induction e as [|[y c] t IH]; simpl; auto. rewrite eqb_rho, IH. reflexivity.
Qed.

Lemma lookup_var_ren : forall genv x e,
  lookup_var (rename_env genv) (rho x) (rename_env e) = lookup_var genv x e.
Proof. intros. unfold lookup_var. rewrite !lookup_ren. reflexivity. Qed.

(* ---- the simulation ---------------------------------------------------------------- *)

Section Sim.
Variable genv : env.
Local Notation genv' := (rename_env genv).

Definition sim_eval (k : nat) := forall e st x,
  eval genv' k (rename_env e) (rename_state st) (rename_expr x) = ren_res (eval genv k e st x).
Definition sim_items (k : nat) := forall e st l last,
  eval_items genv' k (rename_env e) (rename_state st) (map rename_item l) last =
  ren_res (eval_items genv k e st l last).
Definition sim_handlers (k : nat) := forall e st ex cs call,
  handlers genv' k (rename_env e) (rename_state st) ex (map rename_catch cs)
           (option_map (map rename_item) call) =
  ren_res (handlers genv k e st ex cs call).

Lemma eval_args_f_ren : forall (ev ev' : state -> expr -> res * state),
  (forall st a, ev' (rename_state st) (rename_expr a) = ren_res (ev st a)) ->
  forall l st, eval_args_f ev' (map rename_expr l) (rename_state st) =
               (fst (eval_args_f ev l st), rename_state (snd (eval_args_f ev l st))).
Proof.
  intros ev ev' Hev. induction l as [|a t IH]; intros st.
  - reflexivity.
  - simpl map. rewrite !eval_args_f_cons, IH.
    destruct (eval_args_f ev t st) as [[[cs|] r1] s1]; simpl; auto.
    rewrite Hev. destruct (ev s1 a) as [[] s2]; reflexivity.
Qed.

Ltac sim_tac IHe IHi IHh :=
  repeat first
  [ progress (rewrite ?IHe, ?IHi, ?IHh)
  | progress (cbn [ren_res fst snd])
  | progress (rewrite ?get_int_ren, ?get_bool_ren, ?get_cell_ren, ?fresh_ren_int, ?fresh_ren_bool,
              ?fresh_ren_arr, ?fresh_ren_rec, ?fresh_ren_fun, ?binop_result_ren, ?index_result_ren,
              ?field_result_ren, ?print_num_ren, ?lookup_var_ren, ?set_cell_ren)
  | match goal with
    | |- context[match eval genv ?k ?e ?st ?a with _ => _ end] =>
        destruct (eval genv k e st a) as [[] ?]
    | |- context[match option_map rename_cell (get_cell ?s ?c) with _ => _ end] =>
        destruct (get_cell s c); cbn [option_map]
    | |- context[match get_bool ?st ?c with _ => _ end] => destruct (get_bool st c) as [[]|]
    | |- context[match get_int ?st ?c with _ => _ end] => destruct (get_int st c)
    | |- context[match lookup_var ?g ?v ?e with _ => _ end] => destruct (lookup_var g v e)
    end
  | reflexivity ].

Lemma sim_all : forall k, sim_eval k /\ sim_items k /\ sim_handlers k.
Proof.
  induction k as [|k [IHe [IHi IHh]]].
  - (split; [|split]); red; intros; rewrite ?eval_O, ?eval_items_O, ?handlers_O; reflexivity.
  - assert (Hargs : forall e l st,
              eval_args genv' k (rename_env e) (map rename_expr l) (rename_state st) =
              (fst (eval_args genv k e l st), rename_state (snd (eval_args genv k e l st)))).
    { intros. unfold eval_args. apply eval_args_f_ren. intros; apply IHe. }
    assert (Happ : forall st cf cs,
              apply_fun genv' k (rename_state st) cf cs = ren_res (apply_fun genv k st cf cs)).
    { intros. unfold apply_fun. rewrite get_cell_ren.
      destruct (get_cell st cf) as [[| |fd cenv| |]|]; try reflexivity. simpl option_map. cbn iota beta.
      rewrite fd_params_rename, bind_params_ren.
      destruct (bind_params (fd_params fd) cs) as [penv|]; try reflexivity. simpl option_map. cbn iota beta.
      unfold call_body. rewrite <- rename_env_app, fd_body_rename, IHi.
      destruct (eval_items genv k (penv ++ cenv) st (fd_body fd) None) as [[] s]; try reflexivity.
      cbn [ren_res fst snd]. rewrite fd_catches_rename, fd_catch_all_rename. apply IHh. }
    (split; [|split]); red.
    + intros e st x.
      destruct x; cbn [rename_expr];
        try (destruct (binop_cases op) as [->|[->|[Hop1 Hop2]]];
             [| | rewrite (eval_EBin (rename_env genv) op), (eval_EBin genv op) by assumption]);
        autorewrite with evaleq; sim_tac IHe IHi IHh.
      all: try (apply (IHe e _ (EWhile _ _))); try (apply (IHe e _ (EDoWhile _ _)));
           try (apply (IHe e _ (EWhile _ (EBlock [IExpr _; IExpr _])))).
      all: try (apply forin_loop_ren; intros cv sv; apply (IHe ((_, cv) :: e))).
      * (* ECall *)
        rewrite Hargs. destruct (eval_args genv k e args st) as [[[cs|] r] s]; cbn [fst snd]; try reflexivity.
        sim_tac IHe IHi IHh. apply Happ.
      * (* EArrLit *)
        rewrite Hargs. destruct (eval_args genv k e es st) as [[[cs|] r] s]; cbn [fst snd]; try reflexivity.
        rewrite new_arr_ren. destruct (new_arr s cs) as [a s2]. cbn [fst snd]. apply fresh_ren_arr.
      * (* ERecNew *)
        rewrite Hargs. destruct (eval_args genv k e args st) as [[[cs|] r0] s]; cbn [fst snd]; try reflexivity.
        rewrite new_rec_ren. destruct (new_rec s cs) as [a s2]. cbn [fst snd]. apply fresh_ren_rec.
    + intros e st l last.
      destruct l as [|[x a|x a|fd|a] t]; cbn [map rename_item]; autorewrite with evaleq;
        sim_tac IHe IHi IHh.
      * destruct last; reflexivity.
      * apply (IHi ((x, c) :: e)).
      * apply (IHi ((x, c) :: e)).
      * rewrite run_funcs_ren, run_rest_ren, map_length.
        change (rename_fdef fd :: map rename_fdef (run_funcs t))
          with (map rename_fdef (fd :: run_funcs t)).
        rewrite run_env_ren, run_state_ren. cbn [rename_state cells]. rewrite map_length. apply IHi.
    + intros e st ex cs call.
      destruct cs as [|[ex' body] t]; cbn [map rename_catch]; autorewrite with evaleq.
      * destruct call; cbn [option_map]; [apply IHi | reflexivity].
      * destruct (exn_eqb ex ex'); [|apply IHh].
        rewrite IHi. destruct (eval_items genv k e st body None) as [[] s]; try reflexivity.
        cbn [ren_res fst snd]. apply IHh.
Qed.

Theorem eval_rename : forall k e st x,
  eval genv' k (rename_env e) (rename_state st) (rename_expr x) = ren_res (eval genv k e st x).
Proof. intros k; exact (proj1 (sim_all k)). Qed.
Theorem eval_items_rename : forall k e st l last,
  eval_items genv' k (rename_env e) (rename_state st) (map rename_item l) last =
  ren_res (eval_items genv k e st l last).
Proof. intros k; exact (proj1 (proj2 (sim_all k))). Qed.
Theorem handlers_rename : forall k e st ex cs call,
  handlers genv' k (rename_env e) (rename_state st) ex (map rename_catch cs)
           (option_map (map rename_item) call) =
  ren_res (handlers genv k e st ex cs call).
Proof. intros k; exact (proj2 (proj2 (sim_all k))). Qed.

End Sim.

(* ---- whole programs ---------------------------------------------------------------- *)

Lemma init_state_ren : forall p, init_state (rename_program p) = rename_state (init_state p).
Proof.
  intros. unfold init_state, rename_state, rename_program; simpl. f_equal.
  rewrite !map_map. reflexivity.
Qed.

Lemma entry_args_ren : forall args cs st,
  fold_left (fun acc z => let '(cs, st) := acc in
                          let (c, st') := alloc st (CInt (wrap32 z)) in (cs ++ [c], st'))
            args (cs, rename_state st) =
  (fst (fold_left (fun acc z => let '(cs, st) := acc in
                          let (c, st') := alloc st (CInt (wrap32 z)) in (cs ++ [c], st'))
            args (cs, st)),
   rename_state (snd (fold_left (fun acc z => let '(cs, st) := acc in
                          let (c, st') := alloc st (CInt (wrap32 z)) in (cs ++ [c], st'))
            args (cs, st)))).
Proof.
  induction args as [|z t IH]; intros cs st; [reflexivity|].
  cbn [fold_left]. rewrite alloc_ren_int.
  destruct (alloc st (CInt (wrap32 z))) as [c st1]. cbn [fst snd]. apply IH.
Qed.

Lemma observe_result_ren : forall v out, observe (OResult (rename_cell v) out) = observe (OResult v out).
Proof. destruct v; reflexivity. Qed.

Theorem rename_invariance : forall fuel p args,
  observe (run_program fuel (rename_program p) args) = observe (run_program fuel p args).
Proof.
  intros fuel p args. unfold run_program.
  rewrite init_state_ren. cbn [p_funcs p_main rename_program].
  rewrite global_env_ren, entry_args_ren, lookup_ren.
  destruct (fold_left _ args ([], init_state p)) as [argcells st1]. cbn [fst snd].
  destruct (lookup (p_main p) (global_env (p_funcs p) 0)) as [cm|]; [|reflexivity].
  rewrite get_cell_ren.
  destruct (get_cell st1 cm) as [[| |fd cenv| |]|]; try reflexivity. cbn [option_map rename_cell].
  rewrite fd_params_rename, bind_params_ren.
  destruct (bind_params (fd_params fd) argcells) as [penv|]; [|reflexivity]. cbn [option_map].
  rewrite fd_body_rename, eval_items_rename.
  assert (Fin : forall rs : res * state,
    observe match ren_res rs with
            | (ROk c, st2) => match get_cell st2 c with
                              | Some v => OResult v (rev (out st2)) | None => OStuck end
            | (RExc ex, st2) => OUnhandled ex (rev (out st2))
            | (RFuel, _) => OFuel
            | (RStuck, _) => OStuck end =
    observe match rs with
            | (ROk c, st2) => match get_cell st2 c with
                              | Some v => OResult v (rev (out st2)) | None => OStuck end
            | (RExc ex, st2) => OUnhandled ex (rev (out st2))
            | (RFuel, _) => OFuel
            | (RStuck, _) => OStuck end).
  { intros [[c|ex| |] s]; cbn [ren_res fst snd]; try reflexivity.
    rewrite get_cell_ren. destruct (get_cell s c); cbn [option_map]; [|reflexivity].
    apply observe_result_ren. }
  destruct (eval_items (global_env (p_funcs p) 0) fuel penv st1 (fd_body fd) None) as [[c|ex| |] s];
    cbn [ren_res fst snd]; try reflexivity.
  - apply (Fin (ROk c, s)).
  - rewrite fd_catches_rename, fd_catch_all_rename, handlers_rename. apply Fin.
Qed.

End RenameDefs.
