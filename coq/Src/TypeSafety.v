(* Type safety of the reference evaluator of the Never core (Src/Eval.v) with respect to the
   declarative judgment of the model typechecker (Src/TypecheckSpec.v):

     eval_type_safe      a well-typed, ready expression / item list / handler list never
                         evaluates to RStuck; the final state is typed by an extension of the
                         store typing; a result cell has the expected type
     core_type_safety    WellTyped p -> eval_ready p = true -> main_fits p args = true ->
                         run_program fuel p args <> OStuck, and a result has main's return type

   Side condition (eval_ready, see TypeSafetyBase.v): (S1) no let/var initialiser is the literal
   nil (or a block ending in it).  It excludes programs the typechecker accepts although they use
   one nil cell at two record types (Example stuck_nil_alias at the end of the file: a defect of the
   language implementation, reproduced on the real compiler).  The two former side conditions --
   (S2) no nil operand of == / !=, (S3) no forward reference inside a run of adjacent function
   items -- are gone: the evaluator now has both rules (Examples ex_eq_nil, ex_nil_cmp, ex_mutual,
   ex_even_odd).
   No axioms. *)
From Coq Require Import ZArith NArith List Bool Lia Arith.
From NV Require Import Src.Syntax Src.Eval Src.EvalLemmas Src.EvalProps Src.Types Src.Typecheck
  Src.TypecheckSpec Src.TypeSafetyBase.
Import ListNotations.

Ltac split_and :=
  repeat match goal with
         | H : _ && _ = true |- _ => apply andb_true_iff in H; destruct H
         end.

Fixpoint assoc (x : ident) (sigs : list (ident * cty)) : option cty :=
  match sigs with
  | [] => None
  | (y, t) :: r => if N.eqb x y then Some t else assoc x r
  end.

Lemma declare_all_fresh : forall sigs s G0 G x b,
  declare_all sigs (s :: G0) = Ok G -> lookup_scope x s = Some b -> assoc x sigs = None.
Proof.
  induction sigs as [|[y t] sigs IH]; intros s G0 G x b D L; simpl; auto.
  simpl in D. destruct (lookup_scope y s) eqn:Ly; [discriminate|]. simpl in D.
  destruct (N.eqb x y) eqn:E.
  - apply N.eqb_eq in E. congruence.
  - eapply IH; eauto. simpl. rewrite E. exact L.
Qed.

Lemma declare_all_lookup : forall sigs s G0 G, declare_all sigs (s :: G0) = Ok G ->
  forall y, Types.lookup y G =
            match assoc y sigs with Some t => Some (t, KTemp) | None => Types.lookup y (s :: G0) end.
Proof.
  induction sigs as [|[x t] sigs IH]; intros s G0 G D y; simpl in D.
  - inversion D; subst. reflexivity.
  - destruct (lookup_scope x s) eqn:Lx; [discriminate|]. simpl in D.
    rewrite (IH _ _ _ D y). simpl. destruct (N.eqb y x) eqn:E.
    + apply N.eqb_eq in E. subst y.
      rewrite (declare_all_fresh _ _ _ _ x (t, KTemp) D); [reflexivity|].
      simpl. rewrite N.eqb_refl. reflexivity.
    + destruct (assoc y sigs); reflexivity.
Qed.


Lemma declare_all_lookup_gen : forall sigs G G1, declare_all sigs G = Ok G1 ->
  forall y, Types.lookup y G1 =
            match assoc y sigs with Some t => Some (t, KTemp) | None => Types.lookup y G end.
Proof.
  intros sigs [|s G0] G1 D y.
  - destruct sigs as [|[x t] sigs].
    + simpl in D. inversion D; subst. reflexivity.
    + exact (declare_all_lookup ((x, t) :: sigs) [] [] G1 D y).
  - exact (declare_all_lookup sigs s G0 G1 D y).
Qed.

Lemma assoc_in : forall sigs s G0 G x t, declare_all sigs (s :: G0) = Ok G ->
  In (x, t) sigs -> assoc x sigs = Some t.
Proof.
  induction sigs as [|[y u] sigs IH]; intros s G0 G x t D HIn; [contradiction|].
  simpl in D. destruct (lookup_scope y s) eqn:Ly; [discriminate|]. simpl in D.
  simpl. destruct HIn as [E|HIn].
  - inversion E; subst. rewrite N.eqb_refl. reflexivity.
  - destruct (N.eqb x y) eqn:E.
    + apply N.eqb_eq in E. subst y.
      pose proof (declare_all_fresh _ _ _ _ x (u, KTemp) D) as Hf.
      simpl in Hf. rewrite N.eqb_refl in Hf. specialize (Hf eq_refl).
      rewrite (IH _ _ _ _ _ D HIn) in Hf. discriminate.
    + eapply IH; eauto.
Qed.

Lemma declare_all_in : forall sigs G G1 x t, declare_all sigs G = Ok G1 ->
  In (x, t) sigs -> Types.lookup x G1 = Some (t, KTemp).
Proof.
  intros sigs G G1 x t D HIn. rewrite (declare_all_lookup_gen _ _ _ D x).
  destruct G as [|s G0].
  - destruct sigs as [|[y u] sigs]; [contradiction|].
    assert (D' : declare_all ((y, u) :: sigs) ([] :: []) = Ok G1) by exact D.
    now rewrite (assoc_in _ _ _ _ _ _ D' HIn).
  - now rewrite (assoc_in _ _ _ _ _ _ D HIn).
Qed.

Lemma run_sigs_funcs : forall l, run_sigs l = map (fun f => (fd_name f, fd_cty f)) (run_funcs l).
Proof. induction l as [|[] l IH]; simpl; auto. now rewrite IH. Qed.

Lemma assoc_funcs_none : forall y fds, assoc y (map (fun f => (fd_name f, fd_cty f)) fds) = None ->
  forall f, In f fds -> fd_name f <> y.
Proof.
  induction fds as [|g fds IH]; simpl; intros H f HIn; [contradiction|].
  destruct (N.eqb_spec y (fd_name g)) as [->|Hn]; [discriminate|].
  destruct HIn as [<-|HIn]; auto.
Qed.

Lemma assoc_funcs_some : forall y t fds, assoc y (map (fun f => (fd_name f, fd_cty f)) fds) = Some t ->
  exists i f, nth_error fds i = Some f /\ fd_name f = y /\ fd_cty f = t.
Proof.
  induction fds as [|g fds IH]; simpl; intros H; [discriminate|].
  destruct (N.eqb_spec y (fd_name g)) as [->|Hn].
  - inversion H; subst. exists 0, g. auto.
  - destruct (IH H) as [i [f [H1 H2]]]. exists (S i), f. auto.
Qed.

Lemma assoc_none_notin : forall x sigs, assoc x sigs = None -> ~ In x (map fst sigs).
Proof.
  induction sigs as [|[y t] sigs IH]; simpl; intros H; [tauto|].
  destruct (N.eqb_spec x y) as [->|Hn]; [discriminate|]. intros [E|HIn]; [congruence|]. now apply IH.
Qed.

(* the names declared together are pairwise different *)
Lemma declare_all_nodup : forall sigs G G1, declare_all sigs G = Ok G1 -> NoDup (map fst sigs).
Proof.
  induction sigs as [|[x t] sigs IH]; intros G G1 D; simpl; [constructor|].
  simpl in D. destruct (declare x (t, KTemp) G) as [G2|] eqn:E; [|discriminate]. simpl in D.
  constructor; [|eapply IH; eauto].
  destruct (declare_shape _ _ _ _ E) as [s [G0 ->]].
  apply assoc_none_notin. eapply declare_all_fresh; eauto. simpl. rewrite N.eqb_refl. reflexivity.
Qed.

Lemma nodup_names_nth : forall (fds : list fdef) i j f g,
  NoDup (map fd_name fds) -> nth_error fds i = Some f -> nth_error fds j = Some g ->
  fd_name g = fd_name f -> i = j.
Proof.
  intros fds i j f g ND Hi Hj E.
  apply (proj1 (NoDup_nth_error (map fd_name fds)) ND).
  - rewrite map_length. apply nth_error_Some. congruence.
  - rewrite !nth_error_map, Hi, Hj. simpl. congruence.
Qed.

Lemma nilish_items_run : forall l, run_rest l <> [] -> nilish_items l = nilish_items (run_rest l).
Proof.
  induction l as [|i l IH]; intros H; auto. destruct i; auto.
  simpl run_rest in *. destruct l as [|j l]; [simpl in H; congruence|].
  rewrite nilish_items_cons. apply IH. exact H.
Qed.

Section Safety.
Variable R : list recdecl.
Variable genv : Eval.env.

Notation st_ok := (st_ok R genv).
Notation env_ok := (env_ok genv).
Notation val_ok := (val_ok R genv).

(* the outcome of a safe evaluation from a state typed by S, expecting a cell of type t' *)
Definition good (S : styping) (st : state) (t' : cty) (P : Prop) (r : Eval.res) (st' : state) : Prop :=
  r <> RStuck /\
  exists S', ext S st S' st' /\ st_ok S' st' /\
             forall c, r = ROk c -> nth_error S' c = Some t' /\ P.

Lemma good_trans : forall S st S1 st1 t' P r st',
  ext S st S1 st1 -> good S1 st1 t' P r st' -> good S st t' P r st'.
Proof.
  intros S st S1 st1 t' P r st' X [N [S' [X' [Hs Hc]]]]. split; auto.
  exists S'. split; [eapply ext_trans; eauto|]. auto.
Qed.

Lemma good_weaken : forall S st t' (P Q : Prop) r st',
  good S st t' P r st' -> (P -> Q) -> good S st t' Q r st'.
Proof.
  intros S st t' P Q r st' [N [S' [X' [Hs Hc]]]] PQ. split; auto.
  exists S'. split; [|split]; auto. intros c E. destruct (Hc c E); auto.
Qed.

Lemma good_pass : forall S st t1 (P : Prop) r st' t' (Q : Prop),
  good S st t1 P r st' -> (forall c, r <> ROk c) -> good S st t' Q r st'.
Proof.
  intros S st t1 P r st' t' Q [N [S' [X' [Hs Hc]]]] H. split; auto.
  exists S'. split; [|split]; auto. intros c E. exfalso; eapply H; eauto.
Qed.

Lemma good_here : forall S st t' (P : Prop) r,
  st_ok S st -> r <> RStuck -> (forall c, r = ROk c -> nth_error S c = Some t' /\ P) ->
  good S st t' P r st.
Proof.
  intros. split; auto. exists S. split; [apply ext_refl|]. auto.
Qed.

Lemma good_step : forall S st t' (P : Prop) r S' st',
  st_ok S' st' -> ext S st S' st' -> r <> RStuck ->
  (forall c, r = ROk c -> nth_error S' c = Some t' /\ P) ->
  good S st t' P r st'.
Proof. intros. split; auto. exists S'. auto. Qed.

Lemma good_fresh : forall S st v t (P : Prop) r st',
  st_ok S st -> val_ok S st v t -> P -> fresh st v = (r, st') -> good S st t P r st'.
Proof.
  intros S st v t P r st' Hs V HP F.
  destruct (fresh_ok R genv _ _ _ _ _ _ Hs V F) as [c [-> [Hs' [X Hc]]]].
  eapply good_step; eauto; [discriminate|]. intros c' E. inversion E; subst. auto.
Qed.

(* ---- binary operators ------------------------------------------------------------------------ *)

Lemma dflt_nonnil : forall t, t <> Types.CNil -> dflt t = t.
Proof. destruct t; simpl; congruence. Qed.

Definition eq_op (op : binop) : bool := match op with Eq | Ne => true | _ => false end.

(* == / != on two references one of which is nil *)
Lemma binop_result_ref : forall op c1 c2 st v1 v2 n1 n2,
  get_cell st c1 = Some v1 -> get_cell st c2 = Some v2 ->
  ref_is_nil v1 = Some n1 -> ref_is_nil v2 = Some n2 -> n1 || n2 = true -> eq_op op = true ->
  exists b, binop_result op c1 c2 st = fresh st (Eval.CBool b).
Proof.
  intros op c1 c2 st v1 v2 n1 n2 G1 G2 R1 R2 Hn Ho.
  assert (I1 : get_int st c1 = None) by (unfold get_int; rewrite G1; destruct v1; auto; discriminate).
  assert (B1 : get_bool st c1 = None) by (unfold get_bool; rewrite G1; destruct v1; auto; discriminate).
  unfold binop_result. rewrite I1, B1, G1, G2. unfold nil_cmp. rewrite R1, R2, Hn.
  destruct op; try discriminate; eexists; reflexivity.
Qed.

Lemma binop_safe : forall S st op c1 c2 ta tb t r st',
  st_ok S st -> nth_error S c1 = Some (ntgt R ta) -> nth_error S c2 = Some (ntgt R tb) ->
  binop_type op ta tb = Some t -> op <> And -> op <> Or ->
  binop_result op c1 c2 st = (r, st') ->
  good S st t True r st'.
Proof.
  intros S st op c1 c2 ta tb t r st' Hs H1 H2 Hbt NA NO Hev.
  assert (Hcases : (ta = Types.CInt /\ tb = Types.CInt) \/
                   (eq_op op = true /\ t = Types.CBool /\
                    ((ta = Types.CBool /\ tb = Types.CBool) \/
                     (eq_comparable ta tb = true /\ (ta = Types.CNil \/ tb = Types.CNil))))).
  { destruct op; simpl in Hbt; try congruence;
      try (destruct (is_int ta) eqn:Ea; [|discriminate]; destruct (is_int tb) eqn:Eb; [|discriminate];
           apply is_int_eq in Ea; apply is_int_eq in Eb; auto).
    all: destruct (eq_comparable ta tb) eqn:Ec; [|discriminate]; inversion Hbt; subst;
      destruct ta, tb; simpl in Ec; try discriminate; auto 10. }
  destruct Hcases as [[-> ->]|[Eo [-> [[-> ->]|[Ec Hnil]]]]]; simpl in H1, H2.
  - destruct (cell_int _ _ _ _ _ Hs H1) as [z1 E1]. destruct (cell_int _ _ _ _ _ Hs H2) as [z2 E2].
    unfold binop_result in Hev. rewrite E1, E2 in Hev.
    destruct (int_binop op z1 z2) as [v|] eqn:Ei.
    + eapply good_fresh; eauto.
      destruct op; simpl in Hbt, Ei; try congruence; inversion Hbt; subst;
        try (inversion Ei; subst; constructor);
        destruct (Z.eqb z2 0); inversion Ei; subst; constructor.
    + inversion Hev; subst. apply good_here; auto; [discriminate|]. intros; discriminate.
  - destruct (cell_get _ _ _ _ _ _ Hs H1) as [v1 [G1 V1]]. destruct (cell_get _ _ _ _ _ _ Hs H2) as [v2 [G2 V2]].
    apply val_bool in V1. apply val_bool in V2. destruct V1 as [b1 ->]. destruct V2 as [b2 ->].
    unfold binop_result, get_int, get_bool in Hev. rewrite G1, G2 in Hev.
    destruct op; simpl in Eo; try discriminate; eapply good_fresh; eauto; constructor.
  - (* a reference and nil *)
    assert (Href : forall c tx, nth_error S c = Some (ntgt R tx) ->
              tx <> Types.CInt -> tx <> Types.CBool ->
              exists v n, get_cell st c = Some v /\ ref_is_nil v = Some n /\ (tx = Types.CNil -> n = true)).
    { intros c tx Hc Ni Nb. destruct tx; try congruence; simpl in Hc.
      - destruct (cell_ref R genv _ _ _ _ Hs Hc) as [v [n [G Rn]]]; [left; eauto|].
        exists v, n. repeat split; auto. discriminate.
      - destruct (cell_ref R genv _ _ _ _ Hs Hc) as [v [n [G Rn]]]; [right; left; eauto|].
        exists v, n. repeat split; auto. discriminate.
      - destruct (cell_ref R genv _ _ _ _ Hs Hc) as [v [n [G Rn]]]; [right; right; eauto|].
        exists v, n. repeat split; auto. discriminate.
      - exists (Eval.CRec None), true. split; [eapply cell_fresh_rec; eauto|]. auto. }
    assert (Na : ta <> Types.CInt /\ ta <> Types.CBool /\ tb <> Types.CInt /\ tb <> Types.CBool).
    { destruct ta, tb; simpl in Ec; try discriminate Ec; destruct Hnil as [E|E]; try discriminate E;
        repeat split; discriminate. }
    destruct Na as [Na1 [Na2 [Nb1 Nb2]]].
    destruct (Href c1 ta H1 Na1 Na2) as [v1 [n1 [G1 [R1 T1]]]].
    destruct (Href c2 tb H2 Nb1 Nb2) as [v2 [n2 [G2 [R2 T2]]]].
    assert (Hn : n1 || n2 = true).
    { destruct Hnil as [E|E]; [rewrite (T1 E)|rewrite (T2 E)]; auto using orb_true_r. }
    destruct (binop_result_ref op c1 c2 st v1 v2 n1 n2 G1 G2 R1 R2 Hn Eo) as [b Eb].
    rewrite Eb in Hev. eapply good_fresh; eauto. constructor.
Qed.

(* ---- the three statements, by fuel ------------------------------------------------------------ *)

Definition eval_safe (k : nat) : Prop :=
  forall G e t kk t' env st S r st',
    HasType R G e (t, kk) -> ready_expr e = true -> accepts t' t = true ->
    env_ok S G env -> st_ok S st ->
    eval genv k env st e = (r, st') ->
    good S st t' (t = Types.CNil -> nilish e = true) r st'.

(* `inrun` only matters for the typing of a function item; the evaluator takes a whole run of
   function items in one step, so it never starts in the middle of one *)
Definition items_safe (k : nat) : Prop :=
  forall G inrun lastb items t kk t' env st S lastc r st',
    ItemsOk R G inrun lastb items (t, kk) -> ready_items items = true ->
    (inrun = true -> run_funcs items = []) ->
    accepts t' t = true -> env_ok S G env -> st_ok S st ->
    (items = [] -> exists c, lastc = Some c /\ nth_error S c = Some t') ->
    eval_items genv k env st items lastc = (r, st') ->
    good S st t' (t = Types.CNil -> items <> [] -> nilish_items items = true) r st'.

Definition handlers_safe (k : nat) : Prop :=
  forall G ret cs call env st S ex r st',
    CatchesOk R G ret cs -> CallOk R G ret call ->
    forallb (fun c => ready_items (snd c)) cs = true ->
    match call with None => true | Some b => ready_items b end = true ->
    env_ok S G env -> st_ok S st ->
    handlers genv k env st ex cs call = (r, st') ->
    good S st (cty_of ret) True r st'.

(* ---- argument lists --------------------------------------------------------------------------- *)

Lemma args_safe : forall k, eval_safe k ->
  forall G args targs, HasTypes R G args targs ->
  forall tgts env st S ocs r st',
    forallb ready_expr args = true ->
    Forall2 (fun t' (b : binding) => accepts t' (fst b) = true) tgts targs ->
    env_ok S G env -> st_ok S st ->
    eval_args genv k env args st = ((ocs, r), st') ->
    exists S', ext S st S' st' /\ st_ok S' st' /\
      match ocs with
      | Some cs => typed_cells S' cs tgts
      | None => r <> RStuck /\ forall c, r <> ROk c
      end.
Proof.
  intros k IHe G args targs HT. induction HT as [G|G a l b bs Ha Hl IH];
    intros tgts env st S ocs r st' Hr Hacc Henv Hst Hev.
  - unfold eval_args in Hev. rewrite eval_args_f_nil in Hev. inversion Hev; subst.
    exists S. split; [apply ext_refl|]. split; auto. inversion Hacc; subst. apply Forall2_nil.
  - unfold eval_args in Hev. rewrite eval_args_f_cons in Hev.
    fold (eval_args genv k env l st) in Hev.
    simpl in Hr. split_and. inversion Hacc as [|t1 b1 tgts' bs' Hacc1 Hacc2]; subst.
    destruct (eval_args genv k env l st) as [[ocs1 r1] st1] eqn:El.
    destruct (IH _ _ _ _ _ _ _ H0 Hacc2 Henv Hst El) as [S1 [X1 [Hs1 Hc1]]].
    destruct ocs1 as [cs|].
    + destruct (eval genv k env st1 a) as [ra sa] eqn:Ea.
      destruct b as [tb kb]. simpl in Hacc1.
      assert (Henv1 : env_ok S1 G env) by (eapply env_ok_ext; eauto).
      destruct (IHe _ _ _ _ _ _ _ _ _ _ Ha H Hacc1 Henv1 Hs1 Ea) as [Ns [S2 [X2 [Hs2 Hc2]]]].
      assert (X : ext S st S2 sa) by (eapply ext_trans; [exact X1|exact X2]).
      destruct ra; inversion Hev; subst; exists S2; (split; [exact X|]); (split; [exact Hs2|]).
      * pose proof (typed_cells_ext _ _ _ _ _ _ X2 Hc1) as Hc1'. unfold typed_cells in *.
        constructor; [apply (Hc2 c eq_refl)|exact Hc1'].
      * split; [discriminate|]. intros; discriminate.
      * split; [discriminate|]. intros; discriminate.
      * congruence.
    + inversion Hev; subst. exists S1. auto.
Qed.

(* ---- calls ------------------------------------------------------------------------------------ *)

Lemma call_safe : forall k, items_safe k -> handlers_safe k ->
  forall S st fd cenv Gf cs penv r st',
  st_ok S st -> env_ok S Gf cenv -> FunOk' R Gf fd -> ready_fdef fd = true ->
  Forall2 (fun c p => nth_error S c = Some (cty_of (snd p))) cs (fd_params fd) ->
  bind_params (fd_params fd) cs = Some penv ->
  call_body genv k (penv ++ cenv) st fd = (r, st') ->
  good S st (cty_of (fd_ret fd)) True r st'.
Proof.
  intros k IHi IHh S st fd cenv Gf cs penv r st' Hst Henv
         [G' [tb [kb [D [HC [HA [HB Hacc]]]]]]] Hr T B Hev.
  rewrite ready_fdef_eq in Hr. split_and.
  assert (He : env_ok S G' (penv ++ cenv)) by (eapply params_env_ok; eauto).
  unfold call_body in Hev.
  destruct (eval_items genv k (penv ++ cenv) st (fd_body fd) None) as [rb sb] eqn:Eb.
  assert (Hne : fd_body fd = [] -> exists c, (None : option nat) = Some c /\ nth_error S c = Some (cty_of (fd_ret fd))).
  { intros E. rewrite E in HB. inversion HB. }
  assert (Gb := IHi _ false _ _ _ _ _ _ _ _ _ _ _ HB H (fun E => ltac:(discriminate E)) Hacc
                    (env_ok_push _ _ _ _ He) Hst Hne Eb).
  destruct rb.
  - inversion Hev; subst. eapply good_weaken; eauto.
  - destruct Gb as [_ [S1 [X [Hs1 _]]]]. eapply good_trans; [exact X|].
    eapply IHh; eauto. eapply env_ok_ext; eauto.
  - inversion Hev; subst. eapply good_pass; eauto. intros; discriminate.
  - destruct Gb as [N _]. congruence.
Qed.

Lemma apply_safe : forall k, items_safe k -> handlers_safe k ->
  forall S st cf cs ps rt r st',
  st_ok S st -> nth_error S cf = Some (Types.CFun ps rt) -> typed_cells S cs (map snd ps) ->
  apply_fun genv k st cf cs = (r, st') ->
  good S st rt (rt <> Types.CNil) r st'.
Proof.
  intros k IHi IHh S st cf cs ps rt r st' Hst Hcf T Hev.
  destruct (cell_get _ _ _ _ _ _ Hst Hcf) as [v [Eg V]].
  apply val_fun in V. destruct V as [fd [cenv [Gf [-> [Eps [Ert [He [HF Hr]]]]]]]].
  unfold apply_fun in Hev. rewrite Eg in Hev. subst ps rt.
  rewrite map_map in T. apply typed_cells_map in T. simpl in T.
  destruct (bind_params_some (fd_params fd) cs) as [penv B].
  { eapply Forall2_length'; eauto. }
  rewrite B in Hev. eapply good_weaken; [eapply call_safe; eauto|].
  intros _. apply cty_of_nonnil.
Qed.

(* ---- handlers --------------------------------------------------------------------------------- *)

Lemma items_none_nonempty : forall G inrun items b,
  ItemsOk R G inrun None items b -> items = [] -> False.
Proof. intros G inrun items b H E. subst. inversion H. Qed.

Definition ff (P : Prop) (E : false = true) : P := match Bool.diff_false_true E with end.

(* a `{ ... }` body evaluated in the environment of the enclosing context *)
Lemma items_block : forall k, items_safe k ->
  forall G b th kh t' env st S r st',
    ItemsOk R ([] :: G) false None b (th, kh) -> ready_items b = true ->
    accepts t' th = true -> env_ok S G env -> st_ok S st ->
    eval_items genv k env st b None = (r, st') ->
    good S st t' (th = Types.CNil -> nilish_items b = true) r st'.
Proof.
  intros k IHi G b th kh t' env st S r st' HI Hr Hacc Henv Hst Hev.
  assert (Hx : b = [] -> exists c, (None : option nat) = Some c /\ nth_error S c = Some t')
    by (intros E; exfalso; eapply items_none_nonempty; eauto).
  eapply good_weaken;
    [exact (IHi ([] :: G) false None b th kh t' env st S None r st'
                HI Hr (ff _) Hacc (env_ok_push _ _ _ _ Henv) Hst Hx Hev)|].
  intros Hn E. apply Hn; auto. intros E'. eapply items_none_nonempty; eauto.
Qed.

Lemma handlers_step : forall k, items_safe k -> handlers_safe k -> handlers_safe (S k).
Proof.
  intros k IHi IHh G ret cs call env st S ex r st' HC HA Hrc Hra Henv Hst Hev.
  destruct cs as [|[ex' body] t].
  - rewrite handlers_nil in Hev. destruct call as [b|].
    + inversion HA; subst.
      eapply good_weaken; [eapply items_block; eauto|auto].
    + inversion Hev; subst. apply good_here; auto; [discriminate|intros; discriminate].
  - rewrite handlers_cons in Hev. inversion HC; subst. simpl in Hrc. split_and.
    destruct (exn_eqb ex ex').
    + destruct (eval_items genv k env st body None) as [rb sb] eqn:Eb.
      assert (Gb : good S st (cty_of ret) True rb sb).
      { eapply good_weaken; [eapply items_block; eauto|auto]. }
      destruct rb; try (inversion Hev; subst; exact Gb).
      destruct Gb as [_ [S1 [X [Hs1 _]]]]. eapply good_trans; [exact X|].
      eapply IHh; eauto. eapply env_ok_ext; eauto.
    + eapply IHh; eauto.
Qed.

(* ---- items ------------------------------------------------------------------------------------ *)

Lemma nilish_items_tail : forall i rest, rest <> [] -> nilish_items (i :: rest) = nilish_items rest.
Proof. intros i [|j rest] H; [congruence|]. apply nilish_items_cons. Qed.

Lemma not_run : forall (items : list item), false = true -> run_funcs items = [].
Proof. intros items E. discriminate. Qed.

(* the items after a binding item *)
Lemma items_rest : forall k, items_safe k ->
  forall G inrun rest t kk t' env st S c r st' i,
    ItemsOk R G inrun None rest (t, kk) -> ready_items rest = true ->
    (inrun = true -> run_funcs rest = []) ->
    accepts t' t = true -> env_ok S G env -> st_ok S st ->
    eval_items genv k env st rest (Some c) = (r, st') ->
    good S st t' (t = Types.CNil -> i :: rest <> [] -> nilish_items (i :: rest) = true) r st'.
Proof.
  intros k IHi G inrun rest t kk t' env st S c r st' i HI Hr Hrun Hacc Henv Hst Hev.
  assert (Hx : rest = [] -> exists c', Some c = Some c' /\ nth_error S c' = Some t')
    by (intros E; exfalso; eapply items_none_nonempty; eauto).
  eapply good_weaken;
    [exact (IHi G inrun None rest t kk t' env st S (Some c) r st' HI Hr Hrun Hacc Henv Hst Hx Hev)|].
  intros Hn E _.
  assert (Hne : rest <> []) by (intros E'; eapply items_none_nonempty; eauto).
  rewrite nilish_items_tail by exact Hne. apply Hn; auto.
Qed.

Ltac pass_nonok Hev Ga :=
  try (inversion Hev; subst; eapply good_pass; [exact Ga|intros; discriminate]).

(* the function items of a run are all checked in the context that declares the run *)
Lemma items_run_inv : forall G l b, ItemsOk R G true None l b ->
  Forall (FunOk R G false) (run_funcs l) /\ ItemsOk R G true None (run_rest l) b.
Proof.
  intros G l. induction l as [|i l IH]; intros b H; [simpl; auto|].
  destruct i; try (simpl; auto; fail).
  inversion H; subst.
  match goal with HD : Ok G = Ok _ |- _ => inversion HD; subst end.
  match goal with HL : ItemsOk _ _ true None l _ |- _ => destruct (IH _ HL) end.
  simpl. auto.
Qed.

(* binding a run of function items: one new cell per function, typed at its signature; the
   closures are typed in the extended store typing since they see each other's cells *)
Lemma run_bind_ok : forall S st G G1 env fds,
  st_ok S st -> env_ok S G env ->
  declare_all (map (fun f => (fd_name f, fd_cty f)) fds) G = Ok G1 ->
  Forall (FunOk R G1 false) fds -> Forall (fun f => ready_fdef f = true) fds ->
  st_ok (S ++ map fd_cty fds) (run_state fds env st) /\
  ext S st (S ++ map fd_cty fds) (run_state fds env st) /\
  env_ok (S ++ map fd_cty fds) G1 (run_env fds env st).
Proof.
  intros S st G G1 env fds Hst Henv HD HF Hr.
  set (S' := S ++ map fd_cty fds). set (e' := run_env fds env st).
  pose proof (proj1 Hst) as HL.
  assert (ND : NoDup (map fd_name fds)).
  { pose proof (declare_all_nodup _ _ _ HD) as N. rewrite map_map in N. exact N. }
  assert (He' : env_ok S' G1 e').
  { intros y ty ky L. rewrite (declare_all_lookup_gen _ _ _ HD y) in L.
    destruct (assoc y (map (fun f => (fd_name f, fd_cty f)) fds)) as [t0|] eqn:Ea.
    - inversion L; subst. destruct (assoc_funcs_some _ _ _ Ea) as [i [f [Hi [Hn Ht]]]].
      exists (length (cells st) + i). split.
      + unfold lookup_var, e', run_env. subst y. rewrite (func_env_nth fds _ env i f Hi); [reflexivity|].
        intros j g Hij Hj E. assert (i = j) by (eapply nodup_names_nth; eauto). lia.
      + unfold S'. rewrite nth_error_app2 by lia.
        replace (length (cells st) + i - length S) with i by lia.
        rewrite nth_error_map, Hi. simpl. congruence.
    - destruct (Henv y ty ky L) as [c [L1 L2]]. exists c. split.
      + unfold lookup_var in *. unfold e', run_env. rewrite func_env_other; [exact L1|].
        apply assoc_funcs_none; auto.
      + unfold S'. rewrite nth_error_app1; auto. apply nth_error_Some. congruence. }
  assert (V : forall l, Forall (FunOk R G1 false) l -> Forall (fun f => ready_fdef f = true) l ->
            (forall f, In f l -> In f fds) ->
            Forall2 (val_ok S' st) (map (fun f => Eval.CFun f e') l) (map fd_cty l)).
  { clear HF Hr. induction l as [|f l IH]; intros HF Hr Hin; simpl; constructor.
    - inversion HF; inversion Hr; subst.
      apply V_fun with (Gf := [(fd_name f, (fd_cty f, KTemp))] :: G1).
      + intros y ty ky L. simpl in L. destruct (N.eqb y (fd_name f)) eqn:E.
        * inversion L; subst. apply N.eqb_eq in E. subst y.
          apply (He' (fd_name f) (fd_cty f) KTemp). eapply declare_all_in; eauto.
          apply (in_map (fun f => (fd_name f, fd_cty f))). apply Hin. simpl. auto.
        * apply (He' _ _ _ L).
      + apply (FunOk_FunOk' R G1 false f). assumption.
      + assumption.
    - inversion HF; inversion Hr; subst. apply IH; auto. intros g Hg. apply Hin. simpl. auto. }
  destruct (add_cells_ok R genv S st _ _ Hst (V fds HF Hr (fun f H => H))) as [Hs' X'].
  split; [exact Hs'|]. split; [exact X'|exact He'].
Qed.

Lemma items_step : forall k, eval_safe k -> items_safe k -> items_safe (S k).
Proof.
  intros k IHe IHi G inrun lastb items t kk t' env st S lastc r st' HI Hr Hrun Hacc Henv Hst Hlast Hev.
  destruct items as [|i rest].
  - rewrite eval_items_nil in Hev. destruct (Hlast eq_refl) as [c [-> Hc]]. inversion Hev; subst.
    apply good_here; [exact Hst|discriminate|]. intros c' E. inversion E; subst. split; [exact Hc|].
    intros _ N. congruence.
  - rewrite ready_items_cons in Hr. apply andb_true_iff in Hr. destruct Hr as [Hri Hrr].
    inversion HI; subst.
    + (* let *)
      rewrite eval_items_ILet in Hev.
      apply andb_true_iff in Hri. destruct Hri as [Hre Hnn].
      destruct (eval genv k env st e) as [ra sa] eqn:Ea.
      match goal with HT : HasType _ _ e (?t0, _) |- _ =>
        assert (Ga := IHe _ _ _ _ (dflt t0) _ _ _ _ _ HT Hre (accepts_dflt _) Henv Hst Ea);
        assert (Nn : good S st (dflt t0) (t0 <> Types.CNil) ra sa)
      end.
      { eapply good_weaken; [exact Ga|]. intros Hn E. apply Hn in E. rewrite E in Hnn. discriminate. }
      clear Ga. destruct ra; pass_nonok Hev Nn.
      destruct Nn as [_ [S1 [X [Hs1 Hc]]]]. destruct (Hc c eq_refl) as [Hc1 Hn].
      rewrite dflt_nonnil in Hc1 by auto.
      eapply good_trans; [exact X|].
      assert (He1 : env_ok S1 G' ((x, c) :: env)).
      { eapply env_ok_declare; eauto. eapply env_ok_ext; eauto. }
      eapply items_rest; eauto using not_run.
    + (* var *)
      rewrite eval_items_IVar in Hev.
      apply andb_true_iff in Hri. destruct Hri as [Hre Hnn].
      destruct (eval genv k env st e) as [ra sa] eqn:Ea.
      match goal with HT : HasType _ _ e (?t0, _) |- _ =>
        assert (Ga := IHe _ _ _ _ (dflt t0) _ _ _ _ _ HT Hre (accepts_dflt _) Henv Hst Ea);
        assert (Nn : good S st (dflt t0) (t0 <> Types.CNil) ra sa)
      end.
      { eapply good_weaken; [exact Ga|]. intros Hn E. apply Hn in E. rewrite E in Hnn. discriminate. }
      clear Ga. destruct ra; pass_nonok Hev Nn.
      destruct Nn as [_ [S1 [X [Hs1 Hc]]]]. destruct (Hc c eq_refl) as [Hc1 Hn].
      rewrite dflt_nonnil in Hc1 by auto.
      eapply good_trans; [exact X|].
      assert (He1 : env_ok S1 G' ((x, c) :: env)).
      { eapply env_ok_declare; eauto. eapply env_ok_ext; eauto. }
      eapply items_rest; eauto using not_run.
    + (* a run of function items: declared together in G1, bound together *)
      assert (Ein : inrun = false).
      { destruct inrun; auto. specialize (Hrun eq_refl). discriminate. }
      subst inrun.
      match goal with HD : declare_all _ G = Ok G1 |- _ => rename HD into HD' end.
      rewrite eval_items_IFunc in Hev.
      match goal with HL : ItemsOk _ G1 true None rest _ |- _ =>
        destruct (items_run_inv _ _ _ HL) as [HFs HIr] end.
      destruct (ready_items_run _ Hrr) as [Hrfs Hrrest].
      rewrite run_sigs_funcs in HD'. change (run_funcs (IFunc fd :: rest)) with (fd :: run_funcs rest) in HD'.
      destruct (run_bind_ok S st G G1 env (fd :: run_funcs rest) Hst Henv HD')
        as [Hs' [X' He']]; [constructor; assumption|constructor; assumption|].
      eapply good_trans; [exact X'|].
      assert (Hne : run_rest rest <> []) by (intros E'; eapply items_none_nonempty; eauto).
      match type of Hev with eval_items _ _ _ _ _ (Some ?cl) = _ =>
        assert (Hx : run_rest rest = [] -> exists c', Some cl = Some c' /\
                       nth_error (S ++ map fd_cty (fd :: run_funcs rest)) c' = Some t')
          by (intros E; congruence);
        eapply good_weaken;
          [exact (IHi G1 true None (run_rest rest) t kk t' _ _ _ (Some cl) r st'
                      HIr Hrrest (fun _ => run_funcs_rest rest) Hacc He' Hs' Hx Hev)|]
      end.
      intros Hn E _. rewrite (nilish_items_run (IFunc fd :: rest)) by exact Hne.
      apply Hn; auto.
    + (* expr *)
      rewrite eval_items_IExpr in Hev. destruct b' as [tb' kb'].
      destruct (eval genv k env st e) as [ra sa] eqn:Ea.
      destruct rest as [|j rest'].
      * match goal with HL : ItemsOk _ _ _ _ [] _ |- _ => inversion HL; subst end.
        match goal with HT : HasType _ _ e _ |- _ =>
          assert (Ga := IHe _ _ _ _ t' _ _ _ _ _ HT Hri Hacc Henv Hst Ea) end.
        destruct ra; pass_nonok Hev Ga.
        destruct Ga as [_ [S1 [X [Hs1 Hc]]]]. destruct (Hc c eq_refl) as [Hc1 Hn].
        eapply good_trans; [exact X|].
        assert (Hx : @nil item = [] -> exists c', Some c = Some c' /\ nth_error S1 c' = Some t') by eauto.
        eapply good_weaken;
          [exact (IHi G false (Some (t, kk)) [] t kk t' env sa S1 (Some c) r st'
                      (I_end R G false (t, kk)) eq_refl (not_run _) Hacc
                      (env_ok_ext _ _ _ _ _ _ _ X Henv) Hs1 Hx Hev)|].
        intros _ E _. rewrite nilish_items_one. auto.
      * match goal with HT : HasType _ _ e _ |- _ =>
          assert (Ga := IHe _ _ _ _ (dflt tb') _ _ _ _ _ HT Hri (accepts_dflt _) Henv Hst Ea) end.
        destruct ra; pass_nonok Hev Ga.
        destruct Ga as [_ [S1 [X [Hs1 Hc]]]].
        eapply good_trans; [exact X|].
        assert (Hx : j :: rest' = [] -> exists c', Some c = Some c' /\ nth_error S1 c' = Some t')
          by discriminate.
        match goal with HL : ItemsOk _ _ _ _ (j :: rest') _ |- _ =>
        eapply good_weaken;
          [exact (IHi G false (Some (tb', kb')) (j :: rest') t kk t' env sa S1 (Some c) r st'
                      HL Hrr (not_run _) Hacc (env_ok_ext _ _ _ _ _ _ _ X Henv) Hs1 Hx Hev)|] end.
        intros Hn' E _. rewrite nilish_items_cons. apply Hn'; auto. discriminate.
Qed.

(* ---- expressions ------------------------------------------------------------------------------ *)

Lemma good_weaken2 : forall S st t1 (P : Prop) r st' t2 (Q : Prop),
  good S st t1 P r st' -> (P -> t1 = t2 /\ Q) -> good S st t2 Q r st'.
Proof.
  intros S st t1 P r st' t2 Q [N [S' [X' [Hs Hc]]]] PQ. split; auto.
  exists S'. split; [|split]; auto. intros c E. destruct (Hc c E) as [H1 H2].
  destruct (PQ H2) as [<- HQ]. auto.
Qed.

Lemma binop_type_nonnil : forall op a b t, binop_type op a b = Some t -> t <> Types.CNil.
Proof.
  intros op a b t H. destruct op; simpl in H;
    match type of H with (if ?c then _ else _) = _ => destruct c end; inversion H; discriminate.
Qed.

Lemma Forall2_nth_r : forall A B (P : A -> B -> Prop) l m i y,
  Forall2 P l m -> nth_error m i = Some y -> exists x, nth_error l i = Some x /\ P x y.
Proof.
  intros A B P l m i y H. revert i. induction H; intros [|i] E; simpl in E; try discriminate.
  - inversion E; subst. exists x. auto.
  - apply IHForall2 in E. exact E.
Qed.

Ltac sub IHe a tgt Hacc' c S1 X Hs1 Hc1 Hn1 :=
  let ra := fresh "ra" in let sa := fresh "sa" in let Ea := fresh "Ea" in
  let Ga := fresh "Ga" in let Hc := fresh "Hc" in
  match goal with
  | Hev : context [eval ?genv ?k ?env ?st a], HT : HasType _ _ a _, Hra : ready_expr a = true,
    Henv : TypeSafetyBase.env_ok _ ?S _ ?env, Hst : TypeSafetyBase.st_ok _ _ ?S ?st |- _ =>
    destruct (eval genv k env st a) as [ra sa] eqn:Ea;
    assert (Ga := IHe _ _ _ _ tgt _ _ _ _ _ HT Hra Hacc' Henv Hst Ea);
    destruct ra as [c| | |]; pass_nonok Hev Ga;
    destruct Ga as [_ [S1 [X [Hs1 Hc]]]]; destruct (Hc c eq_refl) as [Hc1 Hn1]; clear Hc;
    (eapply good_trans; [exact X|]);
    pose proof (env_ok_ext _ _ _ _ _ _ _ X Henv)
  end.

Ltac tgt_is Hacc t' := apply accepts_nonnil in Hacc; [subst t'|try discriminate].

(* ---- for-in loops ------------------------------------------------------------------------------ *)

(* the body evaluator is safe whenever the loop variable is bound to a cell of type tx, in any
   store reached from (S0, st0) *)
Definition body_safe (ev : nat -> state -> Eval.res * state) (tx : cty) (S0 : styping) (st0 : state)
  : Prop :=
  forall c S st r st', ext S0 st0 S st -> st_ok S st -> nth_error S c = Some tx ->
    ev c st = (r, st') -> r <> RStuck /\ exists S', ext S st S' st' /\ st_ok S' st'.

Definition src_ok (S : styping) (tx : cty) (s : lsrc) : Prop :=
  match s with
  | LUp _ _ | LDown _ _ => tx = Types.CInt
  | LArr ca _ => nth_error S ca = Some (Types.CArr tx)
  end.

Lemma src_ok_ext : forall S st S' st' tx s, ext S st S' st' -> src_ok S tx s -> src_ok S' tx s.
Proof. intros S st S' st' tx [z zb|z zb|ca i] [H _] Hs; simpl in *; auto. Qed.

(* one step of the loop source: done, a nil-array fault, or a typed cell for the loop variable *)
Lemma forin_step_safe : forall S st tx s, st_ok S st -> src_ok S tx s ->
  match forin_step st s with
  | LsDone => True
  | LsFault r => exists ex, r = RExc ex
  | LsBind c st1 s' =>
    exists S1, ext S st S1 st1 /\ st_ok S1 st1 /\ nth_error S1 c = Some tx /\ src_ok S1 tx s'
  end.
Proof.
  intros S st tx s Hs Hsrc. destruct s as [z zb|z zb|ca i]; cbn [forin_step]; simpl in Hsrc.
  - subst tx. destruct (z <=? zb)%Z; [|exact I].
    destruct (alloc_ok R genv S st (Eval.CInt z) Types.CInt Hs (V_int _ _ _ _ z)) as [H1 [H2 H3]].
    destruct (alloc st (Eval.CInt z)) as [c st1]. simpl in *.
    exists (S ++ [Types.CInt]). auto.
  - subst tx. destruct (zb <=? z)%Z; [|exact I].
    destruct (alloc_ok R genv S st (Eval.CInt z) Types.CInt Hs (V_int _ _ _ _ z)) as [H1 [H2 H3]].
    destruct (alloc st (Eval.CInt z)) as [c st1]. simpl in *.
    exists (S ++ [Types.CInt]). auto.
  - destruct (cell_get _ _ _ _ _ _ Hs Hsrc) as [v [Eg V]]. rewrite Eg.
    destruct (val_arr _ _ _ _ _ _ V) as [->|[a [elems [-> [Ea Fa]]]]]; [eauto|].
    rewrite Ea. destruct (nth_error elems i) as [c|] eqn:Ec; [|exact I].
    exists S. split; [apply ext_refl|]. split; [exact Hs|]. split; [|exact Hsrc].
    rewrite Forall_forall in Fa. apply Fa. eapply nth_error_In; eauto.
Qed.

Lemma forin_loop_safe : forall ev tx S0 st0, body_safe ev tx S0 st0 ->
  forall n s S st r st', ext S0 st0 S st -> st_ok S st -> src_ok S tx s ->
  forin_loop ev n s st = (r, st') -> good S st Types.CInt True r st'.
Proof.
  intros ev tx S0 st0 Hb. induction n as [|n IH]; intros s S st r st' X0 Hs Hsrc Hev.
  - rewrite forin_loop_O in Hev. inversion Hev; subst.
    apply good_here; [exact Hs|discriminate|intros; discriminate].
  - rewrite forin_loop_S in Hev. pose proof (forin_step_safe S st tx s Hs Hsrc) as Hst.
    destruct (forin_step st s) as [|rf|c st1 s'].
    + refine (good_fresh _ _ _ _ _ _ _ Hs _ I Hev). constructor.
    + inversion Hev; subst. destruct Hst as [ex ->].
      apply good_here; [exact Hs|discriminate|intros; discriminate].
    + destruct Hst as [S1 [X1 [Hs1 [Hc1 Hsrc1]]]].
      eapply good_trans; [exact X1|].
      destruct (ev c st1) as [r2 s2] eqn:E2.
      destruct (Hb c S1 st1 r2 s2 (ext_trans _ _ _ _ _ _ X0 X1) Hs1 Hc1 E2) as [N2 [S2 [X2 Hs2]]].
      destruct r2 as [c2| | |].
      * eapply good_trans; [exact X2|].
        apply (IH s' S2 s2 r st'); auto.
        -- eapply ext_trans; [exact X0|]. eapply ext_trans; eauto.
        -- eapply src_ok_ext; eauto.
      * inversion Hev; subst. eapply good_step; eauto. intros; discriminate.
      * inversion Hev; subst. eapply good_step; eauto. intros; discriminate.
      * congruence.
Qed.

Lemma env_ok_loopvar : forall S G env x t k c, env_ok S G env -> nth_error S c = Some t ->
  env_ok S ([(x, (t, k))] :: G) ((x, c) :: env).
Proof.
  intros S G env x t k c He Hc.
  apply (env_ok_declare genv S ([] :: G) ([(x, (t, k))] :: G) env x t k c);
    [apply env_ok_push; exact He|reflexivity|exact Hc].
Qed.

Lemma eval_step : forall k, eval_safe k -> items_safe k -> handlers_safe k -> eval_safe (S k).
Proof.
  intros k IHe IHi IHh G e t kk t' env st S r st' HT Hr Hacc Henv Hst Hev.
  pose proof Hr as Hr0.
  destruct e as [z|b|x|a|a|a|op a b|c a b|c a|lhs rhs|f args|items|c body|body c
                 |init cond incr body|x a b body|x arr body|fd|es ety|a i|rn args|rn|a rn fld|a];
    inversion HT; subst.
  - (* int *) rewrite eval_EInt in Hev. tgt_is Hacc t'.
    refine (good_fresh _ _ _ _ _ _ _ Hst _ _ Hev); [constructor|intros; discriminate].
  - (* bool *) rewrite eval_EBool in Hev. tgt_is Hacc t'.
    refine (good_fresh _ _ _ _ _ _ _ Hst _ _ Hev); [constructor|intros; discriminate].
  - (* var *) rewrite eval_EVar in Hev.
    match goal with L : Types.lookup x G = Some _ |- _ => destruct (Henv _ _ _ L) as [c [Lc Hc]] end.
    rewrite Lc in Hev. inversion Hev; subst.
    assert (Nn : t <> Types.CNil) by (eapply cell_nonnil; eauto).
    apply accepts_nonnil in Hacc; auto; subst t'.
    apply good_here; [exact Hst|discriminate|].
    intros c' E; inversion E; subst; split; [exact Hc|intros; congruence].
  - (* neg *) rewrite eval_ENeg in Hev. tgt_is Hacc t'. simpl in Hr.
    sub IHe a Types.CInt (eq_refl : accepts Types.CInt Types.CInt = true) c1 S1 X1 Hs1 Hc1 Hn1.
    destruct (cell_int _ _ _ _ _ Hs1 Hc1) as [z Ez]. rewrite Ez in Hev.
    refine (good_fresh _ _ _ _ _ _ _ Hs1 _ _ Hev); [constructor|intros; discriminate].
  - (* not *) rewrite eval_ENot in Hev. tgt_is Hacc t'. simpl in Hr.
    sub IHe a Types.CBool (eq_refl : accepts Types.CBool Types.CBool = true) c1 S1 X1 Hs1 Hc1 Hn1.
    destruct (cell_bool _ _ _ _ _ Hs1 Hc1) as [z Ez]. rewrite Ez in Hev.
    refine (good_fresh _ _ _ _ _ _ _ Hs1 _ _ Hev); [constructor|intros; discriminate].
  - (* bnot *) rewrite eval_EBNot in Hev. tgt_is Hacc t'. simpl in Hr.
    sub IHe a Types.CInt (eq_refl : accepts Types.CInt Types.CInt = true) c1 S1 X1 Hs1 Hc1 Hn1.
    destruct (cell_int _ _ _ _ _ Hs1 Hc1) as [z Ez]. rewrite Ez in Hev.
    refine (good_fresh _ _ _ _ _ _ _ Hs1 _ _ Hev); [constructor|intros; discriminate].
  - (* bin *)
    simpl in Hr. split_and.
    match goal with Hb : binop_type op ?ta ?tb = Some t |- _ =>
      rename Hb into Hbt; pose proof (binop_type_nonnil _ _ _ _ Hbt) as Nn end.
    apply accepts_nonnil in Hacc; auto; subst t'.
    destruct (binop_cases op) as [-> | [-> | [NA NO]]].
    + (* and *)
      simpl in Hbt. destruct (is_bool ta) eqn:E1; [|discriminate]. destruct (is_bool tb) eqn:E2; [|discriminate].
      apply is_bool_eq in E1. apply is_bool_eq in E2. simpl in Hbt. inversion Hbt; subst.
      rewrite eval_EAnd in Hev.
      sub IHe a Types.CBool (eq_refl : accepts Types.CBool Types.CBool = true) c1 S1 X1 Hs1 Hc1 Hn1.
      destruct (cell_bool _ _ _ _ _ Hs1 Hc1) as [b1 Ez]. rewrite Ez in Hev. destruct b1.
      * sub IHe b Types.CBool (eq_refl : accepts Types.CBool Types.CBool = true) c2 S2 X2 Hs2 Hc2 Hn2.
        destruct (cell_bool _ _ _ _ _ Hs2 Hc2) as [b2 Ez2]. rewrite Ez2 in Hev.
        refine (good_fresh _ _ _ _ _ _ _ Hs2 _ _ Hev); [constructor|intros; discriminate].
      * refine (good_fresh _ _ _ _ _ _ _ Hs1 _ _ Hev); [constructor|intros; discriminate].
    + (* or *)
      simpl in Hbt. destruct (is_bool ta) eqn:E1; [|discriminate]. destruct (is_bool tb) eqn:E2; [|discriminate].
      apply is_bool_eq in E1. apply is_bool_eq in E2. simpl in Hbt. inversion Hbt; subst.
      rewrite eval_EOr in Hev.
      sub IHe a Types.CBool (eq_refl : accepts Types.CBool Types.CBool = true) c1 S1 X1 Hs1 Hc1 Hn1.
      destruct (cell_bool _ _ _ _ _ Hs1 Hc1) as [b1 Ez]. rewrite Ez in Hev. destruct b1.
      * refine (good_fresh _ _ _ _ _ _ _ Hs1 _ _ Hev); [constructor|intros; discriminate].
      * sub IHe b Types.CBool (eq_refl : accepts Types.CBool Types.CBool = true) c2 S2 X2 Hs2 Hc2 Hn2.
        destruct (cell_bool _ _ _ _ _ Hs2 Hc2) as [b2 Ez2]. rewrite Ez2 in Hev.
        refine (good_fresh _ _ _ _ _ _ _ Hs2 _ _ Hev); [constructor|intros; discriminate].
    + rewrite eval_EBin in Hev by auto.
      sub IHe a (ntgt R ta) (accepts_ntgt R ta) c1 S1 X1 Hs1 Hc1 Hn1.
      sub IHe b (ntgt R tb) (accepts_ntgt R tb) c2 S2 X2 Hs2 Hc2 Hn2.
      eapply good_weaken;
        [exact (binop_safe S2 sa0 op c1 c2 ta tb t r st' Hs2 (proj1 X2 _ _ Hc1) Hc2 Hbt NA NO Hev)|].
      intros _ E. congruence.
  - (* cond *)
    simpl in Hr. split_and. rewrite eval_ECond in Hev.
    match goal with Hm : merge _ _ = true |- _ => destruct (merge_inv _ _ Hm) as [Nn ->] end.
    sub IHe c Types.CBool (eq_refl : accepts Types.CBool Types.CBool = true) c1 S1 X1 Hs1 Hc1 Hn1.
    destruct (cell_bool _ _ _ _ _ Hs1 Hc1) as [b1 Ez]. rewrite Ez in Hev. destruct b1.
    + eapply good_weaken; [eapply (IHe _ a _ _ t'); eauto|]. intros; congruence.
    + eapply good_weaken; [eapply (IHe _ b _ _ t'); eauto|]. intros; congruence.
  - (* if *)
    simpl in Hr. split_and. rewrite eval_EIf in Hev.
    match goal with Hm : merge _ _ = true |- _ => destruct (merge_inv _ _ Hm) as [Nn E0] end.
    subst t. tgt_is Hacc t'.
    sub IHe c Types.CBool (eq_refl : accepts Types.CBool Types.CBool = true) c1 S1 X1 Hs1 Hc1 Hn1.
    destruct (cell_bool _ _ _ _ _ Hs1 Hc1) as [b1 Ez]. rewrite Ez in Hev. destruct b1.
    + eapply good_weaken; [eapply (IHe _ a _ _ Types.CInt); eauto|]. intros; discriminate.
    + refine (good_fresh _ _ _ _ _ _ _ Hs1 _ _ Hev); [constructor|intros; discriminate].
  - (* assign *)
    simpl in Hr. split_and. rewrite eval_EAssign in Hev.
    match goal with Ha : accepts t ?tr = true |- _ =>
      rename Ha into Hlr; pose proof (accepts_left_nonnil _ _ Hlr) as Nl end.
    apply accepts_nonnil in Hacc; auto; subst t'.
    sub IHe lhs t (accepts_refl t Nl) cl S1 X1 Hs1 Hc1 Hn1.
    sub IHe rhs t Hlr cr S2 X2 Hs2 Hc2 Hn2.
    destruct (cell_get _ _ _ _ _ _ Hs2 Hc2) as [v [Eg V]]. rewrite Eg in Hev. inversion Hev; subst.
    destruct (set_cell_ok R genv S2 sa0 cl v t Hs2 (proj1 X2 _ _ Hc1) V) as [Hs3 X3].
    eapply good_step; [exact Hs3|exact X3|discriminate|].
    intros c E; inversion E; subst; split; [apply (proj1 X2); exact Hc1|intros; congruence].
  - (* call *)
    simpl in Hr. split_and. rewrite eval_ECall in Hev.
    destruct (eval_args genv k env args st) as [[ocs r1] s1] eqn:Eargs.
    match goal with HTs : HasTypes _ _ args ?targs, Ha : args_ok true ?ps ?targs = true,
                    Hra : forallb ready_expr args = true |- _ =>
      destruct (args_safe k IHe _ _ _ HTs (map snd ps) _ _ _ _ _ _ Hra
                          (args_ok_accepts _ _ _ Ha) Henv Hst Eargs) as [S1 [X1 [Hs1 Hcs]]] end.
    destruct ocs as [cs|].
    2:{ inversion Hev; subst. destruct Hcs as [N1 N2]. eapply good_step; eauto.
        intros c E. exfalso. eapply N2; eauto. }
    eapply good_trans; [exact X1|]. pose proof (env_ok_ext _ _ _ _ _ _ _ X1 Henv) as Henv1.
    match goal with HF : HasType _ _ f (Types.CFun ?ps ?rt, _) |- _ =>
      sub IHe f (Types.CFun ps rt) (accepts_refl (Types.CFun ps rt) ltac:(discriminate)) cf S2 X2 Hs2 Hc2 Hn2 end.
    pose proof (typed_cells_ext _ _ _ _ _ _ X2 Hcs) as Hcs2.
    pose proof (apply_safe k IHi IHh _ _ _ _ _ _ _ _ Hs2 Hc2 Hcs2 Hev) as Ga.
    eapply good_weaken2; [exact Ga|]. intros Nn. split; [|intros; congruence].
    symmetry. apply accepts_nonnil; auto.
  - (* block *)
    rewrite ready_EBlock in Hr. rewrite eval_EBlock in Hev.
    eapply good_weaken; [eapply items_block; eauto|]. intros Hn E. rewrite nilish_block. auto.
  - (* while *)
    simpl in Hr. split_and. rewrite eval_EWhile in Hev. tgt_is Hacc t'.
    sub IHe c Types.CBool (eq_refl : accepts Types.CBool Types.CBool = true) c1 S1 X1 Hs1 Hc1 Hn1.
    destruct (cell_bool _ _ _ _ _ Hs1 Hc1) as [b1 Ez]. rewrite Ez in Hev. destruct b1.
    + match goal with HB : HasType _ _ body ?tb |- _ => destruct tb as [tb kb] end.
      sub IHe body (dflt tb) (accepts_dflt tb) c2 S2 X2 Hs2 Hc2 Hn2.
      eapply good_weaken; [eapply (IHe _ (EWhile c body) _ _ Types.CInt); eauto|]. intros; discriminate.
    + refine (good_fresh _ _ _ _ _ _ _ Hs1 _ _ Hev); [constructor|intros; discriminate].
  - (* do-while *)
    simpl in Hr. split_and. rewrite eval_EDoWhile in Hev. tgt_is Hacc t'.
    match goal with HB : HasType _ _ body ?tb |- _ => destruct tb as [tb kb] end.
    sub IHe body (dflt tb) (accepts_dflt tb) c2 S2 X2 Hs2 Hc2 Hn2.
    sub IHe c Types.CBool (eq_refl : accepts Types.CBool Types.CBool = true) c1 S1 X1 Hs1 Hc1 Hn1.
    destruct (cell_bool _ _ _ _ _ Hs1 Hc1) as [b1 Ez]. rewrite Ez in Hev. destruct b1.
    + eapply good_weaken; [eapply (IHe _ (EDoWhile body c) _ _ Types.CInt); eauto|]. intros; discriminate.
    + refine (good_fresh _ _ _ _ _ _ _ Hs1 _ _ Hev); [constructor|intros; discriminate].
  - (* for *)
    simpl in Hr. split_and. rewrite eval_EFor in Hev. tgt_is Hacc t'.
    match goal with HB : HasType _ _ init ?tb |- _ => destruct tb as [ti ki] end.
    sub IHe init (dflt ti) (accepts_dflt ti) c1 S1 X1 Hs1 Hc1 Hn1.
    assert (HW : HasType R G (EWhile cond (EBlock [IExpr body; IExpr incr])) (Types.CInt, KConst)).
    { eapply T_While; [eassumption|]. apply T_Block.
      eapply I_expr; [apply HasType_push; eassumption|].
      eapply I_expr; [apply HasType_push; eassumption|]. apply I_end. }
    assert (HRW : ready_expr (EWhile cond (EBlock [IExpr body; IExpr incr])) = true).
    { simpl. repeat match goal with Hq : ready_expr _ = true |- _ => rewrite Hq; clear Hq end. reflexivity. }
    eapply good_weaken; [eapply (IHe _ _ _ _ Types.CInt _ _ _ _ _ HW HRW); eauto|]. intros; discriminate.
  - (* for-in over a range *)
    simpl in Hr. split_and. rewrite eval_EForInRange in Hev. tgt_is Hacc t'.
    sub IHe b Types.CInt (eq_refl : accepts Types.CInt Types.CInt = true) cb S1 X1 Hs1 Hc1 Hn1.
    sub IHe a Types.CInt (eq_refl : accepts Types.CInt Types.CInt = true) ca S2 X2 Hs2 Hc2 Hn2.
    destruct (cell_int _ _ _ _ _ Hs2 Hc2) as [za Eza]. rewrite Eza in Hev.
    destruct (cell_int _ _ _ _ _ Hs2 (proj1 X2 _ _ Hc1)) as [zb Ezb]. rewrite Ezb in Hev.
    match goal with HB : HasType _ (_ :: G) body ?tb |- _ => destruct tb as [tyb knb]; rename HB into HTB end.
    eapply good_weaken;
      [eapply (forin_loop_safe _ Types.CInt S2 sa0); [|apply ext_refl|exact Hs2| |exact Hev]|intros; discriminate].
    + intros c S' st0 r0 st0' X0 Hs0 Hc0 Hev0.
      assert (Gb := IHe _ body _ _ (dflt tyb) _ _ _ _ _ HTB ltac:(assumption) (accepts_dflt tyb)
                        (env_ok_loopvar _ _ _ x _ KConst _ (env_ok_ext _ _ _ _ _ _ _ X0 ltac:(eassumption)) Hc0)
                        Hs0 Hev0).
      destruct Gb as [N [S3 [X3 [Hs3 _]]]]. split; [exact N|]. exists S3. auto.
    + unfold range_src. destruct (za <? zb)%Z; reflexivity.
  - (* for-in over an array *)
    simpl in Hr. split_and. rewrite eval_EForInArr in Hev. tgt_is Hacc t'.
    match goal with HA : HasType _ G arr (Types.CArr ?e, ?ka) |- _ =>
      sub IHe arr (Types.CArr e) (accepts_refl (Types.CArr e) ltac:(discriminate)) ca S1 X1 Hs1 Hc1 Hn1 end.
    match goal with HB : HasType _ (_ :: G) body ?tb |- _ => destruct tb as [tyb knb]; rename HB into HTB end.
    eapply good_weaken;
      [eapply (forin_loop_safe _ e S1 sa); [|apply ext_refl|exact Hs1| |exact Hev]|intros; discriminate].
    + intros c S' st0 r0 st0' X0 Hs0 Hc0 Hev0.
      assert (Gb := IHe _ body _ _ (dflt tyb) _ _ _ _ _ HTB ltac:(assumption) (accepts_dflt tyb)
                        (env_ok_loopvar _ _ _ x _ ka _ (env_ok_ext _ _ _ _ _ _ _ X0 ltac:(eassumption)) Hc0)
                        Hs0 Hev0).
      destruct Gb as [N [S3 [X3 [Hs3 _]]]]. split; [exact N|]. exists S3. auto.
    + exact Hc1.
  - (* lambda *)
    simpl in Hr. rewrite eval_ELambda in Hev.
    apply accepts_nonnil in Hacc; [subst t'|unfold fd_cty, sig_cty; discriminate].
    refine (good_fresh _ _ _ _ _ _ _ Hst _ _ Hev).
    + apply V_fun with (Gf := [] :: G);
        [apply env_ok_push; exact Henv|apply (FunOk_FunOk' R G true fd); assumption|exact Hr].
    + unfold fd_cty, sig_cty; intros; discriminate.
  - (* array literal *)
    simpl in Hr. rewrite eval_EArrLit in Hev. tgt_is Hacc t'.
    destruct (eval_args genv k env es st) as [[ocs r1] s1] eqn:Eargs.
    match goal with HTs : HasTypes _ _ es ?tes, Ha : check_elems ety ?tes = true |- _ =>
      destruct (args_safe k IHe _ _ _ HTs (map (fun _ => cty_of ety) tes) _ _ _ _ _ _ Hr
                          (check_elems_accepts _ _ Ha) Henv Hst Eargs) as [S1 [X1 [Hs1 Hcs]]] end.
    destruct ocs as [cs|].
    2:{ inversion Hev; subst. destruct Hcs as [N1 N2]. eapply good_step; eauto.
        intros c E. exfalso. eapply N2; eauto. }
    eapply good_trans; [exact X1|].
    destruct (new_arr_ok R genv S1 s1 cs Hs1) as [Hs2 [X2 Hn]].
    destruct (new_arr s1 cs) as [ar s2] eqn:En. simpl in Hs2, X2, Hn.
    eapply good_trans; [exact X2|].
    refine (good_fresh _ _ _ _ _ _ _ Hs2 _ _ Hev); [|intros; discriminate].
    eapply V_arr; [exact Hn|]. eapply typed_cells_const; eauto.
  - (* index *)
    simpl in Hr. split_and. rewrite eval_EIndex in Hev.
    match goal with HA : HasType _ _ a (Types.CArr ?e0, _) |- _ =>
      sub IHe a (Types.CArr e0) (accepts_refl (Types.CArr e0) ltac:(discriminate)) ca S1 X1 Hs1 Hc1 Hn1 end.
    sub IHe i Types.CInt (eq_refl : accepts Types.CInt Types.CInt = true) ci S2 X2 Hs2 Hc2 Hn2.
    unfold index_result in Hev.
    destruct (cell_get _ _ _ _ _ _ Hs2 (proj1 X2 _ _ Hc1)) as [v [Eg V]].
    destruct (cell_int _ _ _ _ _ Hs2 Hc2) as [z Ez]. rewrite Eg, Ez in Hev.
    apply val_arr in V. destruct V as [->|[ar [elems [-> [Ha Hall]]]]].
    + inversion Hev; subst. apply good_here; [exact Hs2|discriminate|intros; discriminate].
    + rewrite Ha in Hev.
      destruct ((z <? 0)%Z || (Z.of_nat (length elems) <=? z)%Z) eqn:Eb.
      * inversion Hev; subst. apply good_here; [exact Hs2|discriminate|intros; discriminate].
      * apply orb_false_iff in Eb. destruct Eb as [Eb1 Eb2].
        apply Z.ltb_ge in Eb1. apply Z.leb_gt in Eb2.
        destruct (nth_error elems (Z.to_nat z)) as [c|] eqn:En.
        -- inversion Hev; subst.
           assert (Hc : nth_error S2 c = Some t).
           { rewrite Forall_forall in Hall. apply Hall. eapply nth_error_In; eauto. }
           assert (Nn : t <> Types.CNil) by (eapply cell_nonnil; eauto).
           apply accepts_nonnil in Hacc; auto; subst t'.
           apply good_here; [exact Hs2|discriminate|].
           intros c' E; inversion E; subst; split; [exact Hc|intros; congruence].
        -- apply nth_error_None in En. lia.
  - (* record constructor *)
    simpl in Hr. rewrite eval_ERecNew in Hev. tgt_is Hacc t'.
    destruct (eval_args genv k env args st) as [[ocs r1] s1] eqn:Eargs.
    match goal with HTs : HasTypes _ _ args ?targs, Ha : args_ok false _ ?targs = true |- _ =>
      pose proof (args_ok_accepts _ _ _ Ha) as Hacs; rewrite map_map in Hacs; simpl in Hacs;
      destruct (args_safe k IHe _ _ _ HTs _ _ _ _ _ _ _ Hr Hacs Henv Hst Eargs) as [S1 [X1 [Hs1 Hcs]]] end.
    destruct ocs as [cs|].
    2:{ inversion Hev; subst. destruct Hcs as [N1 N2]. eapply good_step; eauto.
        intros c E. exfalso. eapply N2; eauto. }
    eapply good_trans; [exact X1|].
    destruct (new_rec_ok R genv S1 s1 cs Hs1) as [Hs2 [X2 Hn]].
    destruct (new_rec s1 cs) as [o s2] eqn:En. simpl in Hs2, X2, Hn.
    eapply good_trans; [exact X2|].
    refine (good_fresh _ _ _ _ _ _ _ Hs2 _ _ Hev); [|intros; discriminate].
    eapply V_rec; eauto.
  - (* nil *)
    rewrite eval_ERecNil in Hev.
    destruct (accepts_inv _ _ Hacc) as [[_ [r' ->]]|[N _]]; [|congruence].
    refine (good_fresh _ _ _ _ _ _ _ Hst _ _ Hev); [constructor|reflexivity].
  - (* field *)
    simpl in Hr. rewrite eval_EField in Hev. tgt_is Hacc t'; [|apply cty_of_nonnil].
    sub IHe a (Types.CRec rn) (accepts_refl (Types.CRec rn) ltac:(discriminate)) ca S1 X1 Hs1 Hc1 Hn1.
    unfold field_result in Hev.
    destruct (cell_get _ _ _ _ _ _ Hs1 Hc1) as [v [Eg V]]. rewrite Eg in Hev.
    apply val_rec in V. destruct V as [->|[o [flds [fs' [-> [Ho [Hf Hall]]]]]]].
    + inversion Hev; subst. apply good_here; [exact Hs1|discriminate|intros; discriminate].
    + rewrite Ho in Hev.
      match goal with Hf' : find_rec rn R = Some ?fs, Hn : nth_error ?fs fld = Some ?tf |- _ =>
        rewrite Hf' in Hf; inversion Hf; subst fs';
        destruct (Forall2_nth_r _ _ _ _ _ fld (cty_of tf) Hall (map_nth_error cty_of _ _ Hn)) as [c [Ec Hc]] end.
      rewrite Ec in Hev. inversion Hev; subst.
      apply good_here; [exact Hs1|discriminate|].
      intros c' E; inversion E; subst; split; [exact Hc|]. intros E'. exfalso. eapply cty_of_nonnil; eauto.
  - (* print *)
    simpl in Hr. rewrite eval_EPrint in Hev. tgt_is Hacc t'.
    sub IHe a Types.CInt (eq_refl : accepts Types.CInt Types.CInt = true) c1 S1 X1 Hs1 Hc1 Hn1.
    destruct (cell_int _ _ _ _ _ Hs1 Hc1) as [z Ez]. rewrite Ez in Hev.
    destruct (print_ok R genv S1 sa z Hs1) as [Hs2 X2].
    eapply good_trans; [exact X2|].
    refine (good_fresh _ _ _ _ _ _ _ Hs2 _ _ Hev); [constructor|intros; discriminate].
Qed.

Theorem safe_all : forall k, eval_safe k /\ items_safe k /\ handlers_safe k.
Proof.
  induction k as [|k [IHe [IHi IHh]]].
  - split; [|split].
    + intros G e t kk t' env st S r st' HT Hr Hacc Henv Hst Hev. rewrite eval_O in Hev.
      inversion Hev; subst. apply good_here; [exact Hst|discriminate|intros; discriminate].
    + intros G inrun lastb items t kk t' env st S lastc r st' HI Hr Hrun Hacc Henv Hst Hlast Hev.
      rewrite eval_items_O in Hev.
      inversion Hev; subst. apply good_here; [exact Hst|discriminate|intros; discriminate].
    + intros G ret cs call env st S ex r st' HC HA Hrc Hra Henv Hst Hev. rewrite handlers_O in Hev.
      inversion Hev; subst. apply good_here; [exact Hst|discriminate|intros; discriminate].
  - split; [|split]; [apply eval_step|apply items_step|apply handlers_step]; auto.
Qed.

End Safety.

(* ---- the evaluator is type safe ------------------------------------------------------------------

   S is the store typing (cell index -> type).  `accepts t' t` lets the consumer of a nil literal
   choose the record type the fresh nil cell is typed at (t' = t for every other expression,
   see eval_type_safe_nonnil). *)
Theorem eval_type_safe : forall R genv fuel G e t k t' env st S r st',
  HasType R G e (t, k) -> ready_expr e = true -> accepts t' t = true ->
  env_ok genv S G env -> st_ok R genv S st ->
  eval genv fuel env st e = (r, st') ->
  r <> RStuck /\
  exists S', ext S st S' st' /\ st_ok R genv S' st' /\
             forall c, r = ROk c -> nth_error S' c = Some t'.
Proof.
  intros R genv fuel G e t k t' env st S r st' HT Hr Hacc Henv Hst Hev.
  destruct (proj1 (safe_all R genv fuel) _ _ _ _ _ _ _ _ _ _ HT Hr Hacc Henv Hst Hev)
    as [N [S' [X [Hs Hc]]]].
  split; auto. exists S'. split; [|split]; auto. intros c E. apply (Hc c E).
Qed.

Theorem eval_type_safe_nonnil : forall R genv fuel G e t k env st S r st',
  HasType R G e (t, k) -> ready_expr e = true -> t <> Types.CNil ->
  env_ok genv S G env -> st_ok R genv S st ->
  eval genv fuel env st e = (r, st') ->
  r <> RStuck /\
  exists S', ext S st S' st' /\ st_ok R genv S' st' /\
             forall c, r = ROk c -> nth_error S' c = Some t.
Proof.
  intros. eapply eval_type_safe; eauto. apply accepts_refl; auto.
Qed.

Theorem eval_items_type_safe : forall R genv fuel G items t k t' env st S r st',
  ItemsOk R ([] :: G) false None items (t, k) -> ready_items items = true -> accepts t' t = true ->
  env_ok genv S G env -> st_ok R genv S st ->
  eval_items genv fuel env st items None = (r, st') ->
  r <> RStuck /\
  exists S', ext S st S' st' /\ st_ok R genv S' st' /\
             forall c, r = ROk c -> nth_error S' c = Some t'.
Proof.
  intros R genv fuel G items t k t' env st S r st' HI Hr Hacc Henv Hst Hev.
  destruct (items_block R genv fuel (proj1 (proj2 (safe_all R genv fuel)))
              _ _ _ _ _ _ _ _ _ _ HI Hr Hacc Henv Hst Hev) as [N [S' [X [Hs Hc]]]].
  split; auto. exists S'. split; [|split]; auto. intros c E. apply (Hc c E).
Qed.

Theorem handlers_type_safe : forall R genv fuel G ret cs call env st S ex r st',
  CatchesOk R G ret cs -> CallOk R G ret call ->
  forallb (fun c => ready_items (snd c)) cs = true ->
  match call with None => true | Some b => ready_items b end = true ->
  env_ok genv S G env -> st_ok R genv S st ->
  handlers genv fuel env st ex cs call = (r, st') ->
  r <> RStuck /\
  exists S', ext S st S' st' /\ st_ok R genv S' st' /\
             forall c, r = ROk c -> nth_error S' c = Some (cty_of ret).
Proof.
  intros R genv fuel G ret cs call env st S ex r st' HC HA H1 H2 Henv Hst Hev.
  destruct (proj2 (proj2 (safe_all R genv fuel)) _ _ _ _ _ _ _ _ _ _ HC HA H1 H2 Henv Hst Hev)
    as [N [S' [X [Hs Hc]]]].
  split; auto. exists S'. split; [|split]; auto. intros c E. apply (Hc c E).
Qed.

(* ---- whole programs ---------------------------------------------------------------------------- *)

Fixpoint find_fun (x : ident) (fs : list fdef) : option fdef :=
  match fs with
  | [] => None
  | f :: t => if N.eqb x (fd_name f) then Some f else find_fun x t
  end.

Definition is_tint (t : ty) : bool := match t with TInt => true | _ => false end.

(* the entry function exists, takes int parameters, and gets one argument per parameter *)
Definition main_fits (p : program) (args : list Z) : bool :=
  match find_fun (p_main p) (p_funcs p) with
  | Some fd => forallb (fun q => is_tint (snd q)) (fd_params fd) &&
               Nat.eqb (length (fd_params fd)) (length args)
  | None => false
  end.

Definition val_shape (v : cellval) (t : ty) : Prop :=
  match t, v with
  | TInt, Eval.CInt _ | TBool, Eval.CBool _ | TFun _ _, Eval.CFun _ _
  | TArr _, Eval.CArr _ | TRec _, Eval.CRec _ => True
  | _, _ => False
  end.

Lemma assoc_top_sigs : forall fs s G0 G fd, declare_all (top_sigs fs) (s :: G0) = Ok G ->
  In fd fs -> assoc (fd_name fd) (top_sigs fs) = Some (fd_cty fd).
Proof.
  induction fs as [|f fs IH]; intros s G0 G fd D HIn; [contradiction|].
  simpl in D. destruct (lookup_scope (fd_name f) s) eqn:Lx; [discriminate|]. simpl in D.
  simpl. destruct HIn as [->|HIn].
  - rewrite N.eqb_refl. reflexivity.
  - destruct (N.eqb (fd_name fd) (fd_name f)) eqn:E.
    + apply N.eqb_eq in E.
      pose proof (declare_all_fresh _ _ _ _ (fd_name f) (fd_cty f, KTemp) D) as Hf.
      simpl in Hf. rewrite N.eqb_refl in Hf. specialize (Hf eq_refl).
      rewrite <- E in Hf. rewrite (IH _ _ _ _ D HIn) in Hf. discriminate.
    + eapply IH; eauto.
Qed.

Lemma global_env_assoc : forall fs i y t, assoc y (top_sigs fs) = Some t ->
  exists c, Eval.lookup y (global_env fs i) = Some c /\ i <= c /\
            nth_error (map fd_cty fs) (c - i) = Some t.
Proof.
  induction fs as [|f fs IH]; intros i y t H; simpl in H; [discriminate|].
  simpl. destruct (N.eqb y (fd_name f)) eqn:E.
  - inversion H; subst. exists i. rewrite Nat.sub_diag. auto.
  - destruct (IH (S i) y t H) as [c [L [Hle Hn]]]. exists c. split; auto. split; [lia|].
    replace (c - i) with (S (c - S i)) by lia. exact Hn.
Qed.

Lemma find_fun_global : forall fs i x fd, find_fun x fs = Some fd ->
  In fd fs /\
  exists c, Eval.lookup x (global_env fs i) = Some c /\ i <= c /\ nth_error fs (c - i) = Some fd.
Proof.
  induction fs as [|f fs IH]; intros i x fd H; simpl in H; [discriminate|].
  simpl. destruct (N.eqb x (fd_name f)) eqn:E.
  - inversion H; subst. split; auto. exists i. rewrite Nat.sub_diag. auto.
  - destruct (IH (S i) x fd H) as [HIn [c [L [Hle Hn]]]]. split; auto.
    exists c. split; auto. split; [lia|].
    replace (c - i) with (S (c - S i)) by lia. exact Hn.
Qed.

Section Program.
Variable p : program.
Hypothesis HWT : WellTyped p.
Hypothesis HR : eval_ready p = true.

Let R := p_recs p.
Let genv := global_env (p_funcs p) 0.
Let S0 : styping := map fd_cty (p_funcs p).

Lemma global_ctx : exists G, declare_all (top_sigs (p_funcs p)) [[]] = Ok G /\ FunsOk R G (p_funcs p) /\
  env_ok genv S0 G [].
Proof.
  destruct HWT as [_ [G [D HF]]]. exists G. split; auto. split; auto.
  intros x t k L. rewrite (declare_all_lookup _ _ _ _ D x) in L.
  destruct (assoc x (top_sigs (p_funcs p))) as [t0|] eqn:Ea; [|simpl in L; discriminate].
  inversion L; subst. destruct (global_env_assoc _ 0 _ _ Ea) as [c [Lc [_ Hn]]].
  rewrite Nat.sub_0_r in Hn. exists c. split; auto.
Qed.

Lemma FunsOk_In : forall G fs fd, FunsOk R G fs -> In fd fs -> FunOk R G false fd.
Proof. induction 1; intros HIn; destruct HIn; subst; auto. Qed.

Lemma init_ok : st_ok R genv S0 (init_state p).
Proof.
  destruct global_ctx as [G [D [HF He]]].
  split.
  - unfold S0, init_state. simpl. now rewrite !map_length.
  - intros c v t Hc Ht. unfold init_state in Hc. simpl in Hc. unfold S0 in Ht.
    rewrite nth_error_map in Hc, Ht.
    destruct (nth_error (p_funcs p) c) as [fd|] eqn:En; simpl in Hc, Ht; [|discriminate].
    inversion Hc; inversion Ht; subst. apply nth_error_In in En.
    apply V_fun with (Gf := [(fd_name fd, (fd_cty fd, KTemp))] :: G).
    + intros x t k L. simpl in L. destruct (N.eqb x (fd_name fd)) eqn:E.
      * inversion L; subst. apply N.eqb_eq in E. subst x.
        destruct (global_env_assoc _ 0 _ _ (assoc_top_sigs _ _ _ _ _ D En)) as [c' [Lc [_ Hn]]].
        rewrite Nat.sub_0_r in Hn. exists c'. split; auto.
      * apply (He x t k L).
    + apply (FunOk_FunOk' R G false fd). eapply FunsOk_In; eauto.
    + unfold eval_ready in HR. rewrite forallb_forall in HR. auto.
Qed.

Definition alloc_arg (acc : list nat * state) (z : Z) : list nat * state :=
  let '(cs, st) := acc in let (c, st') := alloc st (Eval.CInt (wrap32 z)) in (cs ++ [c], st').

Lemma alloc_args_ok : forall args cs st S ts cs' st',
  st_ok R genv S st -> typed_cells S cs ts ->
  fold_left alloc_arg args (cs, st) = (cs', st') ->
  exists S', ext S st S' st' /\ st_ok R genv S' st' /\
             typed_cells S' cs' (ts ++ map (fun _ => Types.CInt) args) /\
             (forall c v, nth_error (cells st) c = Some v -> nth_error (cells st') c = Some v).
Proof.
  induction args as [|z args IH]; intros cs st S ts cs' st' Hs T F.
  - simpl in F. inversion F; subst. exists S. rewrite app_nil_r. split; [apply ext_refl|]. auto.
  - assert (V : val_ok R genv (S ++ [Types.CInt]) st (Eval.CInt (wrap32 z)) Types.CInt) by constructor.
    destruct (alloc_ok R genv S st _ _ Hs V) as [Hs1 [X1 Hc1]].
    cbn [fold_left] in F.
    assert (Ea : alloc_arg (cs, st) z =
                 (cs ++ [fst (alloc st (Eval.CInt (wrap32 z)))], snd (alloc st (Eval.CInt (wrap32 z)))))
      by reflexivity.
    rewrite Ea in F. clear Ea.
    assert (T1 : typed_cells (S ++ [Types.CInt]) (cs ++ [fst (alloc st (Eval.CInt (wrap32 z)))])
                             (ts ++ [Types.CInt])).
    { apply Forall2_app; [eapply typed_cells_ext; eauto|]. constructor; auto. }
    destruct (IH _ _ _ _ _ _ Hs1 T1 F) as [S' [X' [Hs' [T' Hp]]]].
    exists S'. split; [eapply ext_trans; eauto|]. split; auto. split.
    + rewrite <- app_assoc in T'. exact T'.
    + intros c0 v Hc0. apply Hp. simpl. now apply nth_error_snoc_old.
Qed.

Theorem run_safe : forall fuel args, main_fits p args = true ->
  exists fd, find_fun (p_main p) (p_funcs p) = Some fd /\
  (run_program fuel p args <> OStuck) /\
  forall v printed, run_program fuel p args = OResult v printed ->
    exists S st, val_ok R genv S st v (cty_of (fd_ret fd)).
Proof.
  intros fuel args Hfit. unfold main_fits in Hfit.
  destruct (find_fun (p_main p) (p_funcs p)) as [fd|] eqn:Ef; [|discriminate].
  exists fd. split; auto.
  apply andb_true_iff in Hfit. destruct Hfit as [Hints Hlen]. apply Nat.eqb_eq in Hlen.
  destruct (find_fun_global _ 0 _ _ Ef) as [HIn [cm [Lm [_ Hn]]]]. rewrite Nat.sub_0_r in Hn.
  fold genv in Lm. unfold run_program. fold genv.
  change (fun (acc : list nat * state) (z : Z) =>
            let '(cs, st) := acc in
            let (c, st') := alloc st (Eval.CInt (wrap32 z)) in (cs ++ [c], st')) with alloc_arg.
  destruct (fold_left alloc_arg args ([], init_state p)) as [argcells st1] eqn:Efold.
  destruct (alloc_args_ok args [] (init_state p) S0 [] argcells st1 init_ok (Forall2_nil _) Efold)
    as [S1 [X1 [Hs1 [T1 Hp]]]]. simpl in T1.
  rewrite Lm.
  assert (Hcm : get_cell st1 cm = Some (Eval.CFun fd [])).
  { unfold get_cell. apply Hp. unfold init_state. simpl. rewrite nth_error_map, Hn. reflexivity. }
  rewrite Hcm.
  assert (Hcm1 : nth_error S1 cm = Some (fd_cty fd)).
  { apply (proj1 X1). unfold S0. rewrite nth_error_map, Hn. reflexivity. }
  destruct Hs1 as [HL1 HV1]. pose proof (HV1 _ _ _ Hcm Hcm1) as V.
  assert (Hs1 : st_ok R genv S1 st1) by (split; auto).
  apply val_fun in V. destruct V as [fd' [cenv [Gf [Efd [_ [_ [He [HF Hrf]]]]]]]].
  inversion Efd; subst fd' cenv.
  assert (T : Forall2 (fun c q => nth_error S1 c = Some (cty_of (snd q))) argcells (fd_params fd)).
  { clear - T1 Hints Hlen. revert argcells T1 Hlen Hints.
    generalize (fd_params fd) as ps. intros ps. revert args.
    induction ps as [|q ps IH]; intros [|z args] cs T L Hi; simpl in *; try discriminate;
      inversion T; subst; constructor.
    - apply andb_true_iff in Hi. destruct Hi as [Hq _]. destruct (snd q); try discriminate. assumption.
    - apply andb_true_iff in Hi. destruct Hi as [_ Hi]. eapply IH; eauto. }
  destruct (bind_params_some (fd_params fd) argcells) as [penv B].
  { eapply Forall2_length'; eauto. }
  rewrite B.
  pose proof (safe_all R genv fuel) as [_ [IHi IHh]].
  pose proof (fun r st' => call_safe R genv fuel IHi IHh S1 st1 fd [] Gf argcells penv r st'
                                      Hs1 He HF Hrf T B) as Hcall.
  rewrite app_nil_r in Hcall. unfold call_body in Hcall.
  destruct (match eval_items genv fuel penv st1 (fd_body fd) None with
            | (RExc ex, st2) => handlers genv fuel penv st2 ex (fd_catches fd) (fd_catch_all fd)
            | (ROk c, s) => (ROk c, s) | (RFuel, s) => (RFuel, s) | (RStuck, s) => (RStuck, s)
            end) as [rr s2] eqn:Er.
  destruct (Hcall rr s2 eq_refl) as [N [S2 [X2 [Hs2 Hc2]]]].
  destruct rr as [c| | |]; try congruence.
  - destruct (Hc2 c eq_refl) as [Hc _].
    destruct (cell_get _ _ _ _ _ _ Hs2 Hc) as [v [Eg V]]. rewrite Eg.
    split; [discriminate|]. intros v' pr E. inversion E; subst. eauto.
  - split; [discriminate|]. intros; discriminate.
  - split; [discriminate|]. intros; discriminate.
Qed.

End Program.

Lemma val_ok_shape : forall R genv S st v t, val_ok R genv S st v (cty_of t) -> val_shape v t.
Proof. intros R genv S st v t H. destruct t; simpl in H; inversion H; simpl; auto. Qed.

(* the store-typed form: the result value is well-typed (closures with well-typed bodies, array
   and record references to objects of the declared element / field types) *)
Theorem core_type_safety_typed : forall p, WellTyped p -> eval_ready p = true ->
  forall fuel args, main_fits p args = true ->
  exists fd, find_fun (p_main p) (p_funcs p) = Some fd /\
    run_program fuel p args <> OStuck /\
    forall v printed, run_program fuel p args = OResult v printed ->
      exists S st, val_ok (p_recs p) (global_env (p_funcs p) 0) S st v (cty_of (fd_ret fd)).
Proof. intros p HWT HR fuel args Hfit. exact (run_safe p HWT HR fuel args Hfit). Qed.

(* accepted programs of the modelled core run safely: no fuel makes the evaluator stuck, and a
   result has the declared result type of the entry function *)
Theorem core_type_safety : forall p, WellTyped p -> eval_ready p = true ->
  forall fuel args, main_fits p args = true ->
  run_program fuel p args <> OStuck /\
  forall v printed, run_program fuel p args = OResult v printed ->
    exists fd, find_fun (p_main p) (p_funcs p) = Some fd /\ val_shape v (fd_ret fd).
Proof.
  intros p HWT HR fuel args Hfit.
  destruct (run_safe p HWT HR fuel args Hfit) as [fd [Ef [N Hv]]]. split; auto.
  intros v pr E. exists fd. split; auto. destruct (Hv v pr E) as [S [st V]].
  eapply val_ok_shape; eauto.
Qed.

Corollary core_type_safety_tc : forall p, tc_program p = OK -> eval_ready p = true ->
  forall fuel args, main_fits p args = true -> run_program fuel p args <> OStuck.
Proof.
  intros p H HR fuel args Hfit. apply (core_type_safety p (typecheck_sound p H) HR fuel args Hfit).
Qed.

(* ---- examples ------------------------------------------------------------------------------------ *)

Local Open Scope N_scope.

(* a closure over a record, an array, a catch clause:
     record P { a : int; b : int; }
     func f(x : int) -> int {
       let a = [ x, 2 ] : int; let p = P(x, 3);
       let g = let func (y : int) -> int { y + p.a };
       g(a[1]) / x
     } catch (division_by_zero) { -1 }
     func main(n : int) -> int { print(f(n)) + f(0) }                                      *)
Definition ex_f : fdef :=
  FDef 2 [(10%N, false, TInt)] TInt
    [ILet 11 (EArrLit [EVar 10; EInt 2] TInt);
     ILet 12 (ERecNew 1 [EVar 10; EInt 3]);
     ILet 13 (ELambda (FDef 14 [(15%N, false, TInt)] TInt
                         [IExpr (EBin Add (EVar 15) (EField (EVar 12) 1 0))] [] None));
     IExpr (EBin Div (ECall (EVar 13) [EIndex (EVar 11) (EInt 1)]) (EVar 10))]
    [(ExDivision, [IExpr (EInt (-1))])] None.
Definition ex_main : fdef :=
  FDef 0 [(20%N, false, TInt)] TInt
    [IExpr (EBin Add (EPrint (ECall (EVar 2) [EVar 20])) (ECall (EVar 2) [EInt 0]))] [] None.
Definition ex_prog : program :=
  {| p_recs := [(1%N, [TInt; TInt])]; p_funcs := [ex_f; ex_main]; p_main := 0%N |}.

Example ex_prog_hyps : tc_program ex_prog = OK /\ eval_ready ex_prog = true /\
                       main_fits ex_prog [5%Z] = true.
Proof. vm_compute. auto. Qed.
Example ex_prog_runs : run_program 50 ex_prog [5%Z] = OResult (Eval.CInt 0) [1%Z].
Proof. vm_compute. reflexivity. Qed.

(* a run of two function items, the second uses the first:
     func main() -> int {
       func inc(x : int) -> int { x + 1 }
       func twice(x : int) -> int { inc(inc(x)) }
       twice(3) }                                                                             *)
Definition ex_run : program :=
  {| p_recs := [];
     p_funcs := [FDef 0 [] TInt
       [IFunc (FDef 20 [(30, false, TInt)] TInt [IExpr (EBin Add (EVar 30) (EInt 1))] [] None);
        IFunc (FDef 21 [(31, false, TInt)] TInt
                 [IExpr (ECall (EVar 20) [ECall (EVar 20) [EVar 31]])] [] None);
        IExpr (ECall (EVar 21) [EInt 3])] [] None];
     p_main := 0 |}.
Example ex_run_hyps : tc_program ex_run = OK /\ eval_ready ex_run = true /\ main_fits ex_run [] = true.
Proof. vm_compute. auto. Qed.
Example ex_run_runs : run_program 50 ex_run [] = OResult (Eval.CInt 5) [].
Proof. vm_compute. reflexivity. Qed.

(* The side condition is needed: a program the model typechecker accepts and the evaluator gets
   stuck on (the real implementation segfaults on the corresponding source text). *)

(* (S1)  let x = nil : the one nil cell is shared by fields of two record types
     record A { a : int; }  record B { b : int; c : int; }  record H1 { f : A; }  record H2 { f : B; }
     func main() -> int { let x = nil; let h1 = H1(x); let h2 = H2(x); h1.f = A(1); h2.f.c }   *)
Definition stuck_nil_alias : program :=
  {| p_recs := [(1%N, [TInt]); (2%N, [TInt; TInt]); (3%N, [TRec 1]); (4%N, [TRec 2])];
     p_funcs := [FDef 0 [] TInt
       [ILet 10 (ERecNil 0);
        ILet 11 (ERecNew 3 [EVar 10]);
        ILet 12 (ERecNew 4 [EVar 10]);
        IExpr (EAssign (EField (EVar 11) 3 0) (ERecNew 1 [EInt 1]));
        IExpr (EField (EField (EVar 12) 4 0) 2 1)] [] None];
     p_main := 0%N |}.
Example stuck_nil_alias_accepted_and_stuck :
  tc_program stuck_nil_alias = OK /\ main_fits stuck_nil_alias [] = true /\
  eval_ready stuck_nil_alias = false /\ run_program 50 stuck_nil_alias [] = OStuck.
Proof. vm_compute. auto. Qed.

(* The two former side conditions are gone; the programs that used to be stuck now satisfy the
   hypotheses of the theorem and evaluate to what the real compiler + VM compute. *)

(* (former S2)  comparison with nil
     record A { a : int; }
     func main() -> int { let r = A(1); r == nil ? 1 : 0 }                          -- 0 *)
Definition ex_eq_nil : program :=
  {| p_recs := [(1%N, [TInt])];
     p_funcs := [FDef 0 [] TInt
       [ILet 10 (ERecNew 1 [EInt 1]);
        IExpr (ECond (EBin Eq (EVar 10) (ERecNil 1)) (EInt 1) (EInt 0))] [] None];
     p_main := 0%N |}.
Example ex_eq_nil_ready_and_runs :
  tc_program ex_eq_nil = OK /\ main_fits ex_eq_nil [] = true /\
  eval_ready ex_eq_nil = true /\ run_program 50 ex_eq_nil [] = OResult (Eval.CInt 0) [].
Proof. vm_compute. auto. Qed.

(*   record A { a : int; }
     func main() -> int {
       var r = A(1); r = nil; func f() -> int { 1 }; var a = [ 1 ] : int;
       (r != nil ? 10 : 20) + (nil == r ? 1 : 2) + (nil == nil ? 100 : 200)
         + (f == nil ? 1000 : 2000) + (nil != a ? 10000 : 20000) }                  -- 12121 *)
Definition ex_nil_cmp : program :=
  {| p_recs := [(1%N, [TInt])];
     p_funcs := [FDef 0 [] TInt
       [IVar 10 (ERecNew 1 [EInt 1]);
        IExpr (EAssign (EVar 10) (ERecNil 1));
        IFunc (FDef 7 [] TInt [IExpr (EInt 1)] [] None);
        IVar 11 (EArrLit [EInt 1] TInt);
        IExpr (EBin Add (ECond (EBin Ne (EVar 10) (ERecNil 1)) (EInt 10) (EInt 20))
              (EBin Add (ECond (EBin Eq (ERecNil 1) (EVar 10)) (EInt 1) (EInt 2))
              (EBin Add (ECond (EBin Eq (ERecNil 1) (ERecNil 1)) (EInt 100) (EInt 200))
              (EBin Add (ECond (EBin Eq (EVar 7) (ERecNil 1)) (EInt 1000) (EInt 2000))
                        (ECond (EBin Ne (ERecNil 0) (EVar 11)) (EInt 10000) (EInt 20000))))))]
       [] None];
     p_main := 0%N |}.
Example ex_nil_cmp_ready_and_runs :
  tc_program ex_nil_cmp = OK /\ main_fits ex_nil_cmp [] = true /\
  eval_ready ex_nil_cmp = true /\ run_program 50 ex_nil_cmp [] = OResult (Eval.CInt 12121) [].
Proof. vm_compute. auto. Qed.

(* (former S3)  two adjacent nested functions, the first calls the second (forward reference)
     func main() -> int {
       func f(x : int) -> int { g(x) };
       func g(x : int) -> int { x + 1 };
       f(1) }                                                                        -- 2 *)
Definition ex_mutual : program :=
  {| p_recs := [];
     p_funcs := [FDef 0 [] TInt
       [IFunc (FDef 20 [(30%N, false, TInt)] TInt [IExpr (ECall (EVar 21) [EVar 30])] [] None);
        IFunc (FDef 21 [(31%N, false, TInt)] TInt [IExpr (EBin Add (EVar 31) (EInt 1))] [] None);
        IExpr (ECall (EVar 20) [EInt 1])] [] None];
     p_main := 0%N |}.
Example ex_mutual_ready_and_runs :
  tc_program ex_mutual = OK /\ main_fits ex_mutual [] = true /\
  eval_ready ex_mutual = true /\ run_program 50 ex_mutual [] = OResult (Eval.CInt 2) [].
Proof. vm_compute. auto. Qed.

(* mutual recursion between adjacent nested functions, and a sibling that hides a top-level
   function of the same name:
     func g() -> int { 1 }
     func main() -> int {
       func ev(n : int) -> int { n == 0 ? 1 : od(n - 1) };
       func od(n : int) -> int { n == 0 ? 0 : ev(n - 1) };
       func f() -> int { g() };
       func g() -> int { 2 };
       ev(10) * 100 + ev(7) * 10 + f() }                                            -- 102 *)
Definition ex_even_odd : program :=
  {| p_recs := [];
     p_funcs := [FDef 5 [] TInt [IExpr (EInt 1)] [] None;
       FDef 0 [] TInt
       [IFunc (FDef 20 [(30%N, false, TInt)] TInt
                 [IExpr (ECond (EBin Eq (EVar 30) (EInt 0)) (EInt 1)
                               (ECall (EVar 21) [EBin Sub (EVar 30) (EInt 1)]))] [] None);
        IFunc (FDef 21 [(30%N, false, TInt)] TInt
                 [IExpr (ECond (EBin Eq (EVar 30) (EInt 0)) (EInt 0)
                               (ECall (EVar 20) [EBin Sub (EVar 30) (EInt 1)]))] [] None);
        IFunc (FDef 22 [] TInt [IExpr (ECall (EVar 5) [])] [] None);
        IFunc (FDef 5 [] TInt [IExpr (EInt 2)] [] None);
        IExpr (EBin Add (EBin Add (EBin Mul (ECall (EVar 20) [EInt 10]) (EInt 100))
                                  (EBin Mul (ECall (EVar 20) [EInt 7]) (EInt 10)))
                        (ECall (EVar 22) []))] [] None];
     p_main := 0%N |}.
Example ex_even_odd_ready_and_runs :
  tc_program ex_even_odd = OK /\ main_fits ex_even_odd [] = true /\
  eval_ready ex_even_odd = true /\ run_program 200 ex_even_odd [] = OResult (Eval.CInt 102) [].
Proof. vm_compute. auto. Qed.

(* a missing entry function is the remaining way to OStuck (main_fits excludes it) *)
Example stuck_no_main :
  tc_program {| p_recs := []; p_funcs := []; p_main := 0%N |} = OK /\
  run_program 5 {| p_recs := []; p_funcs := []; p_main := 0%N |} [] = OStuck.
Proof. vm_compute. auto. Qed.
