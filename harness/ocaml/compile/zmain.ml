(* zmain — driver of the compile tie (checks/parts/compiletie.py).

     run gen <seed> <first> <n> <dir> <level>
        for case i = first .. first+n-1 (choices derived from (seed, i) only): generate a program of
        the fragment, write <dir>/c<i>.nev (pretty-printed source) and append to <dir>/model.txt
            @@CASE <i> level=<l> in_fragment=<0|1> nparams=<k> args=<a1>,<a2>,…
            C <opcode number> <w0> <w1>          one per instruction of the model's compile_func
            V ret <z> <printed,…> | V exc <name> <printed,…> | V fuel | V stuck
                                                 ValueVM (VM/ValueVM.v) run on the model's code
            E ret <z> <printed,…> | E exc <name> <printed,…> | E fuel | E stuck
                                                 reference evaluator (Src/Eval.v run_program)
            @@END
   Everything is computed by functions extracted from Coq (compile_func, run_func, run_program,
   func_in_F1, N_of_opcode); this file only generates, prints and formats. *)
open Compilemodel
open Conv

let csv l = String.concat "," (List.map (fun z -> string_of_int (int_of_z z)) l)

let vres_str = function
  | VRet (z, pr) -> Printf.sprintf "ret %d [%s]" (int_of_z z) (csv pr)
  | VExc (e, pr) -> Printf.sprintf "exc %s [%s]" (exn_name e) (csv pr)
  | VFuel -> "fuel"
  | VStuck -> "stuck"

let outcome_str = function
  | OResult (CInt z, pr) -> Printf.sprintf "ret %d [%s]" (int_of_z z) (csv pr)
  | OResult (CBool b, pr) -> Printf.sprintf "ret %d [%s]" (if b then 1 else 0) (csv pr)
  | OResult (_, _) -> "stuck"
  | OUnhandled (e, pr) -> Printf.sprintf "exc %s [%s]" (exn_name e) (csv pr)
  | OFuel -> "fuel"
  | OStuck -> "stuck"

let in_fragment level fd =
  match level with
  | _ -> func_in_F (nat_of_int level) fd

let gen_case oc dir seed level i =
  let rng = Rng.derive seed i in
  let st = { Cgen.rng; next = 1; level; fuelv = 3 } in
  let fd, np = Cgen.gen_main st in
  let prog = { p_recs = []; p_funcs = [fd]; p_main = n_of_int 0 } in
  let src = Pp.print_program prog in
  let f = open_out (Filename.concat dir (Printf.sprintf "c%d.nev" i)) in
  output_string f src; close_out f;
  let args = List.init np (fun _ -> Cgen.small_int st) in
  let code = compile_func fd in
  Printf.fprintf oc "@@CASE %d level=%d in_fragment=%d nparams=%d args=%s\n" i level
    (if in_fragment level fd then 1 else 0) np (String.concat "," (List.map string_of_int args));
  List.iter (fun ins ->
      Printf.fprintf oc "C %d %d %d\n" (int_of_n (n_of_opcode ins.r_op)) (int_of_z ins.r_w0) (int_of_z ins.r_w1)) code;
  let zargs = List.map z_of_int args in
  Printf.fprintf oc "V %s\n" (vres_str (run_func code O (nat_of_int 60000) zargs));
  Printf.fprintf oc "E %s\n" (outcome_str (run_program (nat_of_int 4000) prog zargs));
  Printf.fprintf oc "@@END\n"

let () =
  match Array.to_list Sys.argv with
  | [_; "gen"; seed; first; n; dir; level] ->
    let seed = int_of_string seed and first = int_of_string first and n = int_of_string n
    and level = int_of_string level in
    let oc = open_out (Filename.concat dir "model.txt") in
    for i = first to first + n - 1 do gen_case oc dir seed level i done;
    close_out oc
  | _ -> prerr_endline "usage: run gen <seed> <first> <n> <dir> <level>"; exit 2
