(* C09 (addition) — which VM stack slots are roots of a collection.  Statements only.

   `a program whose live data stays bounded runs indefinitely` / `never handed out while in use` need,
   beyond the heap model of Properties_C09.v, that the root set handed to gc_run contains everything
   the program still uses.  On the stack this is decided by slot tags.  For every module accepted by
   the proved checker (Verifier/Verify.v check_all; C07), in every reachable state of the stack-shape
   machine each stack slot is a value slot or one of the five slots of a complete frame header, so the
   roots are exactly: the value slots and the saved-environment slot (third) of each header.
   Tie: the lock-step (harness/ocaml/verifier/vrun.ml, `LOCKSTEP kinds`) compares these kinds with the
   real gc_stack tags of all slots 0..sp before every instruction of every traced run;
   checks/parts/gcschedule.py runs every program under forced collection schedules.
   One stated exemption of the tie: the slot that RETHROW leaves in the result position of the frame it
   removes (the model writes SVal) holds a copy of whatever was on top when the fault happened — a
   value, or the frame's own return-address slot when nothing had been pushed; it is never read and the
   handler's CLEAR_STACK removes it, so the lock-step does not compare tags while that slot is on the
   stack (a non-root tag there loses nothing, a root tag there refers to a cell that was rooted anyway). *)
From Coq Require Import List Arith Bool.
From NV Require Import Gen.Opcodes Verifier.Shape Verifier.Effect Verifier.Verify Verifier.VerifyInv
     Verifier.VerifySound Verifier.Roots Verifier.UnwindExample.
Import ListNotations.

Theorem stack_slots_classified :
  forall prog exct metas entry certs,
    check_all prog exct metas entry certs = true ->
    forall obs s,
      run (code prog) (handler exct) (np metas) (is_entry metas) entry init obs = Next s ->
      forall i, i < length (stk s) ->
        nth_error (stk s) i = Some SVal \/
        exists h p f r c, hdr (stk s) h p f r c /\ h <= i /\ i < h + 5.
Proof. exact Roots.stack_slots_classified. Qed.
Print Assumptions stack_slots_classified.

Theorem root_slots :
  forall prog exct metas entry certs,
    check_all prog exct metas entry certs = true ->
    forall obs s,
      run (code prog) (handler exct) (np metas) (is_entry metas) entry init obs = Next s ->
      forall i sl, nth_error (stk s) i = Some sl ->
        is_root sl = true <->
        (sl = SVal \/ exists h p f r c, hdr (stk s) h p f r c /\ i = h + 2).
Proof. exact Roots.root_slots. Qed.
Print Assumptions root_slots.

(* not vacuous: an accepted module and a reachable state with two frame headers and three values *)
Example ex_checked : check_all ex_prog ex_exct ex_metas ex_entry ex_certs = true.
Proof. exact UnwindExample.ex_checked. Qed.

Example ex_two_headers :
  run (code ex_prog) (handler ex_exct) (np ex_metas) (is_entry ex_metas) ex_entry init obsB = Next stB /\
  map is_root (stk stB) =
    [false; false; true; false; false; false; false; true; false; false; true; true; true].
Proof. split; [exact UnwindExample.ex_reach_B | reflexivity]. Qed.
