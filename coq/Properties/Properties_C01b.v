(* C01 (addition) — type safety of the reference evaluator of the modelled core with respect to
   the model typechecker.  Statements only; to be merged into Properties_C01.v.

   WellTyped is the declarative judgment of Src/TypecheckSpec.v (tc_program p = OK <-> WellTyped p).
   eval_ready (Src/TypeSafetyBase.v) is a decidable syntactic side condition with one clause:
     (S1) no `let`/`var` initialiser is the literal nil (or a block ending in it).
   It excludes programs the typechecker accepts although one nil cell is then used at two record
   types: the evaluator is stuck on them (Example side_condition_S1_needed) and the real
   implementation crashes -- a defect of the language implementation, not of the model.
   The two former clauses are gone, since the evaluator now has the rules they stood for:
     (S2) `==` / `!=` between a reference (record, array, function) and nil,
     (S3) adjacent nested function items are declared together (mutually visible).
   The programs that witnessed them now satisfy eval_ready and evaluate to what the real compiler
   and VM compute (Examples former_side_condition_S2 / S3).
   main_fits: the entry function exists, its parameters are ints, one argument per parameter. *)
From Coq Require Import ZArith NArith List Bool.
From NV Require Import Src.Syntax Src.Eval Src.Types Src.Typecheck Src.TypecheckSpec
  Src.TypeSafetyBase Src.TypeSafety.
Import ListNotations.

(* accepted programs run safely: the evaluator is never stuck, whatever the fuel, and a result
   has the declared result type of the entry function *)
Theorem core_type_safety : forall p, WellTyped p -> eval_ready p = true ->
  forall fuel args, main_fits p args = true ->
  run_program fuel p args <> OStuck /\
  forall v printed, run_program fuel p args = OResult v printed ->
    exists fd, find_fun (p_main p) (p_funcs p) = Some fd /\ val_shape v (fd_ret fd).
Proof. exact TypeSafety.core_type_safety. Qed.
Print Assumptions core_type_safety.

(* the same with the result typed in the final store (closures with well-typed bodies in the
   context their captured environment realises, array / record references to objects whose
   element / field cells have the declared types) *)
Theorem core_type_safety_typed : forall p, WellTyped p -> eval_ready p = true ->
  forall fuel args, main_fits p args = true ->
  exists fd, find_fun (p_main p) (p_funcs p) = Some fd /\
    run_program fuel p args <> OStuck /\
    forall v printed, run_program fuel p args = OResult v printed ->
      exists S st, val_ok (p_recs p) (global_env (p_funcs p) 0) S st v (cty_of (fd_ret fd)).
Proof. exact TypeSafety.core_type_safety_typed. Qed.
Print Assumptions core_type_safety_typed.

(* for the executable checker *)
Theorem core_type_safety_tc : forall p, tc_program p = OK -> eval_ready p = true ->
  forall fuel args, main_fits p args = true -> run_program fuel p args <> OStuck.
Proof. exact TypeSafety.core_type_safety_tc. Qed.
Print Assumptions core_type_safety_tc.

(* preservation + progress for one evaluation: S types the cells (index -> type) for ever;
   env realises the context G in S; the state is typed by S.  The result is never RStuck, the
   final state is typed by an extension S' of S, a result cell has type t' in S' -- where t' = t
   unless e is the nil literal, whose consumer picks the record type (accepts t' CNil). *)
Theorem eval_type_safe : forall R genv fuel G e t k t' env st S r st',
  HasType R G e (t, k) -> ready_expr e = true -> accepts t' t = true ->
  env_ok genv S G env -> st_ok R genv S st ->
  eval genv fuel env st e = (r, st') ->
  r <> RStuck /\
  exists S', ext S st S' st' /\ st_ok R genv S' st' /\
             forall c, r = ROk c -> nth_error S' c = Some t'.
Proof. exact TypeSafety.eval_type_safe. Qed.
Print Assumptions eval_type_safe.

Theorem eval_type_safe_nonnil : forall R genv fuel G e t k env st S r st',
  HasType R G e (t, k) -> ready_expr e = true -> t <> Types.CNil ->
  env_ok genv S G env -> st_ok R genv S st ->
  eval genv fuel env st e = (r, st') ->
  r <> RStuck /\
  exists S', ext S st S' st' /\ st_ok R genv S' st' /\
             forall c, r = ROk c -> nth_error S' c = Some t.
Proof. exact TypeSafety.eval_type_safe_nonnil. Qed.
Print Assumptions eval_type_safe_nonnil.

Theorem eval_items_type_safe : forall R genv fuel G items t k t' env st S r st',
  ItemsOk R ([] :: G) false None items (t, k) -> ready_items items = true -> accepts t' t = true ->
  env_ok genv S G env -> st_ok R genv S st ->
  eval_items genv fuel env st items None = (r, st') ->
  r <> RStuck /\
  exists S', ext S st S' st' /\ st_ok R genv S' st' /\
             forall c, r = ROk c -> nth_error S' c = Some t'.
Proof. exact TypeSafety.eval_items_type_safe. Qed.
Print Assumptions eval_items_type_safe.

Theorem handlers_type_safe : forall R genv fuel G ret cs call env st S ex r st',
  CatchesOk R G ret cs -> CallOk R G ret call ->
  forallb (fun c => ready_items (snd c)) cs = true ->
  match call with None => true | Some b => ready_items b end = true ->
  env_ok genv S G env -> st_ok R genv S st ->
  handlers genv fuel env st ex cs call = (r, st') ->
  r <> RStuck /\
  exists S', ext S st S' st' /\ st_ok R genv S' st' /\
             forall c, r = ROk c -> nth_error S' c = Some (cty_of ret).
Proof. exact TypeSafety.handlers_type_safe. Qed.
Print Assumptions handlers_type_safe.

(* the hypotheses are satisfiable: a closure over a record, an array, a catch clause
   (source text in Src/TypeSafety.v) *)
Example ex_hypotheses : tc_program ex_prog = OK /\ eval_ready ex_prog = true /\
                        main_fits ex_prog [5%Z] = true.
Proof. exact TypeSafety.ex_prog_hyps. Qed.
Example ex_instance : forall fuel, run_program fuel ex_prog [5%Z] <> OStuck.
Proof.
  intros fuel. destruct TypeSafety.ex_prog_hyps as [H1 [H2 H3]].
  exact (TypeSafety.core_type_safety_tc ex_prog H1 H2 fuel [5%Z] H3).
Qed.
Example ex_runs : run_program 50 ex_prog [5%Z] = OResult (Eval.CInt 0) [1%Z].
Proof. exact TypeSafety.ex_prog_runs. Qed.
(* a run of two function items, the second calling the first, is covered *)
Example ex_run_hypotheses : tc_program ex_run = OK /\ eval_ready ex_run = true /\ main_fits ex_run [] = true.
Proof. exact TypeSafety.ex_run_hyps. Qed.
Example ex_run_result : run_program 50 ex_run [] = OResult (Eval.CInt 5) [].
Proof. exact TypeSafety.ex_run_runs. Qed.

(* the side condition is needed: accepted by the model typechecker, stuck in the evaluator *)
Example side_condition_S1_needed :
  tc_program stuck_nil_alias = OK /\ main_fits stuck_nil_alias [] = true /\
  eval_ready stuck_nil_alias = false /\ run_program 50 stuck_nil_alias [] = OStuck.
Proof. exact TypeSafety.stuck_nil_alias_accepted_and_stuck. Qed.

(* the former side conditions are not needed any more: the programs that were stuck are covered by
   the theorem and evaluate to the results of the real compiler + VM (source text in
   Src/TypeSafety.v) *)
(* r == nil ? 1 : 0  on a record r  -- 0 *)
Example former_side_condition_S2 :
  tc_program ex_eq_nil = OK /\ main_fits ex_eq_nil [] = true /\
  eval_ready ex_eq_nil = true /\ run_program 50 ex_eq_nil [] = OResult (Eval.CInt 0) [].
Proof. exact TypeSafety.ex_eq_nil_ready_and_runs. Qed.
(* records, arrays and functions against nil, both operand orders, == and !=  -- 12121 *)
Example former_side_condition_S2_all_kinds :
  tc_program ex_nil_cmp = OK /\ main_fits ex_nil_cmp [] = true /\
  eval_ready ex_nil_cmp = true /\ run_program 50 ex_nil_cmp [] = OResult (Eval.CInt 12121) [].
Proof. exact TypeSafety.ex_nil_cmp_ready_and_runs. Qed.
(* func f(x) { g(x) }; func g(x) { x + 1 }; f(1)  -- 2 *)
Example former_side_condition_S3 :
  tc_program ex_mutual = OK /\ main_fits ex_mutual [] = true /\
  eval_ready ex_mutual = true /\ run_program 50 ex_mutual [] = OResult (Eval.CInt 2) [].
Proof. exact TypeSafety.ex_mutual_ready_and_runs. Qed.
(* mutual recursion of adjacent nested functions; a sibling hides a top-level function  -- 102 *)
Example former_side_condition_S3_mutual_recursion :
  tc_program ex_even_odd = OK /\ main_fits ex_even_odd [] = true /\
  eval_ready ex_even_odd = true /\ run_program 200 ex_even_odd [] = OResult (Eval.CInt 102) [].
Proof. exact TypeSafety.ex_even_odd_ready_and_runs. Qed.
Example former_side_conditions_instance : forall fuel,
  run_program fuel ex_nil_cmp [] <> OStuck /\ run_program fuel ex_even_odd [] <> OStuck.
Proof.
  intros fuel. split.
  - destruct TypeSafety.ex_nil_cmp_ready_and_runs as [H1 [H2 [H3 _]]].
    exact (TypeSafety.core_type_safety_tc ex_nil_cmp H1 H3 fuel [] H2).
  - destruct TypeSafety.ex_even_odd_ready_and_runs as [H1 [H2 [H3 _]]].
    exact (TypeSafety.core_type_safety_tc ex_even_odd H1 H3 fuel [] H2).
Qed.
