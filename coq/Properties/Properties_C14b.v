(* C14 (addition) — where vm_check_stack sits in a handler that pushes several slots.  Statements only;
   proofs in VM/StackBoundParam.v.

   PUSH_PARAM pushes the k parameters of the entry function (nev_prepare / the words after the file
   name on the command line), ALLOC k the k slots of a frame.  The model gives both the plan
   rep k push1 = k times (sp++; vm_check_stack; stack[sp] = e).  Stated here:
    * for every opcode of the check-first tree each written slot index is at most a "checked bound":
      the sp on entry or an sp that passed vm_check_stack (every_write_below_checked_bound), so all
      slots a handler stores to under any configured size lie in [0, size) (written_in_range);
    * the k-slot push completes iff sp + k < size, else reports the limit, and on the window
      sp < size <= sp + k stores to sp+1 .. size-1 only;
    * the same loop with its check hoisted behind the loop stores to `size` .. sp+k on that window
      before it reports, is indistinguishable elsewhere, and is not guarded for any k >= 1.
   Tie: checks/c14.py, family `entry`: entry functions with 0..10 parameters, every stack size from
   0 to beyond the demand, run through the API with guard slots on both sides of the configured
   stack (limrun --redzone) and, separately, on the exact allocation under ASan; the model's
   prediction (limit at PUSH_PARAM for exactly the sizes of the window) must match and no guard slot
   may change.  A hoisted check is then a model/implementation mismatch with a concrete stack size. *)
From Coq Require Import ZArith List Arith Bool.
From NV Require Import Gen.Opcodes Verifier.Effect.
From NV Require Import VM.StackBound VM.StackBoundProofs VM.StackBoundParam.
Import ListNotations.
Local Open Scope Z_scope.

Theorem every_write_below_checked_bound :
  forall (v : variant) i fault delta sp,
    (forall c, irregular_of i = Some c -> v c = true) ->
    shape_delta_ok (shape_at i fault delta) = true ->
    guarded sp sp (plan v i fault delta).
Proof. exact StackBoundParam.every_write_below_checked_bound. Qed.
Print Assumptions every_write_below_checked_bound.

Theorem written_in_range :
  forall (v : variant) i fault delta S sp,
    (forall c, irregular_of i = Some c -> v c = true) ->
    -1 <= sp < S ->
    no_underflow sp (plan v i fault delta) = true ->
    shape_delta_ok (shape_at i fault delta) = true ->
    Forall (fun idx => 0 <= idx < S) (written S sp (plan v i fault delta)).
Proof. exact StackBoundParam.written_in_range. Qed.
Print Assumptions written_in_range.

(* `written` lists an index outside the array exactly when exec_writes says OobWrite *)
Theorem written_oob_iff : forall p S sp,
  (exists idx, exec_writes S sp p = OobWrite idx) <->
  Exists (fun idx => ~ (0 <= idx < S)) (written S sp p).
Proof. exact StackBoundParam.written_oob_iff. Qed.
Print Assumptions written_oob_iff.

(* PUSH_PARAM with k entry parameters is the k-slot push, in every variant *)
Theorem push_param_plan : forall v w0 k,
  plan v (ri BYTECODE_PUSH_PARAM w0) false (Z.of_nat k) = rep k push1.
Proof. exact StackBoundParam.push_param_plan. Qed.
Print Assumptions push_param_plan.

Theorem pushn_checked_outcome : forall k S sp, -1 <= sp < S ->
  exec_writes S sp (rep k push1) =
  if sp + Z.of_nat k <? S then Ok (sp + Z.of_nat k) else LimitReported.
Proof. exact StackBoundParam.pushn_checked_outcome. Qed.
Print Assumptions pushn_checked_outcome.

Theorem pushn_checked_written_on_window : forall k S sp, -1 <= sp < S -> S <= sp + Z.of_nat k ->
  written S sp (rep k push1) = map (fun j => sp + 1 + Z.of_nat j) (seq 0 (Z.to_nat (S - 1 - sp))).
Proof. exact StackBoundParam.pushn_checked_written_on_window. Qed.
Print Assumptions pushn_checked_written_on_window.

(* one check after the loop *)
Theorem pushn_hoisted_outcome : forall k S sp, -1 <= sp < S ->
  exec_writes S sp (pushn_hoisted k) =
  if sp + Z.of_nat k <? S then Ok (sp + Z.of_nat k) else OobWrite S.
Proof. exact StackBoundParam.pushn_hoisted_outcome. Qed.
Print Assumptions pushn_hoisted_outcome.

Theorem pushn_hoisted_written : forall k S sp,
  written S sp (pushn_hoisted k) = map (fun j => sp + 1 + Z.of_nat j) (seq 0 k).
Proof. exact StackBoundParam.pushn_hoisted_written. Qed.
Print Assumptions pushn_hoisted_written.

Theorem pushn_hoisted_differs_iff_window : forall k S sp, -1 <= sp < S ->
  (exec_writes S sp (pushn_hoisted k) <> exec_writes S sp (rep k push1) <-> S <= sp + Z.of_nat k).
Proof. exact StackBoundParam.pushn_hoisted_differs_iff_window. Qed.
Print Assumptions pushn_hoisted_differs_iff_window.

Theorem pushn_hoisted_not_guarded : forall k sp, (1 <= k)%nat -> ~ guarded sp sp (pushn_hoisted k).
Proof. exact StackBoundParam.pushn_hoisted_not_guarded. Qed.
Print Assumptions pushn_hoisted_not_guarded.

(* ---- the definitions compute: 8 parameters on top of sp = 35 (global set-up + entry frame) ------ *)

Example ex_params_fit : exec_writes 44 35 (rep 8 push1) = Ok 43.
Proof. reflexivity. Qed.
Example ex_params_limit : exec_writes 40 35 (rep 8 push1) = LimitReported.
Proof. reflexivity. Qed.
Example ex_params_written : written 40 35 (rep 8 push1) = [36; 37; 38; 39].
Proof. reflexivity. Qed.
Example ex_hoisted_oob : exec_writes 40 35 (pushn_hoisted 8) = OobWrite 40.
Proof. reflexivity. Qed.
Example ex_hoisted_written : written 40 35 (pushn_hoisted 8) = [36; 37; 38; 39; 40; 41; 42; 43].
Proof. reflexivity. Qed.
