"""C01 — accepted programs run safely: exactly one of {result, unhandled exception, failed
assert, reported limit}; never a host crash or an invalid memory access.

Decided by (see Properties_C01.v): the frame-discipline theorem for all paths of verified code
(C07), the collector theorems (reachable objects are never reclaimed or altered, C09/C04), the
stack/heap limit theorems (C14) and type safety of the reference evaluator for the modelled
core; the byte-level behaviour of the C handlers is outside this family of technique and is
*observed*: every accepted program of the corpus and of the generators runs on the tree's VM
built with asserts + ASan/UBSan under several heap/stack sizes; any signal, abort, failed C
assert, sanitizer report, or exit without one of the four reports is a violation with the
program and configuration as replay.
"""
import collections
import glob
import hashlib
import os

from lib import common, nevrun, vmcheck

LEVEL = "proof"

CONFIGS_QUICK = [(None, None), (400, 200), (5000, 70), (64, 200)]
CONFIGS_THOROUGH = CONFIGS_QUICK + [(150, 120), (1000, 45), (20000, 1000), (33, 40), (5000, 37)]


def load_programs():
    progs = []
    for pid, path, cwd in vmcheck.corpus_programs():
        try:
            src = open(path, errors="replace").read()
        except OSError:
            continue
        progs.append((pid, src))
    return progs


def chunks(l, n):
    for i in range(0, len(l), n):
        yield l[i:i + n]


def key_of(pid, cls):
    # stable key: mechanism (first frame of the sanitizer report / assert text) + program
    return "%s@%s" % (cls.replace(" ", "_")[:90], pid)


def run(ctx):
    ctx.proofs()
    drv = nevrun.build("asan")
    progs = load_programs()
    configs = CONFIGS_QUICK if ctx.tier == "quick" else CONFIGS_THOROUGH
    rng = ctx.rng
    cases = []
    for pid, src in progs:
        for (mem, stack) in configs:
            c = {"id": "%s|m%s|s%s" % (pid, mem, stack), "src": src, "pid": pid}
            if mem:
                c["mem"] = mem
            if stack:
                c["stack"] = stack
            cases.append(c)
        # one seeded random configuration per program
        c = {"id": "%s|rnd" % pid, "src": src, "pid": pid, "mem": rng.choice([2, 5, 17, 90, 700, 3000]),
             "stack": rng.choice([31, 36, 50, 90, 150, 400])}
        c["id"] = "%s|m%d|s%d" % (pid, c["mem"], c["stack"])
        cases.append(c)
    batches = list(chunks(cases, 60))
    results = vmcheck.pmap(lambda b: nevrun.run_batch(drv, b, timeout_per=8), batches)
    hist = collections.Counter()
    classes_per_prog = collections.defaultdict(set)
    byid = {c["id"]: c for c in cases}
    nontrivial = set()
    for res in results:
        for cid, r in res.items():
            c = byid.get(cid)
            if c is None:
                continue
            cls = nevrun.classify(r)
            hist[cls.split(":")[0] if not cls.startswith("CRASH") else "CRASH"] += 1
            ctx.count(evaluations=1)
            classes_per_prog[c["pid"]].add(cls.split(":")[0])
            if cls.startswith("CRASH"):
                ctx.violation(key_of(c["pid"], cls), "%s on accepted program %s (mem=%s stack=%s)" % (
                    cls, c["pid"], c.get("mem"), c.get("stack")),
                    {"program": c["pid"], "source": c["src"], "mem": c.get("mem"), "stack": c.get("stack"),
                     "class": cls, "output_tail": r["text"][-1500:]})
            elif cls in ("result",) or cls.startswith("unhandled") or cls == "assert" or cls.startswith("limit"):
                nontrivial.add((hashlib.md5(c["src"].encode()).hexdigest(), cls.split(":")[0]))
    ctx.coverage["distinct_nontrivial"] = len(nontrivial)
    ctx.coverage["rule"] = ("every program of the fixed corpus (/repo/sample + /verif/corpus/programs) that the tree's compiler "
                            "accepts is run under the ASan+UBSan, asserts-on build with %d heap/stack configurations + one seeded "
                            "random one; distinct_nontrivial = distinct (program, outcome class) pairs that reached a run-time "
                            "outcome (result / unhandled exception / failed assert / reported limit)" % len(configs))
    ctx.coverage["outcome_histogram"] = dict(hist)
    ctx.coverage["programs"] = len(progs)
    ctx.coverage["configs"] = [list(c) for c in configs]
    ctx.coverage["partial"] = ("memory safety of the C handlers at the byte level is observed by sanitizers on the cases run, "
                               "not proved (no C semantics in this sandbox); proved: frame discipline on all paths (C07), "
                               "collector safety (C09/C04), evaluator-level rules")
    multi = [p for p, s in classes_per_prog.items() if len(s - {"compile_error", "timeout"}) >= 2]
    for p in multi[:3]:
        ctx.sample({"program": p, "outcome_classes_over_configs": sorted(classes_per_prog[p])})
    ctx.coverage["exhaustive"] = False
