(* Extraction of the allocation-trace monitor for the C16 harness.  ExtrOcamlBasic only;
   N/positive/nat stay datatypes and are converted by harness/ocaml/mem/memrun.ml. *)
From Coq Require Import ExtrOcamlBasic.
Require Import NV.Mem.TraceMonitor.

Extraction "memmodel.ml" monitor.
