(* Src/CompileCorrect4Sim.v — closures: the evaluator (Src/Eval.v) against the machine (VM/ValueVM4.v) for the
   constructs that CREATE and READ closures.  Closed (no axioms):

     the relation   m : cell -> address;  MS4: a mapped cell and its image hold related payloads, where a
                    function cell  CFun fd cenv  is related to a function object  HFun vec addr  when addr is
                    fd's code address and vec holds, per free variable of fd (Compile4.fvs_fd, the order of
                    front/gencode.c), the IMAGE OF THE CELL cenv binds it to (`fun_rel`: the captured
                    environment of the evaluator and the environment vector of the machine agree cell by cell);
                    env_rel: every name in scope is bound by the evaluator to a cell whose image is the address
                    that the emitted access (`resolves`: ID_LOCAL slot or ID_GLOBAL entry) yields — env_match
                    with captured slots
     var_read_sim          EVar x for a local or captured name: the evaluator's cell, its image pushed
     lambda_creation_sim   ELambda fd: the evaluator allocates CFun fd e, the machine runs closure_code; the
                           new cell and the new function object are related, everything else is kept
     sibling_run_sim       a run of adjacent function items: the evaluator adds the cells CFun f_i e' with the
                           recursive environment e' = func_env … (every sibling, itself included, visible);
                           the machine runs ALLOC k; (closure; REWRITE)*; the slot cells are the images of the
                           new cells and MS4 holds again — the REWRITE knot is the evaluator's e' — and the
                           extended environment is related at the new level (names of the run -> slots)
   NOT proved (see Properties_C02c.v): calls through function objects, the by-value copies (a top-level
   function's name, COPYGLOB self reference), and the induction that puts the cases together. *)
From Coq Require Import ZArith List Bool Lia.
From NV Require Import Gen.Opcodes Verifier.Effect Src.Syntax Src.Eval Src.EvalLemmas VM.ValueVM4 Src.Compile4
  Src.CompileCorrect4Base.
Import ListNotations.
Local Open Scope Z_scope.

Definition morph := list (option nat).
Definition maps (m : morph) (c a : nat) : Prop := nth_error m c = Some (Some a).
Definition mext (m m' : morph) : Prop := exists l, m' = m ++ l.
Definition hpre (h h' : list hcell) : Prop := forall a, (a < length h)%nat -> nth_error h' a = nth_error h a.

Lemma maps_ext : forall m m' c a, mext m m' -> maps m c a -> maps m' c a.
Proof.
  intros m m' c a (l & ->) H. unfold maps in *. rewrite nth_error_app1; [exact H|].
  apply nth_error_Some. congruence.
Qed.

Lemma hpre_nth : forall h h' a x, hpre h h' -> nth_error h a = Some x -> nth_error h' a = Some x.
Proof. intros h h' a x Hp H. rewrite Hp; [exact H|]. apply nth_error_Some. congruence. Qed.

Lemma Forall2_impl : forall {A B} (P Q : A -> B -> Prop) l l',
  (forall x y, P x y -> Q x y) -> Forall2 P l l' -> Forall2 Q l l'.
Proof. intros A B P Q l l' H HF. induction HF; constructor; auto. Qed.

Lemma Forall2_nth_l : forall {A B} (P : A -> B -> Prop) l l' j x,
  Forall2 P l l' -> nth_error l j = Some x -> exists y, nth_error l' j = Some y /\ P x y.
Proof.
  intros A B P l l' j x HF. revert j. induction HF as [|a b l l' Hab HF IH]; intros j Hj; destruct j; simpl in *; try discriminate.
  - inversion Hj; subst. eauto.
  - apply IH. exact Hj.
Qed.

Section Sim.
Variable X : xinfo.
Variables FT TL : list ident.
Variable genv : env.

Local Notation faddr k := (nth k (x_ftab X) 0%nat).

Definition fun_rel (m : morph) (h : list hcell) (fd : fdef) (cenv : env) (vec addr : nat) : Prop :=
  (exists k, fidx FT (fd_name fd) = Z.of_nat k /\ addr = faddr k) /\
  exists l, nth_error h vec = Some (HVec l) /\
    Forall2 (fun y a => exists c, lookup y cenv = Some c /\ maps m c a) (fvs_fd TL fd) l.

Definition cell_rel (m : morph) (h : list hcell) (cv : cellval) (hc : hcell) : Prop :=
  match cv, hc with
  | CInt z, HInt z' => z' = z
  | CBool b, HInt z' => z' = b2z b
  | CFun fd cenv, HFun vec addr => fun_rel m h fd cenv vec addr
  | _, _ => False
  end.

(* (injectivity of m on int cells, which assignment needs, is not part of what is proved here) *)
Record MS4 (m : morph) (st : state) (h : list hcell) : Prop := {
  ms4_len : length m = length (cells st);
  ms4_rel : forall c a, maps m c a ->
            exists cv hc, nth_error (cells st) c = Some cv /\ nth_error h a = Some hc /\ cell_rel m h cv hc
}.

Definition env_rel (fc : fctx) (m : morph) (e : env) (ce : cenv) (L : Z) (stk gl : list nat)
                   (sc : list ident) : Prop :=
  forall y, In y sc -> exists c a, lookup y e = Some c /\ maps m c a /\ resolves fc L ce stk gl y a.

Lemma fun_rel_mono : forall m m' h h' fd cenv vec addr,
  mext m m' -> hpre h h' -> fun_rel m h fd cenv vec addr -> fun_rel m' h' fd cenv vec addr.
Proof.
  intros m m' h h' fd cenv vec addr Hm Hh (Hk & l & Hv & HF). split; [exact Hk|].
  exists l. split; [eapply hpre_nth; eauto|].
  eapply Forall2_impl; [|exact HF]. intros y a (c & Hl & Hmp). exists c. split; [exact Hl|].
  eapply maps_ext; eauto.
Qed.

Lemma cell_rel_mono : forall m m' h h' cv hc,
  mext m m' -> hpre h h' -> cell_rel m h cv hc -> cell_rel m' h' cv hc.
Proof.
  intros m m' h h' cv hc Hm Hh H. destruct cv, hc; simpl in *; auto. eapply fun_rel_mono; eauto.
Qed.

(* ---- reading a name ---------------------------------------------------------------------- *)

Lemma var_read_sim : forall prog fc m e ce L stk gl sc x k st h o fr pc,
  env_rel fc m e ce L stk gl sc -> In x sc ->
  nth_error h (r_gp fr) = Some (HVec gl) ->
  (clookup x ce <> None \/ (self_is (fc_self fc) x = false /\ mem_id x TL = false)) ->
  code_at prog pc (var_code FT TL fc L ce x) ->
  exists c a, eval genv (S k) e st (EVar x) = (ROk c, st) /\ maps m c a /\
    star X prog (mkst pc stk h o fr) (mkst (pc + length (var_code FT TL fc L ce x)) (a :: stk) h o fr).
Proof.
  intros prog fc m e ce L stk gl sc x k st h o fr pc Henv Hin Hgp Hkind Hc.
  destruct (Henv x Hin) as (c & a & Hl & Hm & Hr). exists c, a.
  split; [|split; [exact Hm|]].
  - rewrite eval_EVar. unfold lookup_var. rewrite Hl. reflexivity.
  - unfold var_code, resolves in *. destruct (clookup x ce) as [i|] eqn:Ei.
    + destruct Hr as [Hle Hn]. apply code_at_head in Hc. simpl length. rewrite Nat.add_1_r.
      apply star_one. eapply step_id_local; eauto.
    + destruct Hkind as [Hk | [Hs Ht]]; [congruence|]. rewrite Hs, Ht in *.
      apply code_at_head in Hc. simpl length. rewrite Nat.add_1_r. apply star_one.
      assert (Hg := gpos_nonneg x (fc_fvs fc) 0 ltac:(lia)).
      eapply step_id_global with (i := Z.to_nat (gpos x (fc_fvs fc) 0)); [| exact Hgp | exact (proj2 Hr)].
      rewrite Z2Nat.id by lia. exact Hc.
Qed.

(* the captures of a function whose free variables are in scope *)
Lemma env_rel_addrs : forall fc m e ce L stk gl sc l,
  env_rel fc m e ce L stk gl sc -> (forall y, In y l -> In y sc) ->
  exists addrs, Forall2 (resolves fc L ce stk gl) l addrs /\
                Forall2 (fun y a => exists c, lookup y e = Some c /\ maps m c a) l addrs.
Proof.
  intros fc m e ce L stk gl sc l Henv. induction l as [|y t IH]; intros Hsub.
  - exists []. split; constructor.
  - destruct IH as (addrs & H1 & H2); [intros; apply Hsub; simpl; auto|].
    destruct (Henv y (Hsub y (or_introl eq_refl))) as (c & a & Hl & Hm & Hr).
    exists (a :: addrs). split; constructor; eauto.
Qed.

(* ---- a function expression ------------------------------------------------------------------ *)

Theorem lambda_creation_sim : forall prog fc m e ce L stk gl sc g kk k st h o fr pc,
  MS4 m st h -> env_rel fc m e ce L stk gl sc ->
  (forall y, In y (fvs_fd TL g) -> In y sc) ->
  nth_error h (r_gp fr) = Some (HVec gl) ->
  fidx FT (fd_name g) = Z.of_nat kk ->
  code_at prog pc (closure_code FT TL fc L ce g) ->
  exists c st' a h' m',
    eval genv (S k) e st (ELambda g) = (ROk c, st') /\
    star X prog (mkst pc stk h o fr)
                (mkst (pc + length (closure_code FT TL fc L ce g)) (a :: stk) h' o fr) /\
    maps m' c a /\ MS4 m' st' h' /\ mext m m' /\ hpre h h' /\
    nth_error (cells st') c = Some (CFun g e) /\ nth_error h a = None.
Proof.
  intros prog fc m e ce L stk gl sc g kk k st h o fr pc HMS Henv Hsub Hgp Hk Hc.
  destruct (env_rel_addrs fc m e ce L stk gl sc (fvs_fd TL g) Henv Hsub) as (addrs & HR & HL).
  assert (R := closure_run X prog FT TL fc ce stk gl h o fr L g addrs pc kk (or_intror Hgp) HR Hk Hc).
  set (h' := h ++ [HVec addrs; HFun (length h) (faddr kk)]) in *.
  set (m' := m ++ [Some (S (length h))]).
  exists (length (cells st)), (snd (alloc st (CFun g e))), (S (length h)), h', m'.
  assert (Hext : mext m m') by (eexists; reflexivity).
  assert (Hpre : hpre h h') by (intros a Ha; unfold h'; apply nth_error_app1; exact Ha).
  assert (Hlen := ms4_len _ _ _ HMS).
  split; [rewrite eval_ELambda; reflexivity|]. split; [exact R|].
  split; [|split; [|split; [exact Hext | split; [exact Hpre | split]]]].
  - unfold maps, m'. rewrite nth_error_app2 by lia. rewrite Hlen, Nat.sub_diag. reflexivity.
  - constructor.
    + unfold m'. simpl. rewrite !app_length. simpl. lia.
    + intros c a Hm. unfold maps, m' in Hm.
      destruct (Nat.lt_ge_cases c (length m)) as [Hlt | Hge].
      * rewrite nth_error_app1 in Hm by exact Hlt.
        destruct (ms4_rel _ _ _ HMS c a Hm) as (cv & hc & Hcv & Hhc & Hrel).
        exists cv, hc. split; [|split].
        -- simpl. rewrite nth_error_app1; [exact Hcv|]. apply nth_error_Some. congruence.
        -- eapply hpre_nth; eauto.
        -- eapply cell_rel_mono; eauto.
      * rewrite nth_error_app2 in Hm by exact Hge.
        destruct (c - length m)%nat as [|d] eqn:Ed; [|destruct d; discriminate].
        simpl in Hm. inversion Hm; subst a. assert (c = length m) by lia. subst c.
        exists (CFun g e), (HFun (length h) (faddr kk)). split; [|split].
        -- simpl. rewrite nth_error_app2 by lia. rewrite Hlen, Nat.sub_diag. reflexivity.
        -- unfold h'. rewrite nth_error_app2 by lia. replace (S (length h) - length h)%nat with 1%nat by lia. reflexivity.
        -- simpl. split; [exists kk; auto|]. exists addrs. split.
           ++ unfold h'. rewrite nth_error_app2 by lia. rewrite Nat.sub_diag. reflexivity.
           ++ eapply Forall2_impl; [|exact HL]. intros y a (c & Hl & Hmp). exists c. split; [exact Hl|].
              eapply maps_ext; eauto.
  - simpl. rewrite nth_error_app2 by lia. rewrite Nat.sub_diag. reflexivity.
  - apply nth_error_None. lia.
Qed.

(* ---- a run of sibling functions ---------------------------------------------------------------- *)

Lemma func_cenv_other : forall fds i ce x, (forall f, In f fds -> fd_name f <> x) ->
  clookup x (func_cenv fds i ce) = clookup x ce.
Proof.
  induction fds as [|fd t IH]; intros i ce x H; simpl; auto.
  rewrite IH by (intros f Hf; apply H; simpl; auto). simpl.
  destruct (N.eqb_spec x (fd_name fd)) as [->|]; auto.
  exfalso. apply (H fd); simpl; auto.
Qed.

Lemma func_cenv_nth : forall fds i ce j f, nth_error fds j = Some f ->
  (forall j' g, (j < j')%nat -> nth_error fds j' = Some g -> fd_name g <> fd_name f) ->
  clookup (fd_name f) (func_cenv fds i ce) = Some (i + Z.of_nat j).
Proof.
  induction fds as [|fd t IH]; intros i ce j f Hn Hl; destruct j as [|j]; simpl in Hn; try discriminate.
  - inversion Hn; subst. simpl. rewrite func_cenv_other.
    + simpl. rewrite N.eqb_refl. f_equal. lia.
    + intros g Hg. destruct (In_nth_error _ _ Hg) as (j' & Hj'). apply (Hl (S j') g); [lia | exact Hj'].
  - simpl. rewrite (IH (i + 1) _ j f Hn).
    + f_equal. lia.
    + intros j' g Hlt Hg. apply (Hl (S j') g); [lia | exact Hg].
Qed.

Lemma filled_nth : forall addrss ks H lim s j ad kk,
  filled X H lim s addrss ks -> nth_error addrss j = Some ad -> nth_error ks j = Some kk ->
  exists v, nth_error H (s + j) = Some (HFun v (faddr kk)) /\ nth_error H v = Some (HVec ad).
Proof.
  induction addrss as [|a0 at_ IH]; intros ks H lim s j ad kk HF Ha Hk; destruct ks as [|k0 kt];
    simpl in HF; try contradiction; destruct j as [|j]; simpl in Ha, Hk; try discriminate.
  - inversion Ha; inversion Hk; subst. destruct HF as [(v & H1 & H2 & _) _]. exists v.
    rewrite Nat.add_0_r. auto.
  - destruct HF as [_ HF]. destruct (IH kt H lim (S s) j ad kk HF Ha Hk) as (v & H1 & H2).
    exists v. replace (s + S j)%nat with (S s + j)%nat by lia. auto.
Qed.

Lemma NoDup_later : forall (fds : list fdef) j j' f g, NoDup (map fd_name fds) ->
  (j < j')%nat -> nth_error fds j = Some f -> nth_error fds j' = Some g -> fd_name g <> fd_name f.
Proof.
  intros fds j j' f g Hnd Hlt Hf Hg E.
  assert (H1 : nth_error (map fd_name fds) j = Some (fd_name f)) by (rewrite nth_error_map, Hf; reflexivity).
  assert (H2 : nth_error (map fd_name fds) j' = Some (fd_name f)) by (rewrite nth_error_map, Hg; simpl; rewrite E; reflexivity).
  assert (j = j'); [|lia].
  eapply (proj1 (NoDup_nth_error (map fd_name fds))); eauto.
  - apply nth_error_Some. congruence.
  - congruence.
Qed.

(* the evaluator's recursive environment e' and the machine's slots agree: the extended environment at
   the level after ALLOC, BEFORE any closure of the run is made (env_rel does not look at the heap) *)
Lemma env_rel_run : forall fc m e ce L stk gl sc fds st (h : list hcell),
  env_rel fc m e ce L stk gl sc ->
  NoDup (map fd_name fds) -> (forall f, In f fds -> ~ In (fd_name f) sc) ->
  length m = length (cells st) ->
  let k := length fds in
  env_rel fc (m ++ map Some (seq (length h) k)) (run_env fds e st)
          (func_cenv fds (L + 1) ce) (L + Z.of_nat k) (rev (seq (length h) k) ++ stk) gl
          (map fd_name fds ++ sc).
Proof.
  intros fc m e ce L stk gl sc fds st h Henv Hnd Hdis Hlen k y Hy.
  apply in_app_or in Hy. destruct Hy as [Hy | Hy].
  - (* a function of the run: its cell is new, its image the slot *)
    apply in_map_iff in Hy. destruct Hy as (f & <- & Hf).
    destruct (In_nth_error _ _ Hf) as (j & Hj).
    assert (Hjk : (j < k)%nat) by (apply nth_error_Some; congruence).
    exists (length (cells st) + j)%nat, (length h + j)%nat. split; [|split].
    + unfold run_env. apply func_env_nth; [exact Hj|]. intros j' g Hlt Hg. eapply NoDup_later; eauto.
    + unfold maps. rewrite nth_error_app2 by lia. replace (length (cells st) + j - length m)%nat with j by lia.
      rewrite nth_error_map, (nth_error_nth' _ 0%nat) by (rewrite seq_length; exact Hjk).
      rewrite seq_nth by exact Hjk. reflexivity.
    + unfold resolves. rewrite (func_cenv_nth fds (L + 1) ce j f Hj)
        by (intros j' g Hlt Hg; eapply NoDup_later; eauto).
      split; [lia|].
      replace (Z.to_nat (L + Z.of_nat k - (L + 1 + Z.of_nat j))) with (k - 1 - j)%nat by lia.
      rewrite nth_error_app1 by (rewrite rev_length, seq_length; lia).
      rewrite nth_error_rev_seq by lia. f_equal. lia.
  - (* an outer name: same cell, same image, the slot is k deeper *)
    destruct (Henv y Hy) as (c & a & Hl & Hm & Hr). exists c, a.
    assert (Hne : forall f, In f fds -> fd_name f <> y) by (intros f Hf E; apply (Hdis f Hf); rewrite E; exact Hy).
    split; [|split].
    + unfold run_env. rewrite func_env_other by exact Hne. exact Hl.
    + eapply maps_ext; [eexists; reflexivity | exact Hm].
    + unfold resolves in *. rewrite func_cenv_other by exact Hne. destruct (clookup y ce) as [i|]; [|exact Hr].
      destruct Hr as [Hle Hn]. split; [lia|].
      replace (Z.to_nat (L + Z.of_nat k - i)) with (k + Z.to_nat (L - i))%nat by lia.
      rewrite nth_error_app2 by (rewrite rev_length, seq_length; lia).
      rewrite rev_length, seq_length. replace (k + Z.to_nat (L - i) - k)%nat with (Z.to_nat (L - i)) by lia.
      exact Hn.
Qed.

Lemma Forall2_build : forall {A B} (P : A -> B -> Prop) (l : list A),
  (forall x, In x l -> exists y, P x y) -> exists l', Forall2 P l l'.
Proof.
  intros A B P l. induction l as [|x t IH]; intros H.
  - exists []. constructor.
  - destruct (H x (or_introl eq_refl)) as (y & Hy).
    destruct IH as (l' & Hl'); [intros; apply H; simpl; auto|]. exists (y :: l'). constructor; auto.
Qed.

Theorem sibling_run_sim : forall prog fc m e ce L stk gl sc fds ks st h o fr pc,
  MS4 m st h -> env_rel fc m e ce L stk gl sc ->
  NoDup (map fd_name fds) -> (forall f, In f fds -> ~ In (fd_name f) sc) ->
  (forall f y, In f fds -> In y (fvs_fd TL f) -> In y (map fd_name fds ++ sc)) ->
  nth_error h (r_gp fr) = Some (HVec gl) ->
  Forall2 (fun fd kk => fidx FT (fd_name fd) = Z.of_nat kk) fds ks ->
  let k := length fds in
  let L' := L + Z.of_nat k in
  let ce' := func_cenv fds (L + 1) ce in
  let Sk := rev (seq (length h) k) ++ stk in
  let e' := run_env fds e st in
  let st' := run_state fds e st in
  let m' := m ++ map Some (seq (length h) k) in
  code_at prog pc (ins BYTECODE_ALLOC (Z.of_nat k) 0 :: run_code_f (closure_code FT TL fc L' ce') fds k) ->
  exists h',
    star X prog (mkst pc stk h o fr)
      (mkst (pc + S (length (run_code_f (closure_code FT TL fc L' ce') fds k))) Sk h' o fr) /\
    MS4 m' st' h' /\ env_rel fc m' e' ce' L' Sk gl (map fd_name fds ++ sc) /\
    mext m m' /\ hpre h h' /\
    (forall j f, nth_error fds j = Some f ->
       maps m' (length (cells st) + j) (length h + j) /\
       nth_error (cells st') (length (cells st) + j) = Some (CFun f e')).
Proof.
  intros prog fc m e ce L stk gl sc fds ks st h o fr pc HMS Henv Hnd Hdis Hsub Hgp HK k L' ce' Sk e' st' m' Hc.
  assert (Hlen := ms4_len _ _ _ HMS).
  assert (Henv' : env_rel fc m' e' ce' L' Sk gl (map fd_name fds ++ sc)).
  { apply env_rel_run; auto. }
  (* the captures of every function of the run, resolved in the extended environment *)
  destruct (Forall2_build (fun fd addrs =>
              Forall2 (resolves fc L' ce' Sk gl) (fvs_fd TL fd) addrs /\
              Forall2 (fun y a => exists c, lookup y e' = Some c /\ maps m' c a) (fvs_fd TL fd) addrs) fds)
    as (addrss & HA).
  { intros f Hf. destruct (env_rel_addrs fc m' e' ce' L' Sk gl _ (fvs_fd TL f) Henv') as (addrs & H1 & H2).
    - intros y Hy. eapply Hsub; eauto.
    - exists addrs. auto. }
  assert (HA1 : Forall2 (fun fd addrs => Forall2 (resolves fc L' ce' Sk gl) (fvs_fd TL fd) addrs) fds addrss).
  { eapply Forall2_impl; [|exact HA]. intros ? ? [? ?]; auto. }
  destruct (sibling_run X prog FT TL fc ce' gl stk h o fr L' fds addrss ks pc (or_intror Hgp) HA1 HK Hc)
    as (h' & Hst & Hlow & Hfill).
  exists h'. assert (Hext : mext m m') by (eexists; reflexivity).
  assert (Hpre : hpre h h') by exact Hlow.
  split; [exact Hst|]. split; [|split; [exact Henv' | split; [exact Hext | split; [exact Hpre|]]]].
  - constructor.
    + unfold m', st'. rewrite run_state_cells, !app_length, !map_length, seq_length. fold k. lia.
    + intros c a Hm. unfold maps, m' in Hm.
      destruct (Nat.lt_ge_cases c (length m)) as [Hlt | Hge].
      * rewrite nth_error_app1 in Hm by exact Hlt.
        destruct (ms4_rel _ _ _ HMS c a Hm) as (cv & hc & Hcv & Hhc & Hrel).
        exists cv, hc. split; [|split].
        -- unfold st'. rewrite run_state_cells, nth_error_app1; [exact Hcv|]. apply nth_error_Some. congruence.
        -- eapply hpre_nth; eauto.
        -- eapply cell_rel_mono; eauto.
      * rewrite nth_error_app2 in Hm by exact Hge. rewrite nth_error_map in Hm.
        destruct (nth_error (seq (length h) k) (c - length m)) as [a0|] eqn:Es; [|discriminate].
        simpl in Hm. inversion Hm; subst a0.
        assert (Hj : (c - length m < k)%nat).
        { assert (Hx : nth_error (seq (length h) k) (c - length m) <> None) by congruence.
          apply nth_error_Some in Hx. rewrite seq_length in Hx. exact Hx. }
        rewrite (nth_error_nth' _ 0%nat) in Es by (rewrite seq_length; exact Hj).
        rewrite seq_nth in Es by exact Hj. inversion Es; subst a.
        set (j := (c - length m)%nat) in *.
        destruct (nth_error fds j) as [f|] eqn:Ef; [|apply nth_error_None in Ef; unfold k in Hj; lia].
        destruct (Forall2_nth_l _ _ _ _ _ HA Ef) as (addrs & Had & _ & HL).
        destruct (Forall2_nth_l _ _ _ _ _ HK Ef) as (kk & Hkk & Hidx).
        destruct (filled_nth addrss ks h' _ _ j addrs kk Hfill Had Hkk) as (v & Hs & Hv).
        exists (CFun f e'), (HFun v (faddr kk)). split; [|split].
        -- unfold st'. rewrite run_state_cells, nth_error_app2 by lia. rewrite <- Hlen. fold j.
           rewrite nth_error_map, Ef. reflexivity.
        -- exact Hs.
        -- simpl. split; [exists kk; auto|]. exists addrs. auto.
  - intros j f Hj. assert (Hjk : (j < k)%nat) by (apply nth_error_Some; congruence). split.
    + unfold maps, m'. rewrite nth_error_app2 by lia. replace (length (cells st) + j - length m)%nat with j by lia.
      rewrite nth_error_map, (nth_error_nth' _ 0%nat) by (rewrite seq_length; exact Hjk).
      rewrite seq_nth by exact Hjk. reflexivity.
    + unfold st'. rewrite run_state_cells, nth_error_app2 by lia.
      replace (length (cells st) + j - length (cells st))%nat with j by lia. rewrite nth_error_map, Hj. reflexivity.
Qed.

(* ---- entering a closure: the environment of the callee ---------------------------------------------- *)

Lemma mem_id_true_In : forall x l, mem_id x l = true -> In x l.
Proof.
  induction l as [|y t IH]; simpl; intros H; [discriminate|].
  apply orb_true_iff in H. destruct H as [H | H]; [left; symmetry; apply N.eqb_eq; exact H | right; auto].
Qed.

Lemma In_mem_id_true : forall x l, In x l -> mem_id x l = true.
Proof.
  induction l as [|y t IH]; simpl; intros H; [contradiction|].
  destruct H as [-> | H]; [rewrite N.eqb_refl; reflexivity | rewrite IH by exact H; apply orb_true_r].
Qed.

Lemma dedup_In : forall l seen y, In y (dedup l seen) -> In y l /\ mem_id y seen = false.
Proof.
  induction l as [|x t IH]; simpl; intros seen y H; [contradiction|].
  destruct (mem_id x seen) eqn:E.
  - destruct (IH seen y H). auto.
  - destruct H as [<- | H]; [auto|]. destruct (IH (x :: seen) y H) as [H1 H2]. split; [auto|].
    simpl in H2. apply orb_false_iff in H2. tauto.
Qed.

Lemma dedup_NoDup : forall l seen, NoDup (dedup l seen).
Proof.
  induction l as [|x t IH]; simpl; intros seen; [constructor|].
  destruct (mem_id x seen) eqn:E; [apply IH|]. constructor; [|apply IH].
  intros H. apply dedup_In in H. destruct H as [_ H]. simpl in H. rewrite N.eqb_refl in H. discriminate.
Qed.

Lemma gpos_nth : forall l i y b, NoDup l -> nth_error l i = Some y -> gpos y l b = b + Z.of_nat i.
Proof.
  induction l as [|z t IH]; intros i y b Hnd Hn; destruct i as [|i]; simpl in Hn; try discriminate.
  - inversion Hn; subst. simpl. rewrite N.eqb_refl. lia.
  - inversion Hnd as [|? ? Hz Hnd']; subst. simpl.
    destruct (N.eqb_spec y z) as [->|]; [exfalso; apply Hz; eapply nth_error_In; eauto|].
    rewrite (IH i y (b + 1) Hnd' Hn). lia.
Qed.

Lemma fvs_fd_shape : forall fd, exists l,
  fvs_fd TL fd = dedup (filter (nonlocal TL (fd_name fd) (locals fd)) l) [].
Proof. intros [name ps r body cs ca]. eexists. reflexivity. Qed.

Lemma fvs_fd_NoDup : forall fd, NoDup (fvs_fd TL fd).
Proof. intros fd. destruct (fvs_fd_shape fd) as (l & ->). apply dedup_NoDup. Qed.

Lemma fvs_fd_not_param : forall fd y, In y (fvs_fd TL fd) -> mem_id y (param_names (fd_params fd)) = false.
Proof.
  intros fd y H. destruct (fvs_fd_shape fd) as (l & E). rewrite E in H. apply dedup_In in H.
  destruct H as [H _]. apply filter_In in H. destruct H as [_ H]. unfold nonlocal in H.
  apply andb_true_iff in H. destruct H as [H _]. apply andb_true_iff in H. destruct H as [H _].
  apply negb_true_iff in H. destruct (mem_id y (param_names (fd_params fd))) eqn:Ep; [|reflexivity].
  exfalso. apply mem_id_true_In in Ep. assert (Hin : In y (locals fd)) by (unfold locals; apply in_or_app; auto).
  apply In_mem_id_true in Hin. congruence.
Qed.

Lemma fvs_fd_not_self : forall fd y, In y (fvs_fd TL fd) -> N.eqb y (fd_name fd) = false.
Proof.
  intros fd y H. destruct (fvs_fd_shape fd) as (l & E). rewrite E in H. apply dedup_In in H.
  destruct H as [H _]. apply filter_In in H. destruct H as [_ H]. unfold nonlocal in H.
  apply andb_true_iff in H. destruct H as [_ H]. apply negb_true_iff in H. exact H.
Qed.

Lemma param_env_names : forall ps cs penv stk m pre,
  bind_params ps cs = Some penv -> Forall2 (maps m) cs stk ->
  forall x, mem_id x (param_names ps) = true ->
    exists i c a, clookup x (param_env ps (- Z.of_nat (length pre))) = Some i /\ i <= 0 /\
      lookup x penv = Some c /\ maps m c a /\ nth_error (pre ++ stk) (Z.to_nat (0 - i)) = Some a.
Proof.
  induction ps as [|[[x v] t] ps IH]; intros cs penv stk m pre Hb HF y Hy.
  - discriminate Hy.
  - destruct cs as [|c cs]; [discriminate Hb|]. simpl in Hb.
    destruct (bind_params ps cs) as [e|] eqn:Eb; [|discriminate Hb]. inversion Hb; subst penv.
    inversion HF as [|c0 a cs0 stk' Hca HF']; subst.
    simpl in Hy |- *. destruct (N.eqb y x) eqn:Exy.
    + exists (- Z.of_nat (length pre)), c, a. repeat split; auto; try lia.
      match goal with |- nth_error _ ?k = _ => replace k with (length pre) by lia end.
      rewrite nth_error_app2, Nat.sub_diag by lia. reflexivity.
    + simpl in Hy.
      specialize (IH cs e stk' m (pre ++ [a]) Eb HF' y Hy).
      rewrite app_length in IH. simpl in IH.
      replace (- Z.of_nat (length pre + 1)) with (- Z.of_nat (length pre) - 1) in IH by lia.
      rewrite <- app_assoc in IH. exact IH.
Qed.

Lemma bind_params_not_param : forall ps cs penv y, bind_params ps cs = Some penv ->
  mem_id y (param_names ps) = false -> lookup y penv = None /\ forall i, clookup y (param_env ps i) = None.
Proof.
  induction ps as [|[[x v] t] ps IH]; intros cs penv y Hb Hy.
  - destruct cs; [|discriminate Hb]. inversion Hb. auto.
  - destruct cs as [|c cs]; [discriminate Hb|]. simpl in Hb.
    destruct (bind_params ps cs) as [e|] eqn:Eb; [|discriminate Hb]. inversion Hb; subst penv.
    simpl in Hy. apply orb_false_iff in Hy. destruct Hy as [Hx Hy]. simpl. rewrite Hx.
    destruct (IH cs e y Eb Hy) as [H1 H2]. auto.
Qed.

Lemma lookup_app : forall x (a b : env),
  lookup x (a ++ b) = match lookup x a with Some c => Some c | None => lookup x b end.
Proof.
  intros x a b. induction a as [|[y c] t IH]; simpl; [reflexivity|]. destruct (N.eqb x y); auto.
Qed.

(* a function object related to the evaluator's closure CFun fd cenv, applied to arguments whose cells
   are mapped to the addresses on the stack (first parameter on top, as MARK; args right to left; CALL
   leaves them): the callee starts — level 0, gp = the object's vector — with every parameter and every
   captured name related.  This is the environment Eval.v evaluates the body in: penv ++ cenv *)
Theorem closure_entry_env : forall kd fd cenv m h vec addr cs penv astk,
  fun_rel m h fd cenv vec addr ->
  bind_params (fd_params fd) cs = Some penv -> Forall2 (maps m) cs astk ->
  exists gl, nth_error h vec = Some (HVec gl) /\
    env_rel (ctx_of TL kd fd) m (penv ++ cenv) (param_env (fd_params fd) 0) 0 astk gl
            (param_names (fd_params fd) ++ fvs_fd TL fd).
Proof.
  intros kd fd cenv m h vec addr cs penv astk (_ & gl & Hv & HF) Hb Hcs. exists gl. split; [exact Hv|].
  intros y Hy. apply in_app_or in Hy. destruct Hy as [Hy | Hy].
  - apply In_mem_id_true in Hy.
    destruct (param_env_names _ _ _ _ _ [] Hb Hcs y Hy) as (i & c & a & Hcl & Hle & Hl & Hm & Hn).
    exists c, a. split; [|split; [exact Hm|]].
    + rewrite lookup_app, Hl. reflexivity.
    + unfold resolves. simpl in Hcl. rewrite Hcl. split; [exact Hle | exact Hn].
  - destruct (In_nth_error _ _ Hy) as (i & Hi).
    destruct (Forall2_nth_l _ _ _ _ _ HF Hi) as (a & Ha & c & Hl & Hm).
    destruct (bind_params_not_param _ _ _ y Hb (fvs_fd_not_param fd y Hy)) as [Hn1 Hn2].
    exists c, a. split; [|split; [exact Hm|]].
    + rewrite lookup_app, Hn1. exact Hl.
    + unfold resolves. rewrite Hn2. cbn [ctx_of fc_fvs fc_self]. split.
      { destruct kd; cbn [self_is]; try reflexivity. exact (fvs_fd_not_self fd y Hy). }
      rewrite (gpos_nth _ i y 0 (fvs_fd_NoDup fd) Hi). simpl. rewrite Nat2Z.id. exact Ha.
Qed.

End Sim.
