/* nevrun — batch runner for Never programs against the tree's libnev.a.
 *
 *   nevrun [--mem M] [--stack S] [--timeout T] --batch FILE
 *
 * FILE holds any number of programs; each starts with a header line
 *     @@@ <id> [entry=<name>] [mem=<M>] [stack=<S>] [args=<a1>,<a2>,...] [compile-only]
 * followed by the source text up to the next header (or EOF).  Every program is compiled and
 * run in a forked child (fresh process state, sanitizer reports stay attributable).  Output,
 * on stdout, per program:
 *     @@BEGIN <id>
 *     ...whatever the program and the runtime wrote to stdout/stderr, in order...
 *     @@OUTCOME <id> <kind> <detail>        (always preceded by a newline, so it starts a line)
 *     @@END <id> status=<exit code | signal N | timeout>
 * where <kind> is one of
 *     COMPILE_ERROR <ret>       nev_compile_str returned non-zero
 *     PREPARE_ERROR <ret>
 *     RESULT <type> <value>     int/long decimal, float/double as 0x bit pattern + %g text, char code
 *     EXEC_ERROR <ret>          nev_execute returned non-zero (unhandled exception / assert)
 * A child that exits through exit(1) (stack too large / out of memory) or dies from a signal
 * prints no OUTCOME line; the END line carries the status.
 */
#define _GNU_SOURCE
#include <stdio.h>
#include <stdlib.h>
#include <string.h>
#include <unistd.h>
#include <signal.h>
#include <sys/wait.h>
#include <sys/types.h>
#include "nev.h"

static unsigned int g_mem = DEFAULT_VM_MEM_SIZE, g_stack = DEFAULT_VM_STACK_SIZE;
static int g_timeout = 10;

static void print_result(const char * id, object * r)
{
    switch (r->type)
    {
    case OBJECT_INT: printf("\n@@OUTCOME %s RESULT int %d\n", id, r->int_value); break;
    case OBJECT_LONG: printf("\n@@OUTCOME %s RESULT long %lld\n", id, r->long_value); break;
    case OBJECT_FLOAT: { unsigned int b; memcpy(&b, &r->float_value, 4);
        printf("\n@@OUTCOME %s RESULT float 0x%08x %g\n", id, b, (double)r->float_value); break; }
    case OBJECT_DOUBLE: { unsigned long long b; memcpy(&b, &r->double_value, 8);
        printf("\n@@OUTCOME %s RESULT double 0x%016llx %g\n", id, b, r->double_value); break; }
    case OBJECT_CHAR: printf("\n@@OUTCOME %s RESULT char %d\n", id, (int)r->char_value); break;
    default: printf("\n@@OUTCOME %s RESULT other %d\n", id, (int)r->type); break;
    }
}

static int run_one(const char * id, const char * src, const char * entry, unsigned int mem,
                   unsigned int stack, int argc, char ** argv, int compile_only)
{
    int ret;
    object result = { 0 };
    program * prog = program_new();

    ret = nev_compile_str(src, prog);
    if (ret != 0)
    {
        printf("\n@@OUTCOME %s COMPILE_ERROR %d\n", id, ret);
        program_delete(prog);
        return 0;
    }
    if (compile_only)
    {
        printf("\n@@OUTCOME %s COMPILED 0\n", id);
        program_delete(prog);
        return 0;
    }
    ret = nev_prepare_argc_argv(prog, entry, argc, argv);
    if (ret != 0)
    {
        printf("\n@@OUTCOME %s PREPARE_ERROR %d\n", id, ret);
        program_delete(prog);
        return 0;
    }
    vm * machine = vm_new(mem, stack);
    ret = nev_execute(prog, machine, &result);
    fflush(stdout);
    if (ret == 0) print_result(id, &result);
    else printf("\n@@OUTCOME %s EXEC_ERROR %d\n", id, ret);
    vm_delete(machine);
    program_delete(prog);
    return 0;
}

int main(int argc, char ** argv)
{
    const char * batch = NULL;
    int i;
    for (i = 1; i < argc; i++)
    {
        if (!strcmp(argv[i], "--mem") && i + 1 < argc) g_mem = (unsigned)atoi(argv[++i]);
        else if (!strcmp(argv[i], "--stack") && i + 1 < argc) g_stack = (unsigned)atoi(argv[++i]);
        else if (!strcmp(argv[i], "--timeout") && i + 1 < argc) g_timeout = atoi(argv[++i]);
        else if (!strcmp(argv[i], "--batch") && i + 1 < argc) batch = argv[++i];
    }
    if (!batch) { fprintf(stderr, "usage: nevrun [--mem M] [--stack S] [--timeout T] --batch FILE\n"); return 2; }
    FILE * f = fopen(batch, "rb");
    if (!f) { perror(batch); return 2; }
    fseek(f, 0, SEEK_END); long n = ftell(f); fseek(f, 0, SEEK_SET);
    char * buf = malloc(n + 1);
    if (fread(buf, 1, n, f) != (size_t)n) { perror("read"); return 2; }
    buf[n] = 0; fclose(f);
    setvbuf(stdout, NULL, _IOLBF, 0);

    char * p = buf;
    while (p && *p)
    {
        if (strncmp(p, "@@@ ", 4) != 0) { char * q = strstr(p, "\n@@@ "); if (!q) break; p = q + 1; continue; }
        char * eol = strchr(p, '\n');
        if (!eol) break;
        *eol = 0;
        char * hdr = p + 4;
        char * src = eol + 1;
        char * next = strstr(src, "\n@@@ ");
        if (src[0] == '@' && !strncmp(src, "@@@ ", 4)) { next = src - 1; }
        char * srcend = next ? next + 1 : buf + n;
        char saved = *srcend; *srcend = 0;

        /* parse header */
        char id[256] = "?"; char entry[128] = "main"; unsigned mem = g_mem, stack = g_stack;
        char * args[64]; int nargs = 0; int compile_only = 0;
        char * tok = strtok(hdr, " \t\r");
        int first = 1;
        while (tok)
        {
            if (first) { snprintf(id, sizeof id, "%s", tok); first = 0; }
            else if (!strncmp(tok, "entry=", 6)) snprintf(entry, sizeof entry, "%s", tok + 6);
            else if (!strncmp(tok, "mem=", 4)) mem = (unsigned)atoi(tok + 4);
            else if (!strncmp(tok, "stack=", 6)) stack = (unsigned)atoi(tok + 6);
            else if (!strcmp(tok, "compile-only")) compile_only = 1;
            else if (!strncmp(tok, "args=", 5))
            {
                char * a = tok + 5; char * c;
                while (a && *a && nargs < 63) { c = strchr(a, ','); if (c) *c = 0; args[nargs++] = a; a = c ? c + 1 : NULL; }
            }
            tok = strtok(NULL, " \t\r");
        }
        args[nargs] = NULL;

        printf("@@BEGIN %s\n", id);
        fflush(stdout);
        pid_t pid = fork();
        if (pid == 0)
        {
            dup2(1, 2);
            setvbuf(stdout, NULL, _IONBF, 0);
            alarm(g_timeout);
            run_one(id, src, entry, mem, stack, nargs, args, compile_only);
            fflush(stdout);
            exit(0);
        }
        int st = 0;
        waitpid(pid, &st, 0);
        if (WIFEXITED(st)) printf("\n@@END %s status=%d\n", id, WEXITSTATUS(st));
        else if (WIFSIGNALED(st) && WTERMSIG(st) == SIGALRM) printf("\n@@END %s status=timeout\n", id);
        else if (WIFSIGNALED(st)) printf("\n@@END %s status=signal %d\n", id, WTERMSIG(st));
        else printf("\n@@END %s status=unknown\n", id);
        fflush(stdout);
        *srcend = saved;
        p = next ? next + 1 : NULL;
    }
    free(buf);
    return 0;
}
