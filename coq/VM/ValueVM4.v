(* VM/ValueVM4.v — stage 4 of the value-level VM model (VM/ValueVM3.v stays, with the F3/F5 theorems
   proved on it): the same small-step semantics of /repo/back/vmexec.c, extended with what closures need
   (Src/Compile4.v): typed heap cells, the register gp, and the opcodes ALLOC, REWRITE, FUNC_OBJ,
   GLOBAL_VEC n, COPYGLOB, ID_GLOBAL.  Definitions only; `run` is executable and extracted
   (Extract/ExtractCompile4.v) so that the harness runs it against the real VM (tie level 4).

   State: as in ValueVM3.v (v_ip, v_stk = the stack above the running activation's header, v_out,
   v_fr = relative fp, exception register, suspended activations), and
     v_heap   the cell table: address -> HInt z (OBJECT_INT; bool is 0/1)
                                       | HFun vec addr (OBJECT_FUNC: the environment vector and the
                                         code address; ALLOC makes HFun 0 0)
                                       | HVec l (OBJECT_VEC: the addresses of the captured cells).
              gc_alloc_* returns a FRESH cell: the model allocates at `length v_heap` (no collector).
     r_gp     machine->gp: the environment vector of the running function (written by CALL from the
              callee's function object, saved by MARK in its header — third word from the top —
              and restored by RET / RETHROW); read by ID_GLOBAL i (push gp[i], the SAME cell: captured
              variables are shared, not copied) and COPYGLOB (push gp itself; followed by
              ID_FUNC_ADDR f it makes a function value of the running nested function f: recursion).
              CLEAR_STACK leaves gp alone: a catch clause runs with the gp of its function (a fault in a
              callee comes back through RETHROW, which restores it).
     f_gp     the gp saved in the header of a suspended activation.
   New handlers mirrored:
     vm_execute_alloc n        push n fresh function cells HFun 0 0 (the slots of a run of adjacent
                               nested functions; they are filled by REWRITE)
     vm_execute_func_obj       no effect
     vm_execute_global_vec n   pop n addresses into a fresh vector (the deepest is element 0), push it
     vm_execute_id_func_addr   top = vector address v: replace by a fresh HFun v (address of function k)
     vm_execute_rewrite j      copy vector and code address of the function cell on top INTO the cell in
                               slot j below it (the cell keeps its address: closures that captured the
                               slot before see the function), pop
     vm_execute_id_global i    push gp[i]
     vm_execute_copyglob       push gp
     vm_execute_call           as before, and gp = the callee's vector (a nil code address raises
                               nil_pointer on the real machine; the fragments never call an unfilled slot:
                               stuck in the model)
   Everything else is ValueVM3.v with `HInt` payloads.

   No axioms. *)
From Coq Require Import ZArith List Bool Lia.
From NV Require Import Gen.Opcodes Verifier.Effect Src.Syntax Src.Eval.
Import ListNotations.
Local Open Scope Z_scope.

Inductive hcell := HInt (z : Z) | HFun (vec addr : nat) | HVec (l : list nat)
  | HNil.   (* a record reference to nil (NIL_RECORD_REF: a vec_ref object whose target is nil_ptr) *)

Definition hint (h : list hcell) (a : nat) : option Z :=
  match nth_error h a with Some (HInt z) => Some z | _ => None end.

Record frame := { f_ret : nat; f_fp : nat; f_gp : nat; f_below : list nat; f_exc : option exn }.

Record fregs := { r_fp : nat; r_gp : nat; r_exc : option exn; r_frames : list frame }.

Record vstate := {
  v_ip : nat;
  v_stk : list nat;
  v_heap : list hcell;
  v_out : list Z;
  v_fr : fregs
}.

(* what the VM needs besides the code array: the exception table (sorted by block address), the
   address of the entry function (prog->entry_addr), the program arguments, and the address of
   every function by index: the model runs the code in the RELATIVE form Src/Compile.v produces
   and links on the fly — MARK's operand is the distance to its return LABEL, ID_FUNC_ADDR's
   operand the index of the function; Compile.link does the same statically and the tie compares
   the linked image with the real module *)
Record xinfo := { x_tab : list (nat * nat); x_entry : nat; x_args : list Z; x_ftab : list nat }.

Inductive sres :=
| SNext (s : vstate)
| SExc (e : exn) (s : vstate)       (* UNHANDLED_EXCEPTION *)
| SRet (a : nat) (s : vstate)       (* HALT: a = the result slot *)
| SStuck.                           (* outside the modelled behaviour *)

Definition b2z (b : bool) : Z := if b then 1 else 0.

Inductive bres := BVal (z : Z) | BDivZero.

(* the binary int handlers: a = stack[sp-1], b = stack[sp] *)
Definition vm_binop (o : opcode) (a b : Z) : option bres :=
  match o with
  | BYTECODE_OP_ADD_INT => Some (BVal (wrap32 (a + b)))
  | BYTECODE_OP_SUB_INT => Some (BVal (wrap32 (a - b)))
  | BYTECODE_OP_MUL_INT => Some (BVal (wrap32 (a * b)))
  | BYTECODE_OP_DIV_INT =>
      Some (if b =? 0 then BDivZero
            else BVal (if b =? -1 then wrap32 (- a) else wrap32 (Z.quot a b)))
  | BYTECODE_OP_MOD_INT =>
      Some (if b =? 0 then BDivZero
            else BVal (if b =? -1 then 0 else wrap32 (Z.rem a b)))
  | BYTECODE_OP_LT_INT => Some (BVal (b2z (a <? b)))
  | BYTECODE_OP_GT_INT => Some (BVal (b2z (b <? a)))
  | BYTECODE_OP_LTE_INT => Some (BVal (b2z (a <=? b)))
  | BYTECODE_OP_GTE_INT => Some (BVal (b2z (b <=? a)))
  | BYTECODE_OP_EQ_INT => Some (BVal (b2z (a =? b)))
  | BYTECODE_OP_NEQ_INT => Some (BVal (b2z (negb (a =? b))))
  | BYTECODE_OP_BIN_AND_INT => Some (BVal (wrap32 (Z.land a b)))
  | BYTECODE_OP_BIN_OR_INT => Some (BVal (wrap32 (Z.lor a b)))
  | BYTECODE_OP_BIN_XOR_INT => Some (BVal (wrap32 (Z.lxor a b)))
  | BYTECODE_OP_BIN_SHL_INT => Some (BVal (wrap32 (Z.shiftl a (b mod 32))))
  | BYTECODE_OP_BIN_SHR_INT => Some (BVal (wrap32 (Z.shiftr a (b mod 32))))
  | _ => None
  end.

Definition vm_unop (o : opcode) (a : Z) : option Z :=
  match o with
  | BYTECODE_OP_NEG_INT => Some (wrap32 (- a))
  | BYTECODE_OP_NOT_INT => Some (b2z (a =? 0))
  | _ => None
  end.

Definition jump_target (ip : nat) (off : Z) : option nat :=
  let t := Z.of_nat ip + 1 + off in
  if t <? 0 then None else Some (Z.to_nat t).

Definition mkst (ip : nat) (stk : list nat) (h : list hcell) (o : list Z) (fr : fregs) : vstate :=
  {| v_ip := ip; v_stk := stk; v_heap := h; v_out := o; v_fr := fr |}.

Definition set_fp (fr : fregs) (fp : nat) : fregs :=
  {| r_fp := fp; r_gp := r_gp fr; r_exc := r_exc fr; r_frames := r_frames fr |}.
Definition set_exc (fr : fregs) (e : exn) : fregs :=
  {| r_fp := r_fp fr; r_gp := r_gp fr; r_exc := Some e; r_frames := r_frames fr |}.
Definition set_fp_gp (fr : fregs) (fp gp : nat) : fregs :=
  {| r_fp := fp; r_gp := gp; r_exc := r_exc fr; r_frames := r_frames fr |}.

(* exception_tab_search: the handler of the last entry whose block address is <= ip *)
Fixpoint hsearch (tab : list (nat * nat)) (ip : nat) (cur : nat) : nat :=
  match tab with
  | [] => cur
  | (b, hd) :: t => if Nat.leb b ip then hsearch t ip hd else cur
  end.

(* vm_execute_ret on the modelled state: Some (return ip, stack, registers) *)
(* exception numbers of include/vm.h (except_no), as machine->exception holds them *)
Definition exn_no (e : exn) : Z :=
  match e with
  | ExDivision => 1 | ExArrSize => 2 | ExIndexOob => 3 | ExInvalid => 4 | ExOverflow => 5
  | ExUnderflow => 6 | ExInexact => 7 | ExNil => 8 | ExFfi => 9
  end.

(* vm_execute_ret on the modelled state: Some (return ip, stack, registers).  The result is
   stack[sp]; with nothing above the header (a RETHROW of a function without parameters right after
   CLEAR_STACK) that is the header's top word, the return ip *)
Definition do_ret (stk : list nat) (fr : fregs) : option (nat * list nat * fregs) :=
  if Nat.eqb (r_fp fr) 0 then
    match r_frames fr with
    | f :: fs => Some (f_ret f, match stk with res :: _ => res | [] => f_ret f end :: f_below f,
                       {| r_fp := f_fp f; r_gp := f_gp f; r_exc := f_exc f; r_frames := fs |})
    | [] => None
    end
  else
    match stk with
    | res :: _ =>
      if Nat.ltb (r_fp fr) (length stk) then
        match skipn (length stk - r_fp fr) stk with
        | ret :: fpo :: gpo :: _ :: _ :: below => Some (ret, res :: below, set_fp_gp fr fpo gpo)
        | _ => None
        end
      else None
    | [] => None
    end.

Definition step (X : xinfo) (prog : list rinstr) (s : vstate) : sres :=
  match nth_error prog (v_ip s) with
  | None => SStuck
  | Some i =>
    let next := S (v_ip s) in
    let stk := v_stk s in
    let h := v_heap s in
    let o := v_out s in
    let fr := v_fr s in
    match r_op i with
    | BYTECODE_INT => SNext (mkst next (length h :: stk) (h ++ [HInt (r_w0 i)]) o fr)
    | BYTECODE_ID_LOCAL =>
        match zn (r_w0 i - r_w1 i) with
        | Some k => match nth_error stk k with
                    | Some a => SNext (mkst next (a :: stk) h o fr)
                    | None => SStuck end
        | None => SStuck end
    | BYTECODE_OP_NEG_INT | BYTECODE_OP_NOT_INT =>
        match stk with
        | a :: rest =>
          match hint h a with
          | Some z => match vm_unop (r_op i) z with
                      | Some v => SNext (mkst next (length h :: rest) (h ++ [HInt v]) o fr)
                      | None => SStuck end
          | None => SStuck end
        | _ => SStuck end
    | BYTECODE_OP_ADD_INT | BYTECODE_OP_SUB_INT | BYTECODE_OP_MUL_INT
    | BYTECODE_OP_DIV_INT | BYTECODE_OP_MOD_INT
    | BYTECODE_OP_LT_INT | BYTECODE_OP_GT_INT | BYTECODE_OP_LTE_INT | BYTECODE_OP_GTE_INT
    | BYTECODE_OP_EQ_INT | BYTECODE_OP_NEQ_INT
    | BYTECODE_OP_BIN_AND_INT | BYTECODE_OP_BIN_OR_INT | BYTECODE_OP_BIN_XOR_INT
    | BYTECODE_OP_BIN_SHL_INT | BYTECODE_OP_BIN_SHR_INT =>
        match stk with
        | ab :: aa :: rest =>
          match hint h aa, hint h ab with
          | Some za, Some zb =>
            match vm_binop (r_op i) za zb with
            | Some (BVal v) => SNext (mkst next (length h :: rest) (h ++ [HInt v]) o fr)
            | Some BDivZero =>
                SNext (mkst (hsearch (x_tab X) (v_ip s) 0) stk h o (set_exc fr ExDivision))
            | None => SStuck end
          | _, _ => SStuck end
        | _ => SStuck end
    | BYTECODE_OP_ASS_INT =>
        match stk with
        | ar :: al :: rest =>
          match hint h ar with
          | Some z => if Nat.ltb al (length h)
                      then SNext (mkst next (al :: rest) (list_upd h al (HInt z)) o fr)
                      else SStuck
          | None => SStuck end
        | _ => SStuck end
    | BYTECODE_JUMPZ =>
        match stk with
        | a :: rest =>
          match hint h a with
          | Some z =>
            if z =? 0 then
              match jump_target (v_ip s) (r_w0 i) with
              | Some t => SNext (mkst t rest h o fr)
              | None => SStuck end
            else SNext (mkst next rest h o fr)
          | None => SStuck end
        | _ => SStuck end
    | BYTECODE_JUMP =>
        match jump_target (v_ip s) (r_w0 i) with
        | Some t => SNext (mkst t stk h o fr)
        | None => SStuck end
    | BYTECODE_LABEL | BYTECODE_LINE | BYTECODE_FUNC_DEF | BYTECODE_FUNC_OBJ => SNext (mkst next stk h o fr)
    | BYTECODE_SLIDE =>
        match zn (r_w0 i), zn (r_w1 i) with
        | Some q, Some m =>
          if Nat.eqb q 0 then SNext (mkst next stk h o fr)
          else if Nat.leb (q + m) (length stk)
               then SNext (mkst next (firstn m stk ++ skipn (m + q) stk) h o fr)
               else SStuck
        | _, _ => SStuck end
    | BYTECODE_MARK =>
        match zn (Z.of_nat (v_ip s) + r_w0 i) with
        | Some t => SNext (mkst next (t :: r_fp fr :: r_gp fr :: 0%nat :: 0%nat :: stk) h o
                                (set_fp fr (length stk + 5)))
        | None => SStuck end
    | BYTECODE_GLOBAL_VEC =>
        match zn (r_w0 i) with
        | Some n => if Nat.leb n (length stk)
                    then SNext (mkst next (length h :: skipn n stk) (h ++ [HVec (rev (firstn n stk))]) o fr)
                    else SStuck
        | None => SStuck end
    | BYTECODE_COPYGLOB => SNext (mkst next (r_gp fr :: stk) h o fr)
    | BYTECODE_RECORD =>
        (* vm_execute_record: the n field cells, the first on top; the vector and its reference are ONE cell HVec *)
        match zn (r_w0 i) with
        | Some n => if Nat.leb n (length stk)
                    then SNext (mkst next (length h :: skipn n stk) (h ++ [HVec (firstn n stk)]) o fr)
                    else SStuck
        | None => SStuck end
    | BYTECODE_NIL_RECORD_REF => SNext (mkst next (length h :: stk) (h ++ [HNil]) o fr)
    | BYTECODE_VECREF_VEC_DEREF =>
        (* vm_execute_vecref_vec_deref with stack_level 0: the record reference on top STAYS, the field cell is
           pushed (the emitter's SLIDE 1 1 removes the reference); nil raises nil_pointer, nothing popped *)
        match zn (r_w0 i), zn (r_w1 i), stk with
        | Some 0%nat, Some k, ar :: rest =>
          match nth_error h ar with
          | Some (HVec l) =>
            match nth_error l k with
            | Some a => SNext (mkst next (a :: stk) h o fr)
            | None => SNext (mkst (hsearch (x_tab X) (v_ip s) 0) stk h o (set_exc fr ExIndexOob)) end
          | Some HNil => SNext (mkst (hsearch (x_tab X) (v_ip s) 0) stk h o (set_exc fr ExNil))
          | _ => SStuck end
        | _, _, _ => SStuck end
    | BYTECODE_MK_INIT_ARRAY =>
        (* vm_execute_mk_init_array, one dimension: the size on top, below it the elements, the first on top; the
           array object and its reference are ONE cell here, HVec (the element cells' addresses) *)
        match zn (r_w0 i), stk with
        | Some 1%nat, an :: rest =>
          match hint h an with
          | Some zsz =>
            match zn zsz with
            | Some n => if Nat.leb n (length rest)
                        then SNext (mkst next (length h :: skipn n rest) (h ++ [HVec (firstn n rest)]) o fr)
                        else SStuck
            | None => SStuck end
          | None => SStuck end
        | _, _ => SStuck end
    | BYTECODE_ARRAYREF_DEREF =>
        (* vm_execute_array_deref_univ, one dimension: the index on top, the array below; a negative or too large
           index raises index_out_of_bounds.  (At the fault the real machine has popped the index, and for a too
           large index the array reference too; here the reference stays: what is on the stack above the frame
           base when an exception is dispatched is never read — CLEAR_STACK / RETHROW / UNHANDLED_EXCEPTION.)
           A reference that is not an array (nil: nil_pointer in the real machine) is outside the model *)
        match zn (r_w0 i), stk with
        | Some 1%nat, ai :: aa :: rest =>
          match hint h ai, nth_error h aa with
          | Some z, Some (HVec l) =>
            if (z <? 0) || (Z.of_nat (length l) <=? z)
            then SNext (mkst (hsearch (x_tab X) (v_ip s) 0) (aa :: rest) h o (set_exc fr ExIndexOob))
            else match nth_error l (Z.to_nat z) with
                 | Some a => SNext (mkst next (a :: rest) h o fr)
                 | None => SStuck end
          | _, _ => SStuck end
        | _, _ => SStuck end
    | BYTECODE_ID_GLOBAL =>
        match zn (r_w0 i), nth_error h (r_gp fr) with
        | Some k, Some (HVec l) =>
            match nth_error l k with
            | Some a => SNext (mkst next (a :: stk) h o fr)
            | None => SStuck end
        | _, _ => SStuck end
    | BYTECODE_ALLOC =>
        match zn (r_w0 i) with
        | Some n => SNext (mkst next (rev (seq (length h) n) ++ stk) (h ++ repeat (HFun 0 0) n) o fr)
        | None => SStuck end
    | BYTECODE_REWRITE =>
        match stk, zn (r_w0 i) with
        | f :: rest, Some j =>
            match nth_error h f, nth_error stk j with
            | Some (HFun vec addr), Some tgt =>
                if Nat.ltb tgt (length h)
                then SNext (mkst next rest (list_upd h tgt (HFun vec addr)) o fr)
                else SStuck
            | _, _ => SStuck end
        | _, _ => SStuck end
    | BYTECODE_ID_FUNC_ADDR =>
        match stk with
        | v :: rest =>
            match zn (r_w0 i) with
            | Some k => SNext (mkst next (length h :: rest)
                                    (h ++ [HFun v (nth k (x_ftab X) 0%nat)]) o fr)
            | None => SStuck end
        | _ => SStuck end
    | BYTECODE_ID_FUNC_ENTRY =>
        match stk with
        | v :: rest => SNext (mkst next (length h :: rest) (h ++ [HFun v (x_entry X)]) o fr)
        | _ => SStuck end
    | BYTECODE_PUSH_PARAM =>
        let n := length (x_args X) in
        SNext (mkst next (rev (seq (length h) n) ++ stk) (h ++ rev (map (fun z => HInt (wrap32 z)) (x_args X))) o fr)
    | BYTECODE_CALL =>
        match stk with
        | f :: rest0 =>
          match nth_error h f with
          | Some (HFun vec target) =>
            if Nat.eqb target 0 then SStuck
            else if Nat.eqb (r_fp fr) 0 then SNext (mkst target rest0 h o (set_fp_gp fr 0 vec))
            else if Nat.leb (r_fp fr) (length rest0) then
              let d := (length rest0 - r_fp fr)%nat in
              match skipn d rest0 with
              | ret :: fpo :: gpo :: _ :: _ :: below =>
                  SNext (mkst target (firstn d rest0) h o
                           {| r_fp := 0; r_gp := vec; r_exc := r_exc fr;
                              r_frames := {| f_ret := ret; f_fp := fpo; f_gp := gpo; f_below := below;
                                              f_exc := r_exc fr |} :: r_frames fr |})
              | _ => SStuck end
            else SStuck
          | _ => SStuck end
        | _ => SStuck end
    | BYTECODE_RET =>
        match do_ret stk fr with
        | Some (ret, stk', fr') => SNext (mkst ret stk' h o fr')
        | None => SStuck end
    | BYTECODE_RETHROW =>
        match do_ret stk fr with
        | Some (ret, stk', fr') =>
            SNext (mkst (hsearch (x_tab X) (Nat.pred ret) 0) stk' h o
                        {| r_fp := r_fp fr'; r_gp := r_gp fr'; r_exc := r_exc fr; r_frames := r_frames fr' |})
        | None => SStuck end
    | BYTECODE_BUILD_IN =>
        if r_w0 i =? lib_math_print then
          match stk with
          | a :: rest =>
            match hint h a with
            | Some z => SNext (mkst next (length h :: rest) (h ++ [HInt z]) (z :: o) fr)
            | None => SStuck end
          | _ => SStuck end
        else SStuck
    | BYTECODE_CLEAR_STACK =>
        match zn (r_w0 i) with
        | Some n => if Nat.leb n (length stk)
                    then SNext (mkst next (skipn (length stk - n) stk) h o (set_fp fr 0))
                    else SStuck
        | None => SStuck end
    | BYTECODE_PUSH_EXCEPT =>
        SNext (mkst next (length h :: stk)
                    (h ++ [HInt (match r_exc fr with Some e => exn_no e | None => 0 end)]) o fr)
    | BYTECODE_HALT =>
        match stk with
        | a :: _ => SRet a s
        | _ => SStuck end
    | BYTECODE_UNHANDLED_EXCEPTION =>
        match r_exc fr with
        | Some e => SExc e s
        | None => SStuck end
    | _ => SStuck
    end
  end.

(* ---- execution ------------------------------------------------------------------------ *)

Inductive star (X : xinfo) (prog : list rinstr) : vstate -> vstate -> Prop :=
| star_refl : forall s, star X prog s s
| star_step : forall s s1 s2, step X prog s = SNext s1 -> star X prog s1 s2 -> star X prog s s2.

Inductive vres :=
| VRet (payload : Z) (printed : list Z)      (* HALT: the result cell's payload *)
| VExc (e : exn) (printed : list Z)          (* UNHANDLED_EXCEPTION *)
| VFuel
| VStuck.

Fixpoint run (X : xinfo) (prog : list rinstr) (fuel : nat) (s : vstate) : vres :=
  match fuel with
  | O => VFuel
  | S k =>
    match step X prog s with
    | SNext s' => run X prog k s'
    | SExc e s' => VExc e (rev (v_out s'))
    | SRet a s' => match hint (v_heap s') a with
                   | Some z => VRet z (rev (v_out s'))
                   | None => VStuck end
    | SStuck => VStuck
    end
  end.

(* length of the real flat stack (= real sp + 1) *)
Definition flat_len (s : vstate) : nat :=
  length (v_stk s) + fold_right (fun f n => 5 + length (f_below f) + n)%nat 0%nat (r_frames (v_fr s)).

(* the same run, also reporting the largest flat_len seen before an instruction executes (the real
   VM's peak sp + 1 as the per-instruction hook of harness/vm/bcdump.c sees it) and the number
   of instructions executed *)
Fixpoint run_peak (X : xinfo) (prog : list rinstr) (fuel : nat) (s : vstate) (pk steps : nat)
  : vres * (nat * nat) :=
  match fuel with
  | O => (VFuel, (pk, steps))
  | S k =>
    let pk' := Nat.max pk (flat_len s) in
    match step X prog s with
    | SNext s' => run_peak X prog k s' pk' (S steps)
    | SExc e s' => (VExc e (rev (v_out s')), (pk', S steps))
    | SRet a s' => (match hint (v_heap s') a with
                    | Some z => VRet z (rev (v_out s'))
                    | None => VStuck end, (pk', S steps))
    | SStuck => (VStuck, (pk', steps))
    end
  end.

Definition fr0 : fregs := {| r_fp := 0; r_gp := 0; r_exc := None; r_frames := [] |}.

(* the machine at the module's entry stub, after the global prelude (which leaves `nglob` slots —
   the closures of the stdlib and of the program's top-level functions — that the fragments' code
   never reads) *)
Definition boot_state (code_entry nglob : nat) : vstate :=
  mkst code_entry (repeat 0%nat nglob) [] [] fr0.
