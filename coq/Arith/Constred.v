(* Arith/Constred.v — the compile-time reducer, written from front/constred.c (and only from
   there), case by case: which (operator, literal kinds) pairs are folded, in which C type
   the fold is computed, the `division by zero` rejections, expr_conv_constred,
   expr_sup_constred, expr_cond_constred.  Definitions only.

   The reducer dispatches on the *node kinds* of the already reduced children
   (value->left->type == EXPR_INT ...), never on comb types.  The C arithmetic it performs on
   the literal payloads is the same C arithmetic as in IntOps/FloatOps (int, long long,
   float, double on gcc/x86-64); what is specific to constred.c is which field of the union
   is read and which C type the expression has.

   / and %: every arm of expr_div_constred / expr_mod_constred — int x int, long x long and
   (since /repo 355bd8f) the three arms with an EXPR_ENUMTYPE operand — rejects a zero
   divisor ("division by zero") and computes  (b == -1) ? -a : a / b  resp.
   (b == -1) ? 0 : a % b  like the VM handlers: no arm goes through the raw C division any
   more, so the reducer cannot trap (ConstredProofs.fold_never_crashes).  LSig / FCrash stay
   in the result types: they are what the correspondence run would have to report if the
   real reducer died. *)
From Coq Require Import ZArith Bool.
From NV Require Import Arith.NumTy Arith.Bits Arith.IntOps Arith.FloatOps Arith.Promote.
Local Open Scope Z_scope.

(* result of reducing one node whose children are literals *)
Inductive lres :=
  | LR (l : lit)      (* node replaced by this literal *)
  | LRej              (* *result = CONSTRED_FAIL, "division by zero" *)
  | LSig              (* the compiler traps *)
  | LKeep.            (* no case: node left alone *)

Definition of_ires32 (r : ires) : lres :=
  match r with IVal z => LR (LInt z) | IDivZero => LRej | ISigFpe => LSig end.
Definition of_ires64 (r : ires) : lres :=
  match r with IVal z => LR (LLong z) | IDivZero => LRej | ISigFpe => LSig end.

(* EXPR_INT / EXPR_ENUMTYPE payload read as a C int (int_value, enumerator->index) *)
Definition int_like (l : lit) : option Z :=
  match l with LInt z => Some z | LEnum i => Some i | _ => None end.

(* the four int/enum combinations share one arm each in constred.c *)
Definition both_int (a b : lit) : option (Z * Z) :=
  match int_like a, int_like b with Some x, Some y => Some (x, y) | _, _ => None end.

Definition red_arith (o : binop) (a b : lit) : lres :=
  match a, b with
  | LInt x, LInt y =>
      match o with
      | Add => LR (LInt (iadd 32 x y))
      | Sub => LR (LInt (isub 32 x y))
      | Mul => LR (LInt (imul 32 x y))
      | Div => of_ires32 (idiv 32 x y)
      | Mod => of_ires32 (imod 32 x y)
      | _ => LKeep
      end
  | LLong x, LLong y =>
      match o with
      | Add => LR (LLong (iadd 64 x y))
      | Sub => LR (LLong (isub 64 x y))
      | Mul => LR (LLong (imul 64 x y))
      | Div => of_ires64 (idiv 64 x y)
      | Mod => of_ires64 (imod 64 x y)
      | _ => LKeep
      end
  | LFloat x, LFloat y =>
      match o with
      | Add => LR (LFloat (fadd b32 x y))
      | Sub => LR (LFloat (fsub b32 x y))
      | Mul => LR (LFloat (fmul b32 x y))
      | Div => if fis_zero b32 y then LRej else LR (LFloat (fdiv b32 x y))
      | _ => LKeep
      end
  | LDouble x, LDouble y =>
      match o with
      | Add => LR (LDouble (fadd b64 x y))
      | Sub => LR (LDouble (fsub b64 x y))
      | Mul => LR (LDouble (fmul b64 x y))
      | Div => if fis_zero b64 y then LRej else LR (LDouble (fdiv b64 x y))
      | _ => LKeep
      end
  | _, _ =>
      (* the three arms with an enum operand: the same C arithmetic on the index *)
      match both_int a b with
      | Some (x, y) =>
          match o with
          | Add => LR (LInt (iadd 32 x y))
          | Sub => LR (LInt (isub 32 x y))
          | Mul => LR (LInt (imul 32 x y))
          | Div => of_ires32 (idiv 32 x y)
          | Mod => of_ires32 (imod 32 x y)
          | _ => LKeep
          end
      | None => LKeep
      end
  end.

Definition cmp_int (o : binop) (x y : Z) : bool :=
  match o with
  | OLt => x <? y | OGt => y <? x | OLe => x <=? y | OGe => y <=? x
  | OEq => x =? y | ONe => negb (x =? y)
  | _ => false
  end.

Definition cmp_flt (f : fmt) (o : binop) (x y : Z) : bool :=
  match o with
  | OLt => fltb f x y | OGt => fgtb f x y | OLe => fleb f x y | OGe => fgeb f x y
  | OEq => feqb f x y | ONe => fneb f x y
  | _ => false
  end.

Definition red_cmp (o : binop) (a b : lit) : lres :=
  match both_int a b with
  | Some (x, y) => LR (LBool (cmp_int o x y))
  | None =>
      match a, b with
      | LLong x, LLong y => LR (LBool (cmp_int o x y))
      | LFloat x, LFloat y => LR (LBool (cmp_flt b32 o x y))
      | LDouble x, LDouble y => LR (LBool (cmp_flt b64 o x y))
      | LBool x, LBool y =>
          match o with
          | OEq => LR (LBool (Bool.eqb x y))
          | ONe => LR (LBool (negb (Bool.eqb x y)))
          | _ => LKeep
          end
      | _, _ => LKeep
      end
  end.

Definition red_logic (o : binop) (a b : lit) : lres :=
  match a, b with
  | LBool x, LBool y =>
      match o with And => LR (LBool (x && y)) | Or => LR (LBool (x || y)) | _ => LKeep end
  | _, _ => LKeep
  end.

Definition red_bits (o : binop) (a b : lit) : lres :=
  match a, b with
  | LInt x, LInt y =>
      match o with
      | BAnd => LR (LInt (iand 32 x y)) | BOr => LR (LInt (ior 32 x y))
      | BXor => LR (LInt (ixor 32 x y))
      | Shl => LR (LInt (ishl 32 x y)) | Shr => LR (LInt (ishr 32 x y))
      | _ => LKeep
      end
  | LLong x, LLong y =>
      match o with
      | BAnd => LR (LLong (iand 64 x y)) | BOr => LR (LLong (ior 64 x y))
      | BXor => LR (LLong (ixor 64 x y))
      | Shl => LR (LLong (ishl 64 x y)) | Shr => LR (LLong (ishr 64 x y))
      | _ => LKeep
      end
  | _, _ => LKeep
  end.

(* expr_<op>_constred on literal children *)
Definition red_bin (o : binop) (a b : lit) : lres :=
  match o with
  | Add | Sub | Mul | Div | Mod => red_arith o a b
  | OLt | OGt | OLe | OGe | OEq | ONe => red_cmp o a b
  | And | Or => red_logic o a b
  | BAnd | BOr | BXor | Shl | Shr => red_bits o a b
  end.

(* expr_neg_constred, expr_not_constred, expr_bin_not_constred *)
Definition red_un (o : unop) (a : lit) : lres :=
  match o, a with
  | Neg, LInt x => LR (LInt (ineg 32 x))
  | Neg, LLong x => LR (LLong (ineg 64 x))
  | Neg, LFloat x => LR (LFloat (fneg b32 x))
  | Neg, LDouble x => LR (LDouble (fneg b64 x))
  | Neg, LEnum i => LR (LInt (ineg 32 i))
  | Not, LBool x => LR (LBool (negb x))
  | BNot, LInt x => LR (LInt (ibnot 32 x))
  | BNot, LLong x => LR (LLong (ibnot 64 x))
  | _, _ => LKeep
  end.

(* expr_conv_constred: a C cast of the payload, by (kind of the child, conversion) *)
Definition red_conv (c : conv) (a : lit) : lres :=
  match c, a with
  | I2L, LInt x => LR (LLong (i2l x))
  | I2F, LInt x => LR (LFloat (of_Z b32 x))
  | I2D, LInt x => LR (LDouble (of_Z b64 x))
  | L2I, LLong x => LR (LInt (l2i x))
  | L2F, LLong x => LR (LFloat (of_Z b32 x))
  | L2D, LLong x => LR (LDouble (of_Z b64 x))
  | F2I, LFloat x => LR (LInt (to_Z 32 b32 x))
  | F2L, LFloat x => LR (LLong (to_Z 64 b32 x))
  | F2D, LFloat x => LR (LDouble (f2d x))
  | D2I, LDouble x => LR (LInt (to_Z 32 b64 x))
  | D2L, LDouble x => LR (LLong (to_Z 64 b64 x))
  | D2F, LDouble x => LR (LFloat (d2f x))
  | _, _ => LKeep
  end.

(* outcome of the whole pass over a tree *)
Inductive fres :=
  | FOk (e : expr)     (* the rewritten tree *)
  | FReject            (* compile error: division by zero *)
  | FCrash.            (* the compiler died (SIGFPE) *)

(* children are reduced left to right; a rejection does not stop the pass, a trap does *)
Definition fseq (ra : fres) (rb : fres) (k : expr -> expr -> fres) : fres :=
  match ra with
  | FCrash => FCrash
  | FReject => match rb with FCrash => FCrash | _ => FReject end
  | FOk a => match rb with FCrash => FCrash | FReject => FReject | FOk b => k a b end
  end.

Definition is_crash (r : fres) : bool := match r with FCrash => true | _ => false end.
Definition is_reject (r : fres) : bool := match r with FReject => true | _ => false end.

Definition fseq3 (ra rb rc : fres) (k : expr -> expr -> expr -> fres) : fres :=
  match ra, rb, rc with
  | FOk a, FOk b, FOk c => k a b c
  | _, _, _ =>
      if is_crash ra || is_crash rb || is_crash rc then FCrash else FReject
  end.

Definition of_lres (r : lres) (keep : expr) : fres :=
  match r with LR l => FOk (ELit l) | LRej => FReject | LSig => FCrash | LKeep => FOk keep end.

Definition node_bin (o : binop) (a b : expr) : fres :=
  match a, b with
  | ELit la, ELit lb => of_lres (red_bin o la lb) (EBin o a b)
  | _, _ => FOk (EBin o a b)
  end.

Definition node_un (o : unop) (a : expr) : fres :=
  match a with
  | ELit la => of_lres (red_un o la) (EUn o a)
  | _ => FOk (EUn o a)
  end.

Definition node_conv (c : conv) (a : expr) : fres :=
  match a with
  | ELit la => of_lres (red_conv c la) (EConv c a)
  | _ => FOk (EConv c a)
  end.

(* expr_sup_constred: parentheses around a literal disappear *)
Definition node_sup (a : expr) : fres :=
  match a with ELit l => FOk (ELit l) | _ => FOk (ESup a) end.

(* expr_cond_constred: a literal condition selects a branch; the node becomes EXPR_SUP around
   the (already reduced) branch and is not reduced again in this pass *)
Definition node_cond (c a b : expr) : fres :=
  match c with
  | ELit (LBool true) => FOk (ESup a)
  | ELit (LBool false) => FOk (ESup b)
  | _ => FOk (ECond c a b)
  end.

Fixpoint fold (e : expr) : fres :=
  match e with
  | ELit l => FOk (ELit l)
  | EUn o a =>
      match fold a with FOk a' => node_un o a' | r => r end
  | EBin o a b => fseq (fold a) (fold b) (node_bin o)
  | EConv c a =>
      match fold a with FOk a' => node_conv c a' | r => r end
  | ESup a =>
      match fold a with FOk a' => node_sup a' | r => r end
  | ECond c a b => fseq3 (fold c) (fold a) (fold b) node_cond
  end.

(* ---- side conditions used by the theorems (ConstredProofs.v) ------------------------ *)

Definition ty_is (e : expr) (t : ty) : bool :=
  match ty_of e with Some t' => ty_eqb t t' | None => false end.

(* every node is one the reducer evaluates eagerly when its children are literals: no
   short-circuit operator, no ?:, no enum operand under a bit operator or ~~~ *)
Fixpoint strict (e : expr) : bool :=
  match e with
  | ELit _ => true
  | EUn o a => strict a && negb (match o with BNot => ty_is a TEnum | _ => false end)
  | EConv _ a | ESup a => strict a
  | EBin o a b =>
      strict a && strict b &&
      negb (match o with
            | And | Or => true
            | BAnd | BOr | BXor | Shl | Shr => ty_is a TEnum || ty_is b TEnum
            | _ => false
            end)
  | ECond _ _ _ => false
  end.
