(* Properties_C02d.v — C02 (compile correctness), level 7: ONE-DIMENSIONAL INT ARRAYS on top of the closure
   fragment (Properties_C02c.v).

   MODEL + TIE: Src/Compile4.v (cexpr: EArrLit = the elements last to first; INT n; MK_INIT_ARRAY 1 — EIndex = the
   array; the index; ARRAYREF_DEREF 1 — EAssign (EIndex a i) r = the element; r; OP_ASS_INT) and VM/ValueVM4.v
   (MK_INIT_ARRAY, ARRAYREF_DEREF: an array is ONE heap cell HVec of the element cells' addresses — the real
   machine's array object + its reference object; a negative or too large index raises index_out_of_bounds
   through the exception table) are tied at level 7 of checks/parts/compiletie.py (engine compile4) on generated
   programs of `prog_in_F4` with array literals bound by let / var, index reads (in and out of bounds, also in
   closures and catch clauses) and element assignments: whole module image equal to front/emit.c's, result /
   prints / exception / peak sp / step count equal to back/vmexec.c's.

   PROOF: compile_program_correct_F7 (below, closed) — whole programs of `Compile4.prog_in_P 7` = level 6 of
   Properties_C02c.v (closures, copies of function objects, assignment to int vars, catch clauses, tail calls)
   + array literals `[e1, …, en] : int` (n >= 1, every element `int_shaped` or the name of an int var in scope,
   whose cell the array then shares: Compile4.elem_ok) wherever an expression may stand
   (bound by let / var, passed, captured, returned from blocks), index reads `a[i]` for any expressions a, i of
   the fragment, element assignment `a[i] = e` (e `int_shaped`).  index_out_of_bounds (i < 0 or i >= n) reaches
   the catch clauses / the caller / OUnhandled exactly as the evaluator says: the simulation statements
   (`raises`, `rethrown`, `act_done`, `handlers_run` of Src/CompileCorrect4.v) now carry the exception the
   evaluator raised instead of division_by_zero only.  An array cell's image is the vector of its element
   cells' images (ghost list `mar` of the morphism, cell_rel, MS clauses ms_arr / ms_arrmi: the element cells of
   every array object are recorded int cells, so they may be assigned to and stay ints; vrel_arr, MS_newarr,
   elems_spec_of, case_EArrLit, case_EIndex, assign_core / index_cell_int).
   No side condition beyond the fragment predicate (the result must be an int or bool cell, as in F4).

   Not modelled / not in the fragment: a nil array reference (nil_pointer in the real machine: ARRAYREF_DEREF on
   a cell that is not an array is stuck in ValueVM4; a nil array cannot be written in the fragment), array
   elements that are neither int_shaped nor an int var (tied, not proved), more than one dimension,
   MK_ARRAY_* (arrays given by their size), slices, ranges, for-in, ARRAY_APPEND.  At an index fault the real
   machine has popped the index (and, for a too large index, the array reference); ValueVM4 keeps the reference
   on the stack: what lies above the frame base when an exception is dispatched is never read. *)
From Coq Require Import ZArith List Bool Lia.
From NV Require Import Gen.Opcodes Verifier.Effect Src.Syntax Src.Eval Src.EvalLemmas
  VM.ValueVM4 Src.Compile4 Src.CompileCorrect4Base Src.CompileCorrect4Rel Src.CompileCorrect4Shape
  Src.CompileCorrect4 Src.CompileCorrect4Prog.
Import ListNotations.
Local Open Scope Z_scope.

Theorem compile_program_correct_F7 : forall fuel p args,
  prog_in_P 7 p = true ->
  match run_program fuel p args with
  | OResult v printed =>
      CompileCorrect4Shape.is_intv v = true ->
      exists k z, run_vm p k args = VRet z printed /\ CompileCorrect4Rel.val_rel v z
  | OUnhandled ex printed => exists k, run_vm p k args = VExc ex printed
  | OFuel | OStuck => True
  end.
Proof. exact (fun fuel p args H => CompileCorrect4Prog.compile_program_correct_P7 p args H fuel). Qed.
Print Assumptions compile_program_correct_F7.

(* the machine side: MK_INIT_ARRAY 1 with the size on top of the n element addresses makes one vector of them *)
Theorem step_mk_init_array : forall X fr prog ip an top stk h o,
  nth_error prog ip = Some (ins BYTECODE_MK_INIT_ARRAY 1 0) -> hint h an = Some (Z.of_nat (length top)) ->
  step X prog (mkst ip (an :: top ++ stk) h o fr) = SNext (mkst (S ip) (length h :: stk) (h ++ [HVec top]) o fr).
Proof. exact CompileCorrect4.step_mkarr. Qed.
Print Assumptions step_mk_init_array.

(* ARRAYREF_DEREF 1: the element's address, or index_out_of_bounds dispatched through the exception table *)
Theorem step_arrayref_deref : forall X fr prog ip stk h o ai aa z l,
  nth_error prog ip = Some (ins BYTECODE_ARRAYREF_DEREF 1 0) -> hint h ai = Some z -> nth_error h aa = Some (HVec l) ->
  step X prog (mkst ip (ai :: aa :: stk) h o fr) =
  if (z <? 0) || (Z.of_nat (length l) <=? z)
  then SNext (mkst (hsearch (x_tab X) ip 0) (aa :: stk) h o (set_exc fr ExIndexOob))
  else match nth_error l (Z.to_nat z) with
       | Some a => SNext (mkst (S ip) (a :: stk) h o fr)
       | None => SStuck end.
Proof. exact CompileCorrect4.step_aderef. Qed.
Print Assumptions step_arrayref_deref.

(* the image of an array cell is the recorded vector of its object *)
Theorem array_cell_image : forall AF ftab TL FS cp rc m st h c a ar,
  CompileCorrect4Rel.MS AF ftab TL FS cp rc m st h -> vrel m c a ->
  nth_error (cells st) c = Some (CArr (Some ar)) ->
  exists l, nth_error h a = Some (HVec l) /\ In (ar, l) (mar m).
Proof. exact CompileCorrect4Rel.vrel_arr. Qed.
Print Assumptions array_cell_image.

(* func main(x : int) -> int
   { var a = [ 10, x + 1, 30 ] : int; var b = [ 7 ] : int;
     a[1] = a[0] + 5; b[0] = a[1] + 0; a[x] + b[0] }
   the real VM: 30 on 1, 45 on 2, index_out_of_bounds on 5 and on -1 *)
Definition mainA : fdef := FDef 0%N [(1%N, false, TInt)] TInt
  [IVar 2%N (EArrLit [EInt 10; EBin Add (EVar 1%N) (EInt 1); EInt 30] TInt);
   IVar 3%N (EArrLit [EInt 7] TInt);
   IExpr (EAssign (EIndex (EVar 2%N) (EInt 1)) (EBin Add (EIndex (EVar 2%N) (EInt 0)) (EInt 5)));
   IExpr (EAssign (EIndex (EVar 3%N) (EInt 0)) (EBin Add (EIndex (EVar 2%N) (EInt 1)) (EInt 0)));
   IExpr (EBin Add (EIndex (EVar 2%N) (EVar 1%N)) (EIndex (EVar 3%N) (EInt 0)))] [] None.
Definition exA : program := {| p_recs := []; p_funcs := [mainA]; p_main := 0%N |}.

Example exA_in_F : prog_in_F4 exA = true /\ prog_in_P 7 exA = true /\ prog_in_P 6 exA = false.
Proof. vm_compute. repeat split; reflexivity. Qed.

Example exA_runs :
  run_vm exA 3000 [1] = VRet 30 [] /\ run_program 300 exA [1] = OResult (CInt 30) [] /\
  run_vm exA 3000 [2] = VRet 45 [] /\ run_program 300 exA [2] = OResult (CInt 45) [] /\
  run_vm exA 3000 [5] = VExc ExIndexOob [] /\ run_program 300 exA [5] = OUnhandled ExIndexOob [] /\
  run_vm exA 3000 [-1] = VExc ExIndexOob [] /\ run_program 300 exA [-1] = OUnhandled ExIndexOob [].
Proof. vm_compute. repeat split; reflexivity. Qed.

(* an array captured by a closure, index_out_of_bounds caught by a clause that assigns an element:
   func main(x : int) -> int
   { var a = [ 1, 2, 3 ] : int;
     func at(i : int) -> int { a[i] } catch (index_out_of_bounds) { a[0] = a[0] + 100; i - i };
     at(x) + at(x + 1) + a[0] }
   the real VM: 6 on 1, 104 on 2, 201 on 5, 202 on -1 *)
Definition atB : fdef := FDef 3%N [(4%N, false, TInt)] TInt
  [IExpr (EIndex (EVar 2%N) (EVar 4%N))]
  [(ExIndexOob, [IExpr (EAssign (EIndex (EVar 2%N) (EInt 0)) (EBin Add (EIndex (EVar 2%N) (EInt 0)) (EInt 100)));
                 IExpr (EBin Sub (EVar 4%N) (EVar 4%N))])] None.
Definition mainB : fdef := FDef 0%N [(1%N, false, TInt)] TInt
  [IVar 2%N (EArrLit [EInt 1; EInt 2; EInt 3] TInt); IFunc atB;
   IExpr (EBin Add (EBin Add (ECall (EVar 3%N) [EVar 1%N]) (ECall (EVar 3%N) [EBin Add (EVar 1%N) (EInt 1)]))
                   (EIndex (EVar 2%N) (EInt 0)))] [] None.
Definition exB : program := {| p_recs := []; p_funcs := [mainB]; p_main := 0%N |}.

Example exB_in_P : prog_in_P 7 exB = true.
Proof. vm_compute. reflexivity. Qed.

Example exB_runs :
  run_vm exB 3000 [1] = VRet 6 [] /\ run_program 300 exB [1] = OResult (CInt 6) [] /\
  run_vm exB 3000 [2] = VRet 104 [] /\ run_program 300 exB [2] = OResult (CInt 104) [] /\
  run_vm exB 3000 [5] = VRet 201 [] /\ run_program 300 exB [5] = OResult (CInt 201) [] /\
  run_vm exB 3000 [-1] = VRet 202 [] /\ run_program 300 exB [-1] = OResult (CInt 202) [].
Proof. vm_compute. repeat split; reflexivity. Qed.
