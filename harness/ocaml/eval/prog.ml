(* prog — assembles a whole program: records, top-level functions, main with random items and the
   profile's idioms interleaved, the final "dump" of the variables in scope, the result. *)
open Evalmodel
open Conv
open Gen
module IS = Uniq.IS

let t0 = TFun ([], TInt)
let t1 = TFun ([TInt], TInt)

let gen_records st =
  let n = Rng.int st.rng (w st "nrecs_max" + 1) in
  for _ = 1 to n do
    let r = fresh_unique st in
    let nf = Rng.range st.rng 1 4 in
    let others = List.map fst st.recs in
    let tys = List.init nf (fun i ->
        if i = 0 then TInt
        else Rng.weighted st.rng [
            55, (fun () -> TInt); 10, (fun () -> TBool);
            w st "rf_rec", (fun () -> TRec (n_of_int (Rng.pick st.rng (r :: others))));
            w st "rf_arr", (fun () -> TArr (if Rng.pct st.rng 80 then TInt else TBool));
            w st "rf_fun", (fun () -> Rng.pick st.rng [t0; t1]) ] ()) in
    st.recs <- st.recs @ [(r, tys)]
  done

(* print what is visible: makes differences in any cell observable *)
let gen_dump st env : item list =
  let vis = List.filter (fun v -> v.vb <> BFunc) (visible env) in
  let nil_seen = (try Hashtbl.find st.flags "nil_assigned" with Not_found -> 0) > 0 in
  let pr e = IExpr (EPrint e) in
  let prb e = IExpr (EPrint (ECond (e, ei 1, ei 0))) in
  let one v =
    match v.vty with
    | TInt -> [pr (if v.prot then EBin (Add, ev v.vn, ei 0) else ev v.vn)]
    | TBool -> [prb (ev v.vn)]
    | TArr TInt -> [pr (EIndex (ev v.vn, ei 0)); pr (EIndex (ev v.vn, ei 1))]
    | TArr TBool -> [prb (EIndex (ev v.vn, ei 1))]
    | TRec r when not nil_seen ->
      let r = int_of_n r in
      List.concat (List.mapi (fun i t ->
          match t with
          | TInt -> [pr (EField (ev v.vn, n_of_int r, nat_of_int i))]
          | TBool -> [prb (EField (ev v.vn, n_of_int r, nat_of_int i))]
          | _ -> []) (fields st r))
    | _ -> [] in
  let all = List.concat (List.map one vis) in
  let rec take k = function [] -> [] | x :: t -> if k <= 0 then [] else x :: take (k - 1) t in
  take 14 all

let gen_program (st : st) : program =
  Idioms.tag := 0;
  gen_records st;
  let env0 = { vars = []; lvl = 0; mult = 1; budget = w st "budget_fn"; block = []; forbid = IS.empty; sib = IS.empty;
               loopd = 0; recf = None } in
  let nf = Rng.range st.rng (w st "nfuncs_min") (w st "nfuncs_max") in
  let rec mkfuncs env k acc =
    if k <= 0 then (env, List.rev acc)
    else
      let fd, v = gen_named_func ~toplevel:true st env (w st "depth") in
      mkfuncs (bind env v) (k - 1) (fd :: acc) in
  let env, funcs = mkfuncs env0 nf [] in
  (* main *)
  let ret = if pct st "main_bool" then TBool else TInt in
  let env_m = { env with lvl = 1; budget = w st "budget_main"; block = []; forbid = IS.empty; sib = IS.empty } in
  st.cost <- 0;
  let idioms = List.concat (List.map (fun (name, f) ->
      List.concat (List.init (max 1 (w st "id_repeat")) (fun _ -> if pct st name then [`Idiom f] else []))) Idioms.all) in
  let randoms = List.init (Rng.range st.rng 1 (w st "main_items")) (fun _ -> `Random) in
  let plan = Rng.shuffle st.rng (idioms @ randoms) in
  let d = w st "depth" in
  let env_m, items = List.fold_left (fun (env, acc) step ->
      let its, env' = match step with
        | `Idiom f -> f st env
        | `Random -> if over st env then ([], env) else gen_item st env d in
      let bound = List.concat (List.map (function
          | ILet (x, _) | IVar (x, _) -> [int_of_n x] | IFunc fd -> [int_of_n (fd_name fd)] | IExpr _ -> []) its) in
      let env' = { env' with block = List.filter (fun x -> not (List.mem x env'.block)) bound @ env'.block } in
      let env' = if w st "late_shadow" > 0 then env' else
          { env' with forbid = List.fold_left (fun s it -> IS.union s (late_forbidden env (Uniq.closure_free_of_item it))) env'.forbid its } in
      let env' = { env' with sib = sib_after env its } in
      (env', List.rev_append its acc)) (env_m, []) plan in
  let dump = if pct st "dump" then gen_dump st env_m else [] in
  let res, _ = gen_expr st env_m ret (min d 3) ~op:false in
  let body = List.rev items @ dump @ [IExpr res] in
  let catches, call = gen_catches st { env with lvl = 1; budget = 100; block = []; forbid = IS.empty; sib = IS.empty } ret 1 in
  let main = FDef (n_of_int 0, [], ret, body, catches, call) in
  { p_recs = List.map (fun (r, tys) -> (n_of_int r, tys)) st.recs;
    p_funcs = funcs @ List.rev st.top @ [main];
    p_main = n_of_int 0 }
