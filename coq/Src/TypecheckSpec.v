(* Declarative typing judgment of the modelled core and soundness of the executable checker:
       tc_program p = OK  ->  WellTyped p
   so a program that breaks one of the rules spelled out below is never accepted by the model.
   Environments map names to (type, constness) per scope; the rules are those of
   front/typecheck.c (see the header of Src/Typecheck.v).  No axioms. *)
From Coq Require Import NArith List Bool.
From NV Require Import Src.Syntax Src.Types Src.Typecheck Src.TypecheckInd.
Import ListNotations.

Section Spec.
Variable R : list recdecl.

Inductive HasType : env -> expr -> binding -> Prop :=
| T_Int G z : HasType G (EInt z) (CInt, KTemp)
| T_Bool G b : HasType G (EBool b) (CBool, KTemp)
| T_Var G x b : lookup x G = Some b -> HasType G (EVar x) b          (* the name is bound *)
| T_Neg G a k : HasType G a (CInt, k) -> HasType G (ENeg a) (CInt, KTemp)
| T_Not G a k : HasType G a (CBool, k) -> HasType G (ENot a) (CBool, KTemp)
| T_BNot G a k : HasType G a (CInt, k) -> HasType G (EBNot a) (CInt, KTemp)
| T_Bin G op a b ta ka tb kb t :
    HasType G a (ta, ka) -> HasType G b (tb, kb) ->
    binop_type op ta tb = Some t ->                                    (* operand kinds fit *)
    HasType G (EBin op a b) (t, KTemp)
| T_Cond G c a b kc ta ka tb kb :
    HasType G c (CBool, kc) ->                                         (* condition is bool *)
    HasType G a (ta, ka) -> HasType G b (tb, kb) ->
    merge ta tb = true ->                                              (* same kind of branches *)
    HasType G (ECond c a b) (ta, KTemp)
| T_If G c a kc ta ka :
    HasType G c (CBool, kc) -> HasType G a (ta, ka) -> merge ta CInt = true ->
    HasType G (EIf c a) (ta, KTemp)
| T_Assign G l r tl tr kr :
    HasType G l (tl, KVar) ->                                          (* left side is var *)
    HasType G r (tr, kr) ->
    accepts tl tr = true ->                                            (* same type *)
    HasType G (EAssign l r) (tl, kr)
| T_Call G f args ps r kf targs :
    HasType G f (CFun ps r, kf) ->                                     (* callee is a function *)
    HasTypes G args targs ->
    args_ok true ps targs = true ->                 (* count, kinds, no const to a var parameter *)
    HasType G (ECall f args) (r, KConst)
| T_Block G items b : ItemsOk ([] :: G) false None items b -> HasType G (EBlock items) b
| T_While G c body kc tb :
    HasType G c (CBool, kc) -> HasType G body tb -> HasType G (EWhile c body) (CInt, KConst)
| T_DoWhile G c body kc tb :
    HasType G c (CBool, kc) -> HasType G body tb -> HasType G (EDoWhile body c) (CInt, KConst)
| T_For G i c s body ti kc ts tb :
    HasType G i ti -> HasType G c (CBool, kc) -> HasType G s ts -> HasType G body tb ->
    HasType G (EFor i c s body) (CInt, KTemp)
| T_ForInRange G x a b body ka kb tb :
    HasType G a (CInt, ka) -> HasType G b (CInt, kb) ->                (* both bounds are int *)
    HasType ([(x, (CInt, KConst))] :: G) body tb ->                    (* loop variable: const int *)
    HasType G (EForInRange x a b body) (CInt, KTemp)
| T_ForInArr G x arr body e ka tb :
    HasType G arr (CArr e, ka) ->                                      (* a one-dimensional array *)
    HasType ([(x, (e, ka))] :: G) body tb ->         (* loop variable: the element, as const as arr *)
    HasType G (EForInArr x arr body) (CInt, KTemp)
| T_Lambda G fd : FunOk G true fd -> HasType G (ELambda fd) (fd_cty fd, KTemp)
| T_ArrLit G es t tes :
    HasTypes G es tes -> ty_wf R t = true -> check_elems t tes = true ->
    HasType G (EArrLit es t) (CArr (cty_of t), KVar)
| T_Index G a i e ka ki :
    HasType G a (CArr e, ka) -> HasType G i (CInt, ki) ->
    HasType G (EIndex a i) (e, if cst_eqb ka KConst then KConst else KVar)
| T_RecNew G r args fs targs :
    find_rec r R = Some fs -> HasTypes G args targs ->
    args_ok false (map (fun t => (false, cty_of t)) fs) targs = true ->   (* arity, field kinds *)
    HasType G (ERecNew r args) (CRec r, KTemp)
| T_RecNil G r : HasType G (ERecNil r) (CNil, KTemp)
| T_Field G a r fld ka fs t :
    HasType G a (CRec r, ka) -> find_rec r R = Some fs ->
    nth_error fs fld = Some t ->                                       (* the attribute exists *)
    HasType G (EField a r fld) (cty_of t, KVar)
| T_Print G a k : HasType G a (CInt, k) -> HasType G (EPrint a) (CInt, KVar)

with HasTypes : env -> list expr -> list binding -> Prop :=
| TS_nil G : HasTypes G [] []
| TS_cons G a l b bs : HasType G a b -> HasTypes G l bs -> HasTypes G (a :: l) (b :: bs)

(* ItemsOk G inrun last items b : the items of a block, b = type and constness of the last one *)
with ItemsOk : env -> bool -> option binding -> list item -> binding -> Prop :=
| I_end (G : env) (inrun : bool) (b : binding) : ItemsOk G inrun (Some b) [] b                      (* last item: an expression *)
| I_let G inrun last x e t k G' rest b :
    HasType G e (t, k) ->
    declare x (t, KConst) G = Ok G' ->                                 (* let: const, once per scope *)
    ItemsOk G' false None rest b ->
    ItemsOk G inrun last (ILet x e :: rest) b
| I_var G inrun last x e t k G' rest b :
    HasType G e (t, k) -> k <> KConst ->                               (* var from a non-const value *)
    declare x (t, KVar) G = Ok G' ->
    ItemsOk G' false None rest b ->
    ItemsOk G inrun last (IVar x e :: rest) b
| I_func G (inrun : bool) last fd rest G1 b :
    (if inrun then Ok G else declare_all (run_sigs (IFunc fd :: rest)) G) = Ok G1 ->
    FunOk G1 false fd ->
    ItemsOk G1 true None rest b ->
    ItemsOk G inrun last (IFunc fd :: rest) b
| I_expr G inrun last e b' rest b :
    HasType G e b' -> ItemsOk G false (Some b') rest b ->
    ItemsOk G inrun last (IExpr e :: rest) b

with FunOk : env -> bool -> fdef -> Prop :=
| F_def G lam name ps ret body catches call G' tb kb :
    sig_wf R ps ret = true ->
    fun_env G lam name ps ret = Ok G' ->                               (* f and its parameters *)
    CatchesOk G' ret catches ->
    CallOk G' ret call ->                                              (* catch-all clause *)
    ItemsOk ([] :: G') false None body (tb, kb) ->
    accepts (cty_of ret) tb = true ->                                  (* result kind *)
    FunOk G lam (FDef name ps ret body catches call)

with CallOk : env -> ty -> option (list item) -> Prop :=
| CO_none G ret : CallOk G ret None
| CO_some G ret h th kh :
    ItemsOk ([] :: G) false None h (th, kh) -> accepts (cty_of ret) th = true ->
    CallOk G ret (Some h)

with CatchesOk : env -> ty -> list (exn * list item) -> Prop :=
| C_nil G ret : CatchesOk G ret []
| C_cons G ret ex h t th kh :
    ItemsOk ([] :: G) false None h (th, kh) -> accepts (cty_of ret) th = true ->
    CatchesOk G ret t -> CatchesOk G ret ((ex, h) :: t).

Inductive FunsOk (G : env) : list fdef -> Prop :=
| FS_nil : FunsOk G []
| FS_cons fd t : FunOk G false fd -> FunsOk G t -> FunsOk G (fd :: t).

End Spec.

Definition WellTyped (p : program) : Prop :=
  recs_ok (p_recs p) (p_recs p) [] = Ok tt /\
  exists G, declare_all (top_sigs (p_funcs p)) [[]] = Ok G /\ FunsOk (p_recs p) G (p_funcs p).

(* ---- soundness ---------------------------------------------------------------------------- *)

Ltac inv H := inversion H; subst; clear H.

(* split `bind x f = Ok r` *)
Lemma bind_ok {A B} (x : res A) (f : A -> res B) r :
  bind x f = Ok r -> exists a, x = Ok a /\ f a = Ok r.
Proof. destruct x; cbn; intros H; [eauto|discriminate]. Qed.

Ltac bind_inv :=
  repeat match goal with
         | H : bind _ _ = Ok _ |- _ =>
             let a := fresh "a" in let H1 := fresh "H" in let H2 := fresh "H" in
             apply bind_ok in H; destruct H as [a [H1 H2]]
         end.

Lemma is_int_eq t : is_int t = true -> t = CInt. Proof. destruct t; cbn; congruence. Qed.
Lemma is_bool_eq t : is_bool t = true -> t = CBool. Proof. destruct t; cbn; congruence. Qed.
Lemma cst_eqb_eq a b : cst_eqb a b = true -> a = b. Proof. destruct a, b; cbn; congruence. Qed.
Lemma cst_eqb_refl a : cst_eqb a a = true. Proof. now destruct a. Qed.
Lemma cst_eqb_neq a b : cst_eqb a b = false -> a <> b.
Proof. intros H E. subst. rewrite cst_eqb_refl in H. discriminate. Qed.

Section Sound.
Variable R : list recdecl.
Notation tce := (tc_expr R).
Notation tcf := (tc_fdef R).
Notation tci := (tc_items (tc_expr R) (tc_fdef R)).

Definition PE (e : expr) := forall G b, tce G e = Ok b -> HasType R G e b.
Definition PEL (l : list expr) := forall G bs, tc_list (tce G) l = Ok bs -> HasTypes R G l bs.
Definition PIt (i : item) := True.
Definition PItL (l : list item) :=
  (forall G inrun last b, tci G inrun last l = Ok b -> ItemsOk R G inrun last l b).
Definition PFd (fd : fdef) := forall G lam, tcf G lam fd = Ok tt -> FunOk R G lam fd.
Definition PCs (cs : list (exn * list item)) :=
  forall G ret, tc_catches tce tcf G ret cs = Ok tt -> CatchesOk R G ret cs.

(* items need the per-item facts, so the list predicate is proved with the item hypotheses in
   the form below *)
Definition PIt' (i : item) :=
  match i with
  | ILet _ e | IVar _ e | IExpr e => PE e
  | IFunc fd => PFd fd
  end.

Lemma check_ret_ok ret x : check_ret ret x = Ok tt -> exists t k, x = Ok (t, k) /\ accepts (cty_of ret) t = true.
Proof.
  unfold check_ret. intros H. apply bind_ok in H. destruct H as [[t k] [H1 H2]]. cbn in H2.
  destruct (accepts (cty_of ret) t) eqn:E; [|discriminate]. eauto.
Qed.

Theorem tc_sound_all :
  (forall e, PE e) /\ (forall l, PItL l) /\ (forall fd, PFd fd) /\ (forall l, PEL l).
Proof.
  apply (syntax_mut_all PE PEL PIt' PItL PFd PCs); unfold PE, PEL, PItL, PFd, PCs, PIt'.
  - intros z G b H. cbn in H. inv H. constructor.
  - intros z G b H. cbn in H. inv H. constructor.
  - intros x G b H. cbn in H. destruct (lookup x G) eqn:E; inv H. now constructor.
  - intros a IH G b H. cbn in H. bind_inv. destruct a0 as [t k]. cbn in H1.
    destruct (is_int t) eqn:E; inv H1. apply is_int_eq in E. subst. econstructor. eauto.
  - intros a IH G b H. cbn in H. bind_inv. destruct a0 as [t k]. cbn in H1.
    destruct (is_bool t) eqn:E; inv H1. apply is_bool_eq in E. subst. econstructor. eauto.
  - intros a IH G b H. cbn in H. bind_inv. destruct a0 as [t k]. cbn in H1.
    destruct (is_int t) eqn:E; inv H1. apply is_int_eq in E. subst. econstructor. eauto.
  - intros op a b IHa IHb G r H. cbn in H. bind_inv. destruct a0 as [ta ka], a1 as [tb kb]. cbn in H2.
    destruct (binop_type op ta tb) eqn:E; inv H2. econstructor; eauto.
  - intros c a b IHc IHa IHb G r H. cbn in H. bind_inv.
    destruct a0 as [tc kc], a1 as [ta ka], a2 as [tb kb]. unfold check_cond in H3. cbn in H3.
    destruct (is_bool tc) eqn:E1; [|discriminate]. destruct (merge ta tb) eqn:E2; inv H3.
    apply is_bool_eq in E1. subst. econstructor; eauto.
  - intros c a IHc IHa G r H. cbn in H. bind_inv.
    destruct a0 as [tc kc], a1 as [ta ka]. unfold check_cond in H2. cbn in H2.
    destruct (is_bool tc) eqn:E1; [|discriminate]. destruct (merge ta CInt) eqn:E2; inv H2.
    apply is_bool_eq in E1. subst. econstructor; eauto.
  - intros l r IHl IHr G b H. cbn in H. bind_inv.
    destruct a as [tl kl], a0 as [tr kr]. unfold check_assign in H2. cbn in H2.
    destruct (cst_eqb kl KVar) eqn:E1; [|discriminate]. destruct (accepts tl tr) eqn:E2; inv H2.
    apply cst_eqb_eq in E1. subst. econstructor; eauto.
  - intros f args IHf IHargs G b H. cbn in H. bind_inv.
    destruct a as [tf kf]. unfold check_call in H2. cbn in H2.
    destruct tf; try discriminate. destruct (args_ok true ps a0) eqn:E; inv H2.
    econstructor; eauto.
  - intros items IH G b H. rewrite tc_block_eq in H. constructor. now apply IH.
  - intros c body IHc IHb G b H. cbn in H. bind_inv. destruct a as [tc kc]. cbn in H2.
    destruct (is_bool tc) eqn:E; inv H2. apply is_bool_eq in E. subst. econstructor; eauto.
  - intros body c IHb IHc G b H. cbn in H. bind_inv. destruct a as [tc kc]. cbn in H2.
    destruct (is_bool tc) eqn:E; inv H2. apply is_bool_eq in E. subst. econstructor; eauto.
  - intros i c s body IHi IHc IHs IHb G b H. cbn in H. bind_inv. destruct a0 as [tc kc]. cbn in H4.
    destruct (is_bool tc) eqn:E; inv H4. apply is_bool_eq in E. subst. econstructor; eauto.
  - intros x a b body IHa IHb IHbody G r H. cbn in H. bind_inv.
    destruct a0 as [ta ka], a1 as [tb kb]. cbn in H2.
    destruct (is_int ta) eqn:E1; [|discriminate]. destruct (is_int tb) eqn:E2; [|discriminate].
    cbn in H2. bind_inv. inv H3. apply is_int_eq in E1, E2. subst. econstructor; eauto.
  - intros x a body IHa IHbody G r H. cbn in H. bind_inv. destruct a0 as [ta ka]. cbn in H1.
    destruct ta; try discriminate. bind_inv. inv H2. econstructor; eauto.
  - intros fd IH G b H. cbn in H. bind_inv. inv H1. destruct a. constructor. now apply IH.
  - intros es t IH G b H. cbn in H. bind_inv.
    destruct (ty_wf R t) eqn:E1; [|discriminate]. destruct (check_elems t a) eqn:E2; inv H1.
    econstructor; eauto.
  - intros a i IHa IHi G b H. cbn in H. bind_inv. destruct a0 as [ta ka], a1 as [ti ki].
    unfold check_index in H2. cbn in H2. destruct ta; try discriminate.
    destruct (is_int ti) eqn:E; inv H2. apply is_int_eq in E. subst. econstructor; eauto.
  - intros r args IH G b H. cbn in H. bind_inv. unfold check_recnew in H1.
    destruct (find_rec r R) eqn:E1; [|discriminate].
    destruct (args_ok false _ a) eqn:E2; inv H1. econstructor; eauto.
  - intros r G b H. cbn in H. inv H. constructor.
  - intros a r fld IH G b H. cbn in H. bind_inv. destruct a0 as [ta ka].
    unfold check_field in H1. cbn in H1. destruct ta; try discriminate.
    destruct (N.eqb r r0) eqn:E0; [|discriminate]. apply N.eqb_eq in E0. subst r0.
    destruct (find_rec r R) eqn:E1; [|discriminate].
    destruct (nth_error l fld) eqn:E2; inv H1. econstructor; eauto.
  - intros a IH G b H. cbn in H. bind_inv. destruct a0 as [ta ka]. cbn in H1.
    destruct ta; cbn in H1; try discriminate. inv H1. econstructor; eauto.
  - (* exprs nil *) intros G bs H. cbn in H. inv H. constructor.
  - intros a l IHa IHl G bs H. cbn in H. bind_inv. inv H2. constructor; eauto.
  - auto.
  - auto.
  - auto.
  - auto.
  - (* items nil *) intros G inrun last b H. cbn in H. destruct last; inv H. constructor.
  - intros i l IHi IHl G inrun last b H. destruct i; cbn in H; cbn in IHi.
    + bind_inv. destruct a as [t k]. cbn in *. econstructor; eauto.
    + bind_inv. destruct a as [t k]. cbn in *. destruct (cst_eqb k KConst) eqn:E; [discriminate|].
      bind_inv. econstructor; eauto. now apply cst_eqb_neq.
    + bind_inv. destruct a0. econstructor; eauto.
    + bind_inv. econstructor; eauto.
  - (* catches nil *) intros G ret H. constructor.
  - intros ex h t IHh IHt G ret H. cbn in H. bind_inv. destruct a.
    apply check_ret_ok in H0. destruct H0 as [th [kh [Hb Hacc]]].
    econstructor; eauto.
  - (* fdef *) intros name ps ret body catches call IHb IHc IHcall G lam H.
    rewrite tc_fdef_eq in H. destruct (sig_wf R ps ret) eqn:Es; [|discriminate].
    apply bind_ok in H. destruct H as [G' [Henv H]].
    apply bind_ok in H. destruct H as [u1 [Hcat H]]. destruct u1.
    apply bind_ok in H. destruct H as [u2 [Hcall H]]. destruct u2.
    apply check_ret_ok in H. destruct H as [tb [kb [Hb Hacc]]].
    eapply F_def with (G' := G'); eauto.
    destruct call as [h|]; [|constructor].
    apply check_ret_ok in Hcall. destruct Hcall as [th [kh [Hh Hacch]]].
    econstructor; [apply (IHcall h eq_refl); exact Hh | exact Hacch].
Qed.

End Sound.

Lemma tc_funcs_sound R G fs : tc_funcs R G fs = Ok tt -> FunsOk R G fs.
Proof.
  induction fs as [|fd t IH]; cbn; intros H; [constructor|].
  apply bind_ok in H. destruct H as [u [H1 H2]]. destruct u.
  constructor; [|now apply IH].
  now apply (proj1 (proj2 (proj2 (tc_sound_all R)))).
Qed.

(* the executable checker accepts only well-typed programs *)
Theorem typecheck_sound : forall p, tc_program p = OK -> WellTyped p.
Proof.
  intros p H. unfold tc_program in H. unfold WellTyped.
  destruct (recs_ok (p_recs p) (p_recs p) []) as [u|] eqn:E1; cbn in H; [|discriminate]. destruct u.
  destruct (declare_all (top_sigs (p_funcs p)) [[]]) as [G|] eqn:E2; cbn in H; [|discriminate].
  destruct (tc_funcs (p_recs p) G (p_funcs p)) as [u|] eqn:E3; [|discriminate]. destruct u.
  split; [reflexivity|]. exists G. split; [reflexivity|]. now apply tc_funcs_sound.
Qed.

(* expression level, for use by the mutation theorems *)
Theorem tc_expr_sound : forall R G e b, tc_expr R G e = Ok b -> HasType R G e b.
Proof. intros R G e b. apply (proj1 (tc_sound_all R)). Qed.

(* ---- completeness: the judgment is exactly what the checker computes ------------------------ *)
Arguments tc_expr R G !e /.
Arguments tc_fdef R G lam !fd /.

Scheme HasType_mind := Minimality for HasType Sort Prop
  with HasTypes_mind := Minimality for HasTypes Sort Prop
  with ItemsOk_mind := Minimality for ItemsOk Sort Prop
  with FunOk_mind := Minimality for FunOk Sort Prop
  with CallOk_mind := Minimality for CallOk Sort Prop
  with CatchesOk_mind := Minimality for CatchesOk Sort Prop.
Combined Scheme typing_mutind from HasType_mind, HasTypes_mind, ItemsOk_mind, FunOk_mind,
  CallOk_mind, CatchesOk_mind.

Ltac rw_ok :=
  repeat match goal with
         | H : _ = Ok _ |- _ => rewrite H; cbn
         | H : _ = Some _ |- _ => rewrite H; cbn
         | H : _ = true |- _ => rewrite H; cbn
         end.

Theorem tc_complete_all : forall R,
  (forall G e b, HasType R G e b -> tc_expr R G e = Ok b) /\
  (forall G l bs, HasTypes R G l bs -> tc_list (tc_expr R G) l = Ok bs) /\
  (forall G inrun last l b, ItemsOk R G inrun last l b ->
      tc_items (tc_expr R) (tc_fdef R) G inrun last l = Ok b) /\
  (forall G lam fd, FunOk R G lam fd -> tc_fdef R G lam fd = Ok tt) /\
  (forall G ret call, CallOk R G ret call ->
      match call with None => Ok tt
                 | Some h => check_ret ret (tc_block (tc_expr R) (tc_fdef R) G h) end = Ok tt) /\
  (forall G ret cs, CatchesOk R G ret cs -> tc_catches (tc_expr R) (tc_fdef R) G ret cs = Ok tt).
Proof.
  intros R. apply typing_mutind; intros;
    try (rewrite tc_block_eq; unfold tc_block; assumption);
    try (rewrite tc_lambda_eq; rw_ok; reflexivity);
    try (rewrite tc_fdef_eq);
    cbn; rw_ok; try reflexivity.
  all: unfold check_assign, check_call, check_index, check_recnew, check_field, check_ret, tc_block in *;
       cbn; rewrite ?N.eqb_refl; rw_ok; try reflexivity.
  all: try (destruct k; try congruence; cbn; rw_ok; reflexivity).
  all: try (destruct inrun; cbn in *; rw_ok; reflexivity).
  destruct inrun; cbn in H |- *; [inversion H; subst | rewrite H; cbn]; rewrite H1; cbn; exact H3.
Qed.

Lemma tc_funcs_complete R G fs : FunsOk R G fs -> tc_funcs R G fs = Ok tt.
Proof.
  induction 1; cbn; [reflexivity|].
  rewrite (proj1 (proj2 (proj2 (proj2 (tc_complete_all R)))) _ _ _ H). cbn. assumption.
Qed.

Theorem typecheck_complete : forall p, WellTyped p -> tc_program p = OK.
Proof.
  intros p [H1 [G [H2 H3]]]. unfold tc_program. rewrite H1. cbn. rewrite H2. cbn.
  now rewrite (tc_funcs_complete _ _ _ H3).
Qed.
