(* Arith/Promote.v — typing of the arithmetic operators and selection of their opcodes.

   `conv_basic`, `conv_ass`, `check_bin`, `check_un` are written from front/typecheck.c
   (expr_conv_basic_type, expr_conv_ass_type, expr_conv_enumtype, expr_conv_string_type,
   expr_{add_sub,mul,div,mod,lgte,eq,and_or,bin_op,neg,not,bin_not}_check_type);
   `emit_bin`, `emit_un`, `emit_conv`, `emit_ass` from front/emit.c (the switch on comb.comb).
   They are tied to the code by Gen/ConvTables.v / Gen/OpSelect.v (regenerated from the tree's
   compiler on every run): Arith/PromoteProofs.v proves, by computation over the completely
   enumerated tables, that these functions and the tables agree cell by cell.

   The model is FAITHFUL to the tree, including the cases for which the emitter has no opcode
   (enum operands of comparisons and %: None = assert(0)); the property statements over the
   tables are in PromoteProofs.v.

   Then: source expressions (`sexpr`), elaboration (insertion of EXPR_CONV nodes) and the
   typechecker's view of an elaborated tree (`ty_of`).  Definitions only. *)
From Coq Require Import ZArith Bool List String.
From NV Require Import Arith.NumTy.
Import ListNotations.

(* ---- typecheck.c ---------------------------------------------------------------- *)

(* expr_conv_basic_type: (result comb, conversion wrapped around left, around right) *)
Definition conv_basic (l r : ty) : option (ty * option conv * option conv) :=
  match l, r with
  | TInt, TInt => Some (TInt, None, None)
  | TInt, TLong => Some (TLong, Some I2L, None)
  | TInt, TFloat => Some (TFloat, Some I2F, None)
  | TInt, TDouble => Some (TDouble, Some I2D, None)
  | TLong, TInt => Some (TLong, None, Some I2L)
  | TLong, TLong => Some (TLong, None, None)
  | TLong, TFloat => Some (TFloat, Some L2F, None)
  | TLong, TDouble => Some (TDouble, Some L2D, None)
  | TFloat, TInt => Some (TFloat, None, Some I2F)
  | TFloat, TLong => Some (TFloat, None, Some L2F)
  | TFloat, TFloat => Some (TFloat, None, None)
  | TFloat, TDouble => Some (TDouble, Some F2D, None)
  | TDouble, TInt => Some (TDouble, None, Some I2D)
  | TDouble, TLong => Some (TDouble, None, Some L2D)
  | TDouble, TFloat => Some (TDouble, None, Some F2D)
  | TDouble, TDouble => Some (TDouble, None, None)
  | _, _ => None
  end.

(* expr_conv_enumtype (item enums: expr_conv_enumerator inserts nothing) *)
Definition conv_enum (l r : ty) : option ty :=
  match l, r with
  | TInt, TEnum | TEnum, TInt | TEnum, TEnum => Some TInt
  | _, _ => None
  end.

(* expr_conv_string_type *)
Definition conv_string (l r : ty) : bool :=
  match l, r with
  | TString, TString
  | TInt, TString | TString, TInt | TFloat, TString | TString, TFloat
  | TLong, TString | TString, TLong | TDouble, TString | TString, TDouble
  | TChar, TString | TString, TChar => true
  | _, _ => false
  end.

(* expr_conv_ass_type: (comb of the assignment expression, conversion around the right side) *)
Definition conv_ass (l r : ty) : option (ty * option conv) :=
  match l, r with
  | TInt, TInt => Some (TInt, None)
  | TInt, TLong => Some (TInt, Some L2I)
  | TInt, TFloat => Some (TInt, Some F2I)
  | TInt, TDouble => Some (TInt, Some D2I)
  | TInt, TEnum => Some (TInt, None)
  | TLong, TInt => Some (TLong, Some I2L)
  | TLong, TLong => Some (TLong, None)
  | TLong, TFloat => Some (TLong, Some F2L)
  | TLong, TDouble => Some (TLong, Some D2L)
  | TFloat, TInt => Some (TFloat, Some I2F)
  | TFloat, TLong => Some (TFloat, Some L2F)
  | TFloat, TFloat => Some (TFloat, None)
  | TFloat, TDouble => Some (TFloat, Some D2F)
  | TDouble, TInt => Some (TDouble, Some I2D)
  | TDouble, TLong => Some (TDouble, Some L2D)
  | TDouble, TFloat => Some (TDouble, Some F2D)
  | TDouble, TDouble => Some (TDouble, None)
  | _, _ => None
  end.

(* expr_ass_check_type restricted to scalar operands *)
Definition check_ass (l r : ty) : option (ty * option conv) :=
  match l, r with
  | TBool, TBool => Some (TBool, None)
  | TChar, TChar => Some (TChar, None)
  | TEnum, TEnum => Some (TEnum, None)       (* same enum type *)
  | TString, TString => Some (TString, None)
  | _, _ => conv_ass l r
  end.

Definition with_res (t : ty) (r : option (ty * option conv * option conv))
  : option (ty * option conv * option conv) :=
  match r with Some (_, cl, cr) => Some (t, cl, cr) | None => None end.

Definition noconv (r : option ty) : option (ty * option conv * option conv) :=
  match r with Some t => Some (t, None, None) | None => None end.

Definition orelse {A} (a b : option A) : option A := match a with Some _ => a | None => b end.

(* the integer-only matrices of expr_mod_check_type / expr_bin_op_check_type *)
Definition conv_intlong (l r : ty) : option (ty * option conv * option conv) :=
  match l, r with
  | TInt, TInt => Some (TInt, None, None)
  | TInt, TLong => Some (TLong, Some I2L, None)
  | TLong, TInt => Some (TLong, None, Some I2L)
  | TLong, TLong => Some (TLong, None, None)
  | _, _ => None
  end.

(* expr_<op>_check_type on scalar operand types: (comb, conv on left, conv on right) *)
Definition check_bin (o : binop) (l r : ty) : option (ty * option conv * option conv) :=
  match o with
  | Add =>
      orelse (conv_basic l r)
        (orelse (noconv (conv_enum l r))
                (if conv_string l r then Some (TString, None, None) else None))
  | Sub | Mul | Div => orelse (conv_basic l r) (noconv (conv_enum l r))
  | Mod => orelse (conv_intlong l r) (noconv (conv_enum l r))
  | OLt | OGt | OLe | OGe =>
      orelse (with_res TBool (conv_basic l r))
        (orelse (with_res TBool (noconv (conv_enum l r)))
                (match l, r with TChar, TChar => Some (TBool, None, None) | _, _ => None end))
  | OEq | ONe =>
      match l, r with
      | TBool, TBool | TChar, TChar => Some (TBool, None, None)
      | _, _ =>
          orelse (with_res TBool (conv_basic l r))
            (orelse (with_res TBool (noconv (conv_enum l r)))
                    (match l, r with TString, TString => Some (TBool, None, None) | _, _ => None end))
      end
  | And | Or => match l, r with TBool, TBool => Some (TBool, None, None) | _, _ => None end
  | BAnd | BOr | BXor | Shl | Shr => orelse (conv_intlong l r) (noconv (conv_enum l r))
  end.

(* expr_neg_check_type / expr_not_check_type / expr_bin_not_check_type *)
Definition check_un (o : unop) (t : ty) : option ty :=
  match o, t with
  | Neg, (TInt | TLong | TFloat | TDouble) => Some t
  | Neg, TEnum => Some TInt
  | Not, TBool => Some TBool
  | BNot, (TInt | TLong) => Some t
  | BNot, TEnum => Some TInt
  | _, _ => None
  end.

(* expr_conv_check_type *)
Definition check_conv (c : conv) (t : ty) : option ty :=
  if ty_eqb t (conv_src c) then Some (conv_dst c) else None.

Definition apply_conv (t : ty) (c : option conv) : ty :=
  match c with Some c => conv_dst c | None => t end.

(* ---- emit.c ---------------------------------------------------------------------- *)

(* an operand whose comb is an item enum type: expr_conv_enumtype -> expr_conv_enumerator
   retypes it COMB_TYPE_INT (since /repo 2ca194c; before, the comb stayed ENUMTYPE and the
   emitters of < <= > >= % == != had no case for it: assert(0)) *)
Definition item_int (t : ty) : ty := match t with TEnum => TInt | _ => t end.

(* l, r: comb of the (possibly converted) operands as the typechecker computed them (an item
   enumerator operand still TEnum here, see item_int); res: comb of the operator node.
   None = the emitter has no case: print_error_msg + assert(0). *)
Definition emit_bin (o : binop) (l0 r0 res : ty) : option vmop :=
  let l := item_int l0 in
  let r := item_int r0 in
  match o with
  | Add =>
      if is_num res then Some (VBin Add res)
      else if conv_string l r then Some (VCat l r) else None
  | Sub | Mul | Div => if is_num res then Some (VBin o res) else None
  | Mod =>
      match l, r with
      | TInt, TInt => Some (VBin Mod TInt)
      | TLong, TLong => Some (VBin Mod TLong)
      | _, _ => None
      end
  | OLt | OGt | OLe | OGe =>
      match l, r with
      | TInt, TInt | TLong, TLong | TFloat, TFloat | TDouble, TDouble | TChar, TChar =>
          Some (VBin o l)
      | _, _ => None
      end
  | OEq | ONe =>
      match l, r with
      | TBool, TBool => Some (VBin o TInt)
      | TInt, TInt | TLong, TLong | TFloat, TFloat | TDouble, TDouble
      | TChar, TChar | TString, TString => Some (VBin o l)
      | _, _ => None
      end
  | BAnd | BOr | BXor | Shl | Shr =>
      match l, r with
      | TLong, TLong => Some (VBin o TLong)
      | TInt, TInt => Some (VBin o TInt)
      | _, _ => None
      end
  | And | Or => None                            (* jumps, no opcode *)
  end.

(* t: comb of the operand, res: comb of the node *)
Definition emit_un (o : unop) (t res : ty) : option vmop :=
  match o with
  | Neg => if is_num res then Some (VUn Neg res) else None
  | Not => match res with TBool | TInt => Some (VUn Not TInt) | _ => None end
  | BNot =>
      match t with
      | TInt | TEnum => Some (VUn BNot TInt)
      | TLong => Some (VUn BNot TLong)
      | _ => None
      end
  end.

Definition emit_conv (c : conv) (t : ty) : option vmop :=
  if ty_eqb t (conv_src c) then Some (VConv c) else None.

(* expr_ass_emit on the comb of the assignment node (bool and item enums use OP_ASS_INT) *)
Definition emit_ass (res : ty) : option vmop :=
  match res with
  | TBool | TInt | TEnum => Some (VAss TInt)
  | TLong | TFloat | TDouble | TChar | TString => Some (VAss res)
  end.

(* ---- expressions ----------------------------------------------------------------- *)

(* literal kinds of the AST: EXPR_BOOL, EXPR_INT, EXPR_LONG, EXPR_FLOAT, EXPR_DOUBLE and an
   item of an enum type (EXPR_ENUMTYPE, id_enumerator_value->index) *)
Inductive lit :=
  | LBool (b : bool) | LInt (z : Z) | LLong (z : Z)
  | LFloat (bits : Z) | LDouble (bits : Z) | LEnum (index : Z).

Definition lit_ty (l : lit) : ty :=
  match l with
  | LBool _ => TBool | LInt _ => TInt | LLong _ => TLong
  | LFloat _ => TFloat | LDouble _ => TDouble | LEnum _ => TEnum
  end.

(* source expression: what the parser builds (parentheses are EXPR_SUP nodes) *)
Inductive sexpr :=
  | SLit (l : lit)
  | SUn (o : unop) (a : sexpr)
  | SBin (o : binop) (a b : sexpr)
  | SSup (a : sexpr)
  | SCond (c a b : sexpr).

(* expression after typechecking: EXPR_CONV nodes inserted *)
Inductive expr :=
  | ELit (l : lit)
  | EUn (o : unop) (a : expr)
  | EBin (o : binop) (a b : expr)
  | EConv (c : conv) (a : expr)
  | ESup (a : expr)
  | ECond (c a b : expr).

Definition wrap_conv (c : option conv) (e : expr) : expr :=
  match c with Some c => EConv c e | None => e end.

(* expr_check_type on the fragment: elaborated tree and its comb; None = rejected *)
Fixpoint elab (s : sexpr) : option (expr * ty) :=
  match s with
  | SLit l => Some (ELit l, lit_ty l)
  | SUn o a =>
      match elab a with
      | Some (ea, ta) =>
          match check_un o ta with Some t => Some (EUn o ea, t) | None => None end
      | None => None
      end
  | SBin o a b =>
      match elab a, elab b with
      | Some (ea, ta), Some (eb, tb) =>
          match check_bin o ta tb with
          | Some (t, cl, cr) => Some (EBin o (wrap_conv cl ea) (wrap_conv cr eb), t)
          | None => None
          end
      | _, _ => None
      end
  | SSup a =>
      match elab a with Some (ea, ta) => Some (ESup ea, ta) | None => None end
  | SCond c a b =>
      match elab c, elab a, elab b with
      | Some (ec, TBool), Some (ea, ta), Some (eb, tb) =>
          if ty_eqb ta tb then Some (ECond ec ea eb, ta) else None
      | _, _, _ => None
      end
  end.

(* comb of an already elaborated tree; None if the typechecker would reject it or would
   still insert a conversion (i.e. the tree is not a result of elaboration) *)
Fixpoint ty_of (e : expr) : option ty :=
  match e with
  | ELit l => Some (lit_ty l)
  | EUn o a => match ty_of a with Some t => check_un o t | None => None end
  | EBin o a b =>
      match ty_of a, ty_of b with
      | Some ta, Some tb =>
          match check_bin o ta tb with
          | Some (t, None, None) => Some t
          | _ => None
          end
      | _, _ => None
      end
  | EConv c a => match ty_of a with Some t => check_conv c t | None => None end
  | ESup a => ty_of a
  | ECond c a b =>
      match ty_of c, ty_of a, ty_of b with
      | Some TBool, Some ta, Some tb => if ty_eqb ta tb then Some ta else None
      | _, _, _ => None
      end
  end.
