(* Model of the function table back/functab.c (definitions only, executable): the open-addressing
   table of OpenTabModel.v with the *blind* add, exactly the shape of back/dlcache.c without the
   "host" entry.  Key = func_value->decl->id, payload = (func_value, entry_type, params,
   params_count) — opaque here.

   functab_new(size):   size, count = 0, empty entries            (back/module.c uses size 8)
   functab_add_func:    functab_entry_add_func; count++; functab_resize     (front/emit.c, one call per
                        top-level function that can be an entry point)
   functab_lookup:      functab_entry_lookup                      (back/nev.c nev_prepare*: the entry
                        point named by the embedder)
   functab_close only rewrites the payload of occupied slots (type, strdup'ed id, func_addr): keys
   and positions are unchanged. *)
From Coq Require Import List Arith NArith Bool.
From NV Require Import Hash.OpenTabModel Hash.DlCacheModel.
Import ListNotations.

Section FuncTab.
  Variable name : Type.
  Variable name_eqb : name -> name -> bool.
  Variable hash : name -> N.
  Variable V : Type.

  Definition functab := tab name V.
  Definition functab_new (size : nat) : functab := mk_tab size 0 (entry_new name V size).
  Definition functab_add_func (t : functab) (id : name) (v : V) : res functab :=
    tab_add name name_eqb hash V t id v.
  Definition functab_lookup (t : functab) (id : name) : option V :=
    tab_lookup_val name name_eqb hash V t id.

  Fixpoint functab_add_all (t : functab) (l : list (name * V)) : res functab :=
    match l with
    | [] => Ok t
    | (id, v) :: rest =>
        match functab_add_func t id v with
        | Ok t' => functab_add_all t' rest
        | r => r
        end
    end.
End FuncTab.

(* the instance run by the extracted driver: payload = (func index, (entry_type, params_count)) *)
Definition fpayload := (N * (N * N))%type.
Definition ft_new (size : nat) : tab cname fpayload := functab_new cname fpayload size.
Definition ft_add := functab_add_func cname cname_eqb hash_string fpayload.
Definition ft_lookup (t : tab cname fpayload) (id : cname) : lres :=
  tab_lookup cname cname_eqb hash_string fpayload t id.
