#!/usr/bin/env python3
"""tools/seed_paragraphs.py : regenerate the `*Seeds*` paragraph of every §5 subsection of DESIGN.md from
seeded/<id>-<k>/meta.json (which check catches which seed, own / secondary / only no-failing-input-found)."""
import glob, json, os, re, textwrap
VERIF = os.path.dirname(os.path.dirname(os.path.abspath(__file__)))
metas = [json.load(open(f)) for f in sorted(glob.glob(os.path.join(VERIF, "seeded", "C*-*", "meta.json")))]

def num(n): return int(n.split("-")[1])

def ranges(ns):
    ns = sorted(ns); out = []; i = 0
    while i < len(ns):
        j = i
        while j + 1 < len(ns) and ns[j + 1] == ns[j] + 1: j += 1
        out.append(str(ns[i]) if i == j else "%d..%d" % (ns[i], ns[j])); i = j + 1
    return out

def para(pid):
    mine = [m for m in metas if m["breaks_property"] == pid]
    caught = lambda m: [r for r in m["ran"] if r.get("caught")]
    own = [m for m in mine if any(r["check"] == pid for r in caught(m))]
    nfif = [m["name"] for m in own if not any(r.get("with_concrete_input") for r in caught(m) if r["check"] == pid)]
    other = [m for m in mine if m not in own]
    sec = sorted((m["name"] for m in metas if m["breaks_property"] != pid and any(r["check"] == pid for r in caught(m))),
                 key=lambda n: (n.split("-")[0], num(n)))
    rs = ranges([num(m["name"]) for m in own])
    t = "*Seeds* (of %d aimed at %s, per `meta.json`). Own check catches " % (len(mine), pid)
    t += (pid + "-" + ", -".join(rs)) if rs else "none"
    if nfif:
        t += " (%s only as `no-failing-input-found`)" % ", ".join(nfif)
    if other:
        t += "; not caught by %s itself, caught by the check in parentheses: " % pid
        t += ", ".join("%s (%s)" % (m["name"], ", ".join(sorted(r["check"] for r in caught(m))) or "NONE")
                       for m in sorted(other, key=lambda m: num(m["name"])))
    t += ". "
    t += ("As secondary check it also catches " + ", ".join(sec) + ".") if sec else "It is nobody's secondary check."
    return "\n".join(textwrap.wrap(t, 100, break_long_words=False, break_on_hyphens=False))

def main():
    p = os.path.join(VERIF, "DESIGN.md"); s = open(p).read(); n = 0
    for pid in ["C%02d" % i for i in range(1, 18)]:
        m = re.search(r"^\*Seeds\* \(of \d+ aimed at %s,.*?(?=^\*Findings|^\s*$|^#)" % pid, s, re.M | re.S)
        if not m:
            print("no *Seeds* paragraph for", pid); continue
        s = s[:m.start()] + para(pid) + "\n" + s[m.end():]; n += 1
    open(p, "w").write(s); print("seed paragraphs regenerated:", n)

if __name__ == "__main__":
    main()
