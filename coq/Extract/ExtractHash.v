(* Extraction of the open-addressing table models (library handle cache back/dlcache.c, and the
   strtab / functab instances) for the correspondence harness harness/ocaml/hash/hashrun.ml.
   ExtrOcamlBasic only: nat, N, positive stay extracted datatypes; the driver converts them.
   Model sources: NV.Hash.OpenTabModel NV.Hash.DlCacheModel NV.Hash.StrTabModel NV.Hash.FuncTabModel *)
From Coq Require Import ExtrOcamlBasic.
From NV Require Import Hash.OpenTabModel Hash.DlCacheModel Hash.StrTabModel Hash.FuncTabModel.

Extraction "hashmodel.ml"
  hash_string cname_eqb
  dl_entry_new dl_entry_add dl_entry_lookup dl_entry_resize
  dl_new dl_add_dl dl_lookup dl_get_handle dl_resize
  slot_at
  str_new str_add str_lookup str_to_array
  ft_new ft_add ft_lookup.
