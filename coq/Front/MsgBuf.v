(* Front/MsgBuf.v — model of the length arithmetic of print_msg (back/utils.c), C05.

     char msg_buf[MSG_BUF_SIZE] = { 0 };
     msg_len  = snprintf (msg_buf,           msg_prefix_limit,       "%s:%d: %s: ", file, line, type);
     msg_len  = msg_len_after_prefix msg_len;          (an optional clamp, identity if absent)
     msg_len += vsnprintf(msg_buf + msg_len, msg_body_limit msg_len, format, args);

   MSG_BUF_SIZE, msg_prefix_limit, msg_len_after_prefix and msg_body_limit are regenerated from
   the source text on every run (Gen/FrontConsts.v).  The model abstracts the two formatted texts to their
   lengths: p = length of the prefix "file:line: type: ", b = length of the formatted body
   (both without the terminating NUL); these are also what snprintf/vsnprintf return.

   C99 7.19.6.5: snprintf(s, n, ...) writes nothing if n = 0; otherwise it writes the first
   min(w, n-1) characters of the would-be output of length w, then a NUL, and returns w.
   The size argument has type size_t: a negative C int expression arrives as its value
   modulo 2^64 (as_size).  Definitions only; proofs are in MsgBufProofs.v. *)
From Coq Require Import ZArith Bool List.
From NV Require Import Gen.FrontConsts.
Import ListNotations.
Local Open Scope Z_scope.

Definition SIZE_T_MOD : Z := 2 ^ 64.
Definition as_size (n : Z) : Z := n mod SIZE_T_MOD.

(* number of bytes written by snprintf(s, n, ...) whose full output has length w *)
Definition snprintf_extent (n w : Z) : Z := if n =? 0 then 0 else Z.min w (n - 1) + 1.

(* the two half-open byte ranges, as offsets into msg_buf, written by print_msg *)
Definition prefix_extent (p : Z) : Z := snprintf_extent (as_size msg_prefix_limit) p.
Definition body_start (p : Z) : Z := msg_len_after_prefix p.
Definition body_extent (p b : Z) : Z := snprintf_extent (as_size (msg_body_limit (body_start p))) b.

(* offset i of msg_buf is written by one of the two calls *)
Definition written (p b i : Z) : Prop :=
  (0 <= i < prefix_extent p) \/ (body_start p <= i < body_start p + body_extent p b).

(* the property: every written offset is inside the array *)
Definition writes_within_buffer (p b : Z) : Prop :=
  forall i, written p b i -> 0 <= i < MSG_BUF_SIZE.

(* executable version (extracted; run against ASan's verdict on the real print_msg) *)
Definition within_buffer (p b : Z) : bool :=
  (prefix_extent p <=? MSG_BUF_SIZE) &&
  ((body_extent p b =? 0) || ((0 <=? body_start p) && (body_start p + body_extent p b <=? MSG_BUF_SIZE))).

(* per-prefix criterion: safe for every body length *)
Definition safe_at (p : Z) : bool :=
  let n := as_size (msg_body_limit (body_start p)) in
  (prefix_extent p <=? MSG_BUF_SIZE) &&
  ((n =? 0) || ((0 <=? body_start p) && (body_start p + n <=? MSG_BUF_SIZE))).

(* the same test for another size expression and no clamp: what print_msg amounted to before
   the commit "bound the diagnostic body by the space left in the message buffer" *)
Definition within_buffer_with (lim : Z -> Z) (p b : Z) : bool :=
  let e := snprintf_extent (as_size (lim p)) b in
  (prefix_extent p <=? MSG_BUF_SIZE) && ((e =? 0) || (p + e <=? MSG_BUF_SIZE)).

Definition zrange (n : Z) : list Z := map Z.of_nat (seq 0 (Z.to_nat n)).

(* decision for all prefixes that fit the buffer, 0 <= p < MSG_BUF_SIZE *)
Definition msg_safe_all : bool := forallb safe_at (zrange MSG_BUF_SIZE).

(* first unsafe prefix length and a body length that overflows with it *)
Definition msg_overflow_witness : option (Z * Z) :=
  match filter (fun p => negb (safe_at p)) (zrange MSG_BUF_SIZE) with
  | p :: _ => Some (p, as_size (msg_body_limit (body_start p)))
  | [] => None
  end.

(* smallest body length that overflows for prefix p, if any, searching b < bound *)
Definition first_overflow_body (p bound : Z) : option Z :=
  match filter (fun b => negb (within_buffer p b)) (zrange bound) with
  | b :: _ => Some b
  | [] => None
  end.
