(* C10 — replacing a literal operand by a variable holding the same value never changes a
   program's outcome: an expression reduced by the compiler yields exactly the value the VM
   would compute, and an expression the compiler rejects as a constant division by zero is
   one the VM would fault on with division_by_zero.

   Only statements here; every proof is `exact <lemma>` into Arith/ConstredProofs.v.
   fold     = the reducer, written from front/constred.c        (Arith/Constred.v)
   rt_eval  = emitter + VM handlers, from front/emit.c, back/vmexec.c (Arith/RtEval.v)
   ty_of    = the typechecker's view of an elaborated tree       (Arith/Promote.v)
   All theorems quantify over ALL expression trees (operators, conversions, parentheses, ?:)
   and ALL literal values (bit patterns for float/double).
   `_refuted` = false on the faithful model of the pinned tree, with the witness (each is
   replayed on the real code by checks/c10.py); `_partial` = proved for the trees that avoid
   the defective nodes:
     clean e  = every node has an opcode, no long*long node, no bool != bool node
     strict e = no && || ?: and no enum operand under a bit operator *)
From Coq Require Import ZArith Bool List.
From NV Require Import Arith.NumTy Arith.VMOps Arith.Promote Arith.RtEval Arith.Constred
  Arith.ConstredProofs.
Local Open Scope Z_scope.

Theorem fold_agrees_with_runtime_partial : forall e t e',
  ty_of e = Some t -> clean e = true -> fold e = FOk e' ->
  ty_of e' = Some t /\ rt_eval e' = rt_eval e.
Proof. exact ConstredProofs.fold_agrees_with_runtime_partial. Qed.
Print Assumptions fold_agrees_with_runtime_partial.

Theorem fold_literal_is_runtime_value : forall e t l,
  ty_of e = Some t -> clean e = true -> fold e = FOk (ELit l) ->
  rt_eval e = Val (lit_val l) /\ lit_ty l = t.
Proof. exact ConstredProofs.fold_literal_is_runtime_value. Qed.
Print Assumptions fold_literal_is_runtime_value.

Theorem fold_agrees_with_runtime_refuted :
  exists e t l, ty_of e = Some t /\ fold e = FOk (ELit l) /\ rt_eval e <> Val (lit_val l).
Proof. exact ConstredProofs.fold_agrees_with_runtime_refuted. Qed.
Print Assumptions fold_agrees_with_runtime_refuted.

(* the three witnesses, concretely *)
Theorem long_mul_fold_is_wrong :
  fold ex_long_mul = FOk (ELit (LLong 1410065408)) /\ rt_eval ex_long_mul = Val (VLong 10000000000).
Proof. exact ConstredProofs.long_mul_fold_is_wrong. Qed.
Print Assumptions long_mul_fold_is_wrong.

Theorem bool_neq_runtime_is_wrong :
  fold ex_bool_neq = FOk (ELit (LBool true)) /\ rt_eval ex_bool_neq = Val (VInt 0).
Proof. exact ConstredProofs.bool_neq_runtime_is_wrong. Qed.
Print Assumptions bool_neq_runtime_is_wrong.

Theorem enum_compare_is_not_emitted :
  ty_of ex_enum_lt = Some TBool /\ fold ex_enum_lt = FOk (ELit (LBool true)) /\
  rt_eval ex_enum_lt = Crash EmitAssert.
Proof. exact ConstredProofs.enum_compare_is_not_emitted. Qed.
Print Assumptions enum_compare_is_not_emitted.

(* every eagerly evaluated tree folds completely *)
Theorem fold_total : forall e t,
  ty_of e = Some t -> clean e = true -> strict e = true ->
  fold e = FCrash \/ fold e = FReject \/ exists l, fold e = FOk (ELit l) /\ lit_ty l = t.
Proof. exact ConstredProofs.fold_total. Qed.
Print Assumptions fold_total.

Theorem fold_div0_is_runtime_fault_partial : forall e t,
  ty_of e = Some t -> clean e = true -> strict e = true ->
  fold e = FReject -> rt_eval e = Fault DivisionByZero.
Proof. exact ConstredProofs.fold_div0_is_runtime_fault_partial. Qed.
Print Assumptions fold_div0_is_runtime_fault_partial.

Theorem fold_div0_is_runtime_fault_refuted :
  exists e t v, ty_of e = Some t /\ clean e = true /\ fold e = FReject /\ rt_eval e = Val v.
Proof. exact ConstredProofs.fold_div0_is_runtime_fault_refuted. Qed.
Print Assumptions fold_div0_is_runtime_fault_refuted.

Theorem cond_div0_is_rejected_but_runs :
  ty_of ex_cond_div0 = Some TInt /\ fold ex_cond_div0 = FReject /\ rt_eval ex_cond_div0 = Val (VInt 1).
Proof. exact ConstredProofs.cond_div0_is_rejected_but_runs. Qed.
Print Assumptions cond_div0_is_rejected_but_runs.

(* the reducer itself traps on INT_MIN / -1 *)
Theorem fold_never_crashes_refuted :
  exists e t, ty_of e = Some t /\ clean e = true /\ strict e = true /\ fold e = FCrash.
Proof. exact ConstredProofs.fold_never_crashes_refuted. Qed.
Print Assumptions fold_never_crashes_refuted.

Theorem fold_crash_is_runtime_failure : forall e t,
  ty_of e = Some t -> clean e = true -> strict e = true ->
  fold e = FCrash -> rt_eval e = Crash SigFpe \/ rt_eval e = Fault DivisionByZero.
Proof. exact ConstredProofs.fold_crash_is_runtime_failure. Qed.
Print Assumptions fold_crash_is_runtime_failure.

(* the theorems apply to everything the typechecker accepts *)
Theorem elab_well_typed : forall s e t, elab s = Some (e, t) -> ty_of e = Some t.
Proof. exact ConstredProofs.elab_well_typed. Qed.
Print Assumptions elab_well_typed.

(* hypotheses are satisfiable: a mixed, eagerly evaluated, clean tree *)
Example hypotheses_satisfiable :
  let e := EBin Add (EConv I2D (ELit (LInt 1))) (ELit (LDouble 4612811918334230528)) in
  ty_of e = Some TDouble /\ clean e = true /\ strict e = true /\
  fold e = FOk (ELit (LDouble 4615063718147915776)).
Proof. vm_compute. repeat split. Qed.
