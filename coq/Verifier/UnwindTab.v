(* The two exception-table lookups are the same function (property C03, table level).

   Verifier/Verify.v and Verifier/Shape.v reason with `Verify.handler`: a linear scan of the
   dumped table "(block, handler) of the last block starting at or before a".  The C code
   (back/exctab.c) does a binary search over the same entries followed by the UINT_MAX
   sentinel; its model is Exc/ExcTab.v and Exc/ExcTabProofs.search_spec says it returns the
   unique block containing ip.  Here: on every strictly sorted table (what the checker demands:
   Verify.sorted_blocks) and every address at or after the first block, both give the same
   handler address -- so what the verifier proves about `handler` is about what
   exception_tab_search computes.

   No axioms. *)
From Coq Require Import ZArith List Arith Bool Lia.
From NV Require Import Exc.ExcTab Exc.ExcTabProofs Gen.Opcodes Verifier.Shape Verifier.Effect Verifier.Verify.
Import ListNotations.

Definition zent (e : nat * nat) : entry := (Z.of_nat (fst e), Z.of_nat (snd e)).

(* the table memory the C code searches: the entries, then the sentinel *)
Definition ztab (exct : list (nat * nat)) : list entry := map zent exct ++ [sentinel].

(* ... which is what exception_tab_new + one exception_tab_insert per entry build *)
Lemma ztab_is_inserted exct :
  exctab_of_list (map zent exct) =
  {| et_count := Z.of_nat (length exct); et_tab := ztab exct |}.
Proof.
  destruct (exctab_of_list_shape (map zent exct)) as [H1 H2].
  destruct (exctab_of_list (map zent exct)) as [c t]. cbn [et_count et_tab] in *.
  rewrite map_length in H1. unfold ztab. now subst.
Qed.

Lemma ent_ztab_lt exct i : (i < length exct)%nat ->
  ent (ztab exct) (Z.of_nat i) = zent (nth i exct (0, 0)%nat).
Proof.
  intros H. unfold ent, ztab. rewrite Nat2Z.id.
  rewrite app_nth1 by (now rewrite map_length).
  rewrite (nth_indep _ sentinel (zent (0, 0)%nat)) by (now rewrite map_length).
  apply map_nth.
Qed.

Lemma ent_ztab_len exct : ent (ztab exct) (Z.of_nat (length exct)) = sentinel.
Proof.
  unfold ent, ztab. rewrite Nat2Z.id. rewrite app_nth2 by (rewrite map_length; lia).
  rewrite map_length, Nat.sub_diag. reflexivity.
Qed.

(* sorted_blocks: strictly increasing block addresses *)
Lemma sorted_blocks_tail e t : sorted_blocks (e :: t) = true -> sorted_blocks t = true.
Proof.
  destruct e as [b h]. destruct t as [|[b2 h2] t]; [reflexivity|]. cbn [sorted_blocks].
  intros H. apply andb_true_iff in H. apply H.
Qed.

Lemma sorted_blocks_head : forall t b h e, sorted_blocks ((b, h) :: t) = true -> In e t -> (b < fst e)%nat.
Proof.
  induction t as [|[b2 h2] t IH]; intros b h e H Hin; [destruct Hin|].
  cbn [sorted_blocks] in H. apply andb_true_iff in H. destruct H as [H1 H2]. apply Nat.ltb_lt in H1.
  destruct Hin as [<-|Hin]; [exact H1|].
  specialize (IH b2 h2 e H2 Hin). lia.
Qed.

Lemma sorted_blocks_nth : forall l i j, sorted_blocks l = true -> (i < j)%nat -> (j < length l)%nat ->
  (fst (nth i l (0, 0)%nat) < fst (nth j l (0, 0)%nat))%nat.
Proof.
  induction l as [|[b h] t IH]; intros i j Hs Hij Hj; [cbn in Hj; lia|].
  destruct j as [|j]; [lia|]. cbn [length] in Hj.
  destruct i as [|i].
  - cbn [nth fst]. apply (sorted_blocks_head t b h); auto. apply nth_In. lia.
  - cbn [nth]. apply IH; [eapply sorted_blocks_tail; eauto|lia|lia].
Qed.

(* the linear lookup on a sorted table: the entry at index i, when block_i <= a and every later
   block starts after a *)
Lemma handler_from_at : forall l a acc i,
  sorted_blocks l = true -> (i < length l)%nat ->
  (fst (nth i l (0, 0)%nat) <= a)%nat ->
  (forall j, (i < j)%nat -> (j < length l)%nat -> (a < fst (nth j l (0, 0)%nat))%nat) ->
  handler_from l a acc = Some (snd (nth i l (0, 0)%nat)).
Proof.
  induction l as [|[b h] t IH]; intros a acc i Hs Hi Hle Hgt; [cbn in Hi; lia|].
  destruct i as [|i].
  - cbn [nth fst snd] in *. cbn [handler_from].
    destruct (b <=? a) eqn:E; [|apply Nat.leb_gt in E; lia].
    destruct t as [|[b2 h2] t2]; [reflexivity|].
    cbn [handler_from]. specialize (Hgt 1%nat ltac:(lia) ltac:(cbn; lia)). cbn in Hgt.
    destruct (b2 <=? a) eqn:E2; [apply Nat.leb_le in E2; lia|reflexivity].
  - cbn [nth] in *. cbn [length] in Hi. cbn [handler_from].
    assert (Hb : (b < fst (nth i t (0, 0)%nat))%nat).
    { apply (sorted_blocks_head t b h); auto. apply nth_In. lia. }
    destruct (b <=? a) eqn:E; [|apply Nat.leb_gt in E; lia].
    apply IH; [eapply sorted_blocks_tail; eauto|lia|exact Hle|].
    intros j Hj1 Hj2. apply (Hgt (S j)); [lia|cbn; lia].
Qed.

Section Link.
Variable exct : list (nat * nat).
Hypothesis SORTED : sorted_blocks exct = true.
(* block addresses are `unsigned int` values below the sentinel *)
Hypothesis RANGE : forall e, In e exct -> (Z.of_nat (fst e) < UINT_MAX)%Z.
Hypothesis NONEMPTY : exct <> [].

Local Notation n := (Z.of_nat (length exct)).

Lemma blk_lt i : (i < length exct)%nat -> blk (ztab exct) (Z.of_nat i) = Z.of_nat (fst (nth i exct (0, 0)%nat)).
Proof. intros H. unfold blk. rewrite ent_ztab_lt by exact H. reflexivity. Qed.

Lemma blk_len : blk (ztab exct) n = UINT_MAX.
Proof. unfold blk. rewrite ent_ztab_len. reflexivity. Qed.

Lemma ztab_sorted : sorted (ztab exct) n.
Proof.
  intros i j Hi Hij Hj.
  assert (Hi' : (Z.to_nat i < length exct)%nat) by lia.
  rewrite <- (Z2Nat.id i) by lia. rewrite blk_lt by exact Hi'.
  destruct (Z.eq_dec j n) as [->|Hne].
  - rewrite blk_len. apply RANGE. apply nth_In. exact Hi'.
  - assert (Hj' : (Z.to_nat j < length exct)%nat) by lia.
    rewrite <- (Z2Nat.id j) by lia. rewrite blk_lt by exact Hj'.
    apply inj_lt. apply sorted_blocks_nth; auto. lia.
Qed.

Lemma length_pos : (1 <= n)%Z.
Proof. destruct exct; [now elim NONEMPTY|cbn [length]; lia]. Qed.

(* the handler address the C search returns is the one the verifier's lookup returns *)
Theorem handler_is_search a :
  (fst (nth 0 exct (0, 0)%nat) <= a)%nat -> (Z.of_nat a < UINT_MAX)%Z ->
  exists h, handler exct a = Some h /\
            exception_tab_search (exctab_of_list (map zent exct)) (Z.of_nat a) = Some (Z.of_nat h).
Proof.
  intros Hfirst Hmax.
  destruct (search_spec (ztab exct) n (Z.of_nat a) length_pos ztab_sorted blk_len)
    as (Hfound & _).
  assert (Hlen : (0 < length exct)%nat) by (pose proof length_pos; lia).
  destruct Hfound as (i & Hs & Hi & Hb & _).
  { split; [|exact Hmax]. change 0%Z with (Z.of_nat 0). rewrite blk_lt by exact Hlen. lia. }
  assert (Ei : i = Z.of_nat (Z.to_nat i)) by lia.
  remember (Z.to_nat i) as k eqn:Ek. clear Ek. subst i.
  assert (Hi' : (k < length exct)%nat) by lia.
  exists (snd (nth k exct (0, 0)%nat)). split.
  - unfold handler. apply handler_from_at; auto.
    + rewrite blk_lt in Hb by exact Hi'. lia.
    + intros j Hj1 Hj2.
      assert (blk (ztab exct) (Z.of_nat k + 1) <= blk (ztab exct) (Z.of_nat j))%Z.
      { apply (sorted_le (ztab exct) n); [apply ztab_sorted|lia|lia|lia]. }
      rewrite blk_lt in H by exact Hj2. lia.
  - rewrite ztab_is_inserted. unfold exception_tab_search. cbn [et_tab et_count]. rewrite Hs.
    f_equal. unfold hnd. rewrite ent_ztab_lt by exact Hi'. reflexivity.
Qed.

(* below the first block neither finds anything (the C function would fail its assert) *)
Theorem handler_below_first a :
  (a < fst (nth 0 exct (0, 0)%nat))%nat ->
  handler exct a = None /\
  exception_tab_search (exctab_of_list (map zent exct)) (Z.of_nat a) = None.
Proof.
  intros Hlt.
  destruct (search_spec (ztab exct) n (Z.of_nat a) length_pos ztab_sorted blk_len)
    as (_ & Hbelow & _).
  assert (Hlen : (0 < length exct)%nat) by (pose proof length_pos; lia).
  split.
  - unfold handler. destruct exct as [|[b h] t]; [reflexivity|]. cbn [nth fst] in Hlt. cbn [handler_from].
    destruct (b <=? a) eqn:E; [apply Nat.leb_le in E; lia|reflexivity].
  - rewrite ztab_is_inserted. unfold exception_tab_search. cbn [et_tab et_count]. rewrite Hbelow; [reflexivity|].
    change 0%Z with (Z.of_nat 0). rewrite blk_lt by exact Hlen. lia.
Qed.

End Link.

(* the premises are satisfiable: the table of a two-function module *)
Example handler_is_search_example :
  let exct := [(0, 40); (42, 50); (51, 58); (60, 66)]%nat in
  sorted_blocks exct = true /\ handler exct 57 = Some 58%nat /\
  exception_tab_search (exctab_of_list (map zent exct)) 57 = Some 58%Z /\
  handler exct 50 = Some 50%nat /\
  exception_tab_search (exctab_of_list (map zent exct)) 50 = Some 50%Z.
Proof. cbv zeta. repeat split; vm_compute; reflexivity. Qed.
