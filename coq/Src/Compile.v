(* Src/Compile.v — a model of the code generator /repo/front/emit.c for the core fragment,
   instruction by instruction (definitions only; proofs in Src/CompileCorrect*.v; the tie
   harness/ocaml/compile + checks/parts/compiletie.py compares `compile_func` with the code the
   real emitter produces, instruction by instruction, on generated programs).

   Mirrored functions of emit.c (stack_level L = number of let/var slots and temporaries above
   the parameters at the point where the code runs):
     expr_int_emit (EXPR_INT and EXPR_BOOL)      INT v
     expr_id_local_emit / expr_id_bind_emit      ID_LOCAL {L, index}; parameters have index
                                                 0, -1, -2 … (func_enum_param_list), a let/var
                                                 has index = L+1 at its binding (bind_emit)
     expr_neg_emit, expr_not_emit                a; OP_NEG_INT / OP_NOT_INT
     expr_{add,sub,mul,lt,gt,lte,gte,eq,neq,bin_*}_emit   a at L; b at L+1; OP
     expr_div_emit, expr_mod_emit                a; b; LINE; OP          (LINE before the op)
     expr_cond_emit (?: and if/else)             c; JUMPZ; a; JUMP; LABEL; b; LABEL
                                                 offsets = label.addr - jump.addr
     expr_ass_emit                               l at L; r at L+1; OP_ASS_INT
     seq_emit + seq_list_emit (blocks)           items in order; `SLIDE 1 0` before an item that
                                                 follows an expression item; a let/var leaves its
                                                 value on the stack (L grows);  at the end
                                                 `SLIDE n 1` if n = number of binds > 0
     func_body_emit_native                       FUNC_DEF; body; LINE; RET; LABEL; RETHROW
   stage 2:
     expr_and_emit                               a; JUMPZ F; b (at L, a was popped); JUMPZ F; INT 1;
                                                 JUMP E; F: LABEL; INT 0; E: LABEL
     expr_or_emit                                a; JUMPZ B; JUMP T; B: LABEL; b; JUMPZ F; T: LABEL;
                                                 INT 1; JUMP E; F: LABEL; INT 0; E: LABEL
     expr_while_emit                             A: LABEL; c; JUMPZ B; body; SLIDE 1 0; JUMP A;
                                                 B: LABEL; INT 0
     expr_do_while_emit                          A: LABEL; body; SLIDE 1 0; c; JUMPZ B; JUMP A;
                                                 B: LABEL; INT 0
     expr_for_emit                               init; SLIDE 1 0; A: LABEL; c; JUMPZ B; body;
                                                 SLIDE 1 0; incr; SLIDE 1 0; JUMP A; B: LABEL; INT 0
     expr_call_emit on the stdlib `print`        LINE; MARK ret; e at L+5 (NUM_FRAME_PTRS);
                                                 GLOBAL_VEC 0; ID_FUNC_ADDR print; CALL; ret: LABEL
                                                 (MARK's operand: relative to the MARK in the model,
                                                 absolute in the real code; the tie relocates)
   The operand of LINE is a source line number; the model writes 0 and the tie does not compare
   it (the modelled VM ignores it).

   The real pipeline runs front/constred.c before the emitter: an operator all of whose operands
   are literals is replaced by a literal.  The model does not fold; the fragment predicate
   (`in_F1`, Src/CompileCorrect.v) requires programs on which folding is the identity.

   No axioms. *)
From Coq Require Import ZArith List Bool Lia.
From NV Require Import Gen.Opcodes Verifier.Effect Src.Syntax Src.Eval VM.ValueVM.
Import ListNotations.
Local Open Scope Z_scope.

Definition cenv := list (ident * Z).        (* name -> index operand of ID_LOCAL *)

Fixpoint clookup (x : ident) (ce : cenv) : option Z :=
  match ce with
  | [] => None
  | (y, i) :: t => if N.eqb x y then Some i else clookup x t
  end.

Definition cidx (x : ident) (ce : cenv) : Z :=
  match clookup x ce with Some i => i | None => 0 end.

Definition ins (o : opcode) (a b : Z) : rinstr := {| r_op := o; r_w0 := a; r_w1 := b; r_w2 := 0 |}.
Definition ins0 (o : opcode) : rinstr := ins o 0 0.

Definition len (c : list rinstr) : Z := Z.of_nat (length c).

(* the operator instruction that follows the two operands *)
Definition binop_opcode (op : binop) : opcode :=
  match op with
  | Add => BYTECODE_OP_ADD_INT
  | Sub => BYTECODE_OP_SUB_INT
  | Mul => BYTECODE_OP_MUL_INT
  | Div => BYTECODE_OP_DIV_INT
  | Mod => BYTECODE_OP_MOD_INT
  | Lt => BYTECODE_OP_LT_INT
  | Le => BYTECODE_OP_LTE_INT
  | Gt => BYTECODE_OP_GT_INT
  | Ge => BYTECODE_OP_GTE_INT
  | Eq => BYTECODE_OP_EQ_INT
  | Ne => BYTECODE_OP_NEQ_INT
  | BAnd => BYTECODE_OP_BIN_AND_INT
  | BOr => BYTECODE_OP_BIN_OR_INT
  | BXor => BYTECODE_OP_BIN_XOR_INT
  | Shl => BYTECODE_OP_BIN_SHL_INT
  | Shr => BYTECODE_OP_BIN_SHR_INT
  | And | Or => BYTECODE_UNKNOWN         (* short-circuit forms are jumps, not an opcode *)
  end.

(* expr_div_emit / expr_mod_emit put a LINE before the operator (the fault message needs it) *)
Definition binop_code (op : binop) : list rinstr :=
  match op with
  | Div | Mod => [ins0 BYTECODE_LINE; ins0 (binop_opcode op)]
  | _ => [ins0 (binop_opcode op)]
  end.

(* number of let/var items of a block *)
Fixpoint nbinds (l : list item) : Z :=
  match l with
  | [] => 0
  | (ILet _ _ | IVar _ _) :: t => 1 + nbinds t
  | _ :: t => nbinds t
  end.

(* seq_list_emit, for an abstract expression compiler *)
Definition compile_items_f (cexpr : Z -> cenv -> expr -> list rinstr) :=
  fix go (L : Z) (ce : cenv) (l : list item) {struct l} : list rinstr :=
  match l with
  | [] => []
  | IExpr e :: t =>
      cexpr L ce e ++ match t with [] => [] | _ => ins BYTECODE_SLIDE 1 0 :: go L ce t end
  | ILet x e :: t | IVar x e :: t =>
      cexpr L ce e ++ go (L + 1) ((x, L + 1) :: ce) t
  | IFunc _ :: t => go L ce t            (* nested functions: outside the fragment *)
  end.

Definition block_end (n : Z) : list rinstr :=
  if 0 <? n then [ins BYTECODE_SLIDE n 1] else [].

(* expr_while_emit, on the compiled condition and body (expr_for_emit's loop is the same code with
   body; SLIDE 1 0; incr as body) *)
Definition while_code (cc cb : list rinstr) : list rinstr :=
  ins0 BYTECODE_LABEL :: cc ++ ins BYTECODE_JUMPZ (len cb + 3) 0 :: cb ++
  [ins BYTECODE_SLIDE 1 0; ins BYTECODE_JUMP (- (len cc + len cb + 3)) 0; ins0 BYTECODE_LABEL;
   ins BYTECODE_INT 0 0].

Definition dowhile_code (cb cc : list rinstr) : list rinstr :=
  ins0 BYTECODE_LABEL :: cb ++ ins BYTECODE_SLIDE 1 0 :: cc ++
  [ins BYTECODE_JUMPZ 2 0; ins BYTECODE_JUMP (- (len cb + len cc + 3)) 0; ins0 BYTECODE_LABEL;
   ins BYTECODE_INT 0 0].

Definition and_code (ca cb : list rinstr) : list rinstr :=
  ca ++ ins BYTECODE_JUMPZ (len cb + 4) 0 :: cb ++
  [ins BYTECODE_JUMPZ 3 0; ins BYTECODE_INT 1 0; ins BYTECODE_JUMP 3 0; ins0 BYTECODE_LABEL;
   ins BYTECODE_INT 0 0; ins0 BYTECODE_LABEL].

Definition or_code (ca cb : list rinstr) : list rinstr :=
  ca ++ ins BYTECODE_JUMPZ 2 0 :: ins BYTECODE_JUMP (len cb + 3) 0 :: ins0 BYTECODE_LABEL :: cb ++
  [ins BYTECODE_JUMPZ 4 0; ins0 BYTECODE_LABEL; ins BYTECODE_INT 1 0; ins BYTECODE_JUMP 3 0;
   ins0 BYTECODE_LABEL; ins BYTECODE_INT 0 0; ins0 BYTECODE_LABEL].

(* NUM_FRAME_PTRS of emit.c: the slots MARK pushes *)
Definition num_frame_ptrs : Z := 5.

Definition print_code (ca : list rinstr) : list rinstr :=
  ins0 BYTECODE_LINE :: ins BYTECODE_MARK (len ca + 4) 0 :: ca ++
  [ins BYTECODE_GLOBAL_VEC 0 0; ins BYTECODE_ID_FUNC_ADDR print_addr 0; ins0 BYTECODE_CALL;
   ins0 BYTECODE_LABEL].

Fixpoint compile_expr (L : Z) (ce : cenv) (e : expr) {struct e} : list rinstr :=
  match e with
  | EInt z => [ins BYTECODE_INT z 0]
  | EBool b => [ins BYTECODE_INT (b2z b) 0]
  | EVar x => [ins BYTECODE_ID_LOCAL L (cidx x ce)]
  | ENeg a => compile_expr L ce a ++ [ins0 BYTECODE_OP_NEG_INT]
  | ENot a => compile_expr L ce a ++ [ins0 BYTECODE_OP_NOT_INT]
  | EBin And a b => and_code (compile_expr L ce a) (compile_expr L ce b)
  | EBin Or a b => or_code (compile_expr L ce a) (compile_expr L ce b)
  | EBin op a b => compile_expr L ce a ++ compile_expr (L + 1) ce b ++ binop_code op
  | ECond c a b =>
      let ca := compile_expr L ce a in
      let cb := compile_expr L ce b in
      compile_expr L ce c ++ ins BYTECODE_JUMPZ (len ca + 2) 0 :: ca ++
      ins BYTECODE_JUMP (len cb + 2) 0 :: ins0 BYTECODE_LABEL :: cb ++ [ins0 BYTECODE_LABEL]
  | EAssign l r => compile_expr L ce l ++ compile_expr (L + 1) ce r ++ [ins0 BYTECODE_OP_ASS_INT]
  | EBlock items => compile_items_f compile_expr L ce items ++ block_end (nbinds items)
  | EWhile c b => while_code (compile_expr L ce c) (compile_expr L ce b)
  | EDoWhile b c => dowhile_code (compile_expr L ce b) (compile_expr L ce c)
  | EFor i c s b =>
      compile_expr L ce i ++ ins BYTECODE_SLIDE 1 0 ::
      while_code (compile_expr L ce c)
                 (compile_expr L ce b ++ ins BYTECODE_SLIDE 1 0 :: compile_expr L ce s)
  | EPrint a => print_code (compile_expr (L + num_frame_ptrs) ce a)
  | _ => []                              (* outside the fragment *)
  end.

Definition compile_items := compile_items_f compile_expr.

(* func_enum_param_list: the first parameter has index 0, the next -1, … *)
Fixpoint param_env (ps : list (ident * bool * ty)) (i : Z) : cenv :=
  match ps with
  | [] => []
  | (x, _, _) :: t => (x, i) :: param_env t (i - 1)
  end.

Definition compile_body (ps : list (ident * bool * ty)) (body : list item) : list rinstr :=
  compile_expr 0 (param_env ps 0) (EBlock body).

(* func_body_emit_native *)
Definition compile_func (fd : fdef) : list rinstr :=
  ins0 BYTECODE_FUNC_DEF :: compile_body (fd_params fd) (fd_body fd) ++
  [ins0 BYTECODE_LINE; ins0 BYTECODE_RET; ins0 BYTECODE_LABEL; ins0 BYTECODE_RETHROW].

(* ---- the fragments ------------------------------------------------------------------------
   F1 (level 1): int/bool expressions over parameters and let/var names: literals, names, unary -
   and !, the non-short-circuit binary operators, ?: (= if/else), assignment to a name, blocks of
   let / var / expression items that end with an expression item (the typechecker rejects other
   blocks).  Side conditions:
     - literals fit 32 bits (what the scanner accepts; the pretty-printer writes a negative
       literal as -k, which front/constred.c folds back to the literal);
     - no operator has only literal operands (constred.c would fold it: the model does not);
     - shift counts are literals 0..31 (other counts are undefined in C; Eval.v and the VM
       handlers need not agree on them);
     - every name is in scope (`sc`).
   F2 (level 2) adds && and || (short-circuit), while / do-while / for, print(e). *)

Definition is_lit (e : expr) : bool :=
  match e with EInt _ | EBool _ => true | _ => false end.

Definition int_lit_ok (z : Z) : bool := (-2147483648 <=? z) && (z <=? 2147483647).

Definition f1_binop (op : binop) : bool :=
  match op with And | Or => false | _ => true end.

Definition shift_ok (op : binop) (b : expr) : bool :=
  match op with
  | Shl | Shr => match b with EInt k => (0 <=? k) && (k <? 32) | _ => false end
  | _ => true
  end.

Fixpoint mem_id (x : ident) (l : list ident) : bool :=
  match l with [] => false | y :: t => N.eqb x y || mem_id x t end.

Definition items_F_f (fexpr : list ident -> expr -> bool) :=
  fix go (sc : list ident) (l : list item) {struct l} : bool :=
  match l with
  | [] => false                                  (* a block ends with an expression item *)
  | IExpr e :: t => fexpr sc e && match t with [] => true | _ => go sc t end
  | ILet x e :: t | IVar x e :: t => fexpr sc e && go (x :: sc) t
  | IFunc _ :: _ => false
  end.

Fixpoint in_F (lv : nat) (sc : list ident) (e : expr) {struct e} : bool :=
  match e with
  | EInt z => int_lit_ok z
  | EBool _ => true
  | EVar x => mem_id x sc
  | ENeg a => negb (is_lit a) && in_F lv sc a
  | ENot a => negb (is_lit a) && in_F lv sc a
  | EBin op a b =>
      (f1_binop op || Nat.leb 2 lv) && negb (is_lit a && is_lit b) && shift_ok op b &&
      in_F lv sc a && in_F lv sc b
  | ECond c a b => negb (is_lit c) && in_F lv sc c && in_F lv sc a && in_F lv sc b
  | EAssign (EVar x) r => mem_id x sc && in_F lv sc r
  | EBlock items => items_F_f (in_F lv) sc items
  | EWhile c b => Nat.leb 2 lv && in_F lv sc c && in_F lv sc b
  | EDoWhile b c => Nat.leb 2 lv && in_F lv sc b && in_F lv sc c
  | EFor i c s b => Nat.leb 2 lv && in_F lv sc i && in_F lv sc c && in_F lv sc s && in_F lv sc b
  | EPrint a => Nat.leb 2 lv && in_F lv sc a
  | _ => false
  end.

Definition items_F (lv : nat) := items_F_f (in_F lv).

(* a function of the fragment: body in the fragment, no catch clauses *)
Definition func_in_F (lv : nat) (fd : fdef) : bool :=
  items_F lv (map (fun p => fst (fst p)) (fd_params fd)) (fd_body fd) &&
  match fd_catches fd, fd_catch_all fd with [], None => true | _, _ => false end.

Definition in_F1 := in_F 1.
Definition in_F2 := in_F 2.
Definition func_in_F1 := func_in_F 1.
Definition func_in_F2 := func_in_F 2.

(* ---- unfolding equations ---------------------------------------------------------------- *)

Lemma compile_items_nil : forall L ce, compile_items L ce [] = [].
Proof. reflexivity. Qed.
Lemma compile_items_expr : forall L ce e t, compile_items L ce (IExpr e :: t) =
  compile_expr L ce e ++ match t with [] => [] | _ => ins BYTECODE_SLIDE 1 0 :: compile_items L ce t end.
Proof. reflexivity. Qed.
Lemma compile_items_let : forall L ce x e t, compile_items L ce (ILet x e :: t) =
  compile_expr L ce e ++ compile_items (L + 1) ((x, L + 1) :: ce) t.
Proof. reflexivity. Qed.
Lemma compile_items_var : forall L ce x e t, compile_items L ce (IVar x e :: t) =
  compile_expr L ce e ++ compile_items (L + 1) ((x, L + 1) :: ce) t.
Proof. reflexivity. Qed.
Lemma compile_block : forall L ce items, compile_expr L ce (EBlock items) =
  compile_items L ce items ++ block_end (nbinds items).
Proof. reflexivity. Qed.
Lemma compile_for : forall L ce i c st b, compile_expr L ce (EFor i c st b) =
  compile_expr L ce i ++ ins BYTECODE_SLIDE 1 0 ::
  compile_expr L ce (EWhile c (EBlock [IExpr b; IExpr st])).
Proof.
  intros. cbn [compile_expr compile_items_f nbinds block_end]. unfold block_end. simpl (0 <? 0).
  rewrite !app_nil_r. reflexivity.
Qed.
