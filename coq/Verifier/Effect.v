(* Decoding of real instructions (opcode numbering regenerated from /repo in Gen/Opcodes.v,
   raw operand words as dumped by harness/vm/bcdump.c) into the instructions of the shape
   machine.  This table is the part of the model that says what each of the ~220 handlers of
   back/vmexec.c does to the stack; the lock-step correspondence on real traces is what
   checks it.  DESIGN.md Appendix A. *)
From Coq Require Import ZArith List Bool Lia.
From NV Require Import Gen.Opcodes Verifier.Shape.
Import ListNotations.
Local Open Scope Z_scope.

Record rinstr := { r_op : opcode; r_w0 : Z; r_w1 : Z; r_w2 : Z }.

Definition zn (z : Z) : option nat := if z <? 0 then None else Some (Z.to_nat z).

(* sp-relative offset of ID_LOCAL-style operands {stack_level, index}: sp - (L - i) *)
Definition local_off (i : rinstr) : option nat := zn (r_w0 i - r_w1 i).

Definition op1 (o : option nat) (pops pushes : nat) : ainstr :=
  match o with Some k => AOp [k] pops pushes | None => ABad end.

(* product of the INT constants pushed by the d instructions before address a *)
Fixpoint const_dims (prog : list rinstr) (a : nat) (d : nat) : option nat :=
  match d with
  | O => Some 1%nat
  | S d' =>
    match a with
    | O => None
    | S a' =>
      match nth_error prog a' with
      | Some i => match r_op i, zn (r_w0 i) with
                  | BYTECODE_INT, Some c =>
                      match const_dims prog a' d' with Some p => Some (c * p)%nat | None => None end
                  | _, _ => None
                  end
      | None => None
      end
    end
  end.

(* address of the first RET at or after a (FFI bodies: descriptors then RET) *)
Fixpoint find_ret (prog : list rinstr) (a : nat) (fuel : nat) : option nat :=
  match fuel with
  | O => None
  | S k => match nth_error prog a with
           | Some i => match r_op i with BYTECODE_RET => Some a | _ => find_ret prog (S a) k end
           | None => None
           end
  end.

Definition is_ffi_desc (o : opcode) : bool :=
  match o with
  | BYTECODE_FUNC_FFI_BOOL | BYTECODE_FUNC_FFI_INT | BYTECODE_FUNC_FFI_LONG
  | BYTECODE_FUNC_FFI_FLOAT | BYTECODE_FUNC_FFI_DOUBLE | BYTECODE_FUNC_FFI_CHAR
  | BYTECODE_FUNC_FFI_STRING | BYTECODE_FUNC_FFI_VOID | BYTECODE_FUNC_FFI_C_PTR
  | BYTECODE_FUNC_FFI_RECORD => true
  | _ => false
  end.

(* builtin ids are regenerated from front/libmath.h (Gen/Opcodes.v): pow and assertf take two
   operands, read takes none and pushes, the others replace the top *)
Definition builtin_effect (id : Z) : ainstr :=
  if (id =? lib_math_pow) || (id =? lib_math_assertf) then AOp [] 2 1
  else if id =? lib_math_read then AOp [] 0 1
  else if (1 <=? id) && (id <=? nbuiltin) then AOp [] 1 1
  else ABad.

Definition decode (prog : list rinstr) (a : nat) : option ainstr :=
  match nth_error prog a with
  | None => None
  | Some i =>
    let w0 := r_w0 i in
    Some match r_op i with
    (* constants: +1 *)
    | BYTECODE_INT | BYTECODE_LONG | BYTECODE_FLOAT | BYTECODE_DOUBLE | BYTECODE_CHAR
    | BYTECODE_STRING | BYTECODE_C_NULL | BYTECODE_NIL_RECORD_REF | BYTECODE_PUSH_EXCEPT
    | BYTECODE_COPYGLOB | BYTECODE_ID_GLOBAL | BYTECODE_ID_TOP => AOp [] 0 1
    (* copies of a frame slot: +1 *)
    | BYTECODE_ID_LOCAL | BYTECODE_ID_DIM_LOCAL | BYTECODE_ID_DIM_SLICE | BYTECODE_OP_DUP_INT =>
        op1 (local_off i) 0 1
    | BYTECODE_VEC_DEREF | BYTECODE_VECREF_VEC_DEREF => op1 (zn w0) 0 1
    | BYTECODE_DUP => match zn (w0 - 1) with Some k => AOp [k] 0 1 | None => ABad end
    (* in place on a frame slot *)
    | BYTECODE_OP_INC_INT | BYTECODE_OP_DEC_INT => op1 (local_off i) 0 0
    | BYTECODE_ARRAY_APPEND =>
        match local_off i with Some k => AOp [k; 0%nat] 1 0 | None => ABad end
    | BYTECODE_REWRITE => match zn w0 with Some j => AOp [j; 0%nat] 1 0 | None => ABad end
    (* unary: replace top *)
    | BYTECODE_OP_NEG_INT | BYTECODE_OP_NEG_LONG | BYTECODE_OP_NEG_FLOAT | BYTECODE_OP_NEG_DOUBLE
    | BYTECODE_OP_NOT_INT | BYTECODE_OP_BIN_NOT_INT | BYTECODE_OP_BIN_NOT_LONG
    | BYTECODE_INT_TO_LONG | BYTECODE_INT_TO_FLOAT | BYTECODE_INT_TO_DOUBLE
    | BYTECODE_LONG_TO_INT | BYTECODE_LONG_TO_FLOAT | BYTECODE_LONG_TO_DOUBLE
    | BYTECODE_FLOAT_TO_INT | BYTECODE_FLOAT_TO_LONG | BYTECODE_FLOAT_TO_DOUBLE
    | BYTECODE_DOUBLE_TO_INT | BYTECODE_DOUBLE_TO_LONG | BYTECODE_DOUBLE_TO_FLOAT
    | BYTECODE_ENUMTYPE_RECORD_TO_INT | BYTECODE_VECREF_DEREF
    | BYTECODE_OP_NEG_ARR_INT | BYTECODE_OP_NEG_ARR_LONG | BYTECODE_OP_NEG_ARR_FLOAT
    | BYTECODE_OP_NEG_ARR_DOUBLE | BYTECODE_ID_FUNC_ENTRY => AOp [] 1 1
    | BYTECODE_ID_FUNC_ADDR => match zn w0 with Some f => AMkFunc f | None => ABad end
    (* binary: pop 2 push 1 *)
    | BYTECODE_OP_ADD_INT | BYTECODE_OP_SUB_INT | BYTECODE_OP_MUL_INT | BYTECODE_OP_DIV_INT
    | BYTECODE_OP_MOD_INT | BYTECODE_OP_ADD_LONG | BYTECODE_OP_SUB_LONG | BYTECODE_OP_MUL_LONG
    | BYTECODE_OP_DIV_LONG | BYTECODE_OP_MOD_LONG | BYTECODE_OP_ADD_FLOAT | BYTECODE_OP_SUB_FLOAT
    | BYTECODE_OP_MUL_FLOAT | BYTECODE_OP_DIV_FLOAT | BYTECODE_OP_ADD_DOUBLE
    | BYTECODE_OP_SUB_DOUBLE | BYTECODE_OP_MUL_DOUBLE | BYTECODE_OP_DIV_DOUBLE
    | BYTECODE_OP_ADD_STRING | BYTECODE_OP_ADD_INT_STRING | BYTECODE_OP_ADD_STRING_INT
    | BYTECODE_OP_ADD_LONG_STRING | BYTECODE_OP_ADD_STRING_LONG | BYTECODE_OP_ADD_FLOAT_STRING
    | BYTECODE_OP_ADD_STRING_FLOAT | BYTECODE_OP_ADD_DOUBLE_STRING | BYTECODE_OP_ADD_STRING_DOUBLE
    | BYTECODE_OP_ADD_CHAR_STRING | BYTECODE_OP_ADD_STRING_CHAR
    | BYTECODE_OP_LT_INT | BYTECODE_OP_GT_INT | BYTECODE_OP_LTE_INT | BYTECODE_OP_GTE_INT
    | BYTECODE_OP_EQ_INT | BYTECODE_OP_NEQ_INT
    | BYTECODE_OP_LT_LONG | BYTECODE_OP_GT_LONG | BYTECODE_OP_LTE_LONG | BYTECODE_OP_GTE_LONG
    | BYTECODE_OP_EQ_LONG | BYTECODE_OP_NEQ_LONG
    | BYTECODE_OP_LT_FLOAT | BYTECODE_OP_GT_FLOAT | BYTECODE_OP_LTE_FLOAT | BYTECODE_OP_GTE_FLOAT
    | BYTECODE_OP_EQ_FLOAT | BYTECODE_OP_NEQ_FLOAT
    | BYTECODE_OP_LT_DOUBLE | BYTECODE_OP_GT_DOUBLE | BYTECODE_OP_LTE_DOUBLE | BYTECODE_OP_GTE_DOUBLE
    | BYTECODE_OP_EQ_DOUBLE | BYTECODE_OP_NEQ_DOUBLE
    | BYTECODE_OP_LT_CHAR | BYTECODE_OP_GT_CHAR | BYTECODE_OP_LTE_CHAR | BYTECODE_OP_GTE_CHAR
    | BYTECODE_OP_EQ_CHAR | BYTECODE_OP_NEQ_CHAR
    | BYTECODE_OP_EQ_STRING | BYTECODE_OP_NEQ_STRING | BYTECODE_OP_EQ_C_PTR | BYTECODE_OP_NEQ_C_PTR
    | BYTECODE_OP_EQ_NIL | BYTECODE_OP_EQ_STRING_NIL | BYTECODE_OP_EQ_ARRAY_NIL
    | BYTECODE_OP_EQ_RECORD_NIL | BYTECODE_OP_EQ_FUNC_NIL | BYTECODE_OP_EQ_NIL_STRING
    | BYTECODE_OP_EQ_NIL_ARRAY | BYTECODE_OP_EQ_NIL_RECORD | BYTECODE_OP_EQ_NIL_FUNC
    | BYTECODE_OP_NEQ_NIL | BYTECODE_OP_NEQ_STRING_NIL | BYTECODE_OP_NEQ_ARRAY_NIL
    | BYTECODE_OP_NEQ_RECORD_NIL | BYTECODE_OP_NEQ_FUNC_NIL | BYTECODE_OP_NEQ_NIL_STRING
    | BYTECODE_OP_NEQ_NIL_ARRAY | BYTECODE_OP_NEQ_NIL_RECORD | BYTECODE_OP_NEQ_NIL_FUNC
    | BYTECODE_OP_BIN_AND_INT | BYTECODE_OP_BIN_OR_INT | BYTECODE_OP_BIN_XOR_INT
    | BYTECODE_OP_BIN_SHL_INT | BYTECODE_OP_BIN_SHR_INT
    | BYTECODE_OP_BIN_AND_LONG | BYTECODE_OP_BIN_OR_LONG | BYTECODE_OP_BIN_XOR_LONG
    | BYTECODE_OP_BIN_SHL_LONG | BYTECODE_OP_BIN_SHR_LONG
    | BYTECODE_OP_ADD_ARR_INT | BYTECODE_OP_ADD_ARR_LONG | BYTECODE_OP_ADD_ARR_FLOAT
    | BYTECODE_OP_ADD_ARR_DOUBLE | BYTECODE_OP_SUB_ARR_INT | BYTECODE_OP_SUB_ARR_LONG
    | BYTECODE_OP_SUB_ARR_FLOAT | BYTECODE_OP_SUB_ARR_DOUBLE | BYTECODE_OP_MUL_ARR_INT
    | BYTECODE_OP_MUL_ARR_LONG | BYTECODE_OP_MUL_ARR_FLOAT | BYTECODE_OP_MUL_ARR_DOUBLE
    | BYTECODE_OP_MUL_ARR_ARR_INT | BYTECODE_OP_MUL_ARR_ARR_LONG | BYTECODE_OP_MUL_ARR_ARR_FLOAT
    | BYTECODE_OP_MUL_ARR_ARR_DOUBLE
    | BYTECODE_STRING_DEREF | BYTECODE_VECREF_VEC_INDEX_DEREF
    | BYTECODE_SLICE_ARRAY | BYTECODE_SLICE_RANGE | BYTECODE_SLICE_SLICE | BYTECODE_SLICE_STRING =>
        AOp [] 2 1
    (* assignments: pop the right value, the left cell stays *)
    | BYTECODE_OP_ASS_INT | BYTECODE_OP_ASS_LONG | BYTECODE_OP_ASS_FLOAT | BYTECODE_OP_ASS_DOUBLE
    | BYTECODE_OP_ASS_CHAR | BYTECODE_OP_ASS_STRING | BYTECODE_OP_ASS_C_PTR | BYTECODE_OP_ASS_ARRAY
    | BYTECODE_OP_ASS_RECORD | BYTECODE_OP_ASS_FUNC | BYTECODE_OP_ASS_RECORD_NIL => AOp [] 2 1
    (* control *)
    | BYTECODE_JUMPZ => match zn (Z.of_nat a + 1 + w0) with Some t => AJumpz t | None => ABad end
    | BYTECODE_JUMP => match zn (Z.of_nat a + 1 + w0) with Some t => AJump t | None => ABad end
    | BYTECODE_LABEL | BYTECODE_LINE | BYTECODE_FUNC_DEF | BYTECODE_FUNC_OBJ => AOp [] 0 0
    (* aggregates *)
    | BYTECODE_MK_ARRAY_INT | BYTECODE_MK_ARRAY_LONG | BYTECODE_MK_ARRAY_FLOAT
    | BYTECODE_MK_ARRAY_DOUBLE | BYTECODE_MK_ARRAY_CHAR | BYTECODE_MK_ARRAY_STRING
    | BYTECODE_MK_ARRAY_ARRAY | BYTECODE_MK_ARRAY_RECORD | BYTECODE_MK_ARRAY_FUNC =>
        match zn w0 with Some d => AOp [] d 1 | None => ABad end
    | BYTECODE_MK_INIT_ARRAY =>
        match zn w0 with
        | Some d => match const_dims prog a d with Some e => AOp [] (d + e) 1 | None => ABad end
        | None => ABad end
    | BYTECODE_MK_RANGE => match zn w0 with Some d => AOp [] (2 * d) 1 | None => ABad end
    | BYTECODE_ARRAY_DEREF | BYTECODE_ARRAYREF_DEREF | BYTECODE_RANGE_DEREF | BYTECODE_SLICE_DEREF =>
        match zn w0 with Some d => AOp [] (d + 1) 1 | None => ABad end
    | BYTECODE_RECORD | BYTECODE_GLOBAL_VEC => match zn w0 with Some n => AOp [] n 1 | None => ABad end
    | BYTECODE_RECORD_UNPACK => match zn w0 with Some c => AOp [] 1 c | None => ABad end
    | BYTECODE_ALLOC => match zn w0 with Some n => AOp [] 0 n | None => ABad end
    | BYTECODE_BUILD_IN => builtin_effect w0
    (* frames *)
    | BYTECODE_MARK => match zn w0 with Some r => AMark r | None => ABad end
    | BYTECODE_CALL => ACall
    | BYTECODE_SLIDE => match zn w0, zn (r_w1 i) with Some q, Some m => ASlide q m | _, _ => ABad end
    | BYTECODE_CLEAR_STACK => match zn w0 with Some n => AClear n | None => ABad end
    | BYTECODE_RET =>
        ARet (match a with
              | O => false
              | S a' => match nth_error prog a' with
                        | Some j => is_ffi_desc (r_op j) || match r_op j with BYTECODE_FUNC_FFI => true | _ => false end
                        | None => false end
              end)
    | BYTECODE_RETHROW => ARethrow
    | BYTECODE_PUSH_PARAM => APushParam
    | BYTECODE_HALT => AHalt
    | BYTECODE_UNHANDLED_EXCEPTION => AUnhandled
    | BYTECODE_FUNC_FFI =>
        match find_ret prog (S a) (length prog) with Some r => AFfi r | None => ABad end
    | BYTECODE_FUNC_FFI_BOOL | BYTECODE_FUNC_FFI_INT | BYTECODE_FUNC_FFI_LONG
    | BYTECODE_FUNC_FFI_FLOAT | BYTECODE_FUNC_FFI_DOUBLE | BYTECODE_FUNC_FFI_CHAR
    | BYTECODE_FUNC_FFI_STRING | BYTECODE_FUNC_FFI_VOID | BYTECODE_FUNC_FFI_C_PTR
    | BYTECODE_FUNC_FFI_RECORD => ABad      (* descriptors are data, never executed *)
    | BYTECODE_UNKNOWN | BYTECODE_ID_FUNC_FUNC | BYTECODE_END => ABad
    end
  end.
