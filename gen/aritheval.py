"""Evaluation of arithmetic cases on the three parties (DESIGN §4.2): the extracted model
(build/ocaml/arith/run), the implementation built from /repo's current tree (nevrun,
dumpops), and the Python reference of gen/arithcases.py.  Unverified glue."""
import concurrent.futures
import os
import re
import subprocess

from gen import arithlib as al
from gen import arithcases as ac
from lib import common

MODEL_RE = re.compile(
    r"^(\S+) T=(\S+)(?: FOLD=(.*?) RT=(.*?) CLEAN=(\d) STRICT=(\d) UB=(\d))?$")
ASSIGN_RE = re.compile(r"^(\S+) ASSIGN=(.*?)(?: UB=(\d))?$")
TEXT_RE = re.compile(r"^(\S+) TEXT=(.*)$")
KINDNAME = {"i": "int", "l": "long", "f": "float", "d": "double", "b": "int", "e": "int"}


def tools(variant):
    lib = common.repobuild(variant)
    return {"lib": lib,
            "nevrun": common.cc_driver("nevrun", ["common/nevrun.c"], lib),
            "dumpops": common.cc_driver("dumpops", ["arith/dumpops.c"], lib)}


def model_binary():
    return os.path.join(common.BUILD, "ocaml", "arith", "run")


def _run_model_chunk(binary, text):
    p = subprocess.run([binary], input=text, stdout=subprocess.PIPE, stderr=subprocess.PIPE,
                       text=True, timeout=900)
    return p.stdout


def run_model(lines, jobs=16):
    """lines: list of driver input lines; returns dict id -> raw output line"""
    binary = model_binary()
    jobs = max(1, min(jobs, (len(lines) + 499) // 500 or 1))
    chunks = ["\n".join(lines[i::jobs]) + "\n" for i in range(jobs)]
    out = {}
    with concurrent.futures.ThreadPoolExecutor(max_workers=jobs) as ex:
        for text in ex.map(lambda c: _run_model_chunk(binary, c), chunks):
            for l in text.splitlines():
                if l and not l.startswith("?"):
                    out[l.split(" ", 1)[0]] = l
                elif l.startswith("?"):
                    out.setdefault("?errors", []).append(l)
    return out


def parse_outcome(s):
    """model outcome text -> canonical tuple"""
    p = s.split()
    if p[0] == "VAL":
        return ("val", KINDNAME[p[1]], int(p[2], 16))
    if p[0] == "FAULT":
        return ("fault", "division_by_zero")
    if p[0] == "CRASH":
        return ("crash", p[1])
    return ("reject",)


def parse_model_E(line):
    m = MODEL_RE.match(line)
    if not m:
        return None
    if m.group(2) == "REJECT":
        return {"ty": None}
    fold = m.group(3)
    fp = fold.split()
    if fp[0] == "LIT":
        f = ("lit", fp[1], int(fp[2], 16))
    else:
        f = (fp[0].lower(),)
    return {"ty": m.group(2), "fold": f, "rt": parse_outcome(m.group(4)),
            "clean": m.group(5) == "1", "strict": m.group(6) == "1", "ub": m.group(7) == "1"}


def canon_real(o):
    """canonical outcome of a nevrun record: crashes reduced to their class"""
    if o[0] == "crash":
        how = o[1]
        if how == "sigfpe":
            return ("crash", "sigfpe")
        if how.startswith("assert:emit.c"):
            return ("crash", "emit")
        if how.startswith("assert:gc.c"):
            return ("crash", "tag")
        return ("crash", how)
    return o


def folded_constant(rec):
    """dumpops record of a literal-only program -> ('lit', kind, value) if main's body is one
    constant instruction, ('residual',), ('reject',), ('crash', how)"""
    if rec is None:
        return ("crash", "driver-lost")
    if rec["outcome"] == "DUMPED":
        code = [c for c in (rec["code"] or []) if not c.startswith("I line ")]
        if len(code) == 1 and code[0].startswith("K "):
            _, kind, val = code[0].split()
            if kind in ("int", "long", "char"):
                return ("lit", kind, int(val))
            if kind == "float":
                return ("lit", kind, al.canon32(int(val, 16)))
            return ("lit", kind, al.canon64(int(val, 16)))
        return ("residual",)
    if rec["outcome"] == "COMPILE_ERROR":
        txt = "\n".join(rec["lines"])
        return ("reject",) if "division by zero" in txt else ("compile_error",)
    o = canon_real(al.classify_run(rec))
    return o


def model_fold_as_real(f):
    """model fold result in the vocabulary of folded_constant"""
    if f[0] == "lit":
        kind = f[1]
        return ("lit", KINDNAME[kind], f[2])
    if f[0] == "crash":
        return ("crash", "sigfpe")
    return (f[0],)


def same_outcome_lit_var(lit, var):
    """the property's own oracle: literal version vs variable version"""
    if lit == var:
        return True
    if lit == ("compile_error", "division by zero") and var == ("fault", "division_by_zero"):
        return True
    return False
