#!/usr/bin/env python3
"""tools/keep_seed.py <seed-dir> <name> <property> <check-ids...>

Confirm a seeded change delivered by a sub-agent (<seed-dir> holds patch.diff, demo/run.sh,
README.md) in a scratch copy of /repo: it applies, builds, the 17 pinned tests pass, the demo
FAILS with it and PASSES without it.  Then run the given checks against the changed tree
(NEVER_REPO) and store everything as /verif/seeded/<name>/ (patch.diff, demo/, README.md,
meta.json).  The scratch copy is removed."""
import json
import os
import re
import shutil
import subprocess
import sys
import tempfile
import time

VERIF = os.path.dirname(os.path.dirname(os.path.abspath(__file__)))


def sh(cmd, cwd=None, env=None, timeout=1800):
    p = subprocess.run(cmd, shell=True, cwd=cwd, env=env, stdout=subprocess.PIPE, stderr=subprocess.STDOUT,
                       timeout=timeout, text=True, errors="replace")
    return p.returncode, p.stdout


def build_and_test(src):
    rc, out = sh("rm -rf _build front/parser.c front/parser.h front/scanner.c && cmake -G Ninja -B _build "
                 "-DCMAKE_BUILD_TYPE=RelWithDebInfo -DCMAKE_C_FLAGS=-Wno-error >/dev/null 2>&1 && "
                 "cmake --build _build >/dev/null 2>&1 && ctest --test-dir _build -j8 2>&1 | tail -4", cwd=src)
    m = re.search(r"(\d+)% tests passed, (\d+) tests failed out of (\d+)", out)
    return (m is not None and m.group(2) == "0" and m.group(3) == "17"), out[-400:]


def main():
    seed, name, prop = sys.argv[1], sys.argv[2], sys.argv[3]
    checks = sys.argv[4:]
    seed = os.path.abspath(seed)
    # the demos are written to be run from the repository root at seed/<mutantK>/demo
    sub = os.path.basename(seed.rstrip("/"))
    if os.path.exists(os.path.join(seed, "meta.json")):
        try:
            sub = json.load(open(os.path.join(seed, "meta.json"))).get("demo_subdir", sub)
        except Exception:
            pass
    scr = tempfile.mkdtemp(prefix="nvkeep.", dir="/var/tmp")
    # work on a private copy of the seed (the seed may be /verif/seeded/<name> itself)
    shutil.copytree(seed, os.path.join(scr, "seedcopy"))
    seed = os.path.join(scr, "seedcopy")
    meta = {"name": name, "breaks_property": prop, "ran": [], "demo_subdir": None}
    try:
        src = os.path.join(scr, "repo")
        os.makedirs(src)
        sh("(cd /repo && tar --exclude=./_build --exclude=./.git -cf - .) | tar -xf - -C %s" % src)
        sh("git init -q . && git add -A >/dev/null 2>&1 && git -c user.email=a@b -c user.name=x commit -qm base", cwd=src)
        # without the patch
        ok0, t0 = build_and_test(src)
        shutil.copytree(os.path.join(seed, "demo"), os.path.join(src, "seed", sub, "demo"))
        denv = dict(os.environ, NEVER=os.path.join(src, "_build", "never"), NEVER_BIN=os.path.join(src, "_build", "never"),
                    NEVER_PATH="%s/sample/lib:%s/sample" % (src, src))
        rc_without, out_without = sh("chmod +x seed/%s/demo/run.sh; ./seed/%s/demo/run.sh" % (sub, sub), cwd=src, env=denv, timeout=600)
        # with the patch
        pf = os.path.join(seed, "patch.diff")
        rc, out = sh("git apply --whitespace=nowarn %s" % pf, cwd=src)
        if rc != 0:
            # /repo has moved on since the seed was written (fix: commits): accept fuzz
            rc, out2 = sh("patch -p1 --fuzz=3 --no-backup-if-mismatch < %s" % pf, cwd=src)
            out += out2
            meta["applied_with_fuzz"] = rc == 0
        if rc != 0:
            print("patch does not apply:", out)
            meta["applies"] = False
            return 2
        ok1, t1 = build_and_test(src)
        rc_with, out_with = sh("chmod +x seed/%s/demo/run.sh; ./seed/%s/demo/run.sh" % (sub, sub), cwd=src, env=denv, timeout=600)
        meta.update({"applies": True, "tests_pass_without": ok0, "tests_pass_with": ok1,
                     "demo_without": {"rc": rc_without, "tail": out_without[-300:]},
                     "demo_with": {"rc": rc_with, "tail": out_with[-300:]}})
        confirmed = ok0 and ok1 and rc_without == 0 and rc_with != 0
        meta["confirmed"] = confirmed
        print("tests without/with:", ok0, ok1, "demo without rc=%d with rc=%d" % (rc_without, rc_with), "CONFIRMED" if confirmed else "NOT CONFIRMED")
        # our checks against the changed tree
        sh("rm -rf _build seed .git", cwd=src)
        env = dict(os.environ, NEVER_REPO=src)
        # private copy of the framework (see tools/try_seed.sh): generated Coq tables, rebuilt .vo files
        # and evidence of a run against a changed tree must not touch /verif
        vcopy = os.path.join(scr, "verif")
        sh("rsync -a --exclude .git --exclude out --exclude .cache --exclude seeded %s/ %s/ && ln -s %s/.cache %s/.cache" % (
            VERIF, vcopy, VERIF, vcopy))
        for cid in checks:
            t = time.time()
            rc, out = sh("bin/check %s --tier quick" % cid, cwd=vcopy, env=env, timeout=1800)
            lines = [l[:300] for l in out.splitlines() if l.startswith(("VIOLATION", "KNOWN-FINDING", "NOTE"))]
            caught = rc == 1 and any(l.startswith("VIOLATION") for l in lines)
            concrete = any(l.startswith("VIOLATION") and "no-failing-input-found" not in l for l in lines)
            meta["ran"].append({"check": cid, "tier": "quick", "exit": rc, "caught": caught,
                                "with_concrete_input": concrete, "wall_s": round(time.time() - t, 1),
                                "lines": [l for l in lines if l.startswith("VIOLATION")][:4]})
            print("check", cid, "exit", rc, "caught" if caught else "MISSED", "(concrete input)" if concrete else "")
        readme = open(os.path.join(seed, "README.md"), errors="replace").read() if os.path.exists(os.path.join(seed, "README.md")) else ""
        m = re.search(r"(?is)(needs?[^\n]*manifest[^\n]*\n(?:.*\n){0,6})", readme)
        meta["demo_subdir"] = sub
        meta["repo_commit_when_run"] = sh("git -C /repo rev-parse --short HEAD")[1].strip()
        meta["demo_how"] = "from a checkout of never-lang/never with the patch applied and built into _build: place demo/ at seed/%s/demo and run seed/%s/demo/run.sh from the repository root (or set NEVER / NEVER_BIN to the built binary)" % (sub, sub)
        meta["needs_to_manifest"] = (m.group(1).strip()[:800] if m else readme[:800])
        # keep the results of checks run earlier against this seed and not re-run now
        oldp = os.path.join(VERIF, "seeded", name, "meta.json")
        if os.path.exists(oldp):
            try:
                old = json.load(open(oldp)).get("ran", [])
                now = {r["check"] for r in meta["ran"]}
                meta["ran"] = [r for r in old if r["check"] not in now] + meta["ran"]
            except Exception:
                pass
        if confirmed:
            dst = os.path.join(VERIF, "seeded", name)
            shutil.rmtree(dst, ignore_errors=True)
            os.makedirs(dst)
            shutil.copy(os.path.join(seed, "patch.diff"), dst)
            shutil.copytree(os.path.join(seed, "demo"), os.path.join(dst, "demo"))
            if readme:
                open(os.path.join(dst, "README.md"), "w").write(readme)
            json.dump(meta, open(os.path.join(dst, "meta.json"), "w"), indent=1)
            print("kept as", dst)
        return 0
    finally:
        shutil.rmtree(scr, ignore_errors=True)


if __name__ == "__main__":
    sys.exit(main())
