(* vrun — runs the extracted bytecode verifier (Verifier/Verify.v) and the extracted shape
   machine (Verifier/Shape.v) on a module dump / register trace written by harness/vm/bcdump.c.

     run <dumpfile> [--entry name] [--max-steps n]

   Output lines:
     MODULE code=<n> funcs=<k> exctab=<m>
     VERIFY ok | VERIFY fail addr=<a> op=<opcode number> cert=<..>
     LOCKSTEP ok steps=<n> | LOCKSTEP mismatch step=<i> ... | LOCKSTEP crash step=<i> kind=<..> | LOCKSTEP none
     MAXDEPTH f=<addr> d=<max certified depth>      (one per function, for C13/C14)
   Certificates are inferred here (untrusted) by forward propagation; only check_all decides. *)
open Verifmodel

let rec nat_of_int n = if n <= 0 then O else S (nat_of_int (n - 1))
let nat_tbl = Array.make 200001 O
let () = for i = 1 to 200000 do nat_tbl.(i) <- S nat_tbl.(i - 1) done
let nat_of_int n = if n < 0 then O else if n <= 200000 then nat_tbl.(n) else nat_of_int n
let rec int_of_nat = function O -> 0 | S n -> 1 + int_of_nat n

let rec pos_of_int n = if n = 1 then XH else if n land 1 = 0 then XO (pos_of_int (n lsr 1)) else XI (pos_of_int (n lsr 1))
let z_of_int n = if n = 0 then Z0 else if n > 0 then Zpos (pos_of_int n) else Zneg (pos_of_int (-n))
let n_of_int n = if n = 0 then N0 else Npos (pos_of_int n)

type dump = {
  mutable code : (int * int * int * int) array;   (* opcode, w0, w1, w2 *)
  mutable exct : (int * int) list;
  mutable funcs : (int * int * int * bool * string) list;  (* addr np nfree ffi name *)
  mutable functab : (int * int * int * string) list;
  mutable centry : int;
  mutable nstr : int;
  mutable trace : (int * int * int * int * int) list;  (* ip sp fp pp kinds-hash (-1: not given) *)
  mutable compiled : bool;
}

(* the tree's gc.h values of GC_MEM_IP, GC_MEM_ADDR, GC_MEM_STACK (line GCTAGS of the dump) *)
let tag_ip = ref 1 and tag_addr = ref 2 and tag_stack = ref 3
let kind_of_slot = function SVal -> !tag_addr | SGp -> !tag_addr | SPP _ -> !tag_stack | SFP _ -> !tag_stack
                          | SLine -> !tag_ip | SIP _ -> !tag_ip

let parse file =
  let d = { code = [||]; exct = []; funcs = []; functab = []; centry = 0; nstr = 0; trace = []; compiled = false } in
  let ic = open_in file in
  let code = ref [] and tr = ref [] in
  (try
     while true do
       let l = input_line ic in
       let p = String.split_on_char ' ' l in
       match p with
       | "COMPILE" :: r :: _ -> d.compiled <- (r = "0")
       | "CODE" :: _ :: "ENTRY" :: e :: _ -> d.centry <- int_of_string e
       | "STRTAB" :: k :: _ -> d.nstr <- int_of_string k
       | "GCTAGS" :: a :: b :: c :: _ -> tag_ip := int_of_string a; tag_addr := int_of_string b; tag_stack := int_of_string c
       | "I" :: _ :: op :: w0 :: w1 :: w2 :: _ ->
         code := (int_of_string op, int_of_string w0, int_of_string w1, int_of_string w2) :: !code
       | "X" :: b :: h :: _ -> d.exct <- (int_of_string b, int_of_string h) :: d.exct
       | "F" :: a :: np :: nf :: ffi :: rest ->
         d.funcs <- (int_of_string a, int_of_string np, int_of_string nf, ffi <> "0", String.concat " " rest) :: d.funcs
       | "T" :: a :: et :: pc :: rest ->
         d.functab <- (int_of_string a, int_of_string et, int_of_string pc, String.concat " " rest) :: d.functab
       | "t" :: ip :: sp :: fp :: pp :: rest ->
         let kh = match rest with _ :: _ :: _ :: k :: _ -> (try int_of_string k with _ -> -1) | _ -> -1 in
         tr := (int_of_string ip, int_of_string sp, int_of_string fp, int_of_string pp, kh) :: !tr
       | _ -> ()
     done
   with End_of_file -> close_in ic);
  d.code <- Array.of_list (List.rev !code);
  d.exct <- List.rev d.exct;
  d.funcs <- List.rev d.funcs;
  d.trace <- List.rev !tr;
  d

let () =
  let file = ref "" and entry_name = ref "main" and max_steps = ref 1000000 in
  let rec args = function
    | "--entry" :: n :: r -> entry_name := n; args r
    | "--max-steps" :: n :: r -> max_steps := int_of_string n; args r
    | f :: r -> file := f; args r
    | [] -> () in
  args (List.tl (Array.to_list Sys.argv));
  let d = parse !file in
  if not d.compiled then (print_endline "MODULE not-compiled"; exit 0);
  let n = Array.length d.code in
  Printf.printf "MODULE code=%d funcs=%d exctab=%d\n" n (List.length d.funcs) (List.length d.exct);
  (* build the Coq-side program *)
  let bad_op = ref None in
  let prog = Array.to_list (Array.mapi (fun a (op, w0, w1, w2) ->
      match opcode_of_N (n_of_int op) with
      | Some o -> { r_op = o; r_w0 = z_of_int w0; r_w1 = z_of_int w1; r_w2 = z_of_int w2 }
      | None -> (if !bad_op = None then bad_op := Some a);
        { r_op = BYTECODE_UNKNOWN; r_w0 = Z0; r_w1 = Z0; r_w2 = Z0 }) d.code) in
  let exct = List.map (fun (b, h) -> (nat_of_int b, nat_of_int h)) d.exct in
  let metas = List.map (fun (a, np, _, ffi, _) -> { m_addr = nat_of_int a; m_np = nat_of_int np; m_ffi = ffi }) d.funcs in
  let entry_addr =
    match List.filter (fun (_, _, _, id) -> id = !entry_name) d.functab with
    | (a, _, _, _) :: _ -> a
    | [] -> (match d.funcs with (a, _, _, _, _) :: _ -> a | [] -> 0) in
  let entry = nat_of_int entry_addr in
  (* decoded instructions, memoised *)
  let dec = Array.init n (fun a -> decode prog (nat_of_int a)) in
  let fmeta = Hashtbl.create 64 in
  List.iter (fun (a, np, _, ffi, _) -> Hashtbl.replace fmeta a (np, ffi)) d.funcs;
  let np_of g = try fst (Hashtbl.find fmeta g) with Not_found -> 0 in
  let ffi_of g = try snd (Hashtbl.find fmeta g) with Not_found -> false in
  let base g = if ffi_of g then 0 else np_of g in
  let handler_of a =
    List.fold_left (fun acc (b, h) -> if b <= a then Some h else acc) None d.exct in
  (* ---- certificate inference (untrusted) ---- *)
  let certs = Array.make n CNone in
  let wl = Queue.create () in
  let conflicts = ref [] in
  let set a c =
    if a >= 0 && a < n then
      match certs.(a), c with
      | CNone, _ -> certs.(a) <- c; Queue.add a wl
      | CExc _, _ -> ()
      | CNorm _, CExc _ -> certs.(a) <- c; Queue.add a wl
      | CNorm (f, dd, os), CNorm (f', dd', os') ->
        if not (f = f' && dd = dd' && os = os') then conflicts := a :: !conflicts in
  let norm f dd os = CNorm (nat_of_int f, nat_of_int dd, List.map nat_of_int os) in
  (* handler entries: every exctab handler address belongs to the function whose region contains it *)
  let owner = Array.make n 0 in
  let starts = List.sort compare (List.map (fun (a, _, _, _, _) -> a) d.funcs) in
  let cur = ref 0 in
  for a = 0 to n - 1 do
    if List.mem a starts then cur := a;
    owner.(a) <- !cur
  done;
  List.iter (fun (_, h) -> if h < n then begin
      certs.(h) <- CExc (nat_of_int owner.(h)); Queue.add h wl end) d.exct;
  set 0 (norm 0 0 []);
  List.iter (fun (a, np, _, _, _) -> set a (norm a (np - base a) [])) d.funcs;
  while not (Queue.is_empty wl) do
    let a = Queue.pop wl in
    match certs.(a), dec.(a) with
    | CNorm (f, dd, os), Some i ->
      let f = int_of_nat f and dd = int_of_nat dd and os = List.map int_of_nat os in
      (match i with
       | AOp (_, pops, pushes) -> set (a + 1) (norm f (dd - int_of_nat pops + int_of_nat pushes) os)
       | AJump t -> set (int_of_nat t) (norm f dd os)
       | AJumpz t -> set (int_of_nat t) (norm f (dd - 1) os); set (a + 1) (norm f (dd - 1) os)
       | AMark r -> set (a + 1) (norm f (dd + 5) (dd :: os)); set (int_of_nat r) (norm f (dd + 1) os)
       | ASlide (q, _) -> set (a + 1) (norm f (dd - int_of_nat q) os)
       | AMkFunc _ -> set (a + 1) (norm f dd os)
       | APushParam -> set (a + 1) (norm f (dd + np_of entry_addr) os)
       | AFfi r -> set (int_of_nat r) (norm f 1 [])
       | ACall | ARet _ | ARethrow | AClear _ | AHalt | AUnhandled | ABad -> ())
    | CExc f, Some i ->
      (match i with
       | AOp (_, _, _) -> set (a + 1) (CExc f)
       | AClear _ -> set (a + 1) (CNorm (f, O, []))
       | _ -> ())
    | _ -> ()
  done;
  (* ---- static reference checks (Verifier/Refs.v, theorem references_exist) ---- *)
  let rmetas = List.map (fun (a, _, nf, _, _) -> { rm_addr = nat_of_int a; rm_nfree = z_of_int nf }) d.funcs in
  if check_refs prog rmetas (z_of_int d.nstr) nbuiltin then print_endline "REFS ok"
  else begin
    let bad = ref (-1) in
    List.iteri (fun a i -> if !bad < 0 && not (ref_ok_at prog rmetas (z_of_int d.nstr) nbuiltin (nat_of_int a) i) then bad := a) prog;
    let (op, w0, _, _) = if !bad >= 0 then d.code.(!bad) else (0, 0, 0, 0) in
    Printf.printf "REFS fail addr=%d op=%d w0=%d nstr=%d\n" !bad op w0 d.nstr
  end;
  let certl = Array.to_list certs in
  let ok = check_all prog exct metas entry certl in
  if ok && !bad_op = None then print_endline "VERIFY ok"
  else begin
    let show_cert = function
      | CNone -> "none"
      | CNorm (f, dd, os) -> Printf.sprintf "norm(f=%d,d=%d,os=[%s])" (int_of_nat f) (int_of_nat dd)
                               (String.concat ";" (List.map (fun o -> string_of_int (int_of_nat o)) os))
      | CExc f -> Printf.sprintf "exc(f=%d)" (int_of_nat f) in
    (match first_bad prog exct metas entry certl with
     | Some a -> let a = int_of_nat a in
       let (op, w0, w1, _) = d.code.(a) in
       Printf.printf "VERIFY fail addr=%d op=%d w0=%d w1=%d cert=%s owner=%d\n" a op w0 w1 (show_cert certs.(a)) owner.(a)
     | None ->
       Printf.printf "VERIFY fail addr=-1 global-check (entry/metas/exctab-order/cert0/length) conflicts=%s badop=%s\n"
         (String.concat "," (List.map string_of_int !conflicts))
         (match !bad_op with Some a -> string_of_int a | None -> "-"))
  end;
  (* ---- when the checker rejects: search the shape machine for a concrete static path on which
     it crashes (calls are summarised by an immediate return; both branch directions, and
     faults with none/all operands popped, are explored) ---- *)
  if not ok then begin
    let codef a = let a = int_of_nat a in if a < n then dec.(a) else None in
    let handf a = match handler_of (int_of_nat a) with Some h -> Some (nat_of_int h) | None -> None in
    let npf g = nat_of_int (np_of (int_of_nat g)) in
    let isentf g = Hashtbl.mem fmeta (int_of_nat g) in
    let crash_name c = match c with BadJump -> "BadJump" | Underflow -> "Underflow" | BadRead -> "BadRead"
                                  | BadHeader -> "BadHeader" | RetPartial -> "RetPartial" | RetDepth -> "RetDepth"
                                  | BadClear -> "BadClear" | BadFuncAddr -> "BadFuncAddr" | BadInstr -> "BadInstr"
                                  | NoHandler -> "NoHandler" in
    let rec take k l = if k <= 0 then [] else match l with [] -> [] | x :: t -> x :: take (k - 1) t in
    let found = ref None in
    let budget = ref 400000 in
    let seen = Hashtbl.create 4096 in
    let starts =
      (init, "toplevel") ::
      List.map (fun (a, np, _, ffi, name) ->
          let hdr = [SPP O; SLine; SGp; SFP O; SIP (O, O)] in
          let rec rep k = if k = 0 then [] else SVal :: rep (k - 1) in
          ({ ip = nat_of_int a; stk = hdr @ rep np; p = nat_of_int 5; f = nat_of_int 5; cur = nat_of_int a },
           Printf.sprintf "%s@%d" name a)) d.funcs in
    let rec explore (s : st) (path : (int * int) list) (origin : string) =
      if !found <> None || !budget <= 0 then () else begin
        decr budget;
        let ipi = int_of_nat s.ip and len = List.length s.stk in
        let key = (ipi, len, int_of_nat s.f, int_of_nat s.p) in
        if Hashtbl.mem seen key then () else begin
          Hashtbl.add seen key ();
          let path = (ipi, len - 1) :: path in
          let try_obs ip' len' =
            if !found = None && len' >= 0 then
              match step codef handf npf isentf entry s (nat_of_int ip') (nat_of_int len') with
              | Next s' -> explore s' path origin
              | Crash c -> found := Some (origin, crash_name c, List.rev path)
              | _ -> () in
          (* a crash that does not depend on the observation *)
          (match step codef handf npf isentf entry s (nat_of_int (ipi + 1)) (nat_of_int len) with
           | Crash c -> found := Some (origin, crash_name c, List.rev path)
           | _ -> ());
          if !found = None then
            match (if ipi < n then dec.(ipi) else None) with
            | None -> ()
            | Some i ->
              (match i with
               | AOp (_, pops, pushes) ->
                 let pops = int_of_nat pops and pushes = int_of_nat pushes in
                 try_obs (ipi + 1) (len - pops + pushes);
                 (match handler_of ipi with
                  | Some h when h <> ipi + 1 -> try_obs h len; if pops > 0 then try_obs h (len - pops)
                  | None -> try_obs (ipi + 2) len     (* a fault here finds no table entry: Crash NoHandler *)
                  | _ -> ())
               | AJump t -> try_obs (int_of_nat t) len
               | AJumpz t -> try_obs (ipi + 1) (len - 1); try_obs (int_of_nat t) (len - 1)
               | AMark _ -> try_obs (ipi + 1) (len + 5)
               | ACall ->
                 let fi = int_of_nat s.f and pi = int_of_nat s.p in
                 if fi <> pi && fi >= 5 && len >= fi then begin
                   (* summarise the callee: pop header + arguments, push the result, go to the return label *)
                   match List.nth_opt s.stk (fi - 1), List.nth_opt s.stk (fi - 2), List.nth_opt s.stk (fi - 5) with
                   | Some (SIP (r, _)), Some (SFP f0), Some (SPP _) ->
                     explore { ip = r; stk = take (fi - 5) s.stk @ [SVal]; p = s.p; f = f0; cur = s.cur } path origin
                   | _ -> found := Some (origin, "BadHeader(call-summary)", List.rev path)
                 end;
                 (match handler_of ipi with Some h -> try_obs h (len - 1) | None -> try_obs n (len - 1))
               | ARet _ ->
                 (match List.nth_opt s.stk (int_of_nat s.p - 1) with
                  | Some (SIP (r, _)) -> try_obs (int_of_nat r) (int_of_nat s.p - 5 + 1)
                  | _ -> ())
               | ARethrow -> ()
               | AClear k -> try_obs (ipi + 1) (int_of_nat s.p + int_of_nat k)
               | ASlide (q, _) -> try_obs (ipi + 1) (len - int_of_nat q)
               | AMkFunc _ -> try_obs (ipi + 1) len
               | APushParam -> try_obs (ipi + 1) (len + np_of entry_addr)
               | AFfi r -> try_obs (int_of_nat r) (int_of_nat s.p + 1);
                 (match handler_of ipi with Some h -> try_obs h (int_of_nat s.p) | None -> try_obs n len)
               | AHalt | AUnhandled | ABad -> ())
        end
      end in
    List.iter (fun (s0, origin) -> if !found = None then explore s0 [] origin) starts;
    (match !found with
     | Some (origin, kind, path) ->
       let tail = let l = List.length path in if l > 40 then List.filteri (fun i _ -> i >= l - 40) path else path in
       Printf.printf "WITNESS crash=%s from=%s steps=%d path(ip:sp)=%s\n" kind origin (List.length path)
         (String.concat " " (List.map (fun (a, sp) -> Printf.sprintf "%d:%d" a sp) tail))
     | None -> Printf.printf "WITNESS none (searched %d states)\n" (400000 - !budget))
  end;
  (* per-function maximum certified depth (frame base + depth), for the stack-bound checks *)
  let maxd = Hashtbl.create 64 in
  Array.iteri (fun _ c -> match c with
      | CNorm (f, dd, _) -> let f = int_of_nat f and dd = int_of_nat dd in
        let old = try Hashtbl.find maxd f with Not_found -> 0 in
        if dd + base f > old then Hashtbl.replace maxd f (dd + base f)
      | _ -> ()) certs;
  Hashtbl.iter (fun f m -> Printf.printf "MAXDEPTH f=%d d=%d\n" f m) maxd;
  (* ---- lock-step of the shape machine along the real trace ---- *)
  (match d.trace with
   | [] -> print_endline "LOCKSTEP none"
   | (ip0, sp0, fp0, pp0, _) :: rest ->
     if not (ip0 = 0 && sp0 = -1 && fp0 = -1 && pp0 = -1) then
       Printf.printf "LOCKSTEP mismatch step=0 initial state ip=%d sp=%d fp=%d pp=%d\n" ip0 sp0 fp0 pp0
     else begin
       let codef a = let a = int_of_nat a in if a < n then dec.(a) else None in
       let handf a = match handler_of (int_of_nat a) with Some h -> Some (nat_of_int h) | None -> None in
       let npf g = nat_of_int (np_of (int_of_nat g)) in
       let isentf g = Hashtbl.mem fmeta (int_of_nat g) in
       let s = ref init in
       let junk = ref max_int in
       let i = ref 0 in
       let result = ref "" in
       (try
          List.iter (fun (ip', sp', fp', pp', kh') ->
              incr i;
              if !i > !max_steps then raise Exit;
              match step codef handf npf isentf entry !s (nat_of_int ip') (nat_of_int (sp' + 1)) with
              | Next s' ->
                let f = int_of_nat s'.f and p = int_of_nat s'.p in
                if f <> fp' + 1 || p <> pp' + 1 then begin
                  result := Printf.sprintf "LOCKSTEP mismatch step=%d at ip=%d: model fp=%d pp=%d, real fp=%d pp=%d (next ip=%d)"
                      !i (int_of_nat !s.ip) (f - 1) (p - 1) fp' pp' ip'; raise Exit end;
                (* the collector's view of the stack: gc_stack tag of every slot 0..sp (GC_MEM_ADDR = root) *)
                (* RET/RETHROW copy the top slot into the frame's result position; on the exception path that
                   top slot is whatever was there when the fault happened (a value, or the frame's own
                   return-address slot when nothing had been pushed yet), so its tag is unconstrained: it is
                   never read and the handler's CLEAR_STACK removes it.  Tags are compared again once the
                   stack is below that slot. *)
                let len' = List.length s'.stk in
                (match codef !s.ip with
                 | Some ARethrow -> if len' - 1 < !junk then junk := len' - 1
                 | _ -> ());
                if len' <= !junk then junk := max_int;
                if kh' >= 0 && !junk = max_int then begin
                  let h = List.fold_left (fun h sl -> (h * 31 + kind_of_slot sl) land 0xffffffff) 0 s'.stk in
                  if h land 0x3fffffff <> kh' then begin
                    let (op, _, _, _) = d.code.(int_of_nat !s.ip) in
                    result := Printf.sprintf "LOCKSTEP kinds step=%d at ip=%d op=%d: after this instruction the gc_stack tags of slots 0..%d differ from the model's slot kinds (value and saved-gp slots GC_MEM_ADDR = roots, saved pp/fp GC_MEM_STACK, line/return address GC_MEM_IP)"
                        !i (int_of_nat !s.ip) op sp'; raise Exit end end;
                s := s'
              | Mismatch ->
                result := Printf.sprintf "LOCKSTEP mismatch step=%d at ip=%d op=%d len=%d F=%d P=%d: observed next ip=%d sp=%d is not a successor"
                    !i (int_of_nat !s.ip) (let (op, _, _, _) = d.code.(int_of_nat !s.ip) in op)
                    (List.length !s.stk) (int_of_nat !s.f) (int_of_nat !s.p) ip' sp'; raise Exit
              | ArityStuck ->
                result := Printf.sprintf "LOCKSTEP aritystuck step=%d at ip=%d" !i (int_of_nat !s.ip); raise Exit
              | Crash c ->
                let k = match c with BadJump -> "BadJump" | Underflow -> "Underflow" | BadRead -> "BadRead"
                                   | BadHeader -> "BadHeader" | RetPartial -> "RetPartial" | RetDepth -> "RetDepth"
                                   | BadClear -> "BadClear" | BadFuncAddr -> "BadFuncAddr" | BadInstr -> "BadInstr"
                                  | NoHandler -> "NoHandler" in
                result := Printf.sprintf "LOCKSTEP crash step=%d at ip=%d kind=%s" !i (int_of_nat !s.ip) k; raise Exit
              | Stop ->
                result := Printf.sprintf "LOCKSTEP mismatch step=%d: model stopped at ip=%d but the trace continues" !i (int_of_nat !s.ip);
                raise Exit) rest
        with Exit -> ());
       if !result = "" then Printf.printf "LOCKSTEP ok steps=%d\n" !i
       else if !i > !max_steps then Printf.printf "LOCKSTEP ok steps=%d (budget)\n" (!i - 1)
       else print_endline !result
     end)
