"""Shared machinery for the never-lang/never checks (see DESIGN.md §3.2, §4).

Every check is a python module checks/<id>.py with  run(ctx) -> None  that records
proof obligations, correspondence runs and violations on ctx; bin/check turns that into
the exit code, the VIOLATION / KNOWN-FINDING lines and evidence/<id>.json.
"""
import fcntl
import hashlib
import json
import os
import random
import re
import subprocess
import sys
import time

VERIF = os.path.dirname(os.path.dirname(os.path.abspath(__file__)))
REPO = os.environ.get("NEVER_REPO", "/repo")
COQ = os.path.join(VERIF, "coq")
BUILD = os.path.join(VERIF, "build")
OUT = os.path.join(VERIF, "out")

# Axioms of the Coq standard library that a theorem may depend on (DESIGN.md §8).
ALLOWED_AXIOMS = {
    "Coq.Logic.FunctionalExtensionality.functional_extensionality_dep",
    "FunctionalExtensionality.functional_extensionality_dep",
    "functional_extensionality_dep",
    "Coq.Logic.Classical_Prop.classic", "Classical_Prop.classic", "classic",
    "Coq.Logic.ProofIrrelevance.proof_irrelevance", "proof_irrelevance",
    "Coq.Logic.JMeq.JMeq_eq", "JMeq_eq", "Eqdep.Eq_rect_eq.eq_rect_eq", "eq_rect_eq",
    "ClassicalDedekindReals.sig_forall_dec", "ClassicalDedekindReals.sig_not_dec",
    "sig_forall_dec", "sig_not_dec",
}

FORBIDDEN = re.compile(
    r"\b(Admitted|admit|Axiom|Axioms|Parameter|Parameters|Conjecture|Conjectures|"
    r"Admit Obligations|Unset Guard Checking|Unset Positivity Checking|"
    r"Unset Universe Checking|bypass_check|type-in-type|impredicative-set)\b")


def sh(cmd, timeout=600, cwd=None, env=None, input=None):
    """Run a command, return (rc, stdout, stderr); rc=-9 on timeout."""
    try:
        p = subprocess.run(cmd, shell=isinstance(cmd, str), cwd=cwd, env=env, input=input,
                           stdout=subprocess.PIPE, stderr=subprocess.PIPE,
                           timeout=timeout, text=True, errors="replace")
        return p.returncode, p.stdout, p.stderr
    except subprocess.TimeoutExpired as e:
        so = e.stdout.decode(errors="replace") if isinstance(e.stdout, bytes) else (e.stdout or "")
        se = e.stderr.decode(errors="replace") if isinstance(e.stderr, bytes) else (e.stderr or "")
        return -9, so, se


class Lock:
    def __init__(self, name):
        os.makedirs(BUILD, exist_ok=True)
        self.path = os.path.join(BUILD, "." + name + ".lock")

    def __enter__(self):
        self.f = open(self.path, "w")
        fcntl.flock(self.f, fcntl.LOCK_EX)
        return self

    def __exit__(self, *a):
        fcntl.flock(self.f, fcntl.LOCK_UN)
        self.f.close()


def repobuild(variant):
    """Build (or fetch from the tree-hash cache) libnev.a of /repo's current tree."""
    rc, so, se = sh([os.path.join(VERIF, "bin", "repobuild"), variant], timeout=900)
    if rc != 0:
        raise BuildError("repobuild %s failed:\n%s\n%s" % (variant, so[-2000:], se[-4000:]))
    return so.strip().splitlines()[-1]


class BuildError(Exception):
    pass


def cc_driver(name, sources, libdir, extra="", variant_flags=None, out=None):
    """Compile a C driver from harness/ against the tree's libnev.a; cached beside it."""
    out = out or os.path.join(libdir, name)
    srcs = [s if os.path.isabs(s) else os.path.join(VERIF, "harness", s) for s in sources]
    stamp = out + ".stamp"
    h = hashlib.sha256()
    for s in srcs:
        h.update(open(s, "rb").read())
    h.update(extra.encode())
    key = h.hexdigest()
    if os.path.exists(out) and os.path.exists(stamp) and open(stamp).read() == key:
        return out
    with Lock("cc." + name):
        if os.path.exists(out) and os.path.exists(stamp) and open(stamp).read() == key:
            return out
        cflags = open(os.path.join(libdir, "CFLAGS")).read().strip()
        inc = os.path.join(libdir, "include")
        cmd = "gcc %s -w -I%s/include -I%s/front -I%s/back -I%s %s %s %s/libnev.a -lm -ldl -lffi -o %s.tmp && mv %s.tmp %s" % (
            cflags, inc, inc, inc, inc, extra, " ".join(srcs), libdir, out, out, out)
        rc, so, se = sh(cmd, timeout=300)
        if rc != 0:
            raise BuildError("driver %s failed to build:\n%s" % (name, se[-4000:]))
        open(stamp, "w").write(key)
    return out


def write_if_changed(path, text):
    if os.path.exists(path) and open(path).read() == text:
        return False
    os.makedirs(os.path.dirname(path), exist_ok=True)
    with open(path + ".tmp", "w") as f:
        f.write(text)
    os.replace(path + ".tmp", path)
    return True


def coq_make(targets=None, timeout=3100):
    """(Re)build the Coq project (full .vo build).  Returns (ok, log)."""
    with Lock("coq"):
        rc, so, se = sh([os.path.join(VERIF, "bin", "coqbuild")] + list(targets or []), timeout=timeout)
        return rc == 0, so + se


def ocaml_build(*engines, timeout=2400):
    """Extract + build the OCaml runner(s) build/ocaml/<engine>/run; no argument = all
    engines.  Returns (ok, log)."""
    rc, so, se = sh([os.path.join(VERIF, "bin", "build-ocaml")] + list(engines), timeout=timeout)
    return rc == 0, so + se


def coq_sources():
    res = []
    for root, _, files in os.walk(COQ):
        for f in files:
            if f.endswith(".v"):
                res.append(os.path.join(root, f))
    return sorted(res)


def strip_coq_comments(text):
    out, depth, i = [], 0, 0
    while i < len(text):
        if text.startswith("(*", i):
            depth += 1; i += 2
        elif text.startswith("*)", i) and depth > 0:
            depth -= 1; i += 2
        else:
            if depth == 0:
                out.append(text[i])
            i += 1
    return "".join(out)


def forbidden_scan():
    """grep the whole development for Admitted/Axiom/...; returns list of hits."""
    hits = []
    for p in coq_sources():
        txt = strip_coq_comments(open(p).read())
        for n, line in enumerate(txt.splitlines(), 1):
            m = FORBIDDEN.search(line)
            if m:
                hits.append("%s:%d: %s" % (os.path.relpath(p, VERIF), n, line.strip()))
    return hits


THEOREM_RE = re.compile(r"^\s*(Theorem|Lemma|Corollary)\s+([A-Za-z0-9_']+)", re.M)


def property_files(pid):
    """Properties_<id>.v and its continuation files Properties_<id>b.v, …c.v (same property)."""
    import glob as _glob
    base = os.path.join(COQ, "Properties", "Properties_%s.v" % pid)
    more = sorted(f for f in _glob.glob(os.path.join(COQ, "Properties", "Properties_%s[a-z].v" % pid)))
    return [base] + more


def property_theorems(pid, path=None):
    """Names of the theorems stated in a property statement file."""
    path = path or os.path.join(COQ, "Properties", "Properties_%s.v" % pid)
    if not os.path.exists(path):
        return path, []
    txt = strip_coq_comments(open(path).read())
    return path, [m.group(2) for m in THEOREM_RE.finditer(txt)]


def check_one_property_file(path):
    _, names = property_theorems(None, path)
    res = {"ok": False, "theorems": [], "log": "", "file": os.path.relpath(path, VERIF)}
    if not names:
        res["log"] = "no theorems in " + path
        return res
    rel = os.path.relpath(path, COQ)
    with Lock("coq"):
        rc, so, se = sh("coqc -Q . NV %s" % rel, cwd=COQ, timeout=900)
    res["log"] = (so + se)[-6000:]
    if rc != 0:
        for n in names:
            res["theorems"].append({"name": n, "status": "broken", "axioms": []})
        return res
    # parse "Print Assumptions" output blocks, in order of appearance
    blocks = []
    cur = None
    for line in so.splitlines():
        if line.startswith("Closed under the global context"):
            blocks.append([]); cur = None
        elif line.startswith("Axioms:"):
            cur = []; blocks.append(cur)
        elif cur is not None:
            m = re.match(r"^([A-Za-z0-9_.']+)\s*:", line)
            if m:
                cur.append(m.group(1))
            elif line.startswith("Section Variables:") or line.startswith("Fetching"):
                cur = None
    ok = True
    for i, n in enumerate(names):
        if i < len(blocks):
            ax = blocks[i]
            bad = [a for a in ax if a not in ALLOWED_AXIOMS and a.split(".")[-1] not in ALLOWED_AXIOMS]
            st = "discharged" if not bad else "uses-unlisted-axiom"
            if bad:
                ok = False
            res["theorems"].append({"name": n, "status": st, "axioms": ax})
        else:
            ok = False
            res["theorems"].append({"name": n, "status": "no-print-assumptions", "axioms": []})
    res["ok"] = ok
    return res


def check_property_file(pid):
    """Re-compile Properties_<id>.v (and continuation files), collect per-theorem Print Assumptions.
    Returns dict: {ok, theorems:[{name, status, axioms:[..]}], log}."""
    out = {"ok": True, "theorems": [], "log": "", "file": ""}
    files = [f for f in property_files(pid) if os.path.exists(f)]
    if not files:
        return {"ok": False, "theorems": [], "log": "no Properties_%s.v" % pid, "file": ""}
    for f in files:
        r = check_one_property_file(f)
        out["ok"] = out["ok"] and r["ok"]
        out["theorems"] += r["theorems"]
        out["log"] += r["log"][-3000:]
        out["file"] += r["file"] + " "
    return out


def load_known_findings():
    path = os.path.join(VERIF, "known_findings.jsonl")
    out = []
    if os.path.exists(path):
        for line in open(path):
            line = line.strip()
            if line and not line.startswith("#"):
                out.append(json.loads(line))
    return out


class Ctx:
    def __init__(self, pid, tier, seed, level):
        self.pid, self.tier, self.seed, self.level = pid, tier, seed, level
        self.t0 = time.time()
        self.rng = random.Random(seed)
        self.violations = []       # list of dict(key, what, replay)
        self.known_hits = []
        self.coverage = {"evaluations": 0, "distinct_nontrivial": 0, "rule": "", "samples": [],
                         "obligations": 0, "discharged": 0, "checker_cmd": "", "trusted_base": []}
        self.assumptions = []
        self.known = [k for k in load_known_findings() if k.get("property") == pid]
        # one work/replay directory per run: two runs of the same check (different seeds,
        # tiers or trees) must not step on each other's files
        base = os.path.join(OUT, pid)
        os.makedirs(base, exist_ok=True)
        now = time.time()
        for d in os.listdir(base):
            p = os.path.join(base, d)
            try:
                if d.startswith("run-") and now - os.path.getmtime(p) > 6 * 3600:
                    import shutil
                    shutil.rmtree(p, ignore_errors=True)
            except OSError:
                pass
        self.outdir = os.path.join(base, "run-%d-%d" % (int(now), os.getpid()))
        os.makedirs(self.outdir, exist_ok=True)
        self.notes = {}
        self.broken = []           # proof obligations / correspondences that no longer check

    # -- proof side ---------------------------------------------------------------
    def proofs(self, extra_obligations=None):
        """Build Coq, scan for forbidden commands, check Properties_<id>.v.
        Records obligations/discharged; broken ones go to self.broken."""
        # build only the dependency closure of this property's statement file
        ok, log = coq_make([os.path.relpath(f, COQ)[:-2] + ".vo" for f in property_files(self.pid) if os.path.exists(f)]
                           or ["Properties/Properties_%s.vo" % self.pid])
        self.notes["coq_make_ok"] = ok
        hits = forbidden_scan()
        if hits:
            self.broken.append({"kind": "forbidden-command", "detail": hits[:20]})
        r = check_property_file(self.pid)
        ths = r["theorems"]
        partial = [t for t in ths if t["name"].endswith("_partial")]
        refuted = [t for t in ths if t["name"].endswith("_refuted")]
        self.coverage["obligations"] = len(ths)
        self.coverage["discharged"] = len([t for t in ths if t["status"] == "discharged"])
        self.coverage["theorems"] = [{"name": t["name"], "status": t["status"], "axioms": t["axioms"]} for t in ths]
        self.coverage["partial_theorems"] = [t["name"] for t in partial]
        self.coverage["refuted_theorems"] = [t["name"] for t in refuted]
        self.coverage["checker_cmd"] = "cd /verif/coq && make -j16 && " + " && ".join(
            "coqc -Q . NV %s" % os.path.relpath(f, COQ) for f in property_files(self.pid) if os.path.exists(f))
        for t in ths:
            if t["status"] != "discharged":
                self.broken.append({"kind": "theorem", "name": t["name"], "status": t["status"],
                                    "log": r["log"][-3000:]})
        if not ths:
            self.broken.append({"kind": "theorem", "name": "Properties_%s.v" % self.pid,
                                "status": "missing-or-empty", "log": r["log"][-3000:] + log[-3000:]})
        axs = sorted({a for t in ths for a in t["axioms"]})
        self.coverage["trusted_base"] = [
            "Coq 8.16.1 kernel (coqc, vm_compute; no native_compute)",
            "axioms reported by Print Assumptions: " + (", ".join(axs) if axs else "none (closed under the global context)"),
            "extraction: ExtrOcamlBasic only (bool, option, unit, list, prod, sumbool, sumor; andb/orb inlined); Z/N/positive/nat extracted as datatypes",
            "unverified glue: python/OCaml/C drivers under /verif/harness, /verif/checks, /verif/lib",
        ]
        return r

    def obligation(self, name, ok, detail=None):
        """An extra machine-checked obligation (e.g. a regenerated table theorem)."""
        self.coverage["obligations"] += 1
        if ok:
            self.coverage["discharged"] += 1
        else:
            self.broken.append({"kind": "obligation", "name": name, "detail": detail})

    # -- correspondence / search side ---------------------------------------------
    def count(self, evaluations=0, nontrivial=0):
        self.coverage["evaluations"] += evaluations
        self.coverage["distinct_nontrivial"] += nontrivial

    def sample(self, s, limit=6):
        if len(self.coverage["samples"]) < limit:
            self.coverage["samples"].append(s)

    def correspondence_broken(self, name, first_case):
        self.broken.append({"kind": "correspondence", "name": name, "first_case": first_case})

    def violation(self, key, what, replay_obj):
        """A case on which the PROPERTY fails on the real code."""
        for k in self.known:
            if k.get("status", "known") != "known":
                continue
            # `key_regex` (optional) lets a finding survive renames of internal identifiers that
            # the key embeds; it must still pin the mechanism (kind of report, site class)
            if k.get("key") == key or (k.get("key_regex") and re.fullmatch(k["key_regex"], key)):
                if k.get("key") not in [h["key"] for h in self.known_hits]:
                    self.known_hits.append({"key": k.get("key"), "what": k.get("what", what)})
                return
        if any(v["key"] == key for v in self.violations):
            return
        path = os.path.join(self.outdir, "replay_%s.json" % re.sub(r"[^A-Za-z0-9_.-]", "_", key)[:80])
        replay_obj = dict(replay_obj)
        replay_obj.update({"property": self.pid, "key": key, "what": what, "seed": self.seed})
        with open(path, "w") as f:
            json.dump(replay_obj, f, indent=1, default=str)
        self.violations.append({"key": key, "what": what, "replay": path})

    # -- finish ---------------------------------------------------------------------
    def finish(self):
        lines = []
        rc = 0
        for h in self.known_hits:
            lines.append("KNOWN-FINDING: property=%s %s" % (self.pid, h["what"]))
        for v in self.violations:
            lines.append("VIOLATION property=%s replay=%s  %s" % (self.pid, v["replay"], v["what"]))
            rc = 1
        if self.broken and not self.violations:
            # §4.4 step 3: a proof obligation or correspondence no longer checks and the
            # search found no failing input.
            path = os.path.join(self.outdir, "replay_obligation.json")
            with open(path, "w") as f:
                json.dump({"property": self.pid, "kind": "obligation", "seed": self.seed,
                           "theorem_or_correspondence": self.broken}, f, indent=1, default=str)
            names = ",".join(str(b.get("name", b["kind"])) for b in self.broken)[:200]
            lines.append("VIOLATION property=%s replay=%s broken=%s no-failing-input-found" % (self.pid, path, names))
            rc = 1
        elif self.broken:
            path = os.path.join(self.outdir, "broken_obligations.json")
            with open(path, "w") as f:
                json.dump(self.broken, f, indent=1, default=str)
            lines.append("NOTE property=%s also: obligations/correspondences no longer checking: %s" % (
                self.pid, ",".join(str(b.get("name", b["kind"])) for b in self.broken)[:300]))
        cov = dict(self.coverage)
        if self.level != "proof":
            pass
        cov["known_findings_seen"] = [h["key"] for h in self.known_hits]
        cov.update({k: v for k, v in self.notes.items()})
        if not cov["samples"]:
            cov["samples"] = ["(none recorded)"]
        ev = {"property_id": self.pid, "tier": self.tier, "seed": self.seed, "level": self.level,
              "coverage": cov, "assumptions": self.assumptions,
              "wall_s": round(time.time() - self.t0, 2), "violations": len(self.violations) + (1 if self.broken and not self.violations else 0)}
        os.makedirs(os.path.join(VERIF, "evidence"), exist_ok=True)
        with open(os.path.join(VERIF, "evidence", "%s.json" % self.pid), "w") as f:
            json.dump(ev, f, indent=1, default=str)
        for l in lines:
            print(l)
        sys.stdout.flush()
        return rc
