(* sbrun — runs the extracted stack-limit model (coq/VM/StackBound.v) on a module dump and a
   register trace written by harness/c14/limrun.c.

     run table
         SHAPE <opcode number> <shape> | <pinned plan> | <checked plan>     (operands w0=2 w1=1)
         BUILTIN <id> <shape> | <pinned plan> | <checked plan>
     run predict <dump> <trace> --variant <5 bits: mark dup alloc unpack read; 1 = check first>
                 --sizes s1,s2,...
         STEPS <n>
         CONSISTENT ok | INCONSISTENT step=<k> ip=<ip> op=<op> sp=<sp> sp'=<sp'> fault=<b> plan=<..>
         DEMAND <smallest stack size under which the traced run completes>  (trace_demand)
         PRED <size> done | PRED <size> limit <step> <ip> <op> | PRED <size> oob <step> <idx> <ip> <op>
   Steps are 0-based; the real VM dispatches step+1 instructions before it stops at `step`. *)
open Stackboundmodel

let rec pos_of_int n = if n = 1 then XH else if n land 1 = 0 then XO (pos_of_int (n lsr 1)) else XI (pos_of_int (n lsr 1))
let z_of_int n = if n = 0 then Z0 else if n > 0 then Zpos (pos_of_int n) else Zneg (pos_of_int (-n))
let n_of_int n = if n = 0 then N0 else Npos (pos_of_int n)
let rec int_of_pos = function XH -> 1 | XO p -> 2 * int_of_pos p | XI p -> 2 * int_of_pos p + 1
let int_of_z = function Z0 -> 0 | Zpos p -> int_of_pos p | Zneg p -> - (int_of_pos p)
let int_of_nat n = let rec go acc = function O -> acc | S m -> go (acc + 1) m in go 0 n

let shape_name = function
  | ShNone -> "ShNone" | ShPush1 -> "ShPush1" | ShTop -> "ShTop" | ShBinary -> "ShBinary"
  | ShPop _ -> "ShPop" | ShRewrite -> "ShRewrite" | ShPopPush _ -> "ShPopPush"
  | ShRangeDeref _ -> "ShRangeDeref" | ShPushN _ -> "ShPushN" | ShPopTop -> "ShPopTop"
  | ShSlide _ -> "ShSlide" | ShMove _ -> "ShMove" | ShRet _ -> "ShRet" | ShMark -> "ShMark"
  | ShDup -> "ShDup" | ShAlloc _ -> "ShAlloc" | ShUnpack _ -> "ShUnpack" | ShRead -> "ShRead"

let show_plan p =
  String.concat " " (List.map (function
      | Bump d -> Printf.sprintf "B%+d" (int_of_z d)
      | Check -> "C"
      | Write o -> Printf.sprintf "W%+d" (int_of_z o)) p)

let variant_of_bits bits =
  let b k = String.length bits > k && bits.[k] = '1' in
  fun c -> match c with
    | IrrMark -> b 0 | IrrDup -> b 1 | IrrAlloc -> b 2 | IrrRecordUnpack -> b 3 | IrrBuiltinRead -> b 4

let mk op w0 w1 w2 = { r_op = op; r_w0 = z_of_int w0; r_w1 = z_of_int w1; r_w2 = z_of_int w2 }

let table () =
  for n = 0 to 300 do
    match opcode_of_N (n_of_int n) with
    | None -> ()
    | Some BYTECODE_BUILD_IN ->
      for id = 1 to 30 do
        let i = mk BYTECODE_BUILD_IN id 0 0 in
        let d = z_of_int 1 in
        Printf.printf "BUILTIN %d %s | %s | %s\n" id (shape_name (shape_of i d))
          (show_plan (plan pinned i false d)) (show_plan (plan checked i false d))
      done;
      Printf.printf "SHAPE %d BUILTIN | |\n" n
    | Some op ->
      let i = mk op 2 1 0 in
      let d = z_of_int 1 in
      Printf.printf "SHAPE %d %s | %s | %s\n" n (shape_name (shape_of i d))
        (show_plan (plan pinned i false d)) (show_plan (plan checked i false d))
  done

let read_dump file =
  let ic = open_in file in
  let code = ref [] in
  (try while true do
       let l = input_line ic in
       match String.split_on_char ' ' l with
       | "I" :: _ :: op :: w0 :: w1 :: w2 :: _ ->
         code := (int_of_string op, int_of_string w0, int_of_string w1, int_of_string w2) :: !code
       | _ -> ()
     done with End_of_file -> close_in ic);
  Array.of_list (List.rev !code)

let read_trace file =
  let ic = open_in file in
  let tr = ref [] in
  (try while true do
       let l = input_line ic in
       match String.split_on_char ' ' l with
       | "t" :: ip :: sp :: _ -> tr := (int_of_string ip, int_of_string sp) :: !tr
       | _ -> ()
     done with End_of_file -> close_in ic);
  Array.of_list (List.rev !tr)

let op_ret = 211 and op_ffi = 194

let predict dumpf tracef bits sizes =
  let code = read_dump dumpf in
  let tr = read_trace tracef in
  let v = variant_of_bits bits in
  let n = Array.length tr in
  Printf.printf "STEPS %d\n" n;
  let instr_of ip =
    if ip < 0 || ip >= Array.length code then mk BYTECODE_UNKNOWN 0 0 0
    else let (op, w0, w1, w2) = code.(ip) in
      match opcode_of_N (n_of_int op) with
      | Some o -> mk o w0 w1 w2
      | None -> mk BYTECODE_UNKNOWN 0 0 0 in
  let opnum ip = if ip >= 0 && ip < Array.length code then (let (op, _, _, _) = code.(ip) in op) else -1 in
  (* names of the RET / FUNC_FFI opcodes come from the model, not from the numbers above *)
  let is_op o ip = (instr_of ip).r_op = o in
  let steps = Array.to_list (Array.mapi (fun k (ip, sp) ->
      let last = (k = n - 1) in
      let (ip', sp') = if last then (ip + 1, sp) else tr.(k + 1) in
      let fault =
        if last then false
        else if is_op BYTECODE_FUNC_FFI ip then not (is_op BYTECODE_RET ip')
        else ip' <> ip + 1 in
      { t_instr = instr_of ip; t_fault = fault; t_sp = z_of_int sp; t_sp' = z_of_int sp' }) tr) in
  (* consistency of the plan table with the observed sp movement *)
  let bad = ref None in
  List.iteri (fun k t ->
      if !bad = None && k < n - 1 && not (step_consistent v t) then bad := Some (k, t)) steps;
  (match !bad with
   | None -> print_endline "CONSISTENT ok"
   | Some (k, t) ->
     let (ip, _) = tr.(k) in
     Printf.printf "INCONSISTENT step=%d ip=%d op=%d sp=%d sp'=%d fault=%b plan=%s\n" k ip (opnum ip)
       (int_of_z t.t_sp) (int_of_z t.t_sp') t.t_fault
       (show_plan (plan v t.t_instr t.t_fault (z_of_int (int_of_z t.t_sp' - int_of_z t.t_sp)))));
  Printf.printf "DEMAND %d\n" (int_of_z (trace_demand v steps));
  List.iter (fun s ->
      match run_plans v (z_of_int s) steps O with
      | LDone -> Printf.printf "PRED %d done\n" s
      | LLimit i -> let i = int_of_nat i in let (ip, _) = tr.(i) in
        Printf.printf "PRED %d limit %d %d %d\n" s i ip (opnum ip)
      | LOob (i, idx) -> let i = int_of_nat i in let (ip, _) = tr.(i) in
        Printf.printf "PRED %d oob %d %d %d %d\n" s i (int_of_z idx) ip (opnum ip)) sizes

let () =
  match List.tl (Array.to_list Sys.argv) with
  | ["table"] -> table ()
  | "predict" :: dumpf :: tracef :: rest ->
    let bits = ref "11111" and sizes = ref [] in
    let rec go = function
      | "--variant" :: b :: r -> bits := b; go r
      | "--sizes" :: s :: r ->
        sizes := List.map int_of_string (List.filter (fun x -> x <> "") (String.split_on_char ',' s)); go r
      | _ :: r -> go r
      | [] -> () in
    go rest;
    predict dumpf tracef !bits !sizes
  | _ -> prerr_endline "usage: run table | run predict <dump> <trace> --variant bits --sizes a,b,c"; exit 2
