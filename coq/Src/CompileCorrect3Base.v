(* Src/CompileCorrect3Base.v — infrastructure of the compiler-correctness proof (Src/CompileCorrect3.v):
   code embedded in a larger program (`code_at`), sequencing of VM runs (`star`), the simulation
   relation between evaluator states (Src/Eval.v) and VM states (VM/ValueVM3.v):

     morph        m : cell id -> option (VM heap address)        (a list, extended at the end)
     MS m st h    every mapped cell c ↦ a holds related payloads (CInt z ~ z, CBool b ~ 0/1) and
                  m is injective on mapped cells (so that assignment through one name changes
                  exactly the cells the evaluator changes: aliasing is preserved)
     env_match    every name in scope is bound, in the evaluator's environment, to a cell whose
                  image is the address held by the stack slot that ID_LOCAL{L, index} reads
   No axioms. *)
From Coq Require Import ZArith List Bool Lia.
From NV Require Import Gen.Opcodes Verifier.Effect Src.Syntax Src.Eval Src.EvalLemmas
  VM.ValueVM3 Src.Compile3.
Import ListNotations.
Local Open Scope Z_scope.

(* ---- code embedded at an offset ---------------------------------------------------------- *)

Definition code_at (prog : list rinstr) (pc : nat) (c : list rinstr) : Prop :=
  exists pre post, prog = pre ++ c ++ post /\ length pre = pc.

Lemma code_at_app_l : forall prog pc c1 c2, code_at prog pc (c1 ++ c2) -> code_at prog pc c1.
Proof.
  intros prog pc c1 c2 (pre & post & E & Hl). exists pre, (c2 ++ post).
  rewrite E, <- app_assoc. auto.
Qed.

Lemma code_at_app_r : forall prog pc c1 c2, code_at prog pc (c1 ++ c2) ->
  code_at prog (pc + length c1)%nat c2.
Proof.
  intros prog pc c1 c2 (pre & post & E & Hl). exists (pre ++ c1), post.
  rewrite E, <- !app_assoc, app_length. split; [reflexivity | lia].
Qed.

Lemma code_at_cons : forall prog pc i c, code_at prog pc (i :: c) ->
  nth_error prog pc = Some i /\ code_at prog (S pc) c.
Proof.
  intros prog pc i c (pre & post & E & Hl). split.
  - rewrite E, nth_error_app2 by lia. replace (pc - length pre)%nat with 0%nat by lia. reflexivity.
  - exists (pre ++ [i]), post. rewrite E, <- app_assoc, app_length. simpl. split; [reflexivity | lia].
Qed.

Lemma code_at_head : forall prog pc i c, code_at prog pc (i :: c) -> nth_error prog pc = Some i.
Proof. intros. eapply code_at_cons; eauto. Qed.

Lemma code_at_tail : forall prog pc i c, code_at prog pc (i :: c) -> code_at prog (S pc) c.
Proof. intros. eapply code_at_cons; eauto. Qed.

Lemma code_at_self : forall c, code_at c 0 c.
Proof. intros c. exists [], []. rewrite app_nil_r. auto. Qed.

(* ---- runs -------------------------------------------------------------------------------- *)

Lemma star_one : forall X prog s s', step X prog s = SNext s' -> star X prog s s'.
Proof. intros. eapply star_step; eauto. apply star_refl. Qed.

Lemma star_trans : forall X prog s1 s2 s3, star X prog s1 s2 -> star X prog s2 s3 -> star X prog s1 s3.
Proof. induction 1; intros; auto. eapply star_step; eauto. Qed.

Lemma star_snoc : forall X prog s1 s2 s3, star X prog s1 s2 -> step X prog s2 = SNext s3 -> star X prog s1 s3.
Proof. intros. eapply star_trans; eauto. apply star_one; auto. Qed.

(* the fuelled runner follows a `star` run *)
Lemma run_star : forall X prog s s', star X prog s s' ->
  forall k r, run X prog k s' = r -> r <> VFuel -> exists k', run X prog k' s = r.
Proof.
  induction 1 as [s | s s1 s2 Hs _ IH]; intros k r Hr Hnf.
  - eauto.
  - destruct (IH k r Hr Hnf) as (k' & Hk'). exists (S k'). simpl. rewrite Hs. exact Hk'.
Qed.

(* ---- the heap morphism --------------------------------------------------------------------- *)

(* cell id -> the VM address of its image (MA), or: the cell holds the top-level function fd
   (MF; function cells have no image: a call makes a fresh function cell) *)
Inductive mcell := MA (a : nat) | MF (fd : fdef).
Definition morph := list mcell.

Definition val_rel (v : cellval) (z : Z) : Prop :=
  match v with
  | CInt n => z = n
  | CBool b => z = b2z b
  | _ => False
  end.

Record MS (m : morph) (st : state) (h : list Z) : Prop := {
  ms_len : length m = length (cells st);
  ms_rel : forall c a, nth_error m c = Some (MA a) ->
           exists v z, nth_error (cells st) c = Some v /\ nth_error h a = Some z /\ val_rel v z;
  ms_inj : forall c1 c2 a, nth_error m c1 = Some (MA a) -> nth_error m c2 = Some (MA a) -> c1 = c2;
  ms_fun : forall c fd, nth_error m c = Some (MF fd) -> nth_error (cells st) c = Some (CFun fd [])
}.

Definition ext (m m' : morph) : Prop := exists l, m' = m ++ l.

Lemma ext_refl : forall m, ext m m.
Proof. intros m. exists []. now rewrite app_nil_r. Qed.

Lemma ext_trans : forall a b c, ext a b -> ext b c -> ext a c.
Proof. intros a b c (l1 & E1) (l2 & E2). exists (l1 ++ l2). subst. now rewrite app_assoc. Qed.

Lemma ext_nth : forall m m' c x, ext m m' -> nth_error m c = Some x -> nth_error m' c = Some x.
Proof.
  intros m m' c x (l & E) H. subst. rewrite nth_error_app1; auto.
  apply nth_error_Some. congruence.
Qed.

Lemma ext_snoc : forall m x, ext m (m ++ [x]).
Proof. intros. eexists; eauto. Qed.

Lemma MS_payload_int : forall m st h c a z, MS m st h -> nth_error m c = Some (MA a) ->
  get_int st c = Some z -> nth_error h a = Some z.
Proof.
  intros m st h c a z HMS Hm Hg. destruct (ms_rel _ _ _ HMS c a Hm) as (v & z' & Hc & Hh & Hv).
  unfold get_int, get_cell in Hg. rewrite Hc in Hg. destruct v; try discriminate.
  inversion Hg; subst. simpl in Hv. subst. exact Hh.
Qed.

Lemma MS_payload_bool : forall m st h c a b, MS m st h -> nth_error m c = Some (MA a) ->
  get_bool st c = Some b -> nth_error h a = Some (b2z b).
Proof.
  intros m st h c a b HMS Hm Hg. destruct (ms_rel _ _ _ HMS c a Hm) as (v & z' & Hc & Hh & Hv).
  unfold get_bool, get_cell in Hg. rewrite Hc in Hg. destruct v; try discriminate.
  inversion Hg; subst. simpl in Hv. subst. exact Hh.
Qed.

Lemma MS_payload_cell : forall m st h c a v, MS m st h -> nth_error m c = Some (MA a) ->
  get_cell st c = Some v -> exists z, nth_error h a = Some z /\ val_rel v z.
Proof.
  intros m st h c a v HMS Hm Hg. destruct (ms_rel _ _ _ HMS c a Hm) as (v' & z' & Hc & Hh & Hv).
  unfold get_cell in Hg. rewrite Hc in Hg. inversion Hg; subst. eauto.
Qed.

(* a mapped cell holds an int or a bool, never a reference: == / != with nil does not apply *)
Lemma nil_cmp_mapped : forall op m st h c a o2, MS m st h -> nth_error m c = Some (MA a) ->
  nil_cmp op (get_cell st c) o2 = None.
Proof.
  intros op m st h c a o2 HMS Hm. destruct (ms_rel _ _ _ HMS c a Hm) as (v & z & Hc & _ & Hv).
  unfold get_cell. rewrite Hc. destruct v; simpl in Hv; try contradiction; destruct o2; reflexivity.
Qed.

(* a fresh cell on both sides *)
Lemma MS_alloc : forall m st h v z c st', MS m st h -> val_rel v z -> alloc st v = (c, st') ->
  MS (m ++ [MA (length h)]) st' (h ++ [z]) /\
  nth_error (m ++ [MA (length h)]) c = Some (MA (length h)) /\
  out st' = out st.
Proof.
  intros m st h v z c st' HMS Hv Ha. unfold alloc in Ha. inversion Ha; subst c st'; clear Ha.
  split; [|split].
  - constructor; simpl.
    + rewrite !app_length, (ms_len _ _ _ HMS). reflexivity.
    + intros c a Hm. destruct (Nat.lt_ge_cases c (length m)) as [Hlt | Hge].
      * rewrite nth_error_app1 in Hm by assumption.
        destruct (ms_rel _ _ _ HMS c a Hm) as (v' & z' & Hc & Hh & Hr).
        exists v', z'. split; [|split]; auto.
        -- rewrite nth_error_app1; auto. apply nth_error_Some. congruence.
        -- rewrite nth_error_app1; auto. apply nth_error_Some. congruence.
      * rewrite nth_error_app2 in Hm by assumption.
        destruct (c - length m)%nat as [|d] eqn:Hd; simpl in Hm; [|destruct d; discriminate].
        inversion Hm; subst a. assert (c = length m) by lia. subst c.
        exists v, z. split; [|split]; auto.
        -- rewrite (ms_len _ _ _ HMS), nth_error_app2, Nat.sub_diag by lia. reflexivity.
        -- rewrite nth_error_app2, Nat.sub_diag by lia. reflexivity.
    + intros c1 c2 a H1 H2.
      assert (Hold : forall c, nth_error m c = Some (MA a) -> (a < length h)%nat).
      { intros c Hc. destruct (ms_rel _ _ _ HMS c a Hc) as (? & ? & _ & Hh & _).
        apply nth_error_Some. congruence. }
      assert (Hnew : forall c, (length m <= c)%nat ->
                nth_error (m ++ [MA (length h)]) c = Some (MA a) -> c = length m /\ a = length h).
      { intros c Hge Hc. rewrite nth_error_app2 in Hc by assumption.
        destruct (c - length m)%nat as [|d] eqn:Hd; simpl in Hc; [|destruct d; discriminate].
        inversion Hc. split; lia. }
      destruct (Nat.lt_ge_cases c1 (length m)) as [L1 | G1];
      destruct (Nat.lt_ge_cases c2 (length m)) as [L2 | G2].
      * rewrite nth_error_app1 in H1, H2 by assumption. eapply (ms_inj _ _ _ HMS); eauto.
      * rewrite nth_error_app1 in H1 by assumption. apply Hold in H1.
        destruct (Hnew _ G2 H2). lia.
      * rewrite nth_error_app1 in H2 by assumption. apply Hold in H2.
        destruct (Hnew _ G1 H1). lia.
      * destruct (Hnew _ G1 H1), (Hnew _ G2 H2). lia.
    + intros c fd Hm. destruct (Nat.lt_ge_cases c (length m)) as [Hlt | Hge].
      * rewrite nth_error_app1 in Hm by assumption.
        rewrite nth_error_app1 by (rewrite <- (ms_len _ _ _ HMS); assumption).
        apply (ms_fun _ _ _ HMS _ _ Hm).
      * rewrite nth_error_app2 in Hm by assumption.
        destruct (c - length m)%nat as [|d] eqn:Hd; simpl in Hm; [discriminate | destruct d; discriminate].
  - rewrite <- (ms_len _ _ _ HMS), nth_error_app2, Nat.sub_diag by lia. reflexivity.
  - reflexivity.
Qed.

Lemma MS_fresh : forall m st h v z c st', MS m st h -> val_rel v z -> fresh st v = (ROk c, st') ->
  MS (m ++ [MA (length h)]) st' (h ++ [z]) /\
  nth_error (m ++ [MA (length h)]) c = Some (MA (length h)) /\
  out st' = out st.
Proof.
  intros m st h v z c st' HMS Hv Hf. unfold fresh in Hf.
  destruct (alloc st v) as [c0 st0] eqn:Ha. inversion Hf; subst. eapply MS_alloc; eauto.
Qed.

(* assignment: the payload of the left cell is overwritten on both sides *)
Lemma MS_assign : forall m st h cl al v z, MS m st h -> nth_error m cl = Some (MA al) ->
  val_rel v z -> MS m (set_cell st cl v) (list_upd h al z).
Proof.
  intros m st h cl al v z HMS Hl Hv. constructor; simpl.
  - rewrite list_upd_length. apply (ms_len _ _ _ HMS).
  - intros c a Hm. destruct (ms_rel _ _ _ HMS c a Hm) as (v' & z' & Hc & Hh & Hr).
    destruct (Nat.eq_dec c cl) as [-> | Hne].
    + assert (a = al) by congruence. subst a. exists v, z. split; [|split]; auto.
      * apply nth_error_list_upd_same. apply nth_error_Some. congruence.
      * apply nth_error_list_upd_same. apply nth_error_Some. congruence.
    + exists v', z'. split; [|split]; auto.
      * rewrite nth_error_list_upd_other; auto.
      * rewrite nth_error_list_upd_other; auto. intros ->. apply Hne.
        eapply (ms_inj _ _ _ HMS); eauto.
  - apply (ms_inj _ _ _ HMS).
  - intros c fd Hm. rewrite nth_error_list_upd_other; [apply (ms_fun _ _ _ HMS _ _ Hm) | congruence].
Qed.

Lemma MS_addr_lt : forall m st h c a, MS m st h -> nth_error m c = Some (MA a) -> (a < length h)%nat.
Proof.
  intros m st h c a HMS Hm. destruct (ms_rel _ _ _ HMS c a Hm) as (? & ? & _ & Hh & _).
  apply nth_error_Some. congruence.
Qed.

(* ---- environments -------------------------------------------------------------------------- *)

(* the program's top-level functions as the evaluator sees them: genv binds each name to a cell *)
Record ginfo := { g_genv : env; g_funcs : list fdef }.

Fixpoint find_func (f : ident) (l : list fdef) : option fdef :=
  match l with [] => None | fd :: t => if N.eqb f (fd_name fd) then Some fd else find_func f t end.

Definition g_sigs (G : ginfo) : fsigs := map (fun fd => (fd_name fd, length (fd_params fd))) (g_funcs G).

(* every name in scope: bound in both environments, the slot ID_LOCAL{L,i} reads holds the image;
   no local name hides a top-level function; every top-level function's cell is known to hold it *)
Definition env_match (G : ginfo) (m : morph) (e : env) (ce : cenv) (sc : list ident) (L : Z)
  (stk : list nat) : Prop :=
  (forall x, mem_id x sc = true ->
    exists i c a, clookup x ce = Some i /\ i <= L /\ lookup x e = Some c /\
                  nth_error m c = Some (MA a) /\ nth_error stk (Z.to_nat (L - i)) = Some a) /\
  (forall x c, lookup x e = Some c -> is_fname (g_sigs G) x = false) /\
  (forall f fd, find_func f (g_funcs G) = Some fd ->
    exists cf, lookup f (g_genv G) = Some cf /\ nth_error m cf = Some (MF fd)).

Lemma env_match_ext : forall G m m' e ce sc L stk, env_match G m e ce sc L stk -> ext m m' ->
  env_match G m' e ce sc L stk.
Proof.
  intros G m m' e ce sc L stk (H & Hn & Hf) He. split; [|split]; auto.
  - intros x Hx. destruct (H x Hx) as (i & c & a & H1 & H2 & H3 & H4 & H5).
    exists i, c, a. repeat split; auto. eapply ext_nth; eauto.
  - intros f fd Hfd. destruct (Hf f fd Hfd) as (cf & H1 & H2). exists cf. split; auto.
    eapply ext_nth; eauto.
Qed.

Lemma env_match_push : forall G m e ce sc L stk a0, env_match G m e ce sc L stk ->
  env_match G m e ce sc (L + 1) (a0 :: stk).
Proof.
  intros G m e ce sc L stk a0 (H & Hn & Hf). split; [|split]; auto.
  intros x Hx. destruct (H x Hx) as (i & c & a & H1 & H2 & H3 & H4 & H5).
  exists i, c, a. repeat split; auto; try lia.
  replace (Z.to_nat (L + 1 - i)) with (S (Z.to_nat (L - i))) by lia. exact H5.
Qed.

Lemma env_match_bind : forall G m e ce sc L stk x c a, env_match G m e ce sc L stk ->
  nth_error m c = Some (MA a) -> is_fname (g_sigs G) x = false ->
  env_match G m ((x, c) :: e) ((x, L + 1) :: ce) (x :: sc) (L + 1) (a :: stk).
Proof.
  intros G m e ce sc L stk x c a H Hm Hx. pose proof (env_match_push _ _ _ _ _ _ _ a H) as (Hp & _ & _).
  destruct H as (H & Hn & Hf). split; [|split]; auto.
  - intros y Hy. simpl in Hy. simpl. destruct (N.eqb y x) eqn:Exy.
    + exists (L + 1), c, a. repeat split; auto; try lia.
      replace (Z.to_nat (L + 1 - (L + 1))) with 0%nat by lia. reflexivity.
    + simpl in Hy. destruct (Hp y Hy) as (i & c' & a' & H1 & H2 & H3 & H4 & H5).
      exists i, c', a'. repeat split; auto.
  - intros y c' Hy. simpl in Hy. destruct (N.eqb y x) eqn:Exy.
    + apply N.eqb_eq in Exy. subst y. exact Hx.
    + eapply Hn; eauto.
Qed.

(* ---- small arithmetic facts ---------------------------------------------------------------- *)

Lemma wrap32_small : forall z, int_lit_ok z = true -> wrap32 z = z.
Proof.
  intros z H. unfold int_lit_ok in H. apply andb_true_iff in H. destruct H as [H1 H2].
  apply Z.leb_le in H1, H2. unfold wrap32. rewrite Z.mod_small by lia. lia.
Qed.

Lemma jump_target_fwd : forall ip off, 0 <= off ->
  jump_target ip off = Some (ip + 1 + Z.to_nat off)%nat.
Proof.
  intros ip off H. unfold jump_target.
  destruct (Z.of_nat ip + 1 + off <? 0) eqn:E; [apply Z.ltb_lt in E; lia|].
  f_equal. lia.
Qed.
