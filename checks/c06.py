"""C06 — ill-typed programs are rejected, with a diagnostic at the offending line.

Proof side (ctx.proofs()): coq/Properties/Properties_C06.v — model typechecker Src/Typecheck.v
(mirrors front/typecheck.c for the core AST of Src/Syntax.v: scopes, constness TEMP/CONST/VAR,
argument count/kinds/const->var, operators, bool conditions, result kind; Src/TypecheckMatch.v:
match exhaustiveness by enumerator marking, exception-name table, attribute names), the declarative
judgment of Src/TypecheckSpec.v with `typecheck_sound`, and the `*_rejected` theorems of
Src/Mutations.v (every single-fault mutant of an accepted program is rejected with the rule of
the operator, at every nesting depth).

Tie / search (DESIGN.md §4.2, §5 C06):
  build/ocaml/tc/run (extracted model + generator + pretty-printer + mutator, harness/ocaml/tc)
  emits generated well-typed programs P (the model says OK), their single-fault mutants (AST
  level: every operator of harness/ocaml/tc/tmut.ml at every site, sampled per (operator, nesting
  context); text level: unknown exception name) and enum/match templates with random enumerator
  counts in six nesting contexts (mutant: one enumerator's guard / the else guard removed).
  Everything is compiled by the tree's real compiler (harness/common/nevrun.c, compile-only,
  ASan/UBSan build, 16 processes).  Property oracle (independent of what the model computes for a
  mutant beyond "it is a fault"):
      P                     must be COMPILED
      every mutant          must be COMPILE_ERROR with >= 1 `<stdin>:<line>: error:` diagnostic whose
                            line lies on the lines of the mutated node (first..last line of the
                            smallest changed expression/item as printed; one line in > 98% of the
                            cases, the tolerance is needed for multi-line nodes: the compiler
                            attributes e.g. a bad array element to the element's own line)
   real compiler accepts a mutant            -> ctx.violation("accepted:<operator>")
   rejected, but no diagnostic on the site   -> ctx.violation("wrong-line:<operator>")
   model OK, compiler rejects P              -> ctx.correspondence_broken
   diagnostic kind differs from model's rule -> ctx.correspondence_broken
  Corpus: /verif/corpus/C06/*.nev (first line `# expect: accept` | `# expect: reject line=<n>
  key=<key>`), and the negative samples of <repo>/sample (`*.nev.err` with an `error:` line): each
  must be rejected at the first recorded line.
"""
LEVEL = "proof"

import collections
import json
import multiprocessing.pool
import os
import re
import subprocess
import time

from lib import common

RUN = os.path.join(common.BUILD, "ocaml", "tc", "run")
CORPUS = os.path.join(common.VERIF, "corpus", "C06")
NPROC = 16
ASAN_ENV = "detect_leaks=0:abort_on_error=0:exitcode=99:allocator_may_return_null=1"
ERR_RE = re.compile(r"^<stdin>:(\d+): error: (.*)$")

RULES = ["RAssignConst", "RAssignType", "RVarInitConst", "RArgs", "RNotCallable", "RUndefined", "RAttr",
         "ROperator", "RCond", "RBranches", "RReturn", "RRecordArgs", "RArray", "RIndex", "RRedefined",
         "RSeq", "RUnknownType", "RMatch", "RException"]

# diagnostic text -> rule (front/typecheck.c, front/tcmatch.c, front/tcheckarr.c)
CLASSES = [
    (2, re.compile(r"^cannot assign \S+ .* to var")),
    (1, re.compile(r"^cannot assign different types")),
    (0, re.compile(r"^cannot assign to ")),
    (3, re.compile(r"^function call type mismatch")),
    (4, re.compile(r"^cannot execute function on type")),
    (5, re.compile(r"^cannot find identifier")),
    (6, re.compile(r"^cannot find attribute|^cannot get record attribute")),
    (7, re.compile(r"^cannot exec arithmetic|^cannot exec mod|^cannot compare types|^cannot ne type|"
                   r"^cannot bin not|^cannot negate|^cannot binary")),
    (8, re.compile(r"^cannot execute conditional operator on|^while loop condition|^for loop condition")),
    (9, re.compile(r"^types on conditional expression do not match")),
    (10, re.compile(r"^incorrect return type")),
    (11, re.compile(r"^record create type mismatch")),
    (12, re.compile(r"^array is not well formed|^incorrect types in array")),
    (13, re.compile(r"^cannot deref|^incorrect types .* passed to deref|^incorrect number of dim")),
    (14, re.compile(r"already defined at line")),
    (15, re.compile(r"^last item in sequence|^no type in sequence")),
    (16, re.compile(r"^cannot find record or enum")),
    (17, re.compile(r"^match expression does not cover")),
    (18, re.compile(r"^unknown exception")),
]
# param_expr_cmp prints these before the caller names the offence
PRELUDE = re.compile(r"^expected param |^passing \S+ expression to variable param")


def classify(msgs):
    """set of rule ids named by a list of diagnostic texts"""
    out = set()
    for m in msgs:
        if PRELUDE.search(m):
            continue
        for rid, rx in CLASSES:
            if rx.search(m):
                out.add(rid)
                break
    return out


def drv_env():
    env = dict(os.environ)
    env["ASAN_OPTIONS"] = ASAN_ENV
    env["UBSAN_OPTIONS"] = "print_stacktrace=0:halt_on_error=0"
    env["NEVER_PATH"] = os.path.join(common.REPO, "sample", "lib")
    return env


def run_batch(args):
    drv, path = args
    try:
        p = subprocess.run([drv, "--timeout", "20", "--batch", path], stdout=subprocess.PIPE,
                           stderr=subprocess.STDOUT, env=drv_env(), timeout=1500)
        return p.stdout.decode(errors="replace")
    except subprocess.TimeoutExpired:
        return ""


def parse_out(text, res):
    cur = None
    for line in text.splitlines():
        if line.startswith("@@BEGIN "):
            cur = line.split()[1]
            res[cur] = {"kind": None, "errs": [], "san": False, "end": ""}
        elif cur is None:
            continue
        elif line.startswith("@@OUTCOME "):
            res[cur]["kind"] = line.split()[2]
        elif line.startswith("@@END "):
            res[cur]["end"] = line.split("status=")[-1]
            cur = None
        else:
            m = ERR_RE.match(line)
            if m and not m.group(2).startswith("====="):
                res[cur]["errs"].append((int(m.group(1)), m.group(2)))
            if "AddressSanitizer" in line or "runtime error:" in line or "LeakSanitizer" in line:
                res[cur]["san"] = True


def compile_all(ctx, drv, cases, tag):
    """cases: list of dict with id, src -> dict id -> result"""
    nb = max(1, min(NPROC * 4, len(cases) // 40 + 1))
    paths = []
    for b in range(nb):
        path = os.path.join(ctx.outdir, "batch_%s_%d.txt" % (tag, b))
        with open(path, "w") as f:
            for c in cases[b::nb]:
                f.write("@@@ %s compile-only\n%s\n" % (c["id"], c["src"]))
        paths.append(path)
    res = {}
    with multiprocessing.pool.ThreadPool(NPROC) as pool:
        for out in pool.imap_unordered(run_batch, [(drv, p) for p in paths]):
            parse_out(out, res)
    for p in paths:
        os.remove(p)
    return res


def judge(ctx, c, r, stats, faults):
    """c: case (kind, op, ctx, model, l0, l1, src); r: compiler result.  Returns a short verdict."""
    op, where = c["op"], c["ctx"]
    if r is None or r["kind"] is None or r["san"]:
        faults.append({"id": c["id"], "op": op, "end": (r or {}).get("end"), "sanitizer": bool(r and r["san"])})
        return "compiler-fault"
    if c["model"] == "OK":
        if r["kind"] == "COMPILED":
            return "accepted-ok"
        ctx.correspondence_broken("model-accepts-compiler-rejects",
                                  {"id": c["id"], "errors": r["errs"][:4], "src": c["src"]})
        return "base-rejected"
    rule = int(c["model"][1:])
    if r["kind"] != "COMPILE_ERROR":
        ctx.violation("accepted:%s" % op,
                      "ill-typed program accepted by the compiler: operator %s (%s), context %s" % (op, RULES[rule], where),
                      {"case": c["id"], "operator": op, "context": where, "expected": "COMPILE_ERROR naming %s at line %d" % (RULES[rule], c["l0"]),
                       "observed": r["kind"], "source": c["src"]})
        return "ACCEPTED"
    on_site = [m for (ln, m) in r["errs"] if c["l0"] <= ln <= c["l1"]]
    if r["errs"] and r["errs"][0][0] == 0 and rule in classify([m for (_, m) in r["errs"][:3]]):
        # the diagnostic that names the offence carries line 0 (what lands on the site lines are
        # follow-up diagnostics about the resulting error type)
        on_site = []
    if not on_site:
        lines = sorted({ln for (ln, _) in r["errs"]})
        key = ("wrong-line:line0:%s" % RULES[rule]) if lines[:1] == [0] else ("wrong-line:%s" % op.split(":")[0])
        ctx.violation(key, "diagnostic not reported at the offending line: operator %s, context %s" % (op, where),
                      {"case": c["id"], "operator": op, "context": where, "expected_lines": [c["l0"], c["l1"]],
                       "observed": r["errs"][:5], "source": c["src"]})
        return "WRONG-LINE"
    first_line = r["errs"][0][0]
    stats["line_first_exact" if first_line == c["l0"] else
          ("line_first_within" if c["l0"] <= first_line <= c["l1"] else "line_later_diag")] += 1
    kinds = classify(on_site)
    if rule not in kinds:
        # param_expr_cmp prints its own text ("expected param ... but got ... instead") on the line of
        # the offending expression; the caller's diagnostic that names the rule follows it and may
        # carry the line of the enclosing function / catch clause ("incorrect return type in ...")
        idx = next(i for i, (ln, _) in enumerate(r["errs"]) if c["l0"] <= ln <= c["l1"])
        for (_, m) in r["errs"][idx:]:
            if not PRELUDE.search(m):
                kinds |= classify([m])
                break
    if rule not in kinds:
        ctx.correspondence_broken("diagnostic-kind-differs-from-model-rule",
                                  {"id": c["id"], "operator": op, "model": RULES[rule], "diagnostics": on_site[:4], "src": c["src"]})
        return "kind-differs"
    return "rejected-ok"


def run_corpus(ctx, drv):
    cases = []
    meta = {}
    if os.path.isdir(CORPUS):
        for fn in sorted(os.listdir(CORPUS)):
            if not fn.endswith(".nev"):
                continue
            src = open(os.path.join(CORPUS, fn)).read()
            m = re.match(r"# expect: (accept|reject)(?: line=(\d+))?(?: key=(\S+))?", src)
            if not m:
                continue
            cid = "corpus." + fn[:-4]
            cases.append({"id": cid, "src": src})
            meta[cid] = (m.group(1), int(m.group(2) or 0), m.group(3) or ("corpus:" + fn[:-4]))
    sdir = os.path.join(common.REPO, "sample")
    for fn in sorted(os.listdir(sdir)):
        if fn.endswith(".nev.err"):
            exp = open(os.path.join(sdir, fn)).read()
            m = re.search(r":(\d+): error:", exp)
            nev = os.path.join(sdir, fn[:-4])
            if m and os.path.exists(nev):
                cid = "sample." + fn[:-8]
                cases.append({"id": cid, "src": open(nev).read()})
                meta[cid] = ("reject", int(m.group(1)), "sample:" + fn[:-8])
    res = compile_all(ctx, drv, cases, "corpus")
    n = 0
    for c in cases:
        exp, line, key = meta[c["id"]]
        r = res.get(c["id"])
        if r is None or r["kind"] is None or r["san"]:
            ctx.notes.setdefault("corpus_compiler_faults", []).append(c["id"])
            continue
        n += 1
        if exp == "accept":
            if r["kind"] != "COMPILED":
                ctx.correspondence_broken("corpus-positive-rejected", {"id": c["id"], "errors": r["errs"][:3]})
        else:
            if r["kind"] != "COMPILE_ERROR":
                ctx.violation(key, "ill-typed corpus program accepted by the compiler (%s)" % c["id"],
                              {"case": c["id"], "expected": "COMPILE_ERROR at line %d" % line, "observed": r["kind"],
                               "source": c["src"]})
            elif line and not any(ln == line for (ln, _) in r["errs"]):
                ctx.violation(key if key.startswith("wrong-line:") else "wrong-line:" + key,
                              "diagnostic not at the offending line (%s)" % c["id"],
                              {"case": c["id"], "expected_line": line, "observed": r["errs"][:5], "source": c["src"]})
    return n, len(cases)


def run(ctx):
    ctx.proofs()
    lib = common.repobuild("asan")
    ok, log = common.ocaml_build()
    if not ok and not os.path.exists(RUN):
        raise common.BuildError("ocaml build failed:\n" + log[-3000:])
    if not ok:
        ctx.notes["ocaml_build_warning"] = log[-600:]
    drv = common.cc_driver("nevrun", ["common/nevrun.c"], lib)

    t0 = time.time()
    ncorp, ncorp_all = run_corpus(ctx, drv)
    ctx.notes["corpus_cases"] = ncorp_all
    ctx.count(evaluations=ncorp, nontrivial=ncorp)

    quick = ctx.tier == "quick"
    nprog, kcap, nmatch = (320, 2, 120) if quick else (1600, 3, 500)
    cases_path = os.path.join(ctx.outdir, "cases.jsonl")
    rc, so, se = common.sh([RUN, "gen", str(ctx.seed), str(nprog), str(kcap), str(nmatch), cases_path], timeout=900)
    if rc != 0:
        raise common.BuildError("tc generator failed: " + se[-2000:])
    cases = [json.loads(l) for l in open(cases_path)]
    os.remove(cases_path)
    ctx.notes["generate_s"] = round(time.time() - t0, 1)

    res = compile_all(ctx, drv, cases, "gen")
    stats = collections.Counter()
    per_op = collections.Counter()
    per_ctx = collections.Counter()
    table = collections.Counter()
    verdicts = collections.Counter()
    faults = []
    distinct = set()
    gen_bad = 0
    for c in cases:
        if c["kind"] == "base" and c["model"] != "OK":
            gen_bad += 1          # the generator produced something the model rejects: not a case
            continue
        v = judge(ctx, c, res.get(c["id"]), stats, faults)
        verdicts[v] += 1
        if c["model"] != "OK" and v in ("rejected-ok", "ACCEPTED", "WRONG-LINE", "kind-differs"):
            per_op[c["op"]] += 1
            per_ctx[c["ctx"]] += 1
            table["%s | %s" % (c["op"], c["ctx"])] += 1
            distinct.add((c["op"], c["ctx"], c["model"], c["group"]))
        if v == "rejected-ok" and c["op"] in ("AssignToParam", "WrongArgKind:func-ret", "MatchOmitEnumerator", "UnknownException"):
            ctx.sample({"operator": c["op"], "context": c["ctx"], "model": RULES[int(c["model"][1:])],
                        "site_lines": [c["l0"], c["l1"]], "compiler": res[c["id"]]["errs"][:2],
                        "source_tail": c["src"][-400:]}, limit=5)
    if gen_bad:
        ctx.correspondence_broken("generator-produced-model-rejected-program", {"count": gen_bad})
    ctx.count(evaluations=sum(verdicts.values()), nontrivial=len(distinct))
    ctx.coverage["rule"] = ("one case = one compilation by the tree's compiler of a generated well-typed program or of one "
                            "single-fault mutant of it; non-trivial = distinct (operator, nesting context, model rule, program) "
                            "mutants that reached a verdict")
    ctx.coverage["exhaustive"] = False
    ctx.coverage["verdicts"] = dict(verdicts)
    ctx.coverage["mutants_per_operator"] = dict(sorted(per_op.items()))
    ctx.coverage["mutants_per_context"] = dict(sorted(per_ctx.items()))
    ctx.coverage["operator_x_context"] = dict(sorted(table.items()))
    ctx.coverage["line_attribution"] = dict(stats)
    ctx.coverage["programs"] = verdicts["accepted-ok"]
    ctx.coverage["generator"] = {"programs": nprog, "cap_per_operator_and_context": kcap, "match_templates": nmatch,
                                 "seed": ctx.seed}
    ctx.coverage["skipped"] = {"compiler_fault_or_sanitizer_report (not a C06 matter, see C05)": len(faults),
                               "examples": faults[:3]}
    if faults:
        # keep one reproducer for whoever owns C05
        f0 = faults[0]
        src = next(c["src"] for c in cases if c["id"] == f0["id"])
        with open(os.path.join(ctx.outdir, "compiler_fault_example.nev"), "w") as f:
            f.write(src)
    ctx.notes["compile_s"] = round(time.time() - t0, 1)
