(* The shape machine of Verifier/Shape.v with a configured stack size (property C14), and the
   heap limit restated from the collector proofs.

   run_limited size obs   runs the shape machine along the observations; before it accepts a
                          step it executes the write plan of the instruction under `size` and
                          stops with LimitAt i ("stack too large" at step i) or OobAt i idx.
   limit_monotone_stack   a run that completes under S completes identically (same states, and
                          the same as the unlimited machine) under every S' >= S
   limit_fires_iff_needed under check-first plans the run stops at step i exactly when i is the
                          first step whose resulting sp is >= size; it never writes outside
   oom_reported           an allocation on a full heap reports out of memory, nothing is written
   No axioms. *)
From Coq Require Import ZArith List Arith Bool Lia.
From NV Require Import Gen.Opcodes Verifier.Shape Verifier.Effect VM.StackBound VM.StackBoundProofs.
From NV Require Base.TMap GC.GCModel GC.GCSpec GC.GCProofs.
Import ListNotations.
Local Open Scope Z_scope.

Section Limited.
Variable prog : list rinstr.
Variable handler : nat -> option nat.
Variable np : nat -> nat.
Variable is_entry : nat -> bool.
Variable entry : nat.
Variable v : variant.

Definition code (a : nat) : option ainstr := decode prog a.
Definition sstep := Shape.step code handler np is_entry entry.
Definition srun := Shape.run code handler np is_entry entry.

Definition sp_of (s : st) : Z := Z.of_nat (length (stk s)) - 1.

(* the handler raised a language exception: control did not go where the instruction sends it *)
Definition fault_obs (s : st) (ip' len' : nat) : bool :=
  match code (ip s) with
  | Some (AOp _ _ _) => negb (ip' =? S (ip s))%nat
  | Some (AFfi r) => negb ((ip' =? r) && (len' =? P s + 1))%nat
  | _ => false
  end.

Definition tstep_obs (s : st) (ip' len' : nat) : option tstep :=
  match nth_error prog (ip s) with
  | Some i => Some {| t_instr := i; t_fault := fault_obs s ip' len'; t_sp := sp_of s; t_sp' := Z.of_nat len' - 1 |}
  | None => None
  end.

Definition plan_obs (s : st) (ip' len' : nat) : list act :=
  match tstep_obs s ip' len' with Some t => tplan v t | None => [] end.

Inductive lout :=
| LNext (s : st)
| LimitAt (i : nat)
| OobAt (i : nat) (idx : Z)
| LOther (o : outcome).          (* Mismatch / Crash / ArityStuck / Stop of the shape machine *)

Fixpoint run_limited (size : Z) (s : st) (obs : list (nat * nat)) (i : nat) : lout :=
  match obs with
  | [] => LNext s
  | (ip', len') :: rest =>
    match sstep s ip' len' with
    | Next s' =>
      match exec_writes size (sp_of s) (plan_obs s ip' len') with
      | Ok _ => run_limited size s' rest (S i)
      | LimitReported => LimitAt i
      | OobWrite idx => OobAt i idx
      end
    | o => LOther o
    end
  end.

(* the unlimited machine, in the same result type *)
Definition lift (o : outcome) : lout := match o with Next s => LNext s | o => LOther o end.

Theorem limit_monotone_stack : forall obs S S' s i r,
  S <= S' ->
  run_limited S s obs i = r ->
  (forall j, r <> LimitAt j) -> (forall j idx, r <> OobAt j idx) ->
  run_limited S' s obs i = r /\ lift (srun s obs) = r.
Proof.
  induction obs as [|[ip' len'] rest IH]; intros S S' s i r HS H NL NO; cbn [run_limited] in *.
  - subst r. split; reflexivity.
  - unfold srun. cbn [run]. fold sstep. fold srun.
    destruct (sstep s ip' len') as [s'| | | |] eqn:E; try (subst r; split; reflexivity).
    destruct (exec_writes S (sp_of s) (plan_obs s ip' len')) as [q| |idx] eqn:X.
    + rewrite (exec_mono _ _ _ _ _ HS X). eapply IH; eauto.
    + exfalso. eapply NL; eauto.
    + exfalso. eapply NO; eauto.
Qed.

(* a run that completes: same final state under every larger size and on the unlimited machine *)
Corollary limit_monotone_completes : forall obs S S' s s' i,
  S <= S' -> run_limited S s obs i = LNext s' ->
  run_limited S' s obs i = LNext s' /\ srun s obs = Next s'.
Proof.
  intros obs S S' s s' i HS H.
  destruct (limit_monotone_stack obs S S' s i (LNext s') HS H) as [A B]; try discriminate.
  split; [exact A|]. destruct (srun s obs); cbn in B; try discriminate. inversion B; reflexivity.
Qed.

(* first step of the unlimited run whose resulting sp reaches the size *)
Fixpoint first_need_obs (size : Z) (s : st) (obs : list (nat * nat)) (i : nat) : lout :=
  match obs with
  | [] => LNext s
  | (ip', len') :: rest =>
    match sstep s ip' len' with
    | Next s' => if size <=? Z.of_nat len' - 1 then LimitAt i else first_need_obs size s' rest (S i)
    | o => LOther o
    end
  end.

(* what the lock-step driver checks for every step of a real trace *)
Definition obs_consistent (s : st) (ip' len' : nat) : Prop :=
  match tstep_obs s ip' len' with
  | Some t => step_consistent v t = true /\ variant_covers v t
  | None => False
  end.

Fixpoint all_consistent (s : st) (obs : list (nat * nat)) : Prop :=
  match obs with
  | [] => True
  | (ip', len') :: rest =>
    match sstep s ip' len' with
    | Next s' => obs_consistent s ip' len' /\ all_consistent s' rest
    | _ => True
    end
  end.

Ltac split_step H :=
  repeat match type of H with
  | context [match ?c with _ => _ end] => destruct c eqn:?; try discriminate
  end.

Ltac boolfacts :=
  repeat match goal with
  | H : negb _ = false |- _ => apply negb_false_iff in H
  | H : _ && _ = true |- _ => apply andb_true_iff in H; destruct H
  | H : (_ =? _)%nat = true |- _ => apply Nat.eqb_eq in H
  | H : (_ <=? _)%nat = true |- _ => apply Nat.leb_le in H
  | H : (_ <? _)%nat = false |- _ => apply Nat.ltb_ge in H
  end.

Lemma sstep_len : forall s ip' len' s', sstep s ip' len' = Next s' -> length (stk s') = len'.
Proof.
  intros s ip' len' s' H. unfold sstep, step, fault, unwind, setip in H.
  split_step H; inversion H; subst; cbn [stk]; boolfacts; subst;
    rewrite ?app_length, ?firstn_length, ?skipn_length, ?repeat_length; cbn [length]; lia.
Qed.

Theorem limit_fires_iff_needed : forall obs S s i,
  sp_of s < S -> all_consistent s obs ->
  run_limited S s obs i = first_need_obs S s obs i.
Proof.
  induction obs as [|[ip' len'] rest IH]; intros S s i Hsp AC; [reflexivity|].
  cbn [run_limited first_need_obs all_consistent] in *.
  destruct (sstep s ip' len') as [s'| | | |] eqn:E; try reflexivity.
  destruct AC as [OC AC]. unfold obs_consistent in OC. unfold plan_obs.
  destruct (tstep_obs s ip' len') as [t|] eqn:T; [|contradiction].
  destruct OC as [Ct Vt].
  assert (Tsp : t_sp t = sp_of s /\ t_sp' t = Z.of_nat len' - 1).
  { unfold tstep_obs in T. destruct (nth_error prog (ip s)); [|discriminate]. inversion T; subst; cbn; auto. }
  destruct Tsp as [T1 T2].
  pose proof (run_plans_fires_iff_needed v [t] S (t_sp t) i) as R.
  cbn [chained] in R. specialize (R (conj eq_refl I)). rewrite T1 in R. specialize (R Hsp).
  specialize (R (Forall_cons _ Ct (Forall_nil _)) (Forall_cons _ Vt (Forall_nil _))).
  rewrite run_plans_unfold in R. cbn [first_need run_plans] in R. rewrite T1, T2 in R.
  destruct (S <=? Z.of_nat len' - 1) eqn:L.
  - destruct (exec_writes S (sp_of s) (tplan v t)); try discriminate. inversion R; reflexivity.
  - destruct (exec_writes S (sp_of s) (tplan v t)); try discriminate.
    apply IH; auto. unfold sp_of. rewrite (sstep_len _ _ _ _ E). apply Z.leb_gt in L. lia.
Qed.

(* in particular no step of such a run writes outside the configured stack *)
Corollary limited_run_never_oob : forall obs S s i j idx,
  sp_of s < S -> all_consistent s obs -> run_limited S s obs i <> OobAt j idx.
Proof.
  intros obs S s i j idx Hsp AC. rewrite (limit_fires_iff_needed obs S s i Hsp AC).
  clear Hsp AC. revert s i. induction obs as [|[ip' len'] rest IH]; intros s i; cbn; [discriminate|].
  destruct (sstep s ip' len'); try discriminate.
  destruct (S <=? Z.of_nat len' - 1); [discriminate|]. apply IH.
Qed.

End Limited.

(* ---- heap limit ------------------------------------------------------------------------------ *)

Import NV.Base.TMap NV.GC.GCModel NV.GC.GCSpec NV.GC.GCProofs.
Local Open Scope N_scope.

(* gc_alloc_any (back/gc.c): `free == 0` -> "out of memory", exit(1), before any write.  The model
   returns None (no new heap state exists: nothing was written) exactly when no cell is free;
   otherwise exactly one cell changes and it was free. *)
Theorem oom_reported : forall g o, WF g ->
  (gc_alloc_any g o = None <-> (forall a, in_range g a -> allocated g a)) /\
  (forall g' a, gc_alloc_any g o = Some (g', a) ->
     in_range g a /\ ~ allocated g a /\ tget (g_obj g') a = Some o /\
     (forall b, b <> a -> tget (g_obj g') b = tget (g_obj g) b)).
Proof.
  intros g o W. split.
  - apply alloc_oom_iff_full; exact W.
  - intros g' a H. eapply alloc_hands_out_a_free_cell; eauto.
Qed.
