(* C04 — an object the program can still reach is never reclaimed or altered by a collection;
   consequently what a program computes is the same for every heap size and every placement
   of collections for which it does not run out of memory.
   Only statements here; every proof is `exact <lemma>` into GC/GCPreserve.v (heap level,
   on top of the C09 development) and GC/GCTransparent.v (schedule theorem for the
   path-addressed mutator language over the collector model). *)
From Coq Require Import NArith List Bool.
From NV Require Import Base.TMap GC.GCModel GC.GCSpec GC.GCProofs GC.GCPreserve GC.GCTransparent.
Import ListNotations.
Local Open Scope N_scope.

(* ---- heap level ---------------------------------------------------------------------- *)

(* every cell reachable from the roots before a collection is allocated afterwards and holds
   the identical object (kind, payload, references); reachability from the roots is
   unchanged; the heap stays well-formed and closed *)
Theorem collect_preserves_reachable : forall g roots g',
  WF g -> Closed g -> roots_ok g roots -> gc_collect g roots = COk g' ->
  (forall a, reach g roots a ->
             allocated g' a /\ tget (g_obj g') a = tget (g_obj g) a) /\
  (forall a, reach g' roots a <-> reach g roots a) /\
  WF g' /\ Closed g'.
Proof. exact GCPreserve.collect_preserves_reachable. Qed.
Print Assumptions collect_preserves_reachable.

(* the same for gc_run as the VM calls it (stack slots + global vector), whether or not the
   0.8 threshold triggers *)
Theorem run_preserves_reachable : forall g roots gv g',
  WF g -> Closed g -> roots_ok g (gv :: roots) -> gc_run g roots gv = COk g' ->
  (forall a, reach g (gv :: roots) a ->
             allocated g' a /\ tget (g_obj g') a = tget (g_obj g) a) /\
  (forall a, reach g' (gv :: roots) a <-> reach g (gv :: roots) a) /\
  WF g' /\ Closed g'.
Proof. exact GCPreserve.run_preserves_reachable. Qed.
Print Assumptions run_preserves_reachable.

(* every path from a root reads the same values before and after *)
Theorem deep_read_invariant : forall g roots g',
  WF g -> Closed g -> roots_ok g roots -> gc_collect g roots = COk g' ->
  forall r path, In r roots -> read_path g' r path = read_path g r path.
Proof. exact GCPreserve.deep_read_invariant. Qed.
Print Assumptions deep_read_invariant.

Theorem deep_read_invariant_run : forall g roots gv g',
  WF g -> Closed g -> roots_ok g (gv :: roots) -> gc_run g roots gv = COk g' ->
  forall r path, In r (gv :: roots) -> read_path g' r path = read_path g r path.
Proof. exact GCPreserve.deep_read_invariant_run. Qed.
Print Assumptions deep_read_invariant_run.

(* collecting twice with the same roots = collecting once *)
Theorem collect_idempotent : forall g roots g' g'',
  WF g -> Closed g -> roots_ok g roots ->
  gc_collect g roots = COk g' -> gc_collect g' roots = COk g'' ->
  (forall a, allocated g'' a <-> allocated g' a) /\
  (forall a, tget (g_obj g'') a = tget (g_obj g') a).
Proof. exact GCPreserve.collect_idempotent. Qed.
Print Assumptions collect_idempotent.

(* ---- schedule level -------------------------------------------------------------------- *)

(* for every mutator program (any automaton over the operations alloc / load field / store
   field / set scalar / copy / clear / read / compare / collect, naming registers only),
   every two schedules (a schedule may even inspect the heap), every two heap sizes and
   register counts: if neither run reports out of memory, both produce the same observation
   sequence and the same final status *)
Theorem gc_schedule_transparent :
  forall (p : program) (sg1 sg2 : schedule) (size1 size2 : N) (nregs fuel : nat),
  2 <= size1 -> 2 <= size2 ->
  snd (run_from_new p sg1 size1 nregs fuel) <> Oom ->
  snd (run_from_new p sg2 size2 nregs fuel) <> Oom ->
  run_from_new p sg1 size1 nregs fuel = run_from_new p sg2 size2 nregs fuel.
Proof. exact GCTransparent.gc_schedule_transparent. Qed.
Print Assumptions gc_schedule_transparent.

(* instances: never / after every operation / the collector's own 0.8 threshold *)
Theorem gc_never_always_threshold :
  forall (p : program) (size : N) (nregs fuel : nat), 2 <= size ->
  snd (run_from_new p sched_never size nregs fuel) <> Oom ->
  snd (run_from_new p sched_always size nregs fuel) <> Oom ->
  snd (run_from_new p sched_threshold size nregs fuel) <> Oom ->
  run_from_new p sched_never size nregs fuel = run_from_new p sched_always size nregs fuel /\
  run_from_new p sched_never size nregs fuel = run_from_new p sched_threshold size nregs fuel.
Proof. exact GCTransparent.gc_never_always_threshold. Qed.
Print Assumptions gc_never_always_threshold.

(* a collection scheduled anywhere in a run always succeeds (mark fuel suffices, no object is
   read through the wrong accessor) *)
Theorem run_never_collfail :
  forall (p : program) (sg : schedule) (size : N) (nregs fuel : nat), 2 <= size ->
  snd (run_from_new p sg size nregs fuel) <> CollFail.
Proof. exact GCTransparent.run_never_collfail. Qed.
Print Assumptions run_never_collfail.

(* ---- non-vacuity ------------------------------------------------------------------------ *)

(* a concrete heap: int 5 (cell 1), a vector [cell 1; itself] (cell 2, a cycle), a closure
   over that vector (cell 3), and two garbage ints (cells 4, 5); root = the closure *)
Definition ex_ops : list op :=
  [OpAlloc (OScalar 1 [5]); OpAlloc (OVec [1; 0]); OpSetVec 2 1 2; OpAlloc (OFunc 2 7);
   OpAlloc (OScalar 1 [6]); OpAlloc (OScalar 1 [8])].
Definition ex_heap : gc := run_history 8 ex_ops.
Definition ex_after : gc :=
  match gc_collect ex_heap [3] with COk g' => g' | _ => ex_heap end.

Example ex_hypotheses :
  WF ex_heap /\ Closed ex_heap /\ roots_ok ex_heap [3] /\ gc_collect ex_heap [3] = COk ex_after.
Proof.
  destruct (GCProofs.gc_wf_history 8 ex_ops) as (W & C); [vm_compute; discriminate|].
  split; [exact W|]. split; [exact C|]. split.
  - intros r [<-|[]]. right. unfold allocated. vm_compute. discriminate.
  - vm_compute. reflexivity.
Qed.

Example ex_collection_frees_garbage_keeps_cycle :
  cur_list ex_heap = [1; 2; 3; 4; 5] /\ cur_list ex_after = [1; 2; 3] /\
  free_list ex_after = Some [5; 4; 6; 7] /\
  (* closure -> env -> slot 1 (the vector again) -> slot 1 -> slot 0 = the int 5 *)
  read_path ex_heap 3 [0; 1; 1; 0] = Some (OScalar 1 [5]) /\
  read_path ex_after 3 [0; 1; 1; 0] = Some (OScalar 1 [5]) /\
  read_path ex_after 3 [0; 1] = Some (OVec [1; 2]).
Proof. vm_compute. repeat split; reflexivity. Qed.

(* a mutator program: builds the same cyclic closure through registers, drops its direct
   references, produces garbage, then reads back through the closure and updates the int *)
Definition ex_prog : program := prog_of_list
  [MAlloc 0 (SScalar 1 [5]); MAlloc 1 (SVec [0; 3]%nat); MStore 1 1 1; MAlloc 2 (SFunc 1 7);
   MClear 0; MClear 1;
   MAlloc 0 (SScalar 1 [6]); MClear 0; MAlloc 0 (SScalar 1 [7]); MClear 0;
   MAlloc 0 (SScalar 1 [8]); MClear 0;
   MLoad 1 2 0; MLoad 3 1 1; MEqRef 1 3; MEqRef 1 2;
   MLoad 0 3 0; MRead 0; MSetScalar 0 [9]; MClear 0; MLoad 0 1 0; MRead 0;
   MRead 2; MRead 1; MRead 5].

Definition ex_obs : list obs :=
  [ObsBool true; ObsBool false; ObsObj (OScalar 1 [5]); ObsObj (OScalar 1 [9]);
   ObsObj (OFunc 1 7); ObsObj (OVec [1; 1]); ObsNil].

Example ex_schedules_agree :
  run_from_new ex_prog sched_never 12 4 100 = (ex_obs, Done) /\
  run_from_new ex_prog sched_always 5 4 100 = (ex_obs, Done) /\
  run_from_new ex_prog sched_threshold 7 4 100 = (ex_obs, Done) /\
  run_from_new ex_prog (sched_of (fun n => Nat.even n)) 6 6 100 = (ex_obs, Done).
Proof. vm_compute. repeat split; reflexivity. Qed.

(* the out-of-memory hypothesis matters, and collections are what avoids it: in 5 cells the
   program completes only if garbage is collected *)
Example ex_oom_without_collection :
  snd (run_from_new ex_prog sched_never 5 4 100) = Oom.
Proof. vm_compute. reflexivity. Qed.
