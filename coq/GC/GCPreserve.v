(* C04, heap level — a collection never reclaims or alters an object the program can still
   reach (statements of Properties/Properties_C04.v about the collector model GC/GCModel.v,
   back/gc.c).  Built on GCProofs.collect_all / run_all.  No axioms. *)
From Coq Require Import NArith List Bool Lia.
From NV Require Import Base.TMap GC.GCModel GC.GCSpec GC.GCLemmasBase GC.GCLemmasHeap GC.GCProofs.
Import ListNotations.
Local Open Scope N_scope.

(* ---- reachability is determined by the objects of the reachable cells -------------------- *)

Lemma reach_transfer g g' R :
  (forall a, reach g R a -> tget (g_obj g') a = tget (g_obj g) a) ->
  forall a, reach g R a -> reach g' R a.
Proof.
  intros Hsame a H. induction H as [r Hr Hr0|a o c Ha IH Ho Hc Hc0].
  - apply reach_root; assumption.
  - apply (reach_step g' R a o c IH); [|exact Hc|exact Hc0].
    rewrite (Hsame a Ha). exact Ho.
Qed.

Lemma reach_transfer_back g g' R :
  (forall a, reach g R a -> tget (g_obj g') a = tget (g_obj g) a) ->
  forall a, reach g' R a -> reach g R a.
Proof.
  intros Hsame a H. induction H as [r Hr Hr0|a o c Ha IH Ho Hc Hc0].
  - apply reach_root; assumption.
  - apply (reach_step g R a o c IH); [|exact Hc|exact Hc0].
    rewrite <- (Hsame a IH). exact Ho.
Qed.

(* what "the collection left everything reachable alone" means, for a root list R *)
Record Preserved (g : gc) (R : list N) (g' : gc) : Prop := {
  pres_kept : forall a, reach g R a ->
              allocated g' a /\ tget (g_obj g') a = tget (g_obj g) a;
  pres_reach : forall a, reach g' R a <-> reach g R a;
  pres_wf : WF g';
  pres_closed : Closed g'
}.

Lemma Preserved_refl g R : WF g -> Closed g -> roots_ok g R -> Preserved g R g.
Proof.
  intros W C HR. constructor.
  - intros a Ha. split; [exact (reach_alloc g R C HR a Ha)|reflexivity].
  - intros a. tauto.
  - exact W.
  - exact C.
Qed.

Lemma Preserved_of_exact g R g' : WF g -> Closed g -> roots_ok g R ->
  WF g' -> Closed g' ->
  (forall a, allocated g' a <-> reach g R a) ->
  (forall a, reach g R a -> tget (g_obj g') a = tget (g_obj g) a) ->
  Preserved g R g'.
Proof.
  intros W C HR W' C' Hex Hsame. constructor.
  - intros a Ha. split; [apply Hex; exact Ha|apply Hsame; exact Ha].
  - intros a. split.
    + apply reach_transfer_back. exact Hsame.
    + apply reach_transfer. exact Hsame.
  - exact W'.
  - exact C'.
Qed.

(* gc_run_omfalos / the unconditional collection *)
Theorem collect_preserves_reachable : forall g roots g',
  WF g -> Closed g -> roots_ok g roots -> gc_collect g roots = COk g' ->
  (forall a, reach g roots a ->
             allocated g' a /\ tget (g_obj g') a = tget (g_obj g) a) /\
  (forall a, reach g' roots a <-> reach g roots a) /\
  WF g' /\ Closed g'.
Proof.
  intros g roots g' W C HR H.
  destruct (collect_all g roots g' W C HR H) as (W' & C' & _ & Hex & Hsame).
  destruct (Preserved_of_exact g roots g' W C HR W' C' Hex Hsame) as [P1 P2 P3 P4].
  split; [exact P1|]. split; [exact P2|]. split; assumption.
Qed.

(* gc_run as called by the VM: stack roots plus the global vector, trigger or not *)
Theorem run_preserves_reachable : forall g roots gv g',
  WF g -> Closed g -> roots_ok g (gv :: roots) -> gc_run g roots gv = COk g' ->
  (forall a, reach g (gv :: roots) a ->
             allocated g' a /\ tget (g_obj g') a = tget (g_obj g) a) /\
  (forall a, reach g' (gv :: roots) a <-> reach g (gv :: roots) a) /\
  WF g' /\ Closed g'.
Proof.
  intros g roots gv g' W C HR H.
  assert (P : Preserved g (gv :: roots) g').
  { destruct (run_all g roots gv g' W C HR H) as [(_ & ->)|(_ & W' & C' & _ & Hex & Hsame)].
    - apply Preserved_refl; assumption.
    - apply Preserved_of_exact; assumption. }
  destruct P as [P1 P2 P3 P4].
  split; [exact P1|]. split; [exact P2|]. split; assumption.
Qed.

(* ---- every path from the roots reads the same values -------------------------------------- *)

(* follow the i-th reference of each object along the path, starting at cell a; None = the
   path leaves the heap (nil, index out of range, or a cell holding no object) *)
Fixpoint read_path (g : gc) (a : N) (path : list N) {struct path} : option obj :=
  if a =? 0 then None
  else match tget (g_obj g) a with
       | None => None
       | Some o =>
         match path with
         | [] => Some o
         | i :: p => match nth_error (refs o) (N.to_nat i) with
                     | Some c => read_path g c p
                     | None => None
                     end
         end
       end.

Lemma read_path_same g g' R :
  (forall a, reach g R a -> tget (g_obj g') a = tget (g_obj g) a) ->
  forall path a, (a = 0 \/ reach g R a) -> read_path g' a path = read_path g a path.
Proof.
  intros Hsame. induction path as [|i p IH]; intros a Ha.
  - cbn [read_path]. destruct (N.eqb_spec a 0) as [E|E]; [reflexivity|].
    destruct Ha as [Ha|Ha]; [contradiction|]. rewrite (Hsame a Ha). reflexivity.
  - cbn [read_path]. destruct (N.eqb_spec a 0) as [E|E]; [reflexivity|].
    destruct Ha as [Ha|Ha]; [contradiction|]. rewrite (Hsame a Ha).
    destruct (tget (g_obj g) a) as [o|] eqn:Ho; [|reflexivity].
    destruct (nth_error (refs o) (N.to_nat i)) as [c|] eqn:Hc; [|reflexivity].
    apply IH. destruct (N.eq_dec c 0) as [Ec|Ec]; [now left|right].
    apply (reach_step g R a o c Ha Ho); [|exact Ec]. eapply nth_error_In. exact Hc.
Qed.

Lemma root_zero_or_reach g R r : roots_ok g R -> In r R -> r = 0 \/ reach g R r.
Proof.
  intros HR Hr. destruct (N.eq_dec r 0) as [E|E]; [now left|right].
  apply reach_root; assumption.
Qed.

Theorem deep_read_invariant : forall g roots g',
  WF g -> Closed g -> roots_ok g roots -> gc_collect g roots = COk g' ->
  forall r path, In r roots -> read_path g' r path = read_path g r path.
Proof.
  intros g roots g' W C HR H r path Hr.
  destruct (collect_all g roots g' W C HR H) as (_ & _ & _ & _ & Hsame).
  apply (read_path_same g g' roots Hsame). apply root_zero_or_reach; assumption.
Qed.

Theorem deep_read_invariant_run : forall g roots gv g',
  WF g -> Closed g -> roots_ok g (gv :: roots) -> gc_run g roots gv = COk g' ->
  forall r path, In r (gv :: roots) -> read_path g' r path = read_path g r path.
Proof.
  intros g roots gv g' W C HR H r path Hr.
  destruct (run_preserves_reachable g roots gv g' W C HR H) as (Hk & _).
  apply (read_path_same g g' (gv :: roots)).
  - intros a Ha. exact (proj2 (Hk a Ha)).
  - apply root_zero_or_reach; assumption.
Qed.

(* ---- a second collection with the same roots changes nothing ------------------------------ *)

Lemma roots_ok_after g R g' : roots_ok g R ->
  (forall a, reach g R a -> allocated g' a) -> roots_ok g' R.
Proof.
  intros HR Hk r Hr. destruct (root_zero_or_reach g R r HR Hr) as [E|E]; [now left|right].
  apply Hk. exact E.
Qed.

Theorem collect_idempotent : forall g roots g' g'',
  WF g -> Closed g -> roots_ok g roots ->
  gc_collect g roots = COk g' -> gc_collect g' roots = COk g'' ->
  (forall a, allocated g'' a <-> allocated g' a) /\
  (forall a, tget (g_obj g'') a = tget (g_obj g') a).
Proof.
  intros g roots g' g'' W C HR H1 H2.
  destruct (collect_all g roots g' W C HR H1) as (W' & C' & _ & Hex1 & Hsame1).
  assert (HR' : roots_ok g' roots).
  { apply (roots_ok_after g roots g' HR). intros a Ha. apply Hex1. exact Ha. }
  destruct (collect_all g' roots g'' W' C' HR' H2) as (_ & _ & _ & Hex2 & Hsame2).
  assert (Hr : forall a, reach g' roots a <-> reach g roots a).
  { intros a. split; [apply reach_transfer_back|apply reach_transfer]; exact Hsame1. }
  assert (Hal : forall a, allocated g'' a <-> allocated g' a).
  { intros a. rewrite Hex2, Hr, Hex1. tauto. }
  split; [exact Hal|].
  intros a. destruct (tget (g_obj g') a) as [o|] eqn:Eo.
  - rewrite <- Eo. apply Hsame2. apply Hr. apply Hex1. unfold allocated. rewrite Eo. discriminate.
  - destruct (tget (g_obj g'') a) as [o''|] eqn:Eo''; [|reflexivity].
    exfalso. assert (Ha : allocated g'' a) by (unfold allocated; rewrite Eo''; discriminate).
    apply Hal in Ha. apply Ha. exact Eo.
Qed.

(* a collection can be taken at any moment: the roots stay valid roots afterwards *)
Lemma collect_roots_ok g roots g' :
  WF g -> Closed g -> roots_ok g roots -> gc_collect g roots = COk g' -> roots_ok g' roots.
Proof.
  intros W C HR H.
  destruct (collect_all g roots g' W C HR H) as (_ & _ & _ & Hex & _).
  apply (roots_ok_after g roots g' HR). intros a Ha. apply Hex. exact Ha.
Qed.
