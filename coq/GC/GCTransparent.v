(* C04, heap level — the placement of collections (and the heap size) cannot be observed by a
   program that does not run out of memory.

   A *path-addressed mutator language* over an array of root registers: programs name
   registers and field indices, never raw addresses.  Its semantics runs on the collector
   model GC/GCModel.v (back/gc.c); after the n-th operation a schedule oracle decides whether
   a collection (gc_collect, roots = the registers) takes place.

   gc_schedule_transparent: for every program, every two schedules, every two heap sizes,
   if neither run reports out-of-memory the two runs produce the same observations and end
   in the same status.

   Proof: a simulation through a partial bijection between the addresses of the two heaps
   (registers related pointwise; related cells hold objects of the same kind and payload
   whose references are related).  An allocation extends the bijection by the two fresh
   cells; a collection on either side restricts it to the cells reachable on that side
   (GCProofs.collect_all: reachable cells survive unchanged).  No axioms. *)
From Coq Require Import NArith List Bool Lia.
From NV Require Import Base.TMap GC.GCModel GC.GCSpec GC.GCLemmasBase GC.GCLemmasHeap GC.GCProofs
                       GC.GCPreserve.
Import ListNotations.
Local Open Scope N_scope.

(* ================================================================================== *)
(* The mutator language                                                               *)
(* ================================================================================== *)

(* root registers: a list of cell addresses (0 = nil); an index past the end reads nil and
   writes nothing *)
Definition rget (regs : list N) (i : nat) : N := nth i regs 0.

Fixpoint rset (regs : list N) (i : nat) (v : N) : list N :=
  match regs, i with
  | [], _ => []
  | _ :: t, O => v :: t
  | h :: t, S j => h :: rset t j v
  end.

(* the object to allocate; every reference is taken from a register *)
Inductive shape :=
| SScalar (kind : N) (payload : list N)
| SStrRef (r : nat)
| SVec (rs : list nat)
| SVecRef (r : nat)
| SArr (dims : list N) (rs : list nat)
| SArrRef (r : nat)
| SFunc (r : nat) (ip : N).

Definition mk_obj (regs : list N) (s : shape) : obj :=
  match s with
  | SScalar k p => OScalar k p
  | SStrRef r => OStrRef (rget regs r)
  | SVec rs => OVec (map (rget regs) rs)
  | SVecRef r => OVecRef (rget regs r)
  | SArr d rs => OArr d (map (rget regs) rs)
  | SArrRef r => OArrRef (rget regs r)
  | SFunc r ip => OFunc (rget regs r) ip
  end.

Inductive mop :=
| MAlloc (dst : nat) (s : shape)           (* reg dst := address of a new object *)
| MLoad (dst src : nat) (i : N)            (* reg dst := i-th reference of the object in reg src *)
| MStore (tgt : nat) (i : N) (src : nat)   (* i-th reference of the object in reg tgt := reg src *)
| MSetScalar (tgt : nat) (p : list N)      (* payload of the scalar in reg tgt := p *)
| MCopy (dst src : nat)
| MClear (dst : nat)
| MRead (src : nat)                        (* observe the object in reg src (addresses erased) *)
| MEqRef (a b : nat)                       (* observe whether two registers hold the same cell *)
| MCollect.                                (* an explicit collection *)

(* what a program can see of an object: everything but the addresses (a reference shows
   only whether it is nil) *)
Definition nz (c : N) : N := if c =? 0 then 0 else 1.

Definition erase (o : obj) : obj :=
  match o with
  | OScalar k p => OScalar k p
  | OStrRef r => OStrRef (nz r)
  | OVec l => OVec (map nz l)
  | OVecRef r => OVecRef (nz r)
  | OArr d l => OArr d (map nz l)
  | OArrRef r => OArrRef (nz r)
  | OFunc v ip => OFunc (nz v) ip
  end.

Inductive obs := ObsNil | ObsObj (o : obj) | ObsBool (b : bool).

(* store into the i-th reference slot *)
Definition store_obj (o : obj) (i : N) (v : N) : option obj :=
  match o with
  | OScalar _ _ => None
  | OStrRef _ => if i =? 0 then Some (OStrRef v) else None
  | OVec l => match list_set l (N.to_nat i) v with Some l' => Some (OVec l') | None => None end
  | OVecRef _ => if i =? 0 then Some (OVecRef v) else None
  | OArr d l => match list_set l (N.to_nat i) v with Some l' => Some (OArr d l') | None => None end
  | OArrRef _ => if i =? 0 then Some (OArrRef v) else None
  | OFunc _ ip => if i =? 0 then Some (OFunc v ip) else None
  end.

(* the kind of cell the holder's accessor expects behind the stored reference *)
Definition want_of (o : obj) : obj -> bool :=
  match o with
  | OStrRef _ => is_str
  | OVecRef _ | OFunc _ _ => is_vec
  | OArrRef _ => is_arr
  | _ => any_obj
  end.

Inductive mures := MuOk (g : gc) (regs : list N) (ob : list obs) | MuOom | MuStuck | MuFail.

Definition mstep (g : gc) (regs : list N) (o : mop) : mures :=
  match o with
  | MAlloc dst s =>
    let ob := mk_obj regs s in
    if obj_ok g ob then
      match gc_alloc_any g ob with
      | Some (g', a) => MuOk g' (rset regs dst a) []
      | None => MuOom
      end
    else MuStuck
  | MLoad dst src i =>
    match tget (g_obj g) (rget regs src) with
    | Some ob => match nth_error (refs ob) (N.to_nat i) with
                 | Some c => MuOk g (rset regs dst c) []
                 | None => MuStuck
                 end
    | None => MuStuck
    end
  | MStore tgt i src =>
    let a := rget regs tgt in
    let v := rget regs src in
    match tget (g_obj g) a with
    | Some ob => match store_obj ob i v with
                 | Some ob' => if ref_ok g (want_of ob) v
                               then MuOk (with_obj g (tset (g_obj g) a (Some ob'))) regs []
                               else MuStuck
                 | None => MuStuck
                 end
    | None => MuStuck
    end
  | MSetScalar tgt p =>
    let a := rget regs tgt in
    match tget (g_obj g) a with
    | Some (OScalar k _) => MuOk (with_obj g (tset (g_obj g) a (Some (OScalar k p)))) regs []
    | _ => MuStuck
    end
  | MCopy dst src => MuOk g (rset regs dst (rget regs src)) []
  | MClear dst => MuOk g (rset regs dst 0) []
  | MRead src =>
    MuOk g regs [match tget (g_obj g) (rget regs src) with
                 | Some ob => ObsObj (erase ob)
                 | None => ObsNil
                 end]
  | MEqRef a b => MuOk g regs [ObsBool (rget regs a =? rget regs b)]
  | MCollect =>
    match gc_collect g regs with
    | COk g' => MuOk g' regs []
    | _ => MuFail
    end
  end.

(* programs: any deterministic automaton whose next operation may depend on everything
   observed so far (covers straight-line code, branches and loops on observed data) *)
Record program := {
  p_state : Type;
  p_init : p_state;
  p_next : p_state -> option (mop * (list obs -> p_state))
}.

Definition prog_of_list (l : list mop) : program :=
  {| p_state := list mop; p_init := l;
     p_next := fun s => match s with [] => None | o :: t => Some (o, fun _ => t) end |}.

(* collect or not after the n-th operation; the decision may also look at the heap (so the
   0.8 threshold of gc_run, `fun _ g => gc_trigger g`, is one schedule among all) *)
Definition schedule := nat -> gc -> bool.

Inductive status := Done | OutOfFuel | Oom | Stuck | CollFail.

Fixpoint run (p : program) (sg : schedule) (fuel n : nat) (s : p_state p) (g : gc)
             (regs : list N) : list obs * status :=
  match fuel with
  | O => ([], OutOfFuel)
  | S k =>
    match p_next p s with
    | None => ([], Done)
    | Some (o, cont) =>
      match mstep g regs o with
      | MuOk g1 regs1 ob =>
        match (if sg n g1 then gc_collect g1 regs1 else COk g1) with
        | COk g2 => let r := run p sg k (S n) (cont ob) g2 regs1 in (ob ++ fst r, snd r)
        | _ => (ob, CollFail)
        end
      | MuOom => ([], Oom)
      | MuStuck => ([], Stuck)
      | MuFail => ([], CollFail)
      end
    end
  end.

Definition run_from_new (p : program) (sg : schedule) (size : N) (nregs fuel : nat) :=
  run p sg fuel 0 (p_init p) (gc_new size) (repeat 0 nregs).

(* ================================================================================== *)
(* The mutator operations are operations of the collector model (GCModel.step)         *)
(* ================================================================================== *)

Definition store_op (o : obj) (a i v : N) : op :=
  match o with
  | OVec _ => OpSetVec a i v
  | OArr _ _ => OpSetArr a i v
  | OFunc _ _ => OpSetFuncVec a v
  | _ => OpSetRef a v
  end.

Lemma store_is_step g a o i v o' :
  tget (g_obj g) a = Some o -> store_obj o i v = Some o' -> ref_ok g (want_of o) v = true ->
  step g (store_op o a i v) = SOk (with_obj g (tset (g_obj g) a (Some o'))) 0.
Proof.
  intros Ha Hs Hr.
  destruct o as [kd p|r|l|r|d l|r|v0 ip]; cbn [store_obj want_of store_op step] in *.
  - discriminate.
  - rewrite Ha. destruct (i =? 0); [|discriminate]. inversion Hs; subst. rewrite Hr. reflexivity.
  - rewrite Ha, Hr. destruct (list_set l (N.to_nat i) v); [|discriminate].
    inversion Hs; subst. reflexivity.
  - rewrite Ha. destruct (i =? 0); [|discriminate]. inversion Hs; subst. rewrite Hr. reflexivity.
  - rewrite Ha, Hr. destruct (list_set l (N.to_nat i) v); [|discriminate].
    inversion Hs; subst. reflexivity.
  - rewrite Ha. destruct (i =? 0); [|discriminate]. inversion Hs; subst. rewrite Hr. reflexivity.
  - rewrite Ha. destruct (i =? 0); [|discriminate]. inversion Hs; subst. rewrite Hr. reflexivity.
Qed.

Lemma setscalar_is_step g a k p0 p :
  tget (g_obj g) a = Some (OScalar k p0) ->
  step g (OpSetScalar a p) = SOk (with_obj g (tset (g_obj g) a (Some (OScalar k p)))) 0.
Proof. intros Ha. cbn [step]. rewrite Ha. reflexivity. Qed.

Lemma alloc_is_step g o g' a :
  obj_ok g o = true -> gc_alloc_any g o = Some (g', a) -> step g (OpAlloc o) = SOk g' a.
Proof. intros Hok Ha. cbn [step]. rewrite Hok, Ha. reflexivity. Qed.

(* ================================================================================== *)
(* One run: invariants                                                                *)
(* ================================================================================== *)

Lemma rget_in regs i : rget regs i = 0 \/ In (rget regs i) regs.
Proof.
  unfold rget. destruct (nth_in_or_default i regs 0) as [H|H]; [now right|now left].
Qed.

Lemma rset_in : forall regs i v x, In x (rset regs i v) -> x = v \/ In x regs.
Proof.
  induction regs as [|h t IH]; intros i v x H; [destruct i; destruct H|].
  destruct i as [|j]; cbn [rset] in H.
  - destruct H as [<-|H]; [now left|right; now right].
  - destruct H as [<-|H]; [right; now left|].
    destruct (IH j v x H) as [E|E]; [now left|right; now right].
Qed.

Lemma roots_ok_rget g regs i : roots_ok g regs -> rget regs i = 0 \/ allocated g (rget regs i).
Proof.
  intros HR. destruct (rget_in regs i) as [E|E]; [now left|]. exact (HR _ E).
Qed.

Lemma roots_ok_rset g regs i v : roots_ok g regs -> (v = 0 \/ allocated g v) ->
  roots_ok g (rset regs i v).
Proof.
  intros HR Hv x Hx. destruct (rset_in regs i v x Hx) as [->|E]; [exact Hv|exact (HR x E)].
Qed.

Lemma roots_ok_mono g g' regs : (forall a, allocated g a -> allocated g' a) ->
  roots_ok g regs -> roots_ok g' regs.
Proof.
  intros Hm HR x Hx. destruct (HR x Hx) as [E|E]; [now left|right; apply Hm; exact E].
Qed.

Lemma allocated_update g a o' x : allocated g x ->
  allocated (with_obj g (tset (g_obj g) a (Some o'))) x.
Proof.
  unfold allocated. cbn [with_obj g_obj]. rewrite tget_set.
  destruct (N.eqb_spec a x); [discriminate|auto].
Qed.

Lemma allocated_some g a o : tget (g_obj g) a = Some o -> allocated g a.
Proof. unfold allocated. intros ->. discriminate. Qed.

Lemma Closed_ref_alloc g a o c : Closed g -> tget (g_obj g) a = Some o -> In c (refs o) ->
  c = 0 \/ allocated g c.
Proof.
  intros C Ho Hc. destruct (N.eq_dec c 0) as [E|E]; [now left|right].
  exact (Closed_refs g C a o c Ho Hc E).
Qed.

Lemma mstep_inv g regs o g' regs' ob : WF g -> Closed g -> roots_ok g regs ->
  mstep g regs o = MuOk g' regs' ob -> WF g' /\ Closed g' /\ roots_ok g' regs'.
Proof.
  intros W C HR H.
  destruct o as [dst s|dst src i|tgt i src|tgt p|dst src|dst|src|a b|]; cbn [mstep] in H.
  - (* alloc *)
    destruct (obj_ok g (mk_obj regs s)) eqn:Eok; [|discriminate].
    destruct (gc_alloc_any g (mk_obj regs s)) as [[g1 a1]|] eqn:Ea; [|discriminate].
    inversion H; subst g1 regs' ob.
    destruct (alloc_preserves g _ g' a1 W C Eok Ea) as (W' & C').
    destruct (alloc_hands_out_a_free_cell g _ g' a1 W Ea) as (_ & Hna & Hnew & Hoth).
    split; [exact W'|]. split; [exact C'|].
    apply roots_ok_rset.
    + apply (roots_ok_mono g g'); [|exact HR]. intros x Hx. unfold allocated.
      destruct (N.eq_dec x a1) as [->|E]; [rewrite Hnew; discriminate|rewrite Hoth by exact E; exact Hx].
    + right. unfold allocated. rewrite Hnew. discriminate.
  - (* load *)
    destruct (tget (g_obj g) (rget regs src)) as [o1|] eqn:Eo; [|discriminate].
    destruct (nth_error (refs o1) (N.to_nat i)) as [c|] eqn:Ec; [|discriminate].
    inversion H; subst g' regs' ob. split; [exact W|]. split; [exact C|].
    apply roots_ok_rset; [exact HR|].
    apply (Closed_ref_alloc g _ o1 c C Eo). eapply nth_error_In; exact Ec.
  - (* store *)
    destruct (tget (g_obj g) (rget regs tgt)) as [o1|] eqn:Eo; [|discriminate].
    destruct (store_obj o1 i (rget regs src)) as [o1'|] eqn:Es; [|discriminate].
    destruct (ref_ok g (want_of o1) (rget regs src)) eqn:Er; [|discriminate].
    inversion H; subst g' regs' ob.
    destruct (gc_wf_step g _ _ _ W C (store_is_step g _ o1 i _ o1' Eo Es Er)) as (W' & C').
    split; [exact W'|]. split; [exact C'|].
    apply (roots_ok_mono g); [|exact HR]. intros x. apply allocated_update.
  - (* set scalar *)
    destruct (tget (g_obj g) (rget regs tgt)) as [[k p0|r|l|r|d l|r|v0 ip]|] eqn:Eo; try discriminate.
    inversion H; subst g' regs' ob.
    destruct (gc_wf_step g _ _ _ W C (setscalar_is_step g _ k p0 p Eo)) as (W' & C').
    split; [exact W'|]. split; [exact C'|].
    apply (roots_ok_mono g); [|exact HR]. intros x. apply allocated_update.
  - inversion H; subst g' regs' ob. split; [exact W|]. split; [exact C|].
    apply roots_ok_rset; [exact HR|]. apply roots_ok_rget. exact HR.
  - inversion H; subst g' regs' ob. split; [exact W|]. split; [exact C|].
    apply roots_ok_rset; [exact HR|]. now left.
  - inversion H; subst g' regs' ob. auto.
  - inversion H; subst g' regs' ob. auto.
  - destruct (gc_collect g regs) as [g1| |] eqn:Ec; try discriminate.
    inversion H; subst g1 regs' ob.
    destruct (collect_all g regs g' W C HR Ec) as (W' & C' & _).
    split; [exact W'|]. split; [exact C'|]. exact (collect_roots_ok g regs g' W C HR Ec).
Qed.

Lemma mstep_no_fail g regs o : WF g -> Closed g -> roots_ok g regs -> mstep g regs o <> MuFail.
Proof.
  intros W C HR.
  destruct o as [dst s|dst src i|tgt i src|tgt p|dst src|dst|src|a b|]; cbn [mstep]; try discriminate.
  - destruct (obj_ok g (mk_obj regs s)); [|discriminate].
    destruct (gc_alloc_any g (mk_obj regs s)) as [[g1 a1]|]; discriminate.
  - destruct (tget (g_obj g) (rget regs src)) as [o1|]; [|discriminate].
    destruct (nth_error (refs o1) (N.to_nat i)); discriminate.
  - destruct (tget (g_obj g) (rget regs tgt)) as [o1|]; [|discriminate].
    destruct (store_obj o1 i (rget regs src)); [|discriminate].
    destruct (ref_ok g (want_of o1) (rget regs src)); discriminate.
  - destruct (tget (g_obj g) (rget regs tgt)) as [[k p0|r|l|r|d l|r|v0 ip]|]; discriminate.
  - destruct (collect_total g regs W C HR) as (g' & ->). discriminate.
Qed.

(* ================================================================================== *)
(* Two runs: the simulation relation                                                  *)
(* ================================================================================== *)

Section Rel.
Variable f : N -> N -> Prop.

Definition vrel (a b : N) : Prop := (a = 0 /\ b = 0) \/ f a b.

Definition orel (o1 o2 : obj) : Prop :=
  match o1, o2 with
  | OScalar k1 p1, OScalar k2 p2 => k1 = k2 /\ p1 = p2
  | OStrRef r1, OStrRef r2 => vrel r1 r2
  | OVec l1, OVec l2 => Forall2 vrel l1 l2
  | OVecRef r1, OVecRef r2 => vrel r1 r2
  | OArr d1 l1, OArr d2 l2 => d1 = d2 /\ Forall2 vrel l1 l2
  | OArrRef r1, OArrRef r2 => vrel r1 r2
  | OFunc v1 i1, OFunc v2 i2 => vrel v1 v2 /\ i1 = i2
  | _, _ => False
  end.
End Rel.

Record Inv (f : N -> N -> Prop) (g1 : gc) (r1 : list N) (g2 : gc) (r2 : list N) : Prop := {
  inv_wf1 : WF g1; inv_cl1 : Closed g1; inv_ro1 : roots_ok g1 r1;
  inv_wf2 : WF g2; inv_cl2 : Closed g2; inv_ro2 : roots_ok g2 r2;
  inv_fun : forall a b b', f a b -> f a b' -> b = b';
  inv_inj : forall a a' b, f a b -> f a' b -> a = a';
  inv_obj : forall a b, f a b -> exists o1 o2,
              tget (g_obj g1) a = Some o1 /\ tget (g_obj g2) b = Some o2 /\ orel f o1 o2;
  inv_regs : Forall2 (vrel f) r1 r2
}.

(* ---- list lemmas ------------------------------------------------------------------ *)

Lemma Forall2_impl_In {A B} (P Q : A -> B -> Prop) : forall l1 l2,
  Forall2 P l1 l2 -> (forall x y, In x l1 -> In y l2 -> P x y -> Q x y) -> Forall2 Q l1 l2.
Proof.
  induction 1 as [|x y l1 l2 Hxy H IH]; intros HI; constructor.
  - apply HI; [now left|now left|exact Hxy].
  - apply IH. intros a b Ha Hb. apply HI; now right.
Qed.

Lemma Forall2_imp {A B} (P Q : A -> B -> Prop) : (forall x y, P x y -> Q x y) ->
  forall l1 l2, Forall2 P l1 l2 -> Forall2 Q l1 l2.
Proof. intros Hm. induction 1; constructor; auto. Qed.

Lemma Forall2_swap {A B} (P : A -> B -> Prop) : forall l1 l2,
  Forall2 P l1 l2 -> Forall2 (fun b a => P a b) l2 l1.
Proof. induction 1; constructor; assumption. Qed.

Lemma Forall2_nth_error {A B} (P : A -> B -> Prop) : forall l1 l2, Forall2 P l1 l2 ->
  forall n, match nth_error l1 n, nth_error l2 n with
            | Some a, Some b => P a b
            | None, None => True
            | _, _ => False
            end.
Proof.
  induction 1 as [|x y l1 l2 Hxy H IH]; intros [|n]; cbn [nth_error]; auto. apply IH.
Qed.

Lemma Forall2_nth {A} (P : A -> A -> Prop) d : P d d -> forall l1 l2, Forall2 P l1 l2 ->
  forall n, P (nth n l1 d) (nth n l2 d).
Proof.
  intros Hd. induction 1 as [|x y l1 l2 Hxy H IH]; intros [|n]; cbn [nth]; auto.
Qed.

Lemma Forall2_rset (P : N -> N -> Prop) : forall l1 l2, Forall2 P l1 l2 ->
  forall i v1 v2, P v1 v2 -> Forall2 P (rset l1 i v1) (rset l2 i v2).
Proof.
  induction 1 as [|x y l1 l2 Hxy H IH]; intros i v1 v2 Hv; [destruct i; constructor|].
  destruct i as [|j]; cbn [rset]; constructor; auto.
Qed.

Lemma Forall2_list_set (P : N -> N -> Prop) : forall l1 l2, Forall2 P l1 l2 ->
  forall i v1 v2, P v1 v2 ->
  match list_set l1 i v1, list_set l2 i v2 with
  | Some a, Some b => Forall2 P a b
  | None, None => True
  | _, _ => False
  end.
Proof.
  induction 1 as [|x y l1 l2 Hxy H IH]; intros i v1 v2 Hv; [destruct i; exact I|].
  destruct i as [|j]; cbn [list_set].
  - constructor; assumption.
  - specialize (IH j v1 v2 Hv).
    destruct (list_set l1 j v1) as [a|], (list_set l2 j v2) as [b|]; try contradiction; auto.
Qed.

Lemma Forall2_map_same {A} (P : N -> N -> Prop) (h1 h2 : A -> N) (l : list A) :
  (forall x, P (h1 x) (h2 x)) -> Forall2 P (map h1 l) (map h2 l).
Proof. intros Hh. induction l; cbn [map]; constructor; auto. Qed.

Lemma forallb_Forall2 {A B} (P : A -> B -> Prop) (p : A -> bool) (q : B -> bool) :
  (forall x y, P x y -> p x = q y) ->
  forall l1 l2, Forall2 P l1 l2 -> forallb p l1 = forallb q l2.
Proof.
  intros Hpq. induction 1 as [|x y l1 l2 Hxy H IH]; cbn [forallb]; [reflexivity|].
  rewrite (Hpq x y Hxy), IH. reflexivity.
Qed.

Lemma Forall2_In_l {A B} (P : A -> B -> Prop) : forall l1 l2, Forall2 P l1 l2 ->
  forall x, In x l1 -> exists y, In y l2 /\ P x y.
Proof.
  induction 1 as [|x y l1 l2 Hxy H IH]; intros a Ha; [destruct Ha|].
  destruct Ha as [<-|Ha]; [exists y; split; [now left|exact Hxy]|].
  destruct (IH a Ha) as (b & Hb & Hab). exists b. split; [now right|exact Hab].
Qed.

(* ---- vrel / orel ------------------------------------------------------------------- *)

Lemma vrel_mono (f f' : N -> N -> Prop) a b : (f a b -> f' a b) -> vrel f a b -> vrel f' a b.
Proof. intros Hm [H|H]; [now left|right; auto]. Qed.

Lemma orel_refs (f : N -> N -> Prop) o1 o2 : orel f o1 o2 -> Forall2 (vrel f) (refs o1) (refs o2).
Proof.
  destruct o1 as [k1 p1|r1|l1|r1|d1 l1|r1|v1 i1], o2 as [k2 p2|r2|l2|r2|d2 l2|r2|v2 i2];
    cbn [orel refs]; try contradiction; intros H.
  - constructor.
  - constructor; [exact H|constructor].
  - exact H.
  - constructor; [exact H|constructor].
  - exact (proj2 H).
  - constructor; [exact H|constructor].
  - constructor; [exact (proj1 H)|constructor].
Qed.

Lemma orel_mono_in (f f' : N -> N -> Prop) o1 o2 : orel f o1 o2 ->
  (forall c1 c2, In c1 (refs o1) -> In c2 (refs o2) -> f c1 c2 -> f' c1 c2) -> orel f' o1 o2.
Proof.
  destruct o1 as [k1 p1|r1|l1|r1|d1 l1|r1|v1 i1], o2 as [k2 p2|r2|l2|r2|d2 l2|r2|v2 i2];
    cbn [orel refs]; try contradiction; intros H Hm.
  - exact H.
  - apply (vrel_mono f f'); [|exact H]. apply Hm; now left.
  - apply (Forall2_impl_In (vrel f)); [exact H|]. intros x y Hx Hy. apply vrel_mono. apply Hm; assumption.
  - apply (vrel_mono f f'); [|exact H]. apply Hm; now left.
  - split; [exact (proj1 H)|]. apply (Forall2_impl_In (vrel f)); [exact (proj2 H)|].
    intros x y Hx Hy. apply vrel_mono. apply Hm; assumption.
  - apply (vrel_mono f f'); [|exact H]. apply Hm; now left.
  - split; [|exact (proj2 H)]. apply (vrel_mono f f'); [|exact (proj1 H)]. apply Hm; now left.
Qed.

Lemma orel_mono (f f' : N -> N -> Prop) o1 o2 : (forall a b, f a b -> f' a b) ->
  orel f o1 o2 -> orel f' o1 o2.
Proof. intros Hm H. apply (orel_mono_in f f' o1 o2 H). intros c1 c2 _ _. apply Hm. Qed.

Lemma vrel_swap (f : N -> N -> Prop) a b : vrel f a b -> vrel (fun y x => f x y) b a.
Proof. intros [[-> ->]|H]; [left; auto|right; exact H]. Qed.

Lemma orel_swap (f : N -> N -> Prop) o1 o2 : orel f o1 o2 -> orel (fun y x => f x y) o2 o1.
Proof.
  destruct o1 as [k1 p1|r1|l1|r1|d1 l1|r1|v1 i1], o2 as [k2 p2|r2|l2|r2|d2 l2|r2|v2 i2];
    cbn [orel]; try contradiction; intros H.
  - destruct H; split; congruence.
  - apply vrel_swap; exact H.
  - apply Forall2_swap in H. eapply Forall2_imp; [|exact H]. intros a b; apply vrel_swap.
  - apply vrel_swap; exact H.
  - destruct H as [Hd H]. split; [congruence|]. apply Forall2_swap in H.
    eapply Forall2_imp; [|exact H]. intros a b; apply vrel_swap.
  - apply vrel_swap; exact H.
  - destruct H as [H Hi]. split; [apply vrel_swap; exact H|congruence].
Qed.

Lemma orel_want (f : N -> N -> Prop) o1 o2 w : std_want w -> orel f o1 o2 -> w o1 = w o2.
Proof.
  intros Hw H.
  destruct o1 as [k1 p1|r1|l1|r1|d1 l1|r1|v1 i1], o2 as [k2 p2|r2|l2|r2|d2 l2|r2|v2 i2];
    cbn [orel] in H; try contradiction;
    destruct Hw as [-> | [-> | [-> | ->]]]; try reflexivity.
  destruct H as [-> ->]. reflexivity.
Qed.

Lemma orel_want_of (f : N -> N -> Prop) o1 o2 : orel f o1 o2 -> want_of o1 = want_of o2.
Proof.
  destruct o1 as [k1 p1|r1|l1|r1|d1 l1|r1|v1 i1], o2 as [k2 p2|r2|l2|r2|d2 l2|r2|v2 i2];
    cbn [orel]; try contradiction; reflexivity.
Qed.

Lemma want_of_std o : std_want (want_of o).
Proof.
  destruct o; cbn [want_of]; unfold std_want; auto.
Qed.

Lemma nz_rel (f : N -> N -> Prop) a b : (forall x y, f x y -> x <> 0 /\ y <> 0) -> vrel f a b -> nz a = nz b.
Proof.
  intros Hnz [[-> ->]|H]; [reflexivity|]. destruct (Hnz a b H) as (Ha & Hb). unfold nz.
  destruct (N.eqb_spec a 0); [contradiction|]. destruct (N.eqb_spec b 0); [contradiction|]. reflexivity.
Qed.

Lemma map_nz_rel (f : N -> N -> Prop) l1 l2 : (forall x y, f x y -> x <> 0 /\ y <> 0) ->
  Forall2 (vrel f) l1 l2 -> map nz l1 = map nz l2.
Proof.
  intros Hnz. induction 1 as [|x y l1 l2 Hxy H IH]; cbn [map]; [reflexivity|].
  rewrite (nz_rel f x y Hnz Hxy), IH. reflexivity.
Qed.

Lemma orel_erase (f : N -> N -> Prop) o1 o2 : (forall x y, f x y -> x <> 0 /\ y <> 0) -> orel f o1 o2 ->
  erase o1 = erase o2.
Proof.
  intros Hnz.
  destruct o1 as [k1 p1|r1|l1|r1|d1 l1|r1|v1 i1], o2 as [k2 p2|r2|l2|r2|d2 l2|r2|v2 i2];
    cbn [orel erase]; try contradiction; intros H.
  - destruct H as [-> ->]. reflexivity.
  - rewrite (nz_rel f _ _ Hnz H). reflexivity.
  - rewrite (map_nz_rel f _ _ Hnz H). reflexivity.
  - rewrite (nz_rel f _ _ Hnz H). reflexivity.
  - destruct H as [-> H]. rewrite (map_nz_rel f _ _ Hnz H). reflexivity.
  - rewrite (nz_rel f _ _ Hnz H). reflexivity.
  - destruct H as [H ->]. rewrite (nz_rel f _ _ Hnz H). reflexivity.
Qed.

Lemma store_obj_rel (f : N -> N -> Prop) o1 o2 i v1 v2 : orel f o1 o2 -> vrel f v1 v2 ->
  match store_obj o1 i v1, store_obj o2 i v2 with
  | Some a, Some b => orel f a b
  | None, None => True
  | _, _ => False
  end.
Proof.
  destruct o1 as [k1 p1|r1|l1|r1|d1 l1|r1|w1 i1], o2 as [k2 p2|r2|l2|r2|d2 l2|r2|w2 i2];
    cbn [orel store_obj]; try contradiction; intros H Hv.
  - exact I.
  - destruct (i =? 0); [exact Hv|exact I].
  - pose proof (Forall2_list_set (vrel f) l1 l2 H (N.to_nat i) v1 v2 Hv) as HL.
    destruct (list_set l1 (N.to_nat i) v1), (list_set l2 (N.to_nat i) v2); try contradiction; auto.
  - destruct (i =? 0); [exact Hv|exact I].
  - destruct H as [Hd H].
    pose proof (Forall2_list_set (vrel f) l1 l2 H (N.to_nat i) v1 v2 Hv) as HL.
    destruct (list_set l1 (N.to_nat i) v1), (list_set l2 (N.to_nat i) v2); try contradiction; auto.
    cbn [orel]. auto.
  - destruct (i =? 0); [exact Hv|exact I].
  - destruct (i =? 0); [|exact I]. cbn [orel]. split; [exact Hv|exact (proj2 H)].
Qed.

Lemma rget_rel (f : N -> N -> Prop) r1 r2 i : Forall2 (vrel f) r1 r2 -> vrel f (rget r1 i) (rget r2 i).
Proof. intros H. unfold rget. apply Forall2_nth; [left; auto|exact H]. Qed.

Lemma mk_obj_rel (f : N -> N -> Prop) r1 r2 s : Forall2 (vrel f) r1 r2 -> orel f (mk_obj r1 s) (mk_obj r2 s).
Proof.
  intros H. destruct s as [k p|r|rs|r|d rs|r|r ip]; cbn [mk_obj orel].
  - auto.
  - apply rget_rel; exact H.
  - apply Forall2_map_same. intros x. apply rget_rel; exact H.
  - apply rget_rel; exact H.
  - split; [reflexivity|]. apply Forall2_map_same. intros x. apply rget_rel; exact H.
  - apply rget_rel; exact H.
  - split; [apply rget_rel; exact H|reflexivity].
Qed.

(* ---- consequences of Inv ------------------------------------------------------------- *)

Section InvFacts.
Variables (f : N -> N -> Prop) (g1 : gc) (r1 : list N) (g2 : gc) (r2 : list N).
Hypothesis I : Inv f g1 r1 g2 r2.

Lemma inv_alloc1 a b : f a b -> allocated g1 a.
Proof. intros H. destruct (inv_obj _ _ _ _ _ I a b H) as (o1 & o2 & H1 & _). exact (allocated_some _ _ _ H1). Qed.

Lemma inv_alloc2 a b : f a b -> allocated g2 b.
Proof. intros H. destruct (inv_obj _ _ _ _ _ I a b H) as (o1 & o2 & _ & H2 & _). exact (allocated_some _ _ _ H2). Qed.

Lemma inv_nz a b : f a b -> a <> 0 /\ b <> 0.
Proof.
  intros H. split; intros ->.
  - apply (inv_alloc1 _ _ H). exact (wf_nil_empty g1 (inv_wf1 _ _ _ _ _ I)).
  - apply (inv_alloc2 _ _ H). exact (wf_nil_empty g2 (inv_wf2 _ _ _ _ _ I)).
Qed.

Lemma inv_tget_rel a b : vrel f a b ->
  match tget (g_obj g1) a, tget (g_obj g2) b with
  | Some o1, Some o2 => f a b /\ orel f o1 o2
  | None, None => a = 0 /\ b = 0
  | _, _ => False
  end.
Proof.
  intros [[-> ->]|H].
  - rewrite (wf_nil_empty g1 (inv_wf1 _ _ _ _ _ I)), (wf_nil_empty g2 (inv_wf2 _ _ _ _ _ I)). auto.
  - destruct (inv_obj _ _ _ _ _ I a b H) as (o1 & o2 & -> & -> & Ho). auto.
Qed.

Lemma inv_vrel_eq a b a' b' : vrel f a b -> vrel f a' b' -> (a =? a') = (b =? b').
Proof.
  intros [[-> ->]|H] [[-> ->]|H'].
  - reflexivity.
  - destruct (inv_nz _ _ H') as (Ha & Hb).
    destruct (N.eqb_spec 0 a'); [congruence|]. destruct (N.eqb_spec 0 b'); [congruence|]. reflexivity.
  - destruct (inv_nz _ _ H) as (Ha & Hb).
    destruct (N.eqb_spec a 0); [congruence|]. destruct (N.eqb_spec b 0); [congruence|]. reflexivity.
  - destruct (N.eqb_spec a a') as [E|E], (N.eqb_spec b b') as [E'|E']; try reflexivity; exfalso.
    + subst a'. apply E'. exact (inv_fun _ _ _ _ _ I a b b' H H').
    + subst b'. apply E. exact (inv_inj _ _ _ _ _ I a a' b H H').
Qed.

Lemma ref_ok_rel w v1 v2 : std_want w -> vrel f v1 v2 -> ref_ok g1 w v1 = ref_ok g2 w v2.
Proof.
  intros Hw Hv. pose proof (inv_tget_rel v1 v2 Hv) as HT. unfold ref_ok.
  destruct (tget (g_obj g1) v1) as [o1|], (tget (g_obj g2) v2) as [o2|]; try contradiction.
  - destruct HT as (Hf & Ho). destruct (inv_nz _ _ Hf) as (H1 & H2).
    destruct (N.eqb_spec v1 0); [contradiction|]. destruct (N.eqb_spec v2 0); [contradiction|].
    cbn [orb]. exact (orel_want f o1 o2 w Hw Ho).
  - destruct HT as (-> & ->). reflexivity.
Qed.

Lemma obj_ok_rel o1 o2 : orel f o1 o2 -> obj_ok g1 o1 = obj_ok g2 o2.
Proof.
  destruct o1 as [k1 p1|x1|l1|x1|d1 l1|x1|v1 i1], o2 as [k2 p2|x2|l2|x2|d2 l2|x2|v2 i2];
    cbn [orel obj_ok]; try contradiction; intros H.
  - reflexivity.
  - apply ref_ok_rel; [right; right; now right|exact H].
  - apply (forallb_Forall2 (vrel f)); [|exact H]. intros x y. apply ref_ok_rel. now left.
  - apply ref_ok_rel; [right; now left|exact H].
  - apply (forallb_Forall2 (vrel f)); [|exact (proj2 H)]. intros x y. apply ref_ok_rel. now left.
  - apply ref_ok_rel; [right; right; now left|exact H].
  - apply ref_ok_rel; [right; now left|exact (proj1 H)].
Qed.
End InvFacts.

(* ---- Inv is symmetric ---------------------------------------------------------------- *)

Lemma inv_sym (f : N -> N -> Prop) g1 r1 g2 r2 : Inv f g1 r1 g2 r2 -> Inv (fun b a => f a b) g2 r2 g1 r1.
Proof.
  intros I. destruct I as [W1 C1 R1 W2 C2 R2 Hfun Hinj Hobj Hregs]. constructor; try assumption.
  - intros a b b' H H'. exact (Hinj b b' a H H').
  - intros a a' b H H'. exact (Hfun b a a' H H').
  - intros a b H. destruct (Hobj b a H) as (o1 & o2 & H1 & H2 & Ho).
    exists o2, o1. split; [exact H2|]. split; [exact H1|]. apply orel_swap. exact Ho.
  - apply Forall2_swap in Hregs. eapply Forall2_imp; [|exact Hregs]. intros a b; apply vrel_swap.
Qed.

(* ---- register moves -------------------------------------------------------------------- *)

Lemma inv_rset (f : N -> N -> Prop) g1 r1 g2 r2 i v1 v2 : Inv f g1 r1 g2 r2 -> vrel f v1 v2 ->
  Inv f g1 (rset r1 i v1) g2 (rset r2 i v2).
Proof.
  intros I Hv. pose proof I as [W1 C1 R1 W2 C2 R2 Hfun Hinj Hobj Hregs]. constructor; try assumption.
  - apply roots_ok_rset; [exact R1|]. destruct Hv as [[-> _]|H]; [now left|right].
    exact (inv_alloc1 f g1 r1 g2 r2 I _ _ H).
  - apply roots_ok_rset; [exact R2|]. destruct Hv as [[_ ->]|H]; [now left|right].
    exact (inv_alloc2 f g1 r1 g2 r2 I _ _ H).
  - apply Forall2_rset; assumption.
Qed.

(* ---- a collection on the left side ------------------------------------------------------ *)

Lemma inv_collect_l (f : N -> N -> Prop) g1 r1 g2 r2 g1' : Inv f g1 r1 g2 r2 -> gc_collect g1 r1 = COk g1' ->
  Inv (fun a b => f a b /\ reach g1 r1 a) g1' r1 g2 r2.
Proof.
  intros I Hc. pose proof I as [W1 C1 R1 W2 C2 R2 Hfun Hinj Hobj Hregs].
  destruct (collect_all g1 r1 g1' W1 C1 R1 Hc) as (W1' & C1' & _ & Hex & Hsame).
  constructor; try assumption.
  - exact (collect_roots_ok g1 r1 g1' W1 C1 R1 Hc).
  - intros a b b' (H & _) (H' & _). exact (Hfun a b b' H H').
  - intros a a' b (H & _) (H' & _). exact (Hinj a a' b H H').
  - intros a b (H & Hr). destruct (Hobj a b H) as (o1 & o2 & H1 & H2 & Ho).
    exists o1, o2. split; [rewrite (Hsame a Hr); exact H1|]. split; [exact H2|].
    apply (orel_mono_in f _ o1 o2 Ho). intros c1 c2 Hc1 _ Hf. split; [exact Hf|].
    apply (reach_step g1 r1 a o1 c1 Hr H1 Hc1).
    exact (proj1 (inv_nz f g1 r1 g2 r2 I c1 c2 Hf)).
  - apply (Forall2_impl_In (vrel f)); [exact Hregs|]. intros x y Hx _ [H|H]; [now left|right].
    split; [exact H|]. apply reach_root; [exact Hx|].
    exact (proj1 (inv_nz f g1 r1 g2 r2 I x y H)).
Qed.

Lemma inv_collect_r (f : N -> N -> Prop) g1 r1 g2 r2 g2' : Inv f g1 r1 g2 r2 -> gc_collect g2 r2 = COk g2' ->
  exists f', Inv f' g1 r1 g2' r2.
Proof.
  intros I Hc. apply inv_sym in I. pose proof (inv_collect_l _ _ _ _ _ _ I Hc) as I'.
  apply inv_sym in I'. eexists. exact I'.
Qed.

(* the scheduled collection after an operation, on both sides *)
Lemma inv_sched (f : N -> N -> Prop) g1 r1 g2 r2 (b1 b2 : bool) : Inv f g1 r1 g2 r2 ->
  exists g1' g2' f',
    (if b1 then gc_collect g1 r1 else COk g1) = COk g1' /\
    (if b2 then gc_collect g2 r2 else COk g2) = COk g2' /\
    Inv f' g1' r1 g2' r2.
Proof.
  intros I.
  assert (S1 : exists g1' f1, (if b1 then gc_collect g1 r1 else COk g1) = COk g1' /\
                              Inv f1 g1' r1 g2 r2).
  { destruct b1.
    - destruct (collect_total g1 r1 (inv_wf1 _ _ _ _ _ I) (inv_cl1 _ _ _ _ _ I) (inv_ro1 _ _ _ _ _ I))
        as (g1' & E).
      exists g1'. eexists. split; [exact E|]. exact (inv_collect_l _ _ _ _ _ _ I E).
    - exists g1, f. auto. }
  destruct S1 as (g1' & f1 & E1 & I1).
  destruct b2.
  - destruct (collect_total g2 r2 (inv_wf2 _ _ _ _ _ I1) (inv_cl2 _ _ _ _ _ I1) (inv_ro2 _ _ _ _ _ I1))
      as (g2' & E2).
    destruct (inv_collect_r _ _ _ _ _ _ I1 E2) as (f' & I').
    exists g1', g2', f'. auto.
  - exists g1', g2, f1. auto.
Qed.

(* ---- in-place update of a related pair of cells ----------------------------------------- *)

Lemma inv_update (f : N -> N -> Prop) g1 r1 g2 r2 a1 a2 o1' o2' :
  Inv f g1 r1 g2 r2 -> f a1 a2 -> orel f o1' o2' ->
  let g1' := with_obj g1 (tset (g_obj g1) a1 (Some o1')) in
  let g2' := with_obj g2 (tset (g_obj g2) a2 (Some o2')) in
  WF g1' -> Closed g1' -> WF g2' -> Closed g2' ->
  Inv f g1' r1 g2' r2.
Proof.
  intros I Hf Ho g1' g2' W1' C1' W2' C2'.
  pose proof I as [W1 C1 R1 W2 C2 R2 Hfun Hinj Hobj Hregs]. constructor; try assumption.
  - apply (roots_ok_mono g1); [|exact R1]. intros x. apply allocated_update.
  - apply (roots_ok_mono g2); [|exact R2]. intros x. apply allocated_update.
  - intros a b H. subst g1' g2'. cbn [with_obj g_obj]. rewrite !tget_set.
    destruct (N.eqb_spec a1 a) as [E|E].
    + subst a. assert (b = a2) by exact (Hfun a1 b a2 H Hf). subst b.
      rewrite N.eqb_refl. exists o1', o2'. auto.
    + destruct (N.eqb_spec a2 b) as [E'|E'].
      * subst b. exfalso. apply E. exact (Hinj a1 a a2 Hf H).
      * exact (Hobj a b H).
Qed.

(* ================================================================================== *)
(* One operation on both sides                                                        *)
(* ================================================================================== *)

Lemma mstep_sim (f : N -> N -> Prop) g1 r1 g2 r2 o : Inv f g1 r1 g2 r2 ->
  match mstep g1 r1 o, mstep g2 r2 o with
  | MuOk g1' r1' ob1, MuOk g2' r2' ob2 => ob1 = ob2 /\ exists f', Inv f' g1' r1' g2' r2'
  | MuOom, _ => True
  | _, MuOom => True
  | MuStuck, MuStuck => True
  | _, _ => False
  end.
Proof.
  intros I. pose proof I as [W1 C1 R1 W2 C2 R2 Hfun Hinj Hobj Hregs].
  destruct o as [dst s|dst src i|tgt i src|tgt p|dst src|dst|src|a b|]; cbn [mstep].
  - (* alloc *)
    pose proof (mk_obj_rel f r1 r2 s Hregs) as Ho.
    set (o1 := mk_obj r1 s) in *. set (o2 := mk_obj r2 s) in *.
    rewrite (obj_ok_rel f g1 r1 g2 r2 I o1 o2 Ho).
    destruct (obj_ok g2 o2) eqn:Eok2; [|exact Logic.I].
    assert (Eok1 : obj_ok g1 o1 = true) by (rewrite (obj_ok_rel f g1 r1 g2 r2 I o1 o2 Ho); exact Eok2).
    destruct (gc_alloc_any g1 o1) as [[g1' a1]|] eqn:Ea1; [|exact Logic.I].
    destruct (gc_alloc_any g2 o2) as [[g2' a2]|] eqn:Ea2; [|exact Logic.I].
    split; [reflexivity|].
    destruct (alloc_preserves g1 o1 g1' a1 W1 C1 Eok1 Ea1) as (W1' & C1').
    destruct (alloc_preserves g2 o2 g2' a2 W2 C2 Eok2 Ea2) as (W2' & C2').
    destruct (alloc_hands_out_a_free_cell g1 o1 g1' a1 W1 Ea1) as (_ & Hna1 & Hnew1 & Hoth1).
    destruct (alloc_hands_out_a_free_cell g2 o2 g2' a2 W2 Ea2) as (_ & Hna2 & Hnew2 & Hoth2).
    set (f' := fun x y => f x y \/ (x = a1 /\ y = a2)).
    assert (Hsub : forall x y, f x y -> f' x y) by (intros x y H; left; exact H).
    assert (Hm1 : forall x, allocated g1 x -> allocated g1' x).
    { intros x Hx. unfold allocated.
      destruct (N.eq_dec x a1) as [->|E]; [rewrite Hnew1; discriminate|rewrite Hoth1 by exact E; exact Hx]. }
    assert (Hm2 : forall x, allocated g2 x -> allocated g2' x).
    { intros x Hx. unfold allocated.
      destruct (N.eq_dec x a2) as [->|E]; [rewrite Hnew2; discriminate|rewrite Hoth2 by exact E; exact Hx]. }
    exists f'. constructor; try assumption.
    + apply roots_ok_rset; [exact (roots_ok_mono g1 g1' r1 Hm1 R1)|].
      right. exact (allocated_some _ _ _ Hnew1).
    + apply roots_ok_rset; [exact (roots_ok_mono g2 g2' r2 Hm2 R2)|].
      right. exact (allocated_some _ _ _ Hnew2).
    + intros x y y' [H|[-> ->]] [H'|[E ->]].
      * exact (Hfun x y y' H H').
      * subst x. exfalso. apply Hna1. exact (inv_alloc1 f g1 r1 g2 r2 I _ _ H).
      * exfalso. apply Hna1. exact (inv_alloc1 f g1 r1 g2 r2 I _ _ H').
      * reflexivity.
    + intros x x' y [H|[-> ->]] [H'|[-> E]].
      * exact (Hinj x x' y H H').
      * subst y. exfalso. apply Hna2. exact (inv_alloc2 f g1 r1 g2 r2 I _ _ H).
      * exfalso. apply Hna2. exact (inv_alloc2 f g1 r1 g2 r2 I _ _ H').
      * reflexivity.
    + intros x y [H|[-> ->]].
      * destruct (Hobj x y H) as (p1 & p2 & H1 & H2 & Hp).
        exists p1, p2.
        assert (x <> a1) by (intros ->; apply Hna1; exact (allocated_some _ _ _ H1)).
        assert (y <> a2) by (intros ->; apply Hna2; exact (allocated_some _ _ _ H2)).
        rewrite Hoth1, Hoth2 by assumption. split; [exact H1|]. split; [exact H2|].
        exact (orel_mono f f' p1 p2 Hsub Hp).
      * exists o1, o2. split; [exact Hnew1|]. split; [exact Hnew2|].
        exact (orel_mono f f' o1 o2 Hsub Ho).
    + apply Forall2_rset.
      * eapply Forall2_imp; [|exact Hregs]. intros x y; apply vrel_mono; apply Hsub.
      * right. right. auto.
  - (* load *)
    pose proof (inv_tget_rel f g1 r1 g2 r2 I _ _ (rget_rel f r1 r2 src Hregs)) as HT.
    destruct (tget (g_obj g1) (rget r1 src)) as [o1|], (tget (g_obj g2) (rget r2 src)) as [o2|];
      try contradiction; [|exact Logic.I].
    destruct HT as (_ & Ho).
    pose proof (Forall2_nth_error _ _ _ (orel_refs f o1 o2 Ho) (N.to_nat i)) as HN.
    destruct (nth_error (refs o1) (N.to_nat i)) as [c1|], (nth_error (refs o2) (N.to_nat i)) as [c2|];
      try contradiction; [|exact Logic.I].
    split; [reflexivity|]. exists f. apply inv_rset; assumption.
  - (* store *)
    pose proof (rget_rel f r1 r2 src Hregs) as Hv.
    pose proof (inv_tget_rel f g1 r1 g2 r2 I _ _ (rget_rel f r1 r2 tgt Hregs)) as HT.
    destruct (tget (g_obj g1) (rget r1 tgt)) as [o1|] eqn:E1,
             (tget (g_obj g2) (rget r2 tgt)) as [o2|] eqn:E2; try contradiction; [|exact Logic.I].
    destruct HT as (Hf & Ho).
    pose proof (store_obj_rel f o1 o2 i _ _ Ho Hv) as HS.
    destruct (store_obj o1 i (rget r1 src)) as [o1'|] eqn:Es1,
             (store_obj o2 i (rget r2 src)) as [o2'|] eqn:Es2; try contradiction; [|exact Logic.I].
    rewrite (orel_want_of f o1 o2 Ho).
    rewrite (ref_ok_rel f g1 r1 g2 r2 I (want_of o2) _ _ (want_of_std o2) Hv).
    destruct (ref_ok g2 (want_of o2) (rget r2 src)) eqn:Er2; [|exact Logic.I].
    assert (Er1 : ref_ok g1 (want_of o1) (rget r1 src) = true).
    { rewrite (orel_want_of f o1 o2 Ho).
      rewrite (ref_ok_rel f g1 r1 g2 r2 I (want_of o2) _ _ (want_of_std o2) Hv). exact Er2. }
    split; [reflexivity|]. exists f.
    destruct (gc_wf_step g1 _ _ _ W1 C1 (store_is_step g1 _ o1 i _ o1' E1 Es1 Er1)) as (W1' & C1').
    destruct (gc_wf_step g2 _ _ _ W2 C2 (store_is_step g2 _ o2 i _ o2' E2 Es2 Er2)) as (W2' & C2').
    apply inv_update; assumption.
  - (* set scalar *)
    pose proof (inv_tget_rel f g1 r1 g2 r2 I _ _ (rget_rel f r1 r2 tgt Hregs)) as HT.
    destruct (tget (g_obj g1) (rget r1 tgt)) as [o1|] eqn:E1,
             (tget (g_obj g2) (rget r2 tgt)) as [o2|] eqn:E2; try contradiction; [|exact Logic.I].
    destruct HT as (Hf & Ho).
    destruct o1 as [k1 p1|x1|l1|x1|d1 l1|x1|v1 i1], o2 as [k2 p2|x2|l2|x2|d2 l2|x2|v2 i2];
      cbn [orel] in Ho; try contradiction; try exact Logic.I.
    destruct Ho as [-> ->].
    split; [reflexivity|]. exists f.
    destruct (gc_wf_step g1 _ _ _ W1 C1 (setscalar_is_step g1 _ k2 p2 p E1)) as (W1' & C1').
    destruct (gc_wf_step g2 _ _ _ W2 C2 (setscalar_is_step g2 _ k2 p2 p E2)) as (W2' & C2').
    apply inv_update; try assumption. cbn [orel]. auto.
  - (* copy *)
    split; [reflexivity|]. exists f. apply inv_rset; [exact I|]. apply rget_rel; exact Hregs.
  - (* clear *)
    split; [reflexivity|]. exists f. apply inv_rset; [exact I|]. left; auto.
  - (* read *)
    split; [|exists f; exact I].
    pose proof (inv_tget_rel f g1 r1 g2 r2 I _ _ (rget_rel f r1 r2 src Hregs)) as HT.
    destruct (tget (g_obj g1) (rget r1 src)) as [o1|], (tget (g_obj g2) (rget r2 src)) as [o2|];
      try contradiction; [|reflexivity].
    destruct HT as (_ & Ho). rewrite (orel_erase f o1 o2 (inv_nz f g1 r1 g2 r2 I) Ho). reflexivity.
  - (* eqref *)
    split; [|exists f; exact I].
    rewrite (inv_vrel_eq f g1 r1 g2 r2 I _ _ _ _ (rget_rel f r1 r2 a Hregs) (rget_rel f r1 r2 b Hregs)).
    reflexivity.
  - (* collect *)
    destruct (inv_sched f g1 r1 g2 r2 true true I) as (g1' & g2' & f' & E1 & E2 & I').
    rewrite E1, E2. split; [reflexivity|]. exists f'. exact I'.
Qed.

(* ================================================================================== *)
(* Whole runs                                                                         *)
(* ================================================================================== *)

Lemma run_sim p sg1 sg2 : forall fuel n s f g1 r1 g2 r2, Inv f g1 r1 g2 r2 ->
  snd (run p sg1 fuel n s g1 r1) <> Oom -> snd (run p sg2 fuel n s g2 r2) <> Oom ->
  run p sg1 fuel n s g1 r1 = run p sg2 fuel n s g2 r2.
Proof.
  induction fuel as [|k IH]; intros n s f g1 r1 g2 r2 I; cbn [run]; [reflexivity|].
  destruct (p_next p s) as [[o cont]|]; [|reflexivity].
  pose proof (mstep_sim f g1 r1 g2 r2 o I) as HS.
  destruct (mstep g1 r1 o) as [g1' r1' ob1| | |], (mstep g2 r2 o) as [g2' r2' ob2| | |];
    cbn [snd]; try contradiction; try congruence.
  destruct HS as (<- & f' & I').
  destruct (inv_sched f' g1' r1' g2' r2' (sg1 n g1') (sg2 n g2') I')
    as (h1 & h2 & f'' & E1 & E2 & I'').
  rewrite E1, E2. cbn [snd]. intros H1 H2. rewrite (IH (S n) (cont ob1) f'' h1 r1' h2 r2' I'' H1 H2).
  reflexivity.
Qed.

Lemma repeat_roots_ok g k : roots_ok g (repeat 0 k).
Proof. intros r Hr. apply repeat_spec in Hr. now left. Qed.

Lemma inv_initial size1 size2 k : 2 <= size1 -> 2 <= size2 ->
  Inv (fun _ _ => False) (gc_new size1) (repeat 0 k) (gc_new size2) (repeat 0 k).
Proof.
  intros H1 H2. destruct (gc_new_wf size1 H1) as (W1 & C1). destruct (gc_new_wf size2 H2) as (W2 & C2).
  constructor; try assumption; try apply repeat_roots_ok; try (intros; contradiction).
  induction k; cbn [repeat]; constructor; [left; auto|assumption].
Qed.

(* THE schedule theorem: placement of collections and heap size are unobservable *)
Theorem gc_schedule_transparent :
  forall (p : program) (sg1 sg2 : schedule) (size1 size2 : N) (nregs fuel : nat),
  2 <= size1 -> 2 <= size2 ->
  snd (run_from_new p sg1 size1 nregs fuel) <> Oom ->
  snd (run_from_new p sg2 size2 nregs fuel) <> Oom ->
  run_from_new p sg1 size1 nregs fuel = run_from_new p sg2 size2 nregs fuel.
Proof.
  intros p sg1 sg2 size1 size2 nregs fuel H1 H2. unfold run_from_new.
  apply (run_sim p sg1 sg2 fuel 0 (p_init p) _ _ _ _ _ (inv_initial size1 size2 nregs H1 H2)).
Qed.

(* in particular: never collecting, collecting after every operation, and the 0.8
   threshold of gc_run are indistinguishable *)
Definition sched_never : schedule := fun _ _ => false.
Definition sched_always : schedule := fun _ _ => true.
Definition sched_threshold : schedule := fun _ g => gc_trigger g.
Definition sched_of (s : nat -> bool) : schedule := fun n _ => s n.

Corollary gc_never_always_threshold :
  forall (p : program) (size : N) (nregs fuel : nat), 2 <= size ->
  snd (run_from_new p sched_never size nregs fuel) <> Oom ->
  snd (run_from_new p sched_always size nregs fuel) <> Oom ->
  snd (run_from_new p sched_threshold size nregs fuel) <> Oom ->
  run_from_new p sched_never size nregs fuel = run_from_new p sched_always size nregs fuel /\
  run_from_new p sched_never size nregs fuel = run_from_new p sched_threshold size nregs fuel.
Proof.
  intros p size nregs fuel Hs Hn Ha Ht. split; apply gc_schedule_transparent; assumption.
Qed.

(* the collector itself never fails in a run (fuel of the mark phase suffices, no object is
   read through the wrong accessor) *)
Lemma run_no_collfail p sg : forall fuel n s g regs, WF g -> Closed g -> roots_ok g regs ->
  snd (run p sg fuel n s g regs) <> CollFail.
Proof.
  induction fuel as [|k IH]; intros n s g regs W C HR; cbn [run]; [discriminate|].
  destruct (p_next p s) as [[o cont]|]; [|discriminate].
  pose proof (mstep_no_fail g regs o W C HR) as HF.
  destruct (mstep g regs o) as [g1 regs1 ob| | |] eqn:E; try discriminate; [|contradiction].
  destruct (mstep_inv g regs o g1 regs1 ob W C HR E) as (W1 & C1 & R1).
  destruct (sg n g1).
  - destruct (collect_total g1 regs1 W1 C1 R1) as (g2 & E2). rewrite E2. cbn [snd].
    destruct (collect_all g1 regs1 g2 W1 C1 R1 E2) as (W2 & C2 & _).
    apply IH; try assumption. exact (collect_roots_ok g1 regs1 g2 W1 C1 R1 E2).
  - cbn [snd]. apply IH; assumption.
Qed.

Theorem run_never_collfail :
  forall (p : program) (sg : schedule) (size : N) (nregs fuel : nat), 2 <= size ->
  snd (run_from_new p sg size nregs fuel) <> CollFail.
Proof.
  intros p sg size nregs fuel Hs. destruct (gc_new_wf size Hs) as (W & C).
  apply run_no_collfail; [exact W|exact C|apply repeat_roots_ok].
Qed.
