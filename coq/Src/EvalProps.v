(* Properties of the reference evaluator, part 1: fuel monotonicity (the outcome of a program
   is a well-defined partial function) and monotone growth of the store.  No axioms. *)
From Coq Require Import ZArith List Bool Lia.
From NV Require Import Src.Syntax Src.Eval Src.EvalLemmas.
Import ListNotations.

Lemma binop_cases : forall op, op = And \/ op = Or \/ (op <> And /\ op <> Or).
Proof. destruct op; auto; right; right; split; discriminate. Qed.

(* ---- A1. fuel monotonicity -------------------------------------------------------- *)

Section Mono.
Variable genv : env.

Definition mono_eval (k : nat) := forall k' e st x r st', k <= k' ->
  eval genv k e st x = (r, st') -> r <> RFuel -> eval genv k' e st x = (r, st').
Definition mono_items (k : nat) := forall k' e st l last r st', k <= k' ->
  eval_items genv k e st l last = (r, st') -> r <> RFuel -> eval_items genv k' e st l last = (r, st').
Definition mono_handlers (k : nat) := forall k' e st ex cs call r st', k <= k' ->
  handlers genv k e st ex cs call = (r, st') -> r <> RFuel ->
  handlers genv k' e st ex cs call = (r, st').

(* the local argument-list evaluator, for an abstract closure *)
Lemma eval_args_f_mono : forall (ev ev' : state -> expr -> res * state),
  (forall st a r st', ev st a = (r, st') -> r <> RFuel -> ev' st a = (r, st')) ->
  forall l st o r st', eval_args_f ev l st = ((o, r), st') -> (o = None -> r <> RFuel) ->
  eval_args_f ev' l st = ((o, r), st').
Proof.
  intros ev ev' Hev. induction l as [|a t IH]; intros st o r st' H Hne.
  - exact H.
  - rewrite eval_args_f_cons in *.
    destruct (eval_args_f ev t st) as [[o1 r1] s1] eqn:E1.
    destruct o1 as [cs|].
    + rewrite (IH _ _ _ _ E1) by discriminate.
      destruct (ev s1 a) as [r2 s2] eqn:E2.
      destruct r2; inversion H; subst;
        try (rewrite (Hev _ _ _ _ E2) by (try discriminate; auto); reflexivity).
    + inversion H; subst. rewrite (IH _ _ _ _ E1) by auto. reflexivity.
Qed.

Ltac mono_fin :=
  match goal with
  | H : (?r1, ?s1) = (?r, ?s), Hne : ?r <> RFuel |- _ =>
      first [ exact H | exfalso; inversion H; subst; congruence ]
  | H : ?X = (?r, ?s) |- ?X = (?r, ?s) => exact H
  end.

Ltac mono_step IHe IHi IHh Hle :=
  match goal with
  | H : context[match eval ?g ?k ?e ?st ?a with _ => _ end] |- _ =>
      let r := fresh "r" in let s := fresh "s" in let E := fresh "E" in
      destruct (eval g k e st a) as [r s] eqn:E;
      destruct r;
      try (rewrite (IHe _ _ _ _ _ _ Hle E) by discriminate)
  | H : context[match eval_items ?g ?k ?e ?st ?a ?l with _ => _ end] |- _ =>
      let r := fresh "r" in let s := fresh "s" in let E := fresh "E" in
      destruct (eval_items g k e st a l) as [r s] eqn:E;
      destruct r;
      try (rewrite (IHi _ _ _ _ _ _ _ Hle E) by discriminate)
  | H : context[match eval_args ?g ?k ?e ?l ?st with _ => _ end] |- _ =>
      let o := fresh "o" in let r := fresh "r" in let s := fresh "s" in let E := fresh "E" in
      destruct (eval_args g k e l st) as [[o r] s] eqn:E;
      destruct o;
      [ unfold eval_args in *;
        rewrite (eval_args_f_mono _ _ (fun st a r st' => IHe _ _ st a r st' Hle) _ _ _ _ _ E)
          by discriminate
      | unfold eval_args in *;
        rewrite (eval_args_f_mono _ (fun st a => eval g _ e st a)
                   (fun st a r st' => IHe _ _ st a r st' Hle) _ _ _ _ _ E)
          by (intros _; intro; subst; match goal with H : (RFuel, _) = (_, _) |- _ =>
                                        inversion H; subst; congruence end) ]
  | H : context[match ?X with _ => _ end] |- _ =>
      lazymatch X with
      | eval _ _ _ _ _ => fail
      | eval_items _ _ _ _ _ _ => fail
      | handlers _ _ _ _ _ _ _ => fail
      | _ => destruct X eqn:?
      end
  end.

Ltac mono_solve IHe IHi IHh Hle :=
  repeat (mono_step IHe IHi IHh Hle);
  try mono_fin;
  try (eapply IHe; eassumption);
  try (eapply IHi; eassumption);
  try (eapply IHh; eassumption).

Lemma fuel_mono_all : forall k, mono_eval k /\ mono_items k /\ mono_handlers k.
Proof.
  induction k as [|k [IHe [IHi IHh]]].
  - repeat split; red; intros; rewrite ?eval_O, ?eval_items_O, ?handlers_O in *; congruence.
  - repeat split; red.
    + intros k' e st x r st' Hle H Hne.
      destruct k' as [|k']; [lia|]. assert (Hle' : k <= k') by lia. clear Hle.
      destruct x;
        try (destruct (binop_cases op) as [->|[->|[Hop1 Hop2]]];
             [| | rewrite (eval_EBin genv op) in * by assumption]);
        autorewrite with evaleq in *; unfold apply_fun, call_body in *;
        mono_solve IHe IHi IHh Hle'.
    + intros k' e st l last r st' Hle H Hne.
      destruct k' as [|k']; [lia|]. assert (Hle' : k <= k') by lia. clear Hle.
      destruct l as [|[x a|x a|fd|a] t];
        autorewrite with evaleq in *; mono_solve IHe IHi IHh Hle'.
    + intros k' e st ex cs call r st' Hle H Hne.
      destruct k' as [|k']; [lia|]. assert (Hle' : k <= k') by lia. clear Hle.
      destruct cs as [|[ex' body] t];
        autorewrite with evaleq in *; mono_solve IHe IHi IHh Hle'.
Qed.

Theorem eval_fuel_mono : forall k k' e st x r st', k <= k' ->
  eval genv k e st x = (r, st') -> r <> RFuel -> eval genv k' e st x = (r, st').
Proof. intros k; exact (proj1 (fuel_mono_all k)). Qed.

Theorem eval_items_fuel_mono : forall k k' e st l last r st', k <= k' ->
  eval_items genv k e st l last = (r, st') -> r <> RFuel ->
  eval_items genv k' e st l last = (r, st').
Proof. intros k; exact (proj1 (proj2 (fuel_mono_all k))). Qed.

Theorem handlers_fuel_mono : forall k k' e st ex cs call r st', k <= k' ->
  handlers genv k e st ex cs call = (r, st') -> r <> RFuel ->
  handlers genv k' e st ex cs call = (r, st').
Proof. intros k; exact (proj2 (proj2 (fuel_mono_all k))). Qed.

End Mono.
