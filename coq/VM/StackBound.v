(* Stack-limit model (property C14): what every handler of back/vmexec.c / back/libvm.c /
   back/vmffi.c does to `machine->sp` and to `machine->stack[]`, and where `vm_check_stack`
   sits relative to the slot writes.

   A handler is mirrored as a *write plan*: the list of its stack-relevant actions in the
   order the C code performs them,
       Bump d    machine->sp += d            (sp++, sp--, sp -= n, the pops of `stack[sp--]`)
       Check     vm_check_stack(machine)     (sp >= stack_size -> "stack too large", exit(1))
       Write o   machine->stack[sp + o] = …  (o relative to the sp current at that point)
   `exec_writes stack_size sp plan` runs a plan on a machine-independent state (only sp and
   the configured size): Ok new_sp | LimitReported | OobWrite idx.

   Five handlers are irregular.  Each has two plans, kept side by side:
       *_pinned   : the code as pinned (writes first, checks afterwards or never)
       *_checked  : advance sp, check, then write (what /repo has after `fix: check the VM
                    stack limit before writing new stack slots`)
   and a `variant` says, per irregular handler, which of the two the tree implements; the
   check (checks/c14.py) determines the variant by probing the real VM under ASan.  All other
   handlers have one plan.  Definitions only; proofs are in StackBoundProofs.v.

   Sources mirrored (read on the current tree):
     push1     vm_execute_{int,long,float,double,char,string,c_null,id_top,id_local,
               id_dim_local,id_dim_slice,id_global,op_dup_int,vec_deref,vecref_vec_deref,
               nil_record_ref,copyglob,push_except}:   sp++; vm_check_stack; stack[sp] = e
     top       unary ops, conversions, id_func_addr, id_func_entry, vecref_deref,
               enumtype_record_to_int, op_neg_arr_*, unary builtins:   stack[sp] = e
     binary    arithmetic/comparison/bit/array/string-concat/vecref_vec_index_deref:
               stack[sp-1] = e; sp--
     poptop    slice_array/range/slice/string, string_deref, builtins pow/assertf:
               sp--; stack[sp] = e
     pop1      op_ass_*, jumpz, array_append:   sp--            (no slot written)
     rewrite   sp--; vm_check_stack
     poppush k record{k} global_vec{k} mk_array_*{d} mk_init_array mk_range{d}(2d)
               array_deref/arrayref_deref/slice_deref{d}(d+1) func_ffi:
               k times stack[sp--]; sp++; vm_check_stack; stack[sp] = e
     rangederef{d}   d times stack[sp--]; stack[sp] = e
     pushn k   push_param: k times (sp++; vm_check_stack; stack[sp] = e)
     slide{q,m}  q = 0: nothing;  m = 0: sp -= q;  else sp -= q+m; m times (sp++; stack[sp] = stack[sp+q])
     call      sp--                     ret/rethrow   stack[fp-4] = stack[sp]; sp = fp-4
     clear_stack   sp = pp + n
   A handler that raises a language exception returns before its write and before its check,
   after popping some of its operands: plan [Bump delta], delta <= 0. *)
From Coq Require Import ZArith List Bool Lia.
From NV Require Import Gen.Opcodes Verifier.Effect.
Import ListNotations.
Local Open Scope Z_scope.

Inductive act := Bump (d : Z) | Check | Write (off : Z).

Inductive wout := Ok (new_sp : Z) | LimitReported | OobWrite (idx : Z).

Fixpoint exec_writes (size sp : Z) (p : list act) : wout :=
  match p with
  | [] => Ok sp
  | Bump d :: r => exec_writes size (sp + d) r
  | Check :: r => if size <=? sp then LimitReported else exec_writes size sp r
  | Write o :: r =>
      let idx := sp + o in
      if (0 <=? idx) && (idx <? size) then exec_writes size sp r else OobWrite idx
  end.

(* sp after the plan, were there no limit *)
Fixpoint net (p : list act) : Z :=
  match p with
  | [] => 0
  | Bump d :: r => d + net r
  | _ :: r => net r
  end.

(* no write below slot 0 (the operands the handler pops are there) *)
Fixpoint no_underflow (sp : Z) (p : list act) : bool :=
  match p with
  | [] => true
  | Bump d :: r => no_underflow (sp + d) r
  | Check :: r => no_underflow sp r
  | Write o :: r => (0 <=? sp + o) && no_underflow sp r
  end.

(* smallest stack size under which the plan completes (given no_underflow) *)
Fixpoint demand (sp : Z) (p : list act) : Z :=
  match p with
  | [] => 0
  | Bump d :: r => demand (sp + d) r
  | Check :: r => Z.max (sp + 1) (demand sp r)
  | Write o :: r => Z.max (sp + o + 1) (demand sp r)
  end.

(* ---- plan building blocks -------------------------------------------------------------- *)

Definition push1 : list act := [Bump 1; Check; Write 0].
Definition top : list act := [Write 0].
Definition binary : list act := [Write (-1); Bump (-1)].
Definition pop (k : Z) : list act := [Bump (- k)].
Definition poppush (k : Z) : list act := [Bump (- k); Bump 1; Check; Write 0].

Fixpoint rep (n : nat) (p : list act) : list act :=
  match n with O => [] | S k => p ++ rep k p end.

Definition unat (z : Z) : nat := Z.to_nat (Z.max 0 z).   (* an `unsigned int` operand *)

(* Write 0; Write (-1); …; Write (-(n-1)) *)
Fixpoint writes_down (n : nat) (o : Z) : list act :=
  match n with O => [] | S k => Write o :: writes_down k (o - 1) end.

(* ---- the five irregular handlers: pinned and checked plans ------------------------------ *)

(* vm_execute_mark.  pinned: stack[sp+5..sp+1] = …; fp = sp = sp+5; vm_check_stack *)
Definition mark_pinned : list act :=
  [Write 5; Write 4; Write 3; Write 2; Write 1; Bump 5; Check].
Definition mark_checked : list act :=
  [Bump 5; Check; Write 0; Write (-1); Write (-2); Write (-3); Write (-4)].

(* vm_execute_dup.  pinned: sp++; stack[sp] = stack[sp-n]   (never checks) *)
Definition dup_pinned : list act := [Bump 1; Write 0].
Definition dup_checked : list act := push1.

(* vm_execute_alloc{n}.  pinned: n times (sp++; stack[sp] = e); vm_check_stack *)
Definition alloc_pinned (n : nat) : list act := rep n [Bump 1; Write 0] ++ [Check].
Definition alloc_checked (n : nat) : list act := rep n push1.

(* vm_execute_record_unpack{c}.  pinned: for i = c..1: stack[sp+(i-1)] = e; sp += c-1; check *)
Definition unpack_pinned (c : nat) : list act :=
  writes_down c (Z.of_nat c - 1) ++ [Bump (Z.of_nat c - 1); Check].
Definition unpack_checked (c : nat) : list act :=
  [Bump (Z.of_nat c - 1); Check] ++ writes_down c 0.

(* builtin read (libvm.c LIB_MATH_READ).  pinned: sp++; …; stack[sp] = e   (never checks) *)
Definition read_pinned : list act := [Bump 1; Write 0].
Definition read_checked : list act := push1.

Inductive irregular := IrrMark | IrrDup | IrrAlloc | IrrRecordUnpack | IrrBuiltinRead.

(* true = the tree checks before it writes *)
Definition variant := irregular -> bool.
Definition pinned : variant := fun _ => false.
Definition checked : variant := fun _ => true.

(* ---- handler shapes ---------------------------------------------------------------------- *)

Inductive shape :=
| ShNone                      (* no stack effect *)
| ShPush1 | ShTop | ShBinary
| ShPop (k : Z)
| ShRewrite
| ShPopPush (k : Z)
| ShRangeDeref (d : Z)
| ShPushN (k : nat)
| ShPopTop                    (* slice_*, string_deref, pow, assertf *)
| ShSlide (q m : Z)
| ShMove (delta : Z)          (* call, clear_stack, a faulting handler: sp += delta, nothing written *)
| ShRet (delta : Z)           (* ret, rethrow: stack[fp-4] = stack[sp]; sp = fp-4  (delta = fp-4-sp) *)
| ShMark | ShDup | ShAlloc (n : nat) | ShUnpack (c : nat) | ShRead.

Definition shape_plan (v : variant) (s : shape) : list act :=
  match s with
  | ShNone => []
  | ShPush1 => push1
  | ShTop => top
  | ShBinary => binary
  | ShPop k => pop k
  | ShRewrite => [Bump (-1); Check]
  | ShPopPush k => poppush k
  | ShRangeDeref d => [Bump (- d); Write 0]
  | ShPushN k => rep k push1
  | ShPopTop => [Bump (-1); Write 0]
  | ShSlide q m =>
      if q =? 0 then []
      else if m =? 0 then [Bump (- q)]
      else Bump (- q - m) :: rep (Z.to_nat m) [Bump 1; Write 0]
  | ShMove delta => [Bump delta]
  | ShRet delta => [Write delta; Bump delta]
  | ShMark => if v IrrMark then mark_checked else mark_pinned
  | ShDup => if v IrrDup then dup_checked else dup_pinned
  | ShAlloc n => if v IrrAlloc then alloc_checked n else alloc_pinned n
  | ShUnpack c => if v IrrRecordUnpack then unpack_checked c else unpack_pinned c
  | ShRead => if v IrrBuiltinRead then read_checked else read_pinned
  end.

(* builtin ids: regenerated from front/libmath.h into Gen/Opcodes.v (pow = 7, read = 12, assertf = 22) *)
Definition builtin_shape (id : Z) : shape :=
  if (id =? lib_math_pow) || (id =? lib_math_assertf) then ShPopTop
  else if id =? lib_math_read then ShRead
  else ShTop.

(* The opcode table.  `delta` = (sp after) - (sp before) as observed; it is used only where
   the operand count is not in the instruction word: push_param (parameters of the chosen
   entry), mk_init_array (elements), func_ffi (parameters), call/clear_stack/ret/rethrow. *)
Definition shape_of (i : rinstr) (delta : Z) : shape :=
  let w0 := r_w0 i in
  match r_op i with
  | BYTECODE_INT | BYTECODE_LONG | BYTECODE_FLOAT | BYTECODE_DOUBLE | BYTECODE_CHAR
  | BYTECODE_STRING | BYTECODE_C_NULL | BYTECODE_NIL_RECORD_REF | BYTECODE_PUSH_EXCEPT
  | BYTECODE_COPYGLOB | BYTECODE_ID_GLOBAL | BYTECODE_ID_TOP
  | BYTECODE_ID_LOCAL | BYTECODE_ID_DIM_LOCAL | BYTECODE_ID_DIM_SLICE | BYTECODE_OP_DUP_INT
  | BYTECODE_VEC_DEREF | BYTECODE_VECREF_VEC_DEREF => ShPush1
  | BYTECODE_DUP => ShDup
  | BYTECODE_OP_INC_INT | BYTECODE_OP_DEC_INT => ShNone
  | BYTECODE_ARRAY_APPEND => ShPop 1
  | BYTECODE_REWRITE => ShRewrite
  | BYTECODE_OP_NEG_INT | BYTECODE_OP_NEG_LONG | BYTECODE_OP_NEG_FLOAT | BYTECODE_OP_NEG_DOUBLE
  | BYTECODE_OP_NOT_INT | BYTECODE_OP_BIN_NOT_INT | BYTECODE_OP_BIN_NOT_LONG
  | BYTECODE_INT_TO_LONG | BYTECODE_INT_TO_FLOAT | BYTECODE_INT_TO_DOUBLE
  | BYTECODE_LONG_TO_INT | BYTECODE_LONG_TO_FLOAT | BYTECODE_LONG_TO_DOUBLE
  | BYTECODE_FLOAT_TO_INT | BYTECODE_FLOAT_TO_LONG | BYTECODE_FLOAT_TO_DOUBLE
  | BYTECODE_DOUBLE_TO_INT | BYTECODE_DOUBLE_TO_LONG | BYTECODE_DOUBLE_TO_FLOAT
  | BYTECODE_ENUMTYPE_RECORD_TO_INT | BYTECODE_VECREF_DEREF
  | BYTECODE_OP_NEG_ARR_INT | BYTECODE_OP_NEG_ARR_LONG | BYTECODE_OP_NEG_ARR_FLOAT
  | BYTECODE_OP_NEG_ARR_DOUBLE | BYTECODE_ID_FUNC_ENTRY | BYTECODE_ID_FUNC_ADDR => ShTop
  | BYTECODE_OP_ADD_INT | BYTECODE_OP_SUB_INT | BYTECODE_OP_MUL_INT | BYTECODE_OP_DIV_INT
  | BYTECODE_OP_MOD_INT | BYTECODE_OP_ADD_LONG | BYTECODE_OP_SUB_LONG | BYTECODE_OP_MUL_LONG
  | BYTECODE_OP_DIV_LONG | BYTECODE_OP_MOD_LONG | BYTECODE_OP_ADD_FLOAT | BYTECODE_OP_SUB_FLOAT
  | BYTECODE_OP_MUL_FLOAT | BYTECODE_OP_DIV_FLOAT | BYTECODE_OP_ADD_DOUBLE
  | BYTECODE_OP_SUB_DOUBLE | BYTECODE_OP_MUL_DOUBLE | BYTECODE_OP_DIV_DOUBLE
  | BYTECODE_OP_ADD_STRING | BYTECODE_OP_ADD_INT_STRING | BYTECODE_OP_ADD_STRING_INT
  | BYTECODE_OP_ADD_LONG_STRING | BYTECODE_OP_ADD_STRING_LONG | BYTECODE_OP_ADD_FLOAT_STRING
  | BYTECODE_OP_ADD_STRING_FLOAT | BYTECODE_OP_ADD_DOUBLE_STRING | BYTECODE_OP_ADD_STRING_DOUBLE
  | BYTECODE_OP_ADD_CHAR_STRING | BYTECODE_OP_ADD_STRING_CHAR
  | BYTECODE_OP_LT_INT | BYTECODE_OP_GT_INT | BYTECODE_OP_LTE_INT | BYTECODE_OP_GTE_INT
  | BYTECODE_OP_EQ_INT | BYTECODE_OP_NEQ_INT
  | BYTECODE_OP_LT_LONG | BYTECODE_OP_GT_LONG | BYTECODE_OP_LTE_LONG | BYTECODE_OP_GTE_LONG
  | BYTECODE_OP_EQ_LONG | BYTECODE_OP_NEQ_LONG
  | BYTECODE_OP_LT_FLOAT | BYTECODE_OP_GT_FLOAT | BYTECODE_OP_LTE_FLOAT | BYTECODE_OP_GTE_FLOAT
  | BYTECODE_OP_EQ_FLOAT | BYTECODE_OP_NEQ_FLOAT
  | BYTECODE_OP_LT_DOUBLE | BYTECODE_OP_GT_DOUBLE | BYTECODE_OP_LTE_DOUBLE | BYTECODE_OP_GTE_DOUBLE
  | BYTECODE_OP_EQ_DOUBLE | BYTECODE_OP_NEQ_DOUBLE
  | BYTECODE_OP_LT_CHAR | BYTECODE_OP_GT_CHAR | BYTECODE_OP_LTE_CHAR | BYTECODE_OP_GTE_CHAR
  | BYTECODE_OP_EQ_CHAR | BYTECODE_OP_NEQ_CHAR
  | BYTECODE_OP_EQ_STRING | BYTECODE_OP_NEQ_STRING | BYTECODE_OP_EQ_C_PTR | BYTECODE_OP_NEQ_C_PTR
  | BYTECODE_OP_EQ_NIL | BYTECODE_OP_EQ_STRING_NIL | BYTECODE_OP_EQ_ARRAY_NIL
  | BYTECODE_OP_EQ_RECORD_NIL | BYTECODE_OP_EQ_FUNC_NIL | BYTECODE_OP_EQ_NIL_STRING
  | BYTECODE_OP_EQ_NIL_ARRAY | BYTECODE_OP_EQ_NIL_RECORD | BYTECODE_OP_EQ_NIL_FUNC
  | BYTECODE_OP_NEQ_NIL | BYTECODE_OP_NEQ_STRING_NIL | BYTECODE_OP_NEQ_ARRAY_NIL
  | BYTECODE_OP_NEQ_RECORD_NIL | BYTECODE_OP_NEQ_FUNC_NIL | BYTECODE_OP_NEQ_NIL_STRING
  | BYTECODE_OP_NEQ_NIL_ARRAY | BYTECODE_OP_NEQ_NIL_RECORD | BYTECODE_OP_NEQ_NIL_FUNC
  | BYTECODE_OP_BIN_AND_INT | BYTECODE_OP_BIN_OR_INT | BYTECODE_OP_BIN_XOR_INT
  | BYTECODE_OP_BIN_SHL_INT | BYTECODE_OP_BIN_SHR_INT
  | BYTECODE_OP_BIN_AND_LONG | BYTECODE_OP_BIN_OR_LONG | BYTECODE_OP_BIN_XOR_LONG
  | BYTECODE_OP_BIN_SHL_LONG | BYTECODE_OP_BIN_SHR_LONG
  | BYTECODE_OP_ADD_ARR_INT | BYTECODE_OP_ADD_ARR_LONG | BYTECODE_OP_ADD_ARR_FLOAT
  | BYTECODE_OP_ADD_ARR_DOUBLE | BYTECODE_OP_SUB_ARR_INT | BYTECODE_OP_SUB_ARR_LONG
  | BYTECODE_OP_SUB_ARR_FLOAT | BYTECODE_OP_SUB_ARR_DOUBLE | BYTECODE_OP_MUL_ARR_INT
  | BYTECODE_OP_MUL_ARR_LONG | BYTECODE_OP_MUL_ARR_FLOAT | BYTECODE_OP_MUL_ARR_DOUBLE
  | BYTECODE_OP_MUL_ARR_ARR_INT | BYTECODE_OP_MUL_ARR_ARR_LONG | BYTECODE_OP_MUL_ARR_ARR_FLOAT
  | BYTECODE_OP_MUL_ARR_ARR_DOUBLE
  | BYTECODE_VECREF_VEC_INDEX_DEREF => ShBinary
  | BYTECODE_STRING_DEREF
  | BYTECODE_SLICE_ARRAY | BYTECODE_SLICE_RANGE | BYTECODE_SLICE_SLICE | BYTECODE_SLICE_STRING =>
      ShPopTop
  | BYTECODE_OP_ASS_INT | BYTECODE_OP_ASS_LONG | BYTECODE_OP_ASS_FLOAT | BYTECODE_OP_ASS_DOUBLE
  | BYTECODE_OP_ASS_CHAR | BYTECODE_OP_ASS_STRING | BYTECODE_OP_ASS_C_PTR | BYTECODE_OP_ASS_ARRAY
  | BYTECODE_OP_ASS_RECORD | BYTECODE_OP_ASS_FUNC | BYTECODE_OP_ASS_RECORD_NIL => ShPop 1
  | BYTECODE_JUMPZ => ShPop 1
  | BYTECODE_JUMP | BYTECODE_LABEL | BYTECODE_LINE | BYTECODE_FUNC_DEF | BYTECODE_FUNC_OBJ => ShNone
  | BYTECODE_MK_ARRAY_INT | BYTECODE_MK_ARRAY_LONG | BYTECODE_MK_ARRAY_FLOAT
  | BYTECODE_MK_ARRAY_DOUBLE | BYTECODE_MK_ARRAY_CHAR | BYTECODE_MK_ARRAY_STRING
  | BYTECODE_MK_ARRAY_ARRAY | BYTECODE_MK_ARRAY_RECORD | BYTECODE_MK_ARRAY_FUNC => ShPopPush (Z.max 0 w0)
  | BYTECODE_MK_INIT_ARRAY => ShPopPush (1 - delta)
  | BYTECODE_MK_RANGE => ShPopPush (2 * Z.max 0 w0)
  | BYTECODE_ARRAY_DEREF | BYTECODE_ARRAYREF_DEREF | BYTECODE_SLICE_DEREF => ShPopPush (Z.max 0 w0 + 1)
  | BYTECODE_RANGE_DEREF => ShRangeDeref (Z.max 0 w0)
  | BYTECODE_RECORD | BYTECODE_GLOBAL_VEC => ShPopPush (Z.max 0 w0)
  | BYTECODE_RECORD_UNPACK => ShUnpack (unat w0)
  | BYTECODE_ALLOC => ShAlloc (unat w0)
  | BYTECODE_BUILD_IN => builtin_shape w0
  | BYTECODE_MARK => ShMark
  | BYTECODE_CALL => ShMove delta
  | BYTECODE_SLIDE => ShSlide (Z.max 0 w0) (Z.max 0 (r_w1 i))
  | BYTECODE_CLEAR_STACK => ShMove delta
  | BYTECODE_RET | BYTECODE_RETHROW => ShRet delta
  | BYTECODE_PUSH_PARAM => ShPushN (unat delta)
  | BYTECODE_HALT | BYTECODE_UNHANDLED_EXCEPTION => ShNone
  | BYTECODE_FUNC_FFI => ShPopPush (1 - delta)
  | BYTECODE_FUNC_FFI_BOOL | BYTECODE_FUNC_FFI_INT | BYTECODE_FUNC_FFI_LONG
  | BYTECODE_FUNC_FFI_FLOAT | BYTECODE_FUNC_FFI_DOUBLE | BYTECODE_FUNC_FFI_CHAR
  | BYTECODE_FUNC_FFI_STRING | BYTECODE_FUNC_FFI_VOID | BYTECODE_FUNC_FFI_C_PTR
  | BYTECODE_FUNC_FFI_RECORD => ShNone      (* descriptors: data, never dispatched *)
  | BYTECODE_UNKNOWN | BYTECODE_ID_FUNC_FUNC | BYTECODE_END => ShNone   (* assert(0) *)
  end.

(* a handler whose only transfer of control is "next instruction or the exception handler" *)
Definition linear (o : opcode) : bool :=
  match o with
  | BYTECODE_JUMP | BYTECODE_JUMPZ | BYTECODE_CALL | BYTECODE_RET | BYTECODE_RETHROW
  | BYTECODE_HALT | BYTECODE_UNHANDLED_EXCEPTION | BYTECODE_CLEAR_STACK => false
  | _ => true
  end.

(* fault = the handler raised a language exception (control went to the exception table) *)
Definition shape_at (i : rinstr) (fault : bool) (delta : Z) : shape :=
  if fault && linear (r_op i) then ShMove delta else shape_of i delta.

Definition plan (v : variant) (i : rinstr) (fault : bool) (delta : Z) : list act :=
  shape_plan v (shape_at i fault delta).

Definition plan_pinned := plan pinned.
Definition plan_checked := plan checked.

Definition irregular_of (i : rinstr) : option irregular :=
  match r_op i with
  | BYTECODE_MARK => Some IrrMark
  | BYTECODE_DUP => Some IrrDup
  | BYTECODE_ALLOC => Some IrrAlloc
  | BYTECODE_RECORD_UNPACK => Some IrrRecordUnpack
  | BYTECODE_BUILD_IN => if r_w0 i =? lib_math_read then Some IrrBuiltinRead else None
  | _ => None
  end.

(* shapes that move sp by the observed delta without a check: delta must not be positive *)
Definition downward (s : shape) : bool :=
  match s with ShMove _ | ShRet _ => true | _ => false end.

Definition shape_delta_ok (s : shape) : bool :=
  match s with
  | ShMove d | ShRet d => d <=? 0
  | ShPop k | ShRangeDeref k => 0 <=? k
  | ShSlide q m => (0 <=? q) && (0 <=? m)      (* unsigned operands; shape_of clamps them *)
  | _ => true
  end.

(* ---- a run of plans with a configured stack size -------------------------------------- *)

(* one traced step: the instruction, whether it faulted, the observed sp before and after *)
Record tstep := { t_instr : rinstr; t_fault : bool; t_sp : Z; t_sp' : Z }.

Inductive lres :=
| LDone                          (* every step fits *)
| LLimit (i : nat)               (* "stack too large" reported by step i (0-based) *)
| LOob (i : nat) (idx : Z).      (* step i writes slot idx outside [0, size) *)

Fixpoint run_plans (v : variant) (size : Z) (tr : list tstep) (i : nat) : lres :=
  match tr with
  | [] => LDone
  | t :: rest =>
    match exec_writes size (t_sp t) (plan v (t_instr t) (t_fault t) (t_sp' t - t_sp t)) with
    | Ok _ => run_plans v size rest (S i)
    | LimitReported => LLimit i
    | OobWrite idx => LOob i idx
    end
  end.

(* the plan table agrees with the observed trace: sp' = sp + net plan *)
Definition step_consistent (v : variant) (t : tstep) : bool :=
  let p := plan v (t_instr t) (t_fault t) (t_sp' t - t_sp t) in
  (t_sp t + net p =? t_sp' t) && no_underflow (t_sp t) p &&
  shape_delta_ok (shape_at (t_instr t) (t_fault t) (t_sp' t - t_sp t)).

(* stack size the whole trace needs *)
Fixpoint trace_demand (v : variant) (tr : list tstep) : Z :=
  match tr with
  | [] => 0
  | t :: rest =>
    Z.max (demand (t_sp t) (plan v (t_instr t) (t_fault t) (t_sp' t - t_sp t))) (trace_demand v rest)
  end.
