(* Which stack slots are collector roots.

   In every state that a module accepted by the certificate checker can reach, each slot of the
   VM stack is either a value slot (SVal) or one of the five slots of a complete frame header
   [saved pp; line; saved gp; saved fp; return address] written by MARK.  Hence the slots that must
   be tagged GC_MEM_ADDR (roots of gc_run) are exactly the value slots and the third slot of every
   header — the saved closure environment of a suspended or half-built activation — and nothing
   else on the stack refers to the heap.  The lock-step of harness/ocaml/verifier/vrun.ml compares
   this classification (kind_of_slot) with the real gc_stack tags of slots 0..sp before every
   instruction; checks/parts/gcschedule.py runs the programs under forced collection schedules.
   Together they tie the premise of GC/GCTransparent.v (`the roots contain everything in use`)
   to back/vmexec.c.

   No axioms. *)
From Coq Require Import List Arith Bool Lia.
From NV Require Import Gen.Opcodes Verifier.Shape Verifier.Effect Verifier.Verify Verifier.VerifyInv
     Verifier.VerifySound.
Import ListNotations.

(* the slot kind as the collector sees it *)
Definition is_root (sl : slot) : bool :=
  match sl with SVal | SGp => true | _ => false end.

Lemma Forall_firstn_ {A} (Q : A -> Prop) : forall n l, Forall Q l -> Forall Q (firstn n l).
Proof.
  induction n as [|n IH]; intros l H; cbn; [constructor|].
  destruct l as [|x l]; [constructor|]. inversion H; subst. constructor; auto.
Qed.

Lemma Forall_skipn_ {A} (Q : A -> Prop) : forall n l, Forall Q l -> Forall Q (skipn n l).
Proof.
  induction n as [|n IH]; intros l H; cbn; [exact H|].
  destruct l as [|x l]; [constructor|]. inversion H; subst. auto.
Qed.

Lemma Forall_repeat_ {A} (Q : A -> Prop) x n : Q x -> Forall Q (repeat x n).
Proof. intros H. induction n; cbn; constructor; auto. Qed.

Lemma Forall_nth_ {A} (Q : A -> Prop) l i x : Forall Q l -> nth_error l i = Some x -> Q x.
Proof. intros H E. apply nth_error_In in E. rewrite Forall_forall in H. auto. Qed.

(* ------------------------------------------------------------------ ghost function names are
   either the top-level code (0) or function entries *)
Section Ghost.
Variable code : nat -> option ainstr.
Variable handler : nat -> option nat.
Variable np : nat -> nat.
Variable is_entry : nat -> bool.
Variable entry : nat.

Definition fgood (g : nat) : Prop := g = 0 \/ is_entry g = true.
Definition slot_good (sl : slot) : Prop := match sl with SIP _ c => fgood c | _ => True end.
Definition Inv2 (s : st) : Prop := fgood (cur s) /\ Forall slot_good (stk s).

Lemma Inv2_init : Inv2 init.
Proof. split; [now left|constructor]. Qed.

Ltac brk H :=
  repeat match type of H with
         | context [match ?x with _ => _ end] => destruct x eqn:?; try discriminate H
         end.

Ltac fin H :=
  inversion H; subst; clear H; unfold Inv2, setip; cbn [cur stk];
  repeat match goal with
         | |- _ /\ _ => split
         | |- Forall _ (_ ++ _) => apply Forall_app; split
         | |- Forall _ (firstn _ _) => apply Forall_firstn_
         | |- Forall _ (skipn _ _) => apply Forall_skipn_
         | |- Forall _ (repeat SVal _) => apply Forall_repeat_; exact I
         | |- Forall _ (_ :: _) => constructor
         | |- Forall _ [] => constructor
         | |- slot_good _ => first [exact I | cbn; assumption]
         end; auto.

Lemma fault_inv2 s pops ip' len' s' :
  Inv2 s -> fault handler s pops ip' len' = Next s' -> Inv2 s'.
Proof.
  intros [G1 G2] H. unfold fault in H. brk H. fin H.
Qed.

Lemma unwind_inv2 s fr k s' :
  Inv2 s ->
  (forall a l' p0 f0 c, fgood c -> Forall slot_good l' -> k a l' p0 f0 c = Next s' -> Inv2 s') ->
  unwind s fr k = Next s' -> Inv2 s'.
Proof.
  intros [G1 G2] K H. unfold unwind in H. brk H.
  match goal with E : nth_error (stk s) (fr - 1) = Some (SIP ?a ?c) |- _ =>
    pose proof (Forall_nth_ _ _ _ _ G2 E) as Gc end.
  eapply K; [exact Gc| |exact H].
  apply Forall_app; split; [now apply Forall_firstn_|repeat constructor].
Qed.

Lemma step_inv2 s ip' len' s' :
  Inv2 s -> step code handler np is_entry entry s ip' len' = Next s' -> Inv2 s'.
Proof.
  intros G H. pose proof G as [G1 G2]. unfold step in H. cbv zeta in H.
  destruct (code (ip s)) as [i|]; [|discriminate].
  destruct i.
  - (* AOp *) brk H; try (eapply fault_inv2; eassumption). fin H.
  - brk H. fin H.
  - brk H. fin H.
  - (* AMark *) brk H. fin H.
  - (* ACall *) brk H; try (eapply fault_inv2; eassumption).
    match goal with E : (is_entry ip' && _)%bool = true |- _ =>
      apply andb_true_iff in E; destruct E as [E1 E2] end.
    fin H. now right.
  - (* ARet *) brk H. eapply unwind_inv2; [exact G| |exact H].
    intros a l' p0 f0 c Gc Gl E. cbv beta in E. brk E. fin E.
  - (* ARethrow *) eapply unwind_inv2; [exact G| |exact H].
    intros a l' p0 f0 c Gc Gl E. cbv beta in E. brk E. fin E.
  - brk H. fin H.
  - (* ASlide *) brk H; fin H.
  - brk H. fin H.
  - brk H. fin H.
  - (* AFfi *) brk H; try (eapply fault_inv2; eassumption). fin H.
  - discriminate.
  - discriminate.
  - discriminate.
Qed.

Lemma run_inv2 : forall obs s s',
  Inv2 s -> run code handler np is_entry entry s obs = Next s' -> Inv2 s'.
Proof.
  induction obs as [|[ip' len'] rest IH]; intros s s' G H; cbn [run] in H.
  - inversion H; subst; exact G.
  - destruct (step code handler np is_entry entry s ip' len') as [s1| | |c|] eqn:E; try discriminate.
    eapply IH; [|exact H]. eapply step_inv2; eassumption.
Qed.

End Ghost.

(* ------------------------------------------------------------------ classification *)

(* slot i is a value, or lies in a complete header that starts at h *)
Definition classified (l : list slot) (i : nat) : Prop :=
  nth_error l i = Some SVal \/
  exists h p f r c, hdr l h p f r c /\ h <= i /\ i < h + 5.

Section Class.
Variable exct : list (nat * nat).
Variable metas : list fmeta.
Variable certs : list acert.

Local Notation base := (Verify.base metas).
Local Notation is_entry := (Verify.is_entry metas).
Local Notation opens_ok := (VerifyInv.opens_ok exct metas certs).
Local Notation chain := (VerifyInv.chain exct metas certs).
Local Notation frame_ok := (VerifyInv.frame_ok exct metas certs).
Local Notation vals_below := (VerifyInv.vals_below metas).
Local Notation in_hdr := (VerifyInv.in_hdr metas).

Lemma opens_hdr l Pc fn : forall os Fc, opens_ok l Pc fn os Fc ->
  forall o, In o os -> exists Fp r, hdr l (Pc + base fn + o) Pc Fp r fn.
Proof.
  induction os as [|o1 os IH]; intros Fc H o Hin; [destruct Hin|].
  cbn in H. destruct H as (_ & Fp & r & Hh & _ & _ & _ & _ & Ho).
  destruct Hin as [<-|Hin]; [eauto|]. eapply IH; eauto.
Qed.

Lemma vals_class l Pc fn os Fc n :
  opens_ok l Pc fn os Fc -> vals_below l Pc fn os n ->
  forall i, Pc <= i -> i < n -> classified l i.
Proof.
  intros Ho Hv i H1 H2. destruct (Hv i H1 H2) as [(o & Hin & Ha & Hb)|Hval]; [|now left].
  destruct (opens_hdr _ _ _ _ _ Ho o Hin) as (Fp & r & Hh). right. eauto 10.
Qed.

Lemma chain_class : forall cs l Pc,
  Forall (slot_good is_entry) l ->
  chain l Pc cs -> (cs = [] -> Pc = 0) -> forall i, i < Pc -> classified l i.
Proof.
  induction cs as [|c cs IH]; intros l Pc G H H0 i Hi.
  - specialize (H0 eq_refl). lia.
  - cbn in H.
    destruct H as (H5 & Hh & Hpf & HfP & Hr & Hcert & Hhok & Hd & Hos & Hop & Hv & He & Hz & Hch).
    destruct (Nat.le_gt_cases (Pc - 5) i) as [Hge|Hlt].
    + right. exists (Pc - 5), (cP0 c), (cF0 c), (cr c), (cg c). split; [exact Hh|lia].
    + destruct (Nat.le_gt_cases (cP0 c) i) as [Hge2|Hlt2].
      * eapply vals_class; eauto.
      * eapply IH; eauto.
        intros ->.
        (* the ghost function of this header is 0 or an entry *)
        destruct Hh as (_ & _ & _ & _ & Hip).
        pose proof (Forall_nth_ _ _ _ _ G Hip) as Gc. cbn in Gc.
        destruct Gc as [Gc|Gc]; [now apply Hz in Gc|]. apply He in Gc. now contradiction Gc.
Qed.

Lemma frame_class l Pc Fc f d os cs :
  fgood is_entry f -> Forall (slot_good is_entry) l ->
  frame_ok l Pc Fc f d os cs -> forall i, i < length l -> classified l i.
Proof.
  intros Gf G (Hos & Hlen & Hop & Hch & Hv & He & Hz) i Hi.
  destruct (Nat.le_gt_cases Pc i) as [Hge|Hlt].
  - eapply vals_class; eauto.
  - eapply chain_class; eauto. intros ->.
    destruct Gf as [Gf|Gf]; [now apply Hz in Gf|]. apply He in Gf. now contradiction Gf.
Qed.

End Class.

(* every slot of every reachable stack of an accepted module is a value or lies in a complete
   frame header; in particular the saved environment of every activation is on the stack as the
   third slot of a header *)
Theorem stack_slots_classified :
  forall prog exct metas entry certs,
    check_all prog exct metas entry certs = true ->
    forall obs s,
      run (code prog) (handler exct) (np metas) (is_entry metas) entry init obs = Next s ->
      forall i, i < length (stk s) -> classified (stk s) i.
Proof.
  intros prog exct metas entry certs CHK obs s E i Hi.
  pose proof (run_good prog exct metas entry certs CHK obs init (Inv_init prog exct metas entry certs CHK)) as G.
  rewrite E in G. destruct G as (d & os & cs & _ & HF).
  pose proof (run_inv2 _ _ _ _ _ obs init s (Inv2_init (is_entry metas)) E) as [G1 G2].
  eapply frame_class; eauto.
Qed.

(* the collector's view: a slot is a root iff it is a value slot or the saved-gp slot (offset 2) of
   a header; the other four header slots are never roots *)
Corollary root_slots :
  forall prog exct metas entry certs,
    check_all prog exct metas entry certs = true ->
    forall obs s,
      run (code prog) (handler exct) (np metas) (is_entry metas) entry init obs = Next s ->
      forall i sl, nth_error (stk s) i = Some sl ->
        is_root sl = true <->
        (sl = SVal \/ exists h p f r c, hdr (stk s) h p f r c /\ i = h + 2).
Proof.
  intros prog exct metas entry certs CHK obs s E i sl Hn.
  assert (Hi : i < length (stk s)) by (apply nth_error_Some; congruence).
  pose proof (stack_slots_classified _ _ _ _ _ CHK obs s E i Hi) as C.
  split.
  - intros R. destruct sl; try discriminate R; [now left|].
    destruct C as [C|(h & p & f & r & c & Hh & Ha & Hb)]; [congruence|].
    right. exists h, p, f, r, c. split; [exact Hh|].
    destruct Hh as (H0 & H1 & H2 & H3 & H4).
    assert (i = h \/ i = S h \/ i = S (S h) \/ i = S (S (S h)) \/ i = S (S (S (S h)))) as D by lia.
    destruct D as [ -> | [ -> | [ -> | [ -> | -> ]]]]; try congruence. lia.
  - intros [->|(h & p & f & r & c & Hh & ->)]; [reflexivity|].
    destruct Hh as (_ & _ & H2 & _). replace (h + 2) with (S (S h)) in Hn by lia.
    rewrite H2 in Hn. inversion Hn; reflexivity.
Qed.
