(* Type safety of the reference evaluator (Src/Eval.v) w.r.t. the declarative typing judgment
   of the model typechecker (Src/TypecheckSpec.v) -- definitions and basic lemmas:
     - facts about cty / accepts / merge,
     - the syntactic side condition `ready_*` (eval_ready) under which the theorem holds,
     - store typings, the extension order, value typing, environments realising contexts,
     - invariance of the typing judgment under lookup-equivalent contexts (for `for`).
   No axioms. *)
From Coq Require Import ZArith NArith List Bool Lia Arith.
From NV Require Import Src.Syntax Src.Eval Src.EvalLemmas Src.EvalProps Src.Types Src.Typecheck Src.TypecheckSpec.
Import ListNotations.

Section CtyInd.
  Variable P : cty -> Prop.
  Hypothesis Hint : P Types.CInt.
  Hypothesis Hbool : P Types.CBool.
  Hypothesis Hfun : forall ps r, Forall (fun p => P (snd p)) ps -> P r -> P (Types.CFun ps r).
  Hypothesis Harr : forall e, P e -> P (Types.CArr e).
  Hypothesis Hrec : forall r, P (Types.CRec r).
  Hypothesis Hnil : P Types.CNil.
  Fixpoint cty_ind' (t : cty) : P t :=
    match t with
    | Types.CInt => Hint
    | Types.CBool => Hbool
    | Types.CFun ps r =>
        Hfun ps r ((fix go (l : list (bool * cty)) : Forall (fun p => P (snd p)) l :=
                      match l with
                      | [] => Forall_nil _
                      | p :: l' => Forall_cons p (cty_ind' (snd p)) (go l')
                      end) ps) (cty_ind' r)
    | Types.CArr e => Harr e (cty_ind' e)
    | Types.CRec r => Hrec r
    | Types.CNil => Hnil
    end.
End CtyInd.

Lemma cty_eqb_eq : forall a b, cty_eqb a b = true -> a = b.
Proof.
  induction a using cty_ind'; destruct b; simpl; intros E; try discriminate; auto.
  - apply andb_true_iff in E. destruct E as [E1 E2]. apply IHa in E2. subst. f_equal.
    clear IHa. revert ps0 E1. induction H as [|[v t] l Hp Hl IH]; intros [|[w u] m] E; try discriminate; auto.
    apply andb_true_iff in E. destruct E as [E E3]. apply andb_true_iff in E. destruct E as [E1 E2].
    apply eqb_prop in E1. simpl in Hp. apply Hp in E2. subst. f_equal. apply IH. exact E3.
  - f_equal. auto.
  - apply N.eqb_eq in E. congruence.
Qed.

Lemma cty_eqb_refl : forall a, cty_eqb a a = true.
Proof.
  induction a using cty_ind'; simpl; auto.
  - rewrite IHa, andb_true_r. induction H as [|[v t] l Hp Hl IH]; auto.
    simpl in Hp. rewrite Hp, IH, eqb_reflx. reflexivity.
  - apply N.eqb_refl.
Qed.

Lemma accepts_inv : forall p a, accepts p a = true ->
  (a = Types.CNil /\ exists r, p = Types.CRec r) \/ (a <> Types.CNil /\ p = a).
Proof.
  intros p a H. destruct a.
  6: { left. split; auto. destruct p; simpl in H; try discriminate. eauto. }
  all: right; (split; [discriminate|]); destruct p; simpl in H; try discriminate;
       apply cty_eqb_eq; simpl; exact H.
Qed.

Lemma accepts_nonnil : forall p a, accepts p a = true -> a <> Types.CNil -> p = a.
Proof. intros p a H N. destruct (accepts_inv _ _ H) as [[E _]|[_ E]]; congruence. Qed.

Lemma accepts_left_nonnil : forall p a, accepts p a = true -> p <> Types.CNil.
Proof. intros p a H E. subst. destruct a; discriminate. Qed.

Lemma accepts_refl : forall a, a <> Types.CNil -> accepts a a = true.
Proof. intros a N. destruct a; try congruence; unfold accepts; apply cty_eqb_refl. Qed.

Lemma merge_inv : forall a b, merge a b = true -> a <> Types.CNil /\ b = a.
Proof.
  intros a b H. destruct a; simpl in H; try discriminate; split; try discriminate;
  symmetry; apply cty_eqb_eq; exact H.
Qed.

Lemma cty_of_nonnil : forall t, cty_of t <> Types.CNil.
Proof. destruct t; discriminate. Qed.

(* every type has a target *)
Definition dflt (t : cty) : cty := match t with Types.CNil => Types.CRec 0%N | _ => t end.
Lemma accepts_dflt : forall t, accepts (dflt t) t = true.
Proof.
  intros t. destruct t; try reflexivity.
  - exact (cty_eqb_refl (Types.CFun ps t)).
  - exact (cty_eqb_refl (Types.CArr t)).
  - exact (cty_eqb_refl (Types.CRec r)).
Qed.

(* ---- side conditions -------------------------------------------------------------------- *)

(* an expression whose value is the literal nil (static type CNil) *)
Fixpoint nilish (e : expr) : bool :=
  match e with
  | ERecNil _ => true
  | EBlock items =>
      (fix go (l : list item) : bool :=
         match l with
         | [] => false
         | i :: t => match t with
                     | [] => match i with IExpr e' => nilish e' | _ => false end
                     | _ :: _ => go t
                     end
         end) items
  | _ => false
  end.

Definition nilish_items : list item -> bool :=
  fix go (l : list item) : bool :=
    match l with
    | [] => false
    | i :: t => match t with
                | [] => match i with IExpr e' => nilish e' | _ => false end
                | _ :: _ => go t
                end
    end.

Lemma nilish_block : forall items, nilish (EBlock items) = nilish_items items.
Proof. reflexivity. Qed.
Lemma nilish_items_one : forall e, nilish_items [IExpr e] = nilish e.
Proof. reflexivity. Qed.
Lemma nilish_items_cons : forall i j t, nilish_items (i :: j :: t) = nilish_items (j :: t).
Proof. reflexivity. Qed.

(* The one side condition: no `let` / `var` initialiser is the literal nil (or a block ending in
   it).  The typechecker gives such a name the type of nil, so the one cell may later be used at
   two different record types (a genuine defect of the implementation, see the Example
   stuck_nil_alias in Src/TypeSafety.v). *)
Section ReadyItems.
  Variable rf : fdef -> bool.
  Variable re : expr -> bool.
  Fixpoint ready_items_f (l : list item) : bool :=
    match l with
    | [] => true
    | i :: t =>
      match i with
      | ILet _ e | IVar _ e => re e && negb (nilish e)
      | IFunc fd => rf fd
      | IExpr e => re e
      end && ready_items_f t
    end.
End ReadyItems.

Fixpoint ready_expr (e : expr) {struct e} : bool :=
  match e with
  | EInt _ | EBool _ | ERecNil _ | EVar _ => true
  | ENeg a | ENot a | EBNot a | EPrint a => ready_expr a
  | EField a _ _ => ready_expr a
  | EBin _ a b => ready_expr a && ready_expr b
  | ECond c a b => ready_expr c && ready_expr a && ready_expr b
  | EIf c a => ready_expr c && ready_expr a
  | EAssign c a => ready_expr c && ready_expr a
  | EWhile c a => ready_expr c && ready_expr a
  | EDoWhile a c => ready_expr a && ready_expr c
  | EIndex c a => ready_expr c && ready_expr a
  | ECall f args => ready_expr f && forallb ready_expr args
  | EBlock items => ready_items_f ready_fdef ready_expr items
  | EFor i c s b => ready_expr i && ready_expr c && ready_expr s && ready_expr b
  | EForInRange _ a b body => ready_expr a && ready_expr b && ready_expr body
  | EForInArr _ a body => ready_expr a && ready_expr body
  | ELambda fd => ready_fdef fd
  | EArrLit es _ => forallb ready_expr es
  | ERecNew _ es => forallb ready_expr es
  end
with ready_fdef (fd : fdef) {struct fd} : bool :=
  match fd with
  | FDef _ _ _ body catches call =>
      ready_items_f ready_fdef ready_expr body &&
      forallb (fun c => ready_items_f ready_fdef ready_expr (snd c)) catches &&
      match call with
      | None => true
      | Some b => ready_items_f ready_fdef ready_expr b
      end
  end.

Definition ready_items (l : list item) : bool := ready_items_f ready_fdef ready_expr l.

Definition eval_ready (p : program) : bool := forallb ready_fdef (p_funcs p).

Lemma ready_EBlock : forall items, ready_expr (EBlock items) = ready_items items.
Proof. reflexivity. Qed.
Lemma ready_fdef_eq : forall fd, ready_fdef fd =
  ready_items (fd_body fd) && forallb (fun c => ready_items (snd c)) (fd_catches fd) &&
  match fd_catch_all fd with None => true | Some b => ready_items b end.
Proof. destruct fd; reflexivity. Qed.
Lemma ready_items_cons : forall i t, ready_items (i :: t) =
  match i with
  | ILet _ e | IVar _ e => ready_expr e && negb (nilish e)
  | IFunc fd => ready_fdef fd
  | IExpr e => ready_expr e
  end && ready_items t.
Proof. reflexivity. Qed.

(* the function items of a run and what follows it *)
Lemma ready_items_run : forall l, ready_items l = true ->
  Forall (fun fd => ready_fdef fd = true) (run_funcs l) /\ ready_items (run_rest l) = true.
Proof.
  induction l as [|i l IH]; intros H; [simpl; auto|].
  destruct i; try (simpl; auto; fail).
  rewrite ready_items_cons in H. apply andb_true_iff in H. destruct H as [H1 H2].
  destruct (IH H2). simpl. auto.
Qed.

(* a record name that is not declared: a cell typed at it can only hold nil *)
Definition fresh_rec (R : list recdecl) : ident :=
  N.succ (fold_right (fun d m => N.max (fst d) m) 0%N R).

Lemma find_rec_le : forall R r fs, find_rec r R = Some fs ->
  (r <= fold_right (fun d m => N.max (fst d) m) 0%N R)%N.
Proof.
  induction R as [|[n fs'] R IH]; intros r fs H; simpl in H; [discriminate|].
  simpl. destruct (N.eqb_spec r n) as [->|Hn].
  - apply N.le_max_l.
  - apply IH in H. etransitivity; [exact H|apply N.le_max_r].
Qed.

Lemma find_rec_fresh : forall R, find_rec (fresh_rec R) R = None.
Proof.
  intros R. destruct (find_rec (fresh_rec R) R) as [fs|] eqn:E; auto.
  apply find_rec_le in E. unfold fresh_rec in E. exfalso.
  apply (N.nle_succ_diag_l _ E).
Qed.

(* ---- environments ------------------------------------------------------------------------ *)

Lemma lookup_push_nil : forall x G, Types.lookup x ([] :: G) = Types.lookup x G.
Proof. reflexivity. Qed.

Lemma declare_lookup : forall x b G G', declare x b G = Ok G' ->
  forall y, Types.lookup y G' = if N.eqb y x then Some b else Types.lookup y G.
Proof.
  intros x b G G' H y. destruct G as [|s G0]; simpl in H.
  - inversion H; subst. simpl. destruct (N.eqb y x); auto.
  - destruct (lookup_scope x s) eqn:E; [discriminate|]. inversion H; subst. simpl.
    destruct (N.eqb y x); auto.
Qed.

Lemma lookup_app : forall x p q,
  Eval.lookup x (p ++ q) = match Eval.lookup x p with Some c => Some c | None => Eval.lookup x q end.
Proof.
  induction p as [|[y c] p IH]; intros q; simpl; auto. destruct (N.eqb x y); auto.
Qed.

(* ---- store typing -------------------------------------------------------------------------- *)

Definition styping := list cty.          (* cell index -> type of its payload, for ever *)

Definition typed_cells (S : styping) (cs : list nat) (ts : list cty) : Prop :=
  Forall2 (fun c t => nth_error S c = Some t) cs ts.

Section Store.
Variable R : list recdecl.
Variable genv : Eval.env.

(* the environment realises the context: every visible name is bound to a cell of its type *)
Definition env_ok (S : styping) (G : Types.env) (e : Eval.env) : Prop :=
  forall x t k, Types.lookup x G = Some (t, k) ->
    exists c, lookup_var genv x e = Some c /\ nth_error S c = Some t.

(* F_def with the scope of the function's own name already pushed *)
Definition FunOk' (Gf : Types.env) (fd : fdef) : Prop :=
  exists G' tb kb,
    declare_params (fd_params fd) Gf = Ok G' /\
    CatchesOk R G' (fd_ret fd) (fd_catches fd) /\
    CallOk R G' (fd_ret fd) (fd_catch_all fd) /\
    ItemsOk R ([] :: G') false None (fd_body fd) (tb, kb) /\
    accepts (cty_of (fd_ret fd)) tb = true.

Lemma FunOk_FunOk' : forall G lam fd, FunOk R G lam fd ->
  FunOk' ((if lam then [] else [(fd_name fd, (fd_cty fd, KTemp))]) :: G) fd.
Proof.
  intros G lam fd H. inversion H; subst. unfold FunOk'. simpl.
  unfold fun_env in H1. eauto 10.
Qed.

Inductive val_ok (S : styping) (st : state) : cellval -> cty -> Prop :=
| V_int z : val_ok S st (Eval.CInt z) Types.CInt
| V_bool b : val_ok S st (Eval.CBool b) Types.CBool
| V_fun fd cenv Gf :
    env_ok S Gf cenv -> FunOk' Gf fd -> ready_fdef fd = true ->
    val_ok S st (Eval.CFun fd cenv)
           (Types.CFun (map (fun p => (snd (fst p), cty_of (snd p))) (fd_params fd)) (cty_of (fd_ret fd)))
| V_arrnil t : val_ok S st (Eval.CArr None) (Types.CArr t)
| V_arr a t elems :
    nth_error (arrs st) a = Some elems -> Forall (fun c => nth_error S c = Some t) elems ->
    val_ok S st (Eval.CArr (Some a)) (Types.CArr t)
| V_recnil r : val_ok S st (Eval.CRec None) (Types.CRec r)
| V_rec o r flds fs :
    nth_error (recs st) o = Some flds -> find_rec r R = Some fs ->
    typed_cells S flds (map cty_of fs) ->
    val_ok S st (Eval.CRec (Some o)) (Types.CRec r).

Definition st_ok (S : styping) (st : state) : Prop :=
  length S = length (cells st) /\
  forall c v t, nth_error (cells st) c = Some v -> nth_error S c = Some t -> val_ok S st v t.

(* extension: cells keep their types, array and record objects stay *)
Definition ext (S : styping) (st : state) (S' : styping) (st' : state) : Prop :=
  (forall c t, nth_error S c = Some t -> nth_error S' c = Some t) /\
  (forall a l, nth_error (arrs st) a = Some l -> nth_error (arrs st') a = Some l) /\
  (forall a l, nth_error (recs st) a = Some l -> nth_error (recs st') a = Some l).

Lemma ext_refl : forall S st, ext S st S st.
Proof. unfold ext; auto. Qed.
Lemma ext_trans : forall S1 st1 S2 st2 S3 st3,
  ext S1 st1 S2 st2 -> ext S2 st2 S3 st3 -> ext S1 st1 S3 st3.
Proof. unfold ext; intros; intuition. Qed.

Lemma typed_cells_ext : forall S st S' st' cs ts, ext S st S' st' ->
  typed_cells S cs ts -> typed_cells S' cs ts.
Proof.
  intros S st S' st' cs ts [H _] T. induction T; constructor; auto.
Qed.

Lemma env_ok_ext : forall S st S' st' G e, ext S st S' st' -> env_ok S G e -> env_ok S' G e.
Proof.
  intros S st S' st' G e [H _] He x t k L. destruct (He x t k L) as [c [H1 H2]]. eauto.
Qed.

Lemma val_ok_ext : forall S st S' st' v t, ext S st S' st' -> val_ok S st v t -> val_ok S' st' v t.
Proof.
  intros S st S' st' v t Hx V. pose proof Hx as [H1 [H2 H3]].
  inversion V; subst; try (constructor; fail).
  - econstructor; eauto. eapply env_ok_ext; eauto.
  - econstructor; eauto. eapply Forall_impl; [|eassumption]. simpl. auto.
  - econstructor; eauto. eapply typed_cells_ext; eauto.
Qed.

Lemma env_ok_push : forall S G e, env_ok S G e -> env_ok S ([] :: G) e.
Proof. intros S G e H x t k L. rewrite lookup_push_nil in L. eauto. Qed.

Lemma lookup_var_cons : forall x y c e,
  lookup_var genv x ((y, c) :: e) = if N.eqb x y then Some c else lookup_var genv x e.
Proof. intros. unfold lookup_var. simpl. destruct (N.eqb x y); auto. Qed.

Lemma env_ok_declare : forall S G G' e x t k c, env_ok S G e ->
  declare x (t, k) G = Ok G' -> nth_error S c = Some t -> env_ok S G' ((x, c) :: e).
Proof.
  intros S G G' e x t k c He D Hc y t' k' L.
  rewrite (declare_lookup _ _ _ _ D) in L. rewrite lookup_var_cons.
  destruct (N.eqb y x).
  - inversion L; subst. eauto.
  - eauto.
Qed.

(* inversion of value typing *)
Lemma val_int : forall S st v, val_ok S st v Types.CInt -> exists z, v = Eval.CInt z.
Proof. intros S st v H. inversion H; eauto. Qed.
Lemma val_bool : forall S st v, val_ok S st v Types.CBool -> exists b, v = Eval.CBool b.
Proof. intros S st v H. inversion H; eauto. Qed.
Lemma val_nil : forall S st v, val_ok S st v Types.CNil -> False.
Proof. intros S st v H. inversion H. Qed.
Lemma val_fun : forall S st v ps r, val_ok S st v (Types.CFun ps r) ->
  exists fd cenv Gf, v = Eval.CFun fd cenv /\
    ps = map (fun p => (snd (fst p), cty_of (snd p))) (fd_params fd) /\ r = cty_of (fd_ret fd) /\
    env_ok S Gf cenv /\ FunOk' Gf fd /\ ready_fdef fd = true.
Proof. intros S st v ps r H. inversion H; subst. eauto 10. Qed.
Lemma val_arr : forall S st v t, val_ok S st v (Types.CArr t) ->
  v = Eval.CArr None \/
  exists a elems, v = Eval.CArr (Some a) /\ nth_error (arrs st) a = Some elems /\
                  Forall (fun c => nth_error S c = Some t) elems.
Proof. intros S st v t H. inversion H; subst; eauto 10. Qed.
Lemma val_rec : forall S st v r, val_ok S st v (Types.CRec r) ->
  v = Eval.CRec None \/
  exists o flds fs, v = Eval.CRec (Some o) /\ nth_error (recs st) o = Some flds /\
                    find_rec r R = Some fs /\ typed_cells S flds (map cty_of fs).
Proof. intros S st v r H. inversion H; subst; eauto 10. Qed.

(* reading cells *)
Lemma cell_get : forall S st c t, st_ok S st -> nth_error S c = Some t ->
  exists v, get_cell st c = Some v /\ val_ok S st v t.
Proof.
  intros S st c t [HL HV] H. unfold get_cell.
  destruct (nth_error (cells st) c) as [v|] eqn:E.
  - eauto.
  - apply nth_error_None in E. assert (c < length S) by (apply nth_error_Some; congruence). lia.
Qed.

Lemma cell_nonnil : forall S st c t, st_ok S st -> nth_error S c = Some t -> t <> Types.CNil.
Proof.
  intros S st c t H1 H2 E. subst. destruct (cell_get _ _ _ _ H1 H2) as [v [_ V]].
  eapply val_nil; eauto.
Qed.

Lemma cell_int : forall S st c, st_ok S st -> nth_error S c = Some Types.CInt ->
  exists z, get_int st c = Some z.
Proof.
  intros S st c H1 H2. destruct (cell_get _ _ _ _ H1 H2) as [v [E V]].
  apply val_int in V. destruct V as [z ->]. unfold get_int. rewrite E. eauto.
Qed.
Lemma cell_bool : forall S st c, st_ok S st -> nth_error S c = Some Types.CBool ->
  exists b, get_bool st c = Some b.
Proof.
  intros S st c H1 H2. destruct (cell_get _ _ _ _ H1 H2) as [v [E V]].
  apply val_bool in V. destruct V as [z ->]. unfold get_bool. rewrite E. eauto.
Qed.

(* ---- store operations ---------------------------------------------------------------------- *)

Lemma nth_error_snoc_old : forall A (l : list A) x c t,
  nth_error l c = Some t -> nth_error (l ++ [x]) c = Some t.
Proof.
  intros. rewrite nth_error_app1; auto. apply nth_error_Some. congruence.
Qed.
Lemma nth_error_snoc_new : forall A (l : list A) x, nth_error (l ++ [x]) (length l) = Some x.
Proof. intros. rewrite nth_error_app2, Nat.sub_diag; auto. Qed.

Lemma ext_snoc : forall S st t st', arrs st' = arrs st -> recs st' = recs st ->
  ext S st (S ++ [t]) st'.
Proof.
  intros S st t st' Ha Hr. unfold ext. rewrite Ha, Hr. repeat split; auto.
  intros. now apply nth_error_snoc_old.
Qed.

(* allocation of a cell whose payload has type t in the EXTENDED typing (closures refer to
   their own cell) *)
Lemma alloc_ok : forall S st v t, st_ok S st -> val_ok (S ++ [t]) st v t ->
  st_ok (S ++ [t]) (snd (alloc st v)) /\ ext S st (S ++ [t]) (snd (alloc st v)) /\
  nth_error (S ++ [t]) (fst (alloc st v)) = Some t.
Proof.
  intros S st v t [HL HV] V. simpl.
  assert (X : ext S st (S ++ [t]) (snd (alloc st v))) by (apply ext_snoc; reflexivity).
  split; [|split]; auto.
  - split; simpl.
    + rewrite !app_length, HL. reflexivity.
    + intros c v' t' Hc Ht.
      destruct (Nat.lt_ge_cases c (length S)) as [Hlt|Hge].
      * rewrite nth_error_app1 in Hc by lia. rewrite nth_error_app1 in Ht by lia.
        eapply val_ok_ext; [exact X|]. eauto.
      * assert (c = length S).
        { assert (c < length (S ++ [t])) by (apply nth_error_Some; congruence).
          rewrite app_length in H. simpl in H. lia. }
        subst c. rewrite nth_error_snoc_new in Ht. rewrite HL, nth_error_snoc_new in Hc.
        inversion Ht; inversion Hc; subst.
        eapply val_ok_ext; [|exact V]. unfold ext; simpl; auto.
  - rewrite <- HL. apply nth_error_snoc_new.
Qed.

Lemma fresh_ok : forall S st v t r st', st_ok S st -> val_ok S st v t -> fresh st v = (r, st') ->
  exists c, r = ROk c /\ st_ok (S ++ [t]) st' /\ ext S st (S ++ [t]) st' /\
            nth_error (S ++ [t]) c = Some t.
Proof.
  intros S st v t r st' Hs V F. unfold fresh in F.
  assert (V' : val_ok (S ++ [t]) st v t).
  { eapply val_ok_ext; [|exact V]. apply ext_snoc; reflexivity. }
  destruct (alloc_ok S st v t Hs V') as [H1 [H2 H3]].
  destruct (alloc st v) as [c s] eqn:E. inversion F; subst. simpl in *. eauto.
Qed.

Lemma set_cell_ok : forall S st c v t, st_ok S st -> nth_error S c = Some t -> val_ok S st v t ->
  st_ok S (set_cell st c v) /\ ext S st S (set_cell st c v).
Proof.
  intros S st c v t [HL HV] Hc V. split.
  - split; simpl.
    + rewrite list_upd_length. exact HL.
    + intros c' v' t' Hc' Ht'.
      assert (X : ext S st S (set_cell st c v)) by (unfold ext; simpl; auto).
      destruct (Nat.eq_dec c c') as [->|Hne].
      * rewrite nth_error_list_upd_same in Hc'.
        -- inversion Hc'; subst. rewrite Hc in Ht'. inversion Ht'; subst.
           eapply val_ok_ext; eauto.
        -- rewrite <- HL. apply nth_error_Some. congruence.
      * rewrite nth_error_list_upd_other in Hc' by auto. eapply val_ok_ext; eauto.
  - unfold ext; simpl; auto.
Qed.

Lemma print_ok : forall S st z, st_ok S st -> st_ok S (print_num st z) /\ ext S st S (print_num st z).
Proof.
  intros S st z [HL HV]. assert (X : ext S st S (print_num st z)) by (unfold ext; simpl; auto).
  split; auto. split; simpl; auto. intros. eapply val_ok_ext; eauto.
Qed.

Lemma new_arr_ok : forall S st cs, st_ok S st ->
  st_ok S (snd (new_arr st cs)) /\ ext S st S (snd (new_arr st cs)) /\
  nth_error (arrs (snd (new_arr st cs))) (fst (new_arr st cs)) = Some cs.
Proof.
  intros S st cs [HL HV].
  assert (X : ext S st S (snd (new_arr st cs))).
  { unfold ext; simpl; repeat split; auto. intros. now apply nth_error_snoc_old. }
  split; [|split]; auto.
  - split; auto. simpl. intros. eapply val_ok_ext; eauto.
  - simpl. apply nth_error_snoc_new.
Qed.

Lemma new_rec_ok : forall S st cs, st_ok S st ->
  st_ok S (snd (new_rec st cs)) /\ ext S st S (snd (new_rec st cs)) /\
  nth_error (recs (snd (new_rec st cs))) (fst (new_rec st cs)) = Some cs.
Proof.
  intros S st cs [HL HV].
  assert (X : ext S st S (snd (new_rec st cs))).
  { unfold ext; simpl; repeat split; auto. intros. now apply nth_error_snoc_old. }
  split; [|split]; auto.
  - split; auto. simpl. intros. eapply val_ok_ext; eauto.
  - simpl. apply nth_error_snoc_new.
Qed.

Lemma list_upd_snoc : forall A (l : list A) a v, list_upd (l ++ [a]) (length l) v = l ++ [v].
Proof. induction l; simpl; intros; auto. now rewrite IHl. Qed.

Lemma alloc_set_cell : forall st v0 v,
  set_cell (snd (alloc st v0)) (fst (alloc st v0)) v = snd (alloc st v).
Proof. intros. unfold set_cell, alloc. simpl. now rewrite list_upd_snoc. Qed.

Lemma Forall2_nth_both : forall A B (Q : A -> B -> Prop) l m i a b,
  Forall2 Q l m -> nth_error l i = Some a -> nth_error m i = Some b -> Q a b.
Proof.
  intros A B Q l m i a b H. revert i. induction H; intros [|i] E1 E2; simpl in *; try discriminate.
  - inversion E1; inversion E2; subst; auto.
  - eauto.
Qed.

(* several new cells at once, each typed in the EXTENDED typing (the closures of a run of
   function items refer to each other's cells) *)
Lemma add_cells_ok : forall S st vs ts, st_ok S st -> Forall2 (val_ok (S ++ ts) st) vs ts ->
  st_ok (S ++ ts) (add_cells st vs) /\ ext S st (S ++ ts) (add_cells st vs).
Proof.
  intros S st vs ts [HL HV] F.
  assert (X : ext S st (S ++ ts) (add_cells st vs)).
  { unfold ext; simpl. repeat split; auto. intros c t Hc. rewrite nth_error_app1; auto.
    apply nth_error_Some. congruence. }
  assert (X' : ext (S ++ ts) st (S ++ ts) (add_cells st vs)) by (unfold ext; simpl; auto).
  split; auto. split; simpl.
  - rewrite !app_length, HL. f_equal. symmetry. clear -F. induction F; simpl; auto.
  - intros c v t Hc Ht.
    destruct (Nat.lt_ge_cases c (length S)) as [Hlt|Hge].
    + rewrite nth_error_app1 in Hc by lia. rewrite nth_error_app1 in Ht by lia.
      eapply val_ok_ext; [exact X|]. eauto.
    + rewrite nth_error_app2 in Hc by lia. rewrite nth_error_app2 in Ht by lia.
      rewrite <- HL in Hc. eapply val_ok_ext; [exact X'|].
      eapply Forall2_nth_both; eauto.
Qed.

(* the type at which an operand of == / != is evaluated: a nil literal is typed at a record
   name that is not declared, so that its cell can only ever hold nil *)
Definition ntgt (t : cty) : cty :=
  match t with Types.CNil => Types.CRec (fresh_rec R) | _ => t end.

Lemma accepts_ntgt : forall t, accepts (ntgt t) t = true.
Proof.
  intros t. destruct t; try reflexivity.
  - exact (cty_eqb_refl (Types.CFun ps t)).
  - exact (cty_eqb_refl (Types.CArr t)).
  - exact (cty_eqb_refl (Types.CRec r)).
Qed.

Lemma cell_fresh_rec : forall S st c, st_ok S st ->
  nth_error S c = Some (Types.CRec (fresh_rec R)) -> get_cell st c = Some (Eval.CRec None).
Proof.
  intros S st c Hs Hc. destruct (cell_get _ _ _ _ Hs Hc) as [v [E V]].
  apply val_rec in V. destruct V as [->|[o [flds [fs [_ [_ [F _]]]]]]]; auto.
  rewrite find_rec_fresh in F. discriminate.
Qed.

(* a cell of reference type holds a reference *)
Lemma cell_ref : forall S st c t, st_ok S st -> nth_error S c = Some t ->
  (exists ps r, t = Types.CFun ps r) \/ (exists e, t = Types.CArr e) \/ (exists r, t = Types.CRec r) ->
  exists v n, get_cell st c = Some v /\ ref_is_nil v = Some n.
Proof.
  intros S st c t Hs Hc Ht. destruct (cell_get _ _ _ _ Hs Hc) as [v [E V]]. exists v.
  destruct Ht as [[ps [r ->]]|[[e ->]|[r ->]]].
  - apply val_fun in V. destruct V as [fd [cenv [Gf [-> _]]]]. simpl. eauto.
  - apply val_arr in V. destruct V as [->|[a [elems [-> _]]]]; simpl; eauto.
  - apply val_rec in V. destruct V as [->|[o [flds [fs [-> _]]]]]; simpl; eauto.
Qed.

End Store.

(* ---- parameters ---------------------------------------------------------------------------- *)

Lemma declare_params_fresh : forall ps s G G' x b cs penv,
  declare_params ps (s :: G) = Ok G' -> lookup_scope x s = Some b ->
  bind_params ps cs = Some penv -> Eval.lookup x penv = None.
Proof.
  induction ps as [|[[y v] t] ps IH]; intros s G G' x b cs penv D L B.
  - destruct cs; inversion B; reflexivity.
  - destruct cs as [|c cs]; [discriminate|]. simpl in B.
    destruct (bind_params ps cs) as [pe|] eqn:E; [|discriminate]. inversion B; subst. clear B.
    simpl in D. destruct (lookup_scope y s) eqn:Ly; [discriminate|]. simpl in D.
    simpl. destruct (N.eqb x y) eqn:Exy.
    + apply N.eqb_eq in Exy. congruence.
    + eapply IH; eauto. simpl. rewrite Exy. exact L.
Qed.

Lemma declare_shape : forall x b G G', declare x b G = Ok G' ->
  exists s G0, G' = ((x, b) :: s) :: G0.
Proof.
  intros x b [|s G0] G' H; simpl in H.
  - inversion H; eauto.
  - destruct (lookup_scope x s); inversion H; eauto.
Qed.

Section Params.
Variable genv : Eval.env.

Lemma params_env_ok : forall S ps Gf G' cs penv cenv,
  declare_params ps Gf = Ok G' ->
  bind_params ps cs = Some penv ->
  Forall2 (fun c p => nth_error S c = Some (cty_of (snd p))) cs ps ->
  env_ok genv S Gf cenv -> env_ok genv S G' (penv ++ cenv).
Proof.
  intros S ps. induction ps as [|[[y v] t] ps IH]; intros Gf G' cs penv cenv D B T He.
  - destruct cs; inversion B; subst. inversion D; subst. exact He.
  - destruct cs as [|c cs]; [discriminate|]. simpl in B.
    destruct (bind_params ps cs) as [pe|] eqn:E; [|discriminate]. inversion B; subst. clear B.
    inversion T; subst. simpl in H2.
    simpl in D. destruct (declare y (cty_of t, if v then KVar else KConst) Gf) as [G1|] eqn:D1; [|discriminate].
    simpl in D.
    assert (He1 : env_ok genv S G1 ((y, c) :: cenv)) by (eapply env_ok_declare; eauto).
    pose proof (IH G1 G' cs pe ((y, c) :: cenv) D E H4 He1) as He2.
    (* y is not rebound by the remaining parameters *)
    assert (Hy : Eval.lookup y pe = None).
    { destruct (declare_shape _ _ _ _ D1) as [s [G0 ->]].
      eapply declare_params_fresh; eauto. simpl. rewrite N.eqb_refl. reflexivity. }
    intros x t' k' L. destruct (He2 x t' k' L) as [c' [L1 L2]]. exists c'. split; auto.
    unfold lookup_var in *. simpl. rewrite lookup_app in L1.
    destruct (N.eqb x y) eqn:Exy.
    + apply N.eqb_eq in Exy. subst x. rewrite Hy in L1. simpl in L1. rewrite N.eqb_refl in L1. exact L1.
    + rewrite lookup_app. destruct (Eval.lookup x pe); auto. simpl in L1. rewrite Exy in L1. exact L1.
Qed.

Lemma bind_params_some : forall (ps : list (ident * bool * ty)) cs,
  length cs = length ps -> exists penv, bind_params ps cs = Some penv.
Proof.
  induction ps as [|[[y v] t] ps IH]; intros [|c cs] H; simpl in H; try discriminate.
  - exists []. reflexivity.
  - destruct (IH cs) as [pe E]; [lia|]. simpl. rewrite E. eauto.
Qed.

End Params.

(* ---- argument lists ------------------------------------------------------------------------- *)

Lemma args_ok_accepts : forall cc ps targs, args_ok cc ps targs = true ->
  Forall2 (fun t (b : binding) => accepts t (fst b) = true) (map snd ps) targs.
Proof.
  induction ps as [|p ps IH]; intros [|a targs] H; simpl in H; try discriminate; simpl; constructor.
  - apply andb_true_iff in H. destruct H as [H _]. unfold arg_ok in H.
    apply andb_true_iff in H. tauto.
  - apply IH. apply andb_true_iff in H. tauto.
Qed.

Lemma check_elems_accepts : forall t tes, check_elems t tes = true ->
  Forall2 (fun t' (b : binding) => accepts t' (fst b) = true) (map (fun _ => cty_of t) tes) tes.
Proof.
  unfold check_elems. induction tes as [|b tes IH]; simpl; intros H; constructor.
  - apply andb_true_iff in H. tauto.
  - apply IH. apply andb_true_iff in H. tauto.
Qed.

Lemma typed_cells_map : forall A S cs (f : A -> cty) l,
  typed_cells S cs (map f l) -> Forall2 (fun c x => nth_error S c = Some (f x)) cs l.
Proof.
  intros A S cs f l. revert cs. induction l as [|x l IH]; intros cs H; inversion H; subst; constructor; auto.
Qed.

Lemma typed_cells_const : forall A S cs t (l : list A),
  typed_cells S cs (map (fun _ => t) l) -> Forall (fun c => nth_error S c = Some t) cs.
Proof.
  intros A S cs t l. revert cs. induction l as [|x l IH]; intros cs H; inversion H; subst; constructor; auto.
Qed.

Lemma Forall2_length' : forall A B (P : A -> B -> Prop) l m, Forall2 P l m -> length l = length m.
Proof. induction 1; simpl; auto. Qed.

(* ---- the judgment only depends on what the context binds ------------------------------------ *)

Definition eqv (G G' : Types.env) : Prop := forall x, Types.lookup x G = Types.lookup x G'.
Definition eqv1 (G G' : Types.env) : Prop :=
  match G, G' with
  | s :: G1, s' :: G1' => s = s' /\ eqv G1 G1'
  | _, _ => False
  end.

Lemma eqv1_eqv : forall G G', eqv1 G G' -> eqv G G'.
Proof.
  intros [|s G] [|s' G'] H; simpl in H; try contradiction. destruct H as [-> H].
  intros x. simpl. rewrite (H x). reflexivity.
Qed.
Lemma eqv_push : forall s G G', eqv G G' -> eqv1 (s :: G) (s :: G').
Proof. intros; simpl; auto. Qed.

Lemma declare_eqv1 : forall x b G G2 G', declare x b G = Ok G2 -> eqv1 G G' ->
  exists G2', declare x b G' = Ok G2' /\ eqv1 G2 G2'.
Proof.
  intros x b [|s G] G2 [|s' G'] D H; simpl in H; try contradiction. destruct H as [<- H].
  simpl in *. destruct (lookup_scope x s); [discriminate|]. inversion D; subst.
  eexists; split; [reflexivity|]. simpl. auto.
Qed.

Lemma declare_all_eqv1 : forall sigs G G2 G', declare_all sigs G = Ok G2 -> eqv1 G G' ->
  exists G2', declare_all sigs G' = Ok G2' /\ eqv1 G2 G2'.
Proof.
  induction sigs as [|[x t] sigs IH]; intros G G2 G' D H; simpl in D.
  - inversion D; subst. exists G'. split; [reflexivity|exact H].
  - destruct (declare x (t, KTemp) G) as [G1|] eqn:E; [|discriminate]. simpl in D.
    destruct (declare_eqv1 _ _ _ _ _ E H) as [G1' [E' H']].
    destruct (IH _ _ _ D H') as [G2' [D' H2]]. exists G2'. simpl. rewrite E'. simpl. auto.
Qed.

Lemma declare_params_eqv1 : forall ps G G2 G', declare_params ps G = Ok G2 -> eqv1 G G' ->
  exists G2', declare_params ps G' = Ok G2' /\ eqv1 G2 G2'.
Proof.
  induction ps as [|[[x v] t] ps IH]; intros G G2 G' D H; simpl in D.
  - inversion D; subst. exists G'. split; [reflexivity|exact H].
  - destruct (declare x (cty_of t, if v then KVar else KConst) G) as [G1|] eqn:E; [|discriminate]. simpl in D.
    destruct (declare_eqv1 _ _ _ _ _ E H) as [G1' [E' H']].
    destruct (IH _ _ _ D H') as [G2' [D' H2]]. exists G2'. simpl. rewrite E'. simpl. auto.
Qed.

Lemma eqv_cons : forall s G G', eqv G G' -> eqv (s :: G) (s :: G').
Proof. intros s G G' H. apply eqv1_eqv, eqv_push, H. Qed.

Section Eqv.
Variable R : list recdecl.

Theorem typing_eqv :
  (forall G e b, HasType R G e b -> forall G', eqv G G' -> HasType R G' e b) /\
  (forall G l bs, HasTypes R G l bs -> forall G', eqv G G' -> HasTypes R G' l bs) /\
  (forall G inrun last l b, ItemsOk R G inrun last l b ->
      forall G', eqv1 G G' -> ItemsOk R G' inrun last l b) /\
  (forall G lam fd, FunOk R G lam fd -> forall G', eqv G G' -> FunOk R G' lam fd) /\
  (forall G ret call, CallOk R G ret call -> forall G', eqv G G' -> CallOk R G' ret call) /\
  (forall G ret cs, CatchesOk R G ret cs -> forall G', eqv G G' -> CatchesOk R G' ret cs).
Proof.
  apply typing_mutind; intros; try (econstructor; eauto using eqv_push, eqv_cons; fail).
  - (* var *) constructor. rewrite <- H0. exact H.
  - (* let *)
    match goal with D : declare _ _ _ = Ok _, E : eqv1 _ _ |- _ =>
      destruct (declare_eqv1 _ _ _ _ _ D E) as [G2' [D' H']] end.
    econstructor; eauto using eqv1_eqv.
  - (* var item *)
    match goal with D : declare _ _ _ = Ok _, E : eqv1 _ _ |- _ =>
      destruct (declare_eqv1 _ _ _ _ _ D E) as [G2' [D' H']] end.
    econstructor; eauto using eqv1_eqv.
  - (* func item *)
    match goal with E : eqv1 _ _ |- _ => rename E into HE end.
    destruct inrun.
    + inversion H; subst. econstructor; eauto using eqv1_eqv.
    + destruct (declare_all_eqv1 _ _ _ _ H HE) as [G2' [D' H']].
      econstructor; eauto using eqv1_eqv.
  - (* expr item *) econstructor; eauto using eqv1_eqv.
  - (* fdef *)
    match goal with E : eqv _ _ |- _ => rename E into HE end.
    unfold fun_env in H0.
    destruct (declare_params_eqv1 _ _ _ ((if lam then [] else [(name, (sig_cty ps ret, KTemp))]) :: G'0) H0)
      as [G2' [D' H']]; [apply eqv_push; assumption|].
    econstructor; eauto using eqv1_eqv, eqv_push.
Qed.

Lemma HasType_push : forall G e b, HasType R G e b -> HasType R ([] :: G) e b.
Proof.
  intros G e b H. eapply (proj1 typing_eqv); eauto. intros x. reflexivity.
Qed.

End Eqv.
