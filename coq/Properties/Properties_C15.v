(* C15 — "Compiling the same source always yields the same code and diagnostics, whatever was
   compiled (successfully or not) before it in the same process.  A compiled program can be executed
   on one VM any number of times, with any mix of its entry points and arguments: each call returns
   what a fresh VM primed with the same earlier calls' global-variable effects would return, and
   uses no more VM stack than the first such call.  Several programs and VMs alive at once do not
   affect each other."

   PROVED HERE (for the VM part): the embedding-API model VM/Api.v — what nev_execute / vm_execute do
   AROUND a run of the VM (initialized, ip 0 vs code_entry, the result slot at HALT, what is left on
   the stack after a failure, vm_check_stack) — over ALL histories, for EVERY instruction-level
   behaviour (gdepth, init, exec are universally quantified: they are the trusted-base parameter
   standing for back/vmexec.c's dispatch loop; the frame discipline assumed of it — a run of the
   entry stub that reaches HALT or the UNHANDLED_EXCEPTION stub leaves exactly one slot above the
   starting sp — is what property C07's verifier theorem covers).
   The model has a policy (pop_at_halt, restore_on_error); checks/c15.py measures which policy the
   tree implements (probe run: sp before/after) and demands (true, true), the only one under which
   the unrefuted `execute_stack_neutral` holds; the refuted variants below are the findings for the
   other policies (pinned tree: (false, false)).

   CORRESPONDENCE ONLY (partial): compile determinism/isolation.  The state involved — flex/bison
   globals (yyin, buffer stack, start condition, line_no, use_stack, modtab), parse_result, the
   message-buffer pointers of back/utils.c — is C global state that no Gallina model here expresses;
   the abstract spec is just "nev_compile_* is a function of the source text" and is checked by
   running histories against fresh processes (checks/c15.py oracles 1, 4, 5).

   Only statements here; every proof is `exact <lemma>` into VM/ApiProofs.v. *)
From Coq Require Import ZArith List Bool.
From NV Require Import VM.Api VM.ApiProofs.
Import ListNotations.
Local Open Scope Z_scope.

(* ---- stack neutrality -------------------------------------------------------------------- *)

(* sp after an execute = sp before it: every state a VM goes through in ANY finite sequence of calls
   (any entries, arguments, outcomes) sits at -1 (new) or at -1 + gdepth m (initialised) *)
Theorem execute_stack_neutral :
  forall (Module Entry Args G Value Exc : Type) (gdepth : Module -> Z)
         (init : Module -> init_outcome G * Z)
         (exec : Module -> Entry -> Args -> G -> outcome Value Exc * G * Z) (gnone : G)
         (pol : policy) (ss : Z) (m : Module) (cs : list (Entry * Args)),
    pop_at_halt pol = true -> restore_on_error pol = true ->
    Forall (fun v => stack_size v = ss /\ sp v = (if initialized v then base gdepth m else -1))
           (states Module Entry Args G Value Exc gdepth init exec gnone pol (vm_new gnone ss) m cs).
Proof. exact ApiProofs.execute_stack_neutral. Qed.
Print Assumptions execute_stack_neutral.

(* the same per call, from any initialised state, for every outcome *)
Theorem execute_stack_neutral_call :
  forall (Module Entry Args G Value Exc : Type) (gdepth : Module -> Z)
         (init : Module -> init_outcome G * Z)
         (exec : Module -> Entry -> Args -> G -> outcome Value Exc * G * Z) (gnone : G)
         (pol : policy) (v : vm G) (m : Module) (e : Entry) (a : Args)
         (r : result Value Exc) (pk : Z) (v' : vm G),
    pop_at_halt pol = true -> restore_on_error pol = true ->
    initialized v = true ->
    execute Module Entry Args G Value Exc gdepth init exec gnone pol v m e a = (r, pk, v') ->
    sp v' = sp v /\ initialized v' = true /\ stack_size v' = stack_size v.
Proof. exact ApiProofs.execute_stack_neutral_call. Qed.
Print Assumptions execute_stack_neutral_call.

(* what popping the result slot at HALT alone guarantees: histories in which every call returns *)
Theorem execute_stack_neutral_partial :
  forall (Module Entry Args G Value Exc : Type) (gdepth : Module -> Z)
         (init : Module -> init_outcome G * Z)
         (exec : Module -> Entry -> Args -> G -> outcome Value Exc * G * Z) (gnone : G)
         (pol : policy) (ss : Z) (m : Module) (cs : list (Entry * Args))
         (rs : list (result Value Exc * Z)) (v' : vm G),
    pop_at_halt pol = true ->
    run_calls Module Entry Args G Value Exc gdepth init exec gnone pol (vm_new gnone ss) m cs = (rs, v') ->
    Forall (fun rp => is_halt Value Exc (fst rp) \/ fst rp = RDied) rs ->
    stack_size v' = ss /\ sp v' = (if initialized v' then base gdepth m else -1).
Proof. exact ApiProofs.halting_history_stack_neutral. Qed.
Print Assumptions execute_stack_neutral_partial.

(* the pinned tree's policy: refuted — two returning calls of `main`, sp 32 -> 33 *)
Theorem execute_stack_neutral_refuted :
  exists (ss : Z) (cs : list (toy_entry * unit)) (v v' : vm nat) (r : result Z unit) (pk : Z),
    nth_error (toy_states pinned_policy ss cs) 1 = Some v /\
    initialized v = true /\
    toy_execute pinned_policy v tt TMain tt = (r, pk, v') /\
    sp v' <> sp v.
Proof. exact ApiProofs.execute_stack_neutral_refuted_pinned. Qed.
Print Assumptions execute_stack_neutral_refuted.

(* ... in general: without the pop every returning call leaks exactly one slot *)
Theorem no_pop_leaks_one_slot_per_call :
  forall (Module Entry Args G Value Exc : Type) (gdepth : Module -> Z)
         (init : Module -> init_outcome G * Z)
         (exec : Module -> Entry -> Args -> G -> outcome Value Exc * G * Z) (gnone : G)
         (pol : policy) (v : vm G) (m : Module) (e : Entry) (a : Args) (x : Value) (pk : Z) (v' : vm G),
    pop_at_halt pol = false ->
    initialized v = true ->
    execute Module Entry Args G Value Exc gdepth init exec gnone pol v m e a = (RHalt x, pk, v') ->
    sp v' = sp v + 1.
Proof. exact ApiProofs.no_pop_leaks_one_slot_per_call. Qed.
Print Assumptions no_pop_leaks_one_slot_per_call.

(* ... and on the default 200-slot stack the 162nd call of the probe program kills the process *)
Theorem pinned_policy_dies_at_call_162 :
  death_call (fst (toy_run pinned_policy 200 (repeat (TMain, tt) 300))) = Some 162%nat /\
  death_call (fst (toy_run popfix_policy 200 (repeat (TMain, tt) 300))) = None /\
  death_call (fst (toy_run repaired_policy 200 (repeat (TMain, tt) 300))) = None.
Proof. exact ApiProofs.pinned_policy_dies_at_call_162. Qed.
Print Assumptions pinned_policy_dies_at_call_162.

(* pop at HALT but no restore on failure: refuted by a call ending in an unhandled exception *)
Theorem execute_stack_neutral_after_error_refuted :
  exists (ss : Z) (cs : list (toy_entry * unit)) (v v' : vm nat) (r : result Z unit) (pk : Z),
    nth_error (toy_states popfix_policy ss cs) 1 = Some v /\
    initialized v = true /\
    toy_execute popfix_policy v tt TThrow tt = (r, pk, v') /\
    sp v' <> sp v.
Proof. exact ApiProofs.execute_stack_neutral_refuted_popfix. Qed.
Print Assumptions execute_stack_neutral_after_error_refuted.

(* ---- stack use ---------------------------------------------------------------------------- *)

(* two VMs of one program reached by any two histories and holding the same globals use the same
   stack for the same call: the k-th call's peak <= the first such call's *)
Theorem execute_uses_no_more_stack_than_first :
  forall (Module Entry Args G Value Exc : Type) (gdepth : Module -> Z)
         (init : Module -> init_outcome G * Z)
         (exec : Module -> Entry -> Args -> G -> outcome Value Exc * G * Z) (gnone : G)
         (pol : policy) (ss : Z) (m : Module) (cs1 cs2 : list (Entry * Args))
         (rs1 rs2 : list (result Value Exc * Z)) (v1 v2 : vm G) (e : Entry) (a : Args),
    pop_at_halt pol = true -> restore_on_error pol = true ->
    run_calls Module Entry Args G Value Exc gdepth init exec gnone pol (vm_new gnone ss) m cs1 = (rs1, v1) ->
    run_calls Module Entry Args G Value Exc gdepth init exec gnone pol (vm_new gnone ss) m cs2 = (rs2, v2) ->
    initialized v1 = true -> initialized v2 = true ->
    globals v1 = globals v2 ->
    snd (fst (execute Module Entry Args G Value Exc gdepth init exec gnone pol v1 m e a)) <=
    snd (fst (execute Module Entry Args G Value Exc gdepth init exec gnone pol v2 m e a)).
Proof. exact ApiProofs.execute_uses_no_more_stack_than_first. Qed.
Print Assumptions execute_uses_no_more_stack_than_first.

(* an initialised reachable VM is literally the fresh VM primed with its globals *)
Theorem reachable_is_primed :
  forall (Module Entry Args G Value Exc : Type) (gdepth : Module -> Z)
         (init : Module -> init_outcome G * Z)
         (exec : Module -> Entry -> Args -> G -> outcome Value Exc * G * Z) (gnone : G)
         (pol : policy) (ss : Z) (m : Module) (cs : list (Entry * Args))
         (rs : list (result Value Exc * Z)) (v : vm G),
    pop_at_halt pol = true -> restore_on_error pol = true ->
    run_calls Module Entry Args G Value Exc gdepth init exec gnone pol (vm_new gnone ss) m cs = (rs, v) ->
    initialized v = true ->
    v = primed gdepth ss m (globals v).
Proof. exact ApiProofs.reachable_is_primed. Qed.
Print Assumptions reachable_is_primed.

(* ---- repeatability (holds under every policy) ------------------------------------------------ *)

(* two VMs agreeing on (initialized, globals) given the same calls agree call by call *)
Theorem execute_repeatable :
  forall (Module Entry Args G Value Exc : Type) (gdepth : Module -> Z)
         (init : Module -> init_outcome G * Z)
         (exec : Module -> Entry -> Args -> G -> outcome Value Exc * G * Z) (gnone : G)
         (pol : policy) (m : Module) (cs : list (Entry * Args)) (v1 v2 : vm G)
         (rs1 rs2 : list (result Value Exc * Z)) (v1' v2' : vm G),
    same_view G v1 v2 ->
    run_calls Module Entry Args G Value Exc gdepth init exec gnone pol v1 m cs = (rs1, v1') ->
    run_calls Module Entry Args G Value Exc gdepth init exec gnone pol v2 m cs = (rs2, v2') ->
    died Value Exc rs1 = false -> died Value Exc rs2 = false ->
    map fst rs1 = map fst rs2 /\ same_view G v1' v2'.
Proof. exact ApiProofs.execute_repeatable. Qed.
Print Assumptions execute_repeatable.

(* the k-th call's outcome is a function of module, entry, arguments and the globals *)
Theorem execute_outcome_function_of_globals :
  forall (Module Entry Args G Value Exc : Type) (gdepth : Module -> Z)
         (init : Module -> init_outcome G * Z)
         (exec : Module -> Entry -> Args -> G -> outcome Value Exc * G * Z) (gnone : G)
         (pol : policy) (v : vm G) (m : Module) (e : Entry) (a : Args)
         (r : result Value Exc) (pk : Z) (v' : vm G),
    initialized v = true ->
    execute Module Entry Args G Value Exc gdepth init exec gnone pol v m e a = (r, pk, v') ->
    r <> RDied ->
    r = result_of Value Exc (fst (fst (exec m e a (globals v)))) /\
    globals v' = snd (fst (exec m e a (globals v))).
Proof. exact ApiProofs.execute_outcome_function_of_globals. Qed.
Print Assumptions execute_outcome_function_of_globals.

(* ---- several VMs alive at once ----------------------------------------------------------------- *)

Theorem vms_independent :
  forall (Module Entry Args G Value Exc : Type) (gdepth : Module -> Z)
         (init : Module -> init_outcome G * Z)
         (exec : Module -> Entry -> Args -> G -> outcome Value Exc * G * Z) (gnone : G)
         (pol : policy) (p : pool G) (o : op Module Entry Args) (k : nat),
    k <> op_handle Module Entry Args o ->
    fst (api_step Module Entry Args G Value Exc gdepth init exec gnone pol p o) k = p k.
Proof. exact ApiProofs.vms_independent. Qed.
Print Assumptions vms_independent.

Theorem vms_commute :
  forall (Module Entry Args G Value Exc : Type) (gdepth : Module -> Z)
         (init : Module -> init_outcome G * Z)
         (exec : Module -> Entry -> Args -> G -> outcome Value Exc * G * Z) (gnone : G)
         (pol : policy) (p : pool G) (o1 o2 : op Module Entry Args),
    op_handle Module Entry Args o1 <> op_handle Module Entry Args o2 ->
    snd (api_step Module Entry Args G Value Exc gdepth init exec gnone pol
           (fst (api_step Module Entry Args G Value Exc gdepth init exec gnone pol p o1)) o2) =
    snd (api_step Module Entry Args G Value Exc gdepth init exec gnone pol p o2) /\
    snd (api_step Module Entry Args G Value Exc gdepth init exec gnone pol
           (fst (api_step Module Entry Args G Value Exc gdepth init exec gnone pol p o2)) o1) =
    snd (api_step Module Entry Args G Value Exc gdepth init exec gnone pol p o1) /\
    forall k,
      fst (api_step Module Entry Args G Value Exc gdepth init exec gnone pol
             (fst (api_step Module Entry Args G Value Exc gdepth init exec gnone pol p o1)) o2) k =
      fst (api_step Module Entry Args G Value Exc gdepth init exec gnone pol
             (fst (api_step Module Entry Args G Value Exc gdepth init exec gnone pol p o2)) o1) k.
Proof. exact ApiProofs.vms_commute. Qed.
Print Assumptions vms_commute.

(* ---- the hypotheses are satisfiable, the conclusions are not vacuous ------------------------- *)
Example c15_repaired_history_stays_at_base :
  map (fun v => (initialized v, sp v))
      (toy_states repaired_policy 200 [(TMain, tt); (TThrow, tt); (TAssert, tt); (TMain, tt)])
  = [(false, -1); (true, 31); (true, 31); (true, 31); (true, 31)].
Proof. exact ApiProofs.repaired_history_stays_at_base. Qed.

Example c15_pinned_history_climbs :
  map (fun v => (initialized v, sp v))
      (toy_states pinned_policy 200 [(TMain, tt); (TThrow, tt); (TAssert, tt); (TMain, tt)])
  = [(false, -1); (true, 32); (true, 33); (true, 46); (true, 47)].
Proof. exact ApiProofs.pinned_history_climbs. Qed.
