"""Generator for the C17 correspondence / search harness (foreign calls).

A *case* = one extern signature over the FFI alphabet + one call with concrete values.
For every case the generator produces
  * the C source of the callee (prints what it received, returns a generated constant),
  * the Never program with the matching `extern` declaration (prints what came back),
  * the exact transcript ('@' lines) that the property requires,
  * the queries for the extracted Coq model (layout, image of every by-value struct).
Nothing here computes a struct layout that is used as an oracle: `py_layout` only steers the
generator towards size classes and classifies signatures for the statistics; the oracles are
gcc (offsetof/sizeof printed by the compiled callee side) and the extracted model.

Types:  leaf = one of 'bilfdcsp'  (bool int long float double char string c_ptr)
        record = ('R', (t, t, ...))
Values: b -> 0/1, i/l -> python int (signed), f/d -> python float (exactly representable),
        c -> int 0..255 (the byte), s -> str | None (nil string), p -> index into the callee's
        object table | -1 (c_null); record -> list of values | None (nil record)
"""
import struct
from decimal import Decimal

LEAVES = "bilfdcsp"
NEVER_T = {"b": "bool", "i": "int", "l": "long", "f": "float", "d": "double", "c": "char",
           "s": "string", "p": "c_ptr"}
C_T = {"b": "bool", "i": "int", "l": "long long", "f": "float", "d": "double", "c": "char",
       "s": "char *", "p": "void *"}
LEAF_SA = {"b": (1, 1), "i": (4, 4), "l": (8, 8), "f": (4, 4), "d": (8, 8), "c": (1, 1),
           "s": (8, 8), "p": (8, 8)}
STR_ALPHABET = "ABCDEFGHIJKLMNOPQRSTUVWXYZabcdefghijklmnopqrstuvwxyz0123456789_ "
NOBJS = 8
# where the target extern, the records and the caller stand in the generated program.  The grammar wants records before
# functions; among functions (externs included) any order is legal: "functions may call functions defined further down"
LAYOUTS = ["default", "records-outer-first", "extern-after-callers", "extern-between-callers", "nested-caller",
           "nested-caller+extern-after", "helper-caller+extern-after", "helper-caller+extern-between"]
MODEL_IMAGE_MAX_LEAVES = 2000     # the extracted marshal image (memory = functional map) is quadratic: huge records are
                                  # tied through the layout query (every leaf offset vs gcc) and the call transcripts only
HUGE_TARGETS = {"quick": [66000, 132000], "thorough": [66000, 70000, 132000, 140000, 200000]}   # bytes, at least
MANY_ARGS_MAX = {"quick": 20, "thorough": 24}      # largest arity of the many-args family


def is_rec(t):
    return isinstance(t, tuple)


def rec(*fields):
    return ("R", tuple(fields))


def tstr(t):
    """type syntax of the OCaml model driver"""
    return t if not is_rec(t) else "{" + "".join(tstr(f) for f in t[1]) + "}"


def nleaves(t):
    return 1 if not is_rec(t) else sum(nleaves(f) for f in t[1])


def tshort(t):
    """tstr, with huge records abbreviated (signatures in messages)"""
    if is_rec(t) and nleaves(t) > 64:
        return "{record of %d leaves, %d bytes}" % (nleaves(t), py_layout(t)[0])
    return tstr(t)


def parse_tstr(s):
    pos = [0]

    def ty():
        c = s[pos[0]]
        pos[0] += 1
        if c == "{":
            fs = []
            while s[pos[0]] != "}":
                fs.append(ty())
            pos[0] += 1
            return ("R", tuple(fs))
        assert c in LEAVES, s
        return c
    t = ty()
    assert pos[0] == len(s), s
    return t


def leaves(t):
    """depth-first leaf kinds"""
    if not is_rec(t):
        return [t]
    out = []
    for f in t[1]:
        out.extend(leaves(f))
    return out


def leaf_paths(t, prefix=""):
    """depth-first (member path, kind), path like f0.f1"""
    if not is_rec(t):
        return [(prefix, t)]
    out = []
    for i, f in enumerate(t[1]):
        p = ("%s.f%d" % (prefix, i)) if prefix else ("f%d" % i)
        out.extend(leaf_paths(f, p))
    return out


def depth(t):
    return 0 if not is_rec(t) else 1 + max(depth(f) for f in t[1])


def py_layout(t, off=0):
    """(size, align, [(offset, kind)]) — generator steering / statistics only, NOT an oracle"""
    if not is_rec(t):
        s, a = LEAF_SA[t]
        o = (off + a - 1) // a * a
        return s, a, [(o, t)]
    subs = [py_layout(f, 0) for f in t[1]]
    al = max(x[1] for x in subs)
    base = (off + al - 1) // al * al
    cur = base
    flat = []
    for (s, a, _), f in zip(subs, t[1]):
        cur = (cur + a - 1) // a * a
        flat.extend(py_layout(f, cur)[2])
        cur += s
    size = (cur - base + al - 1) // al * al
    return size, al, flat


def nested_records(t, acc=None):
    """all record types inside t, inner first, without duplicates"""
    if acc is None:
        acc = []
    if is_rec(t):
        for f in t[1]:
            nested_records(f, acc)
        if t not in acc:
            acc.append(t)
    return acc


class Names:
    """structural record type -> name (shared by the Never program and the C source)"""

    def __init__(self, prefix):
        self.prefix = prefix
        self.map = {}
        self.order = []

    def add(self, t):
        for r in nested_records(t):
            if r not in self.map:
                self.map[r] = "%s_%d" % (self.prefix, len(self.order))
                self.order.append(r)

    def name(self, t):
        return self.map[t]

    def never_type(self, t):
        return self.map[t] if is_rec(t) else NEVER_T[t]

    def c_type(self, t):
        return self.map[t] if is_rec(t) else C_T[t]

    def never_decls(self, outer_first=False):
        out = []
        for r in (reversed(self.order) if outer_first else self.order):
            fs = " ".join("f%d : %s;" % (i, self.never_type(f)) for i, f in enumerate(r[1]))
            out.append("record %s { %s }" % (self.map[r], fs))
        return "\n".join(out)

    def c_decls(self):
        out = []
        for r in self.order:
            fs = " ".join("%s f%d;" % (self.c_type(f), i) for i, f in enumerate(r[1]))
            out.append("typedef struct %s { %s } %s;" % (self.map[r], fs, self.map[r]))
        return "\n".join(out)


# ------------------------------------------------------------------------------------------
# values

def f32_bits(v):
    return struct.unpack("<I", struct.pack("<f", v))[0]


def f64_bits(v):
    return struct.unpack("<Q", struct.pack("<d", v))[0]


def exact_decimal(v):
    s = format(Decimal(v), "f")
    if "." not in s:
        s += ".0"
    return s


FLT_MAX = struct.unpack("<f", struct.pack("<I", 0x7F7FFFFF))[0]
DBL_MAX = struct.unpack("<d", struct.pack("<Q", 0x7FEFFFFFFFFFFFFF))[0]


def rand_value(rng, t, corner=0.35):
    if is_rec(t):
        return [rand_value(rng, f, corner) for f in t[1]]
    c = rng.random() < corner
    if t == "b":
        return rng.randrange(2)
    if t == "i":
        return rng.choice([0, 1, -1, 2147483647, -2147483648, 255, -256]) if c else rng.randrange(-2**31, 2**31)
    if t == "l":
        return rng.choice([0, 1, -1, 2**63 - 1, -2**63, 2**32, -2**32 - 1]) if c else rng.randrange(-2**63, 2**63)
    if t == "f":
        if c:
            return rng.choice([0.0, 1.0, -1.0, 0.5, FLT_MAX, -FLT_MAX, 2.0 ** -126, 16777215.0, 1.5])
        return float(rng.randrange(-(2**24 - 1), 2**24) * 2.0 ** rng.randrange(-20, 21))
    if t == "d":
        if c:
            return rng.choice([0.0, 1.0, -1.0, 0.5, DBL_MAX, -DBL_MAX, 2.0 ** -1022, 9007199254740991.0, 2.5])
        return float(rng.randrange(-(2**53 - 1), 2**53) * 2.0 ** rng.randrange(-30, 31))
    if t == "c":
        return rng.choice([0, 1, 127, 128, 255, 65]) if c else rng.randrange(1, 128)
    if t == "s":
        n = rng.choice([0, 1, 2, 7, 8, 9, 40]) if c else rng.randrange(0, 24)
        return "".join(rng.choice(STR_ALPHABET) for _ in range(n))
    if t == "p":
        return -1 if (c and rng.random() < 0.4) else rng.randrange(NOBJS)
    raise ValueError(t)


def schar(v):
    return v - 256 if v >= 128 else v


def canon(kind, v):
    """what the callee / the sinks print for a leaf"""
    if kind == "b":
        return "b:%d" % v
    if kind == "i":
        return "i:%d" % v
    if kind == "l":
        return "l:%d" % v
    if kind == "f":
        return "f:%08x" % f32_bits(v)
    if kind == "d":
        return "d:%016x" % f64_bits(v)
    if kind == "c":
        return "c:%d" % schar(v)
    if kind == "s":
        return "s:NULL" if v is None else "s:%d:%s" % (len(v), v.encode().hex())
    if kind == "p":
        return "p:N" if v < 0 else "p:%d" % v
    raise ValueError(kind)


def never_lit(names, t, v, ptr_expr=None):
    """Never expression for value v of type t (nil strings come from the array `nils`)"""
    if is_rec(t):
        if v is None:
            return "nil"
        return "%s(%s)" % (names.name(t), ", ".join(never_lit(names, f, x) for f, x in zip(t[1], v)))
    if t == "b":
        return "true" if v else "false"
    if t == "i":
        return "0x80000000" if v == -2**31 else str(v)
    if t == "l":
        return "0x8000000000000000L" if v == -2**63 else ("%dL" % v)
    if t == "f":
        s = exact_decimal(abs(v)) + "f"
        return "-" + s if (v < 0) else s
    if t == "d":
        s = exact_decimal(abs(v)) + "d"
        return "-" + s if (v < 0) else s
    if t == "c":
        return "chr(%d)" % v
    if t == "s":
        return "nils[0]" if v is None else '"%s"' % v
    if t == "p":
        return "c_null" if v < 0 else "cptr(%d)" % v
    raise ValueError(t)


def c_lit(names, t, v):
    """C expression / initializer for a value the callee returns"""
    if is_rec(t):
        return "{ " + ", ".join(c_lit(names, f, x) for f, x in zip(t[1], v)) + " }"
    if t == "b":
        return "1" if v else "0"
    if t == "i":
        return "(-2147483647 - 1)" if v == -2**31 else str(v)
    if t == "l":
        return "(-9223372036854775807LL - 1)" if v == -2**63 else "%dLL" % v
    if t == "f":
        return float(v).hex() + "f"
    if t == "d":
        return float(v).hex()
    if t == "c":
        return "(char)%d" % schar(v)
    if t == "s":
        return '"%s"' % v
    if t == "p":
        return "(void *)0" if v < 0 else "(void *)&g_objs[%d]" % v
    raise ValueError(t)


def mval(t, v):
    """value syntax of the OCaml model driver (pointer-valued leaves get dummies)"""
    if is_rec(t):
        if v is None:
            return "~"
        return "{" + ",".join(mval(f, x) for f, x in zip(t[1], v)) + "}"
    if t == "b":
        return "#%x" % v
    if t == "i":
        return "#%x" % (v & 0xFFFFFFFF)
    if t == "l":
        return "#%x" % (v & 0xFFFFFFFFFFFFFFFF)
    if t == "f":
        return "#%x" % f32_bits(v)
    if t == "d":
        return "#%x" % f64_bits(v)
    if t == "c":
        return "#%x" % v
    if t == "s":
        return "$~" if v is None else "$1000"
    if t == "p":
        return "#0"
    raise ValueError(t)


def contains_nil(t, v):
    if is_rec(t):
        return v is None or any(contains_nil(f, x) for f, x in zip(t[1], v))
    return t == "s" and v is None


def flat_values(t, v):
    """depth-first (kind, value) of the leaves of a nil-free value"""
    if not is_rec(t):
        return [(t, v)]
    out = []
    for f, x in zip(t[1], v):
        out.extend(flat_values(f, x))
    return out


# ------------------------------------------------------------------------------------------
# C side

C_PRELUDE = r"""
#include <stdio.h>
#include <string.h>
#include <stddef.h>
#include <stdbool.h>
static long long g_objs[8];
static void pr_img(const char * tag, const void * p, size_t n)
{ size_t i; printf("@S %s ", tag); for (i = 0; i < n; i++) printf("%02x", ((const unsigned char *)p)[i]); printf("\n"); }
static void pr_b(const char * k, bool v) { unsigned char raw; memcpy(&raw, &v, 1); printf("@A %s b:%d\n", k, (int)raw); }
static void pr_i(const char * k, int v) { printf("@A %s i:%d\n", k, v); }
static void pr_l(const char * k, long long v) { printf("@A %s l:%lld\n", k, v); }
static void pr_f(const char * k, float v) { unsigned int b; memcpy(&b, &v, 4); printf("@A %s f:%08x\n", k, b); }
static void pr_d(const char * k, double v) { unsigned long long b; memcpy(&b, &v, 8); printf("@A %s d:%016llx\n", k, b); }
static void pr_c(const char * k, char v) { printf("@A %s c:%d\n", k, (int)(signed char)v); }
static void pr_s(const char * k, const char * v)
{ if (v == NULL) { printf("@A %s s:NULL\n", k); return; }
  size_t n = strlen(v), i; printf("@A %s s:%zu:", k, n); for (i = 0; i < n; i++) printf("%02x", (unsigned char)v[i]); printf("\n"); }
static void pr_p(const char * k, const void * v)
{ int i; if (v == NULL) { printf("@A %s p:N\n", k); return; }
  for (i = 0; i < 8; i++) if (v == (const void *)&g_objs[i]) { printf("@A %s p:%d\n", k, i); return; }
  printf("@A %s p:?%p\n", k, v); }
void * cptr(int k) { return (k < 0 || k >= 8) ? (void *)0 : (void *)&g_objs[k]; }
int sinkf(float v) { pr_f("K", v); return 0; }
int sinkd(double v) { pr_d("K", v); return 0; }
int sinkp(void * v) { pr_p("K", v); return 0; }
"""

PR = {"b": "pr_b", "i": "pr_i", "l": "pr_l", "f": "pr_f", "d": "pr_d", "c": "pr_c", "s": "pr_s", "p": "pr_p"}


class Case:
    """one signature + one call"""

    def __init__(self, cid, family, params, ret, args, retval, expect="call", libmode="ok", note="",
                 layout="default", ret_check=None, twin=None):
        self.cid = cid              # unique id, valid C identifier suffix
        self.family = family        # generator family (statistics)
        self.params = list(params)  # parameter types
        self.ret = ret              # return type or None (void)
        self.args = list(args)      # argument values
        self.retval = retval        # value returned by the callee (None for void)
        self.expect = expect        # "call" | "ffi_fail"
        self.libmode = libmode      # "ok" | "missing-lib" | "missing-symbol"
        self.note = note
        self.layout = layout        # where the extern / the records / the caller stand in the program (LAYOUTS)
        self.ret_check = ret_check  # None: every leaf of the result is read back; else the flat leaf indices that are
        self.twin = twin            # cid of the same case in the default layout (declaration-order family)
        self.fname = "fn_" + cid
        self.names = Names("R" + cid)
        for t in self.params:
            self.names.add(t)
        if ret is not None:
            self.names.add(ret)

    # -- descriptions ---------------------------------------------------------------------
    def sig(self):
        return "(%s)->%s" % (",".join(tshort(t) for t in self.params), tshort(self.ret) if self.ret else "v")

    def to_json(self):
        return {"cid": self.cid, "family": self.family, "params": [tstr(t) for t in self.params],
                "ret": tstr(self.ret) if self.ret else None, "args": self.args, "retval": self.retval,
                "expect": self.expect, "libmode": self.libmode, "note": self.note, "layout": self.layout,
                "ret_check": self.ret_check}

    @staticmethod
    def from_json(j, cid=None):
        return Case(cid or j["cid"], j.get("family", "corpus"), [parse_tstr(s) for s in j["params"]],
                    parse_tstr(j["ret"]) if j.get("ret") else None, j["args"], j.get("retval"),
                    j.get("expect", "call"), j.get("libmode", "ok"), j.get("note", ""), j.get("layout", "default"),
                    j.get("ret_check"))

    # -- C callee ----------------------------------------------------------------------------
    def c_source(self):
        n = self.names
        ps = ", ".join("%s a%d" % (n.c_type(t), i) for i, t in enumerate(self.params)) or "void"
        rt = n.c_type(self.ret) if self.ret else "void"
        body = ['    printf("@C %s\\n");' % self.fname]
        for i, t in enumerate(self.params):
            if is_rec(t):
                body.append('    pr_img("%d", &a%d, sizeof a%d);' % (i, i, i))
                for j, (path, k) in enumerate(leaf_paths(t)):
                    body.append('    %s("%d.%d", a%d.%s);' % (PR[k], i, j, i, path))
            else:
                body.append('    %s("%d", a%d);' % (PR[t], i, i))
        if self.ret is None:
            body.append('    printf("@E\\n");')
        elif is_rec(self.ret):
            body.append("    %s r = %s;" % (rt, c_lit(n, self.ret, self.retval)))
            body.append('    pr_img("RI", &r, sizeof r);')
            body.append('    printf("@E\\n");')
            body.append("    return r;")
        else:
            body.append('    printf("@E\\n");')
            body.append("    return %s;" % c_lit(n, self.ret, self.retval))
        return "%s\n%s %s(%s)\n{\n%s\n}\n" % (n.c_decls(), rt, self.fname, ps, "\n".join(body))

    def c_layout_lines(self):
        """statements printing sizeof/_Alignof/offsetof of every record type of this case"""
        out = []
        for r in self.names.order:
            nm = self.names.name(r)
            offs = "".join(' printf(" %%zu", offsetof(%s, %s));' % (nm, p) for p, _ in leaf_paths(r))
            out.append('    printf("@L %s %%zu %%zu", sizeof(%s), _Alignof(%s));%s printf("\\n");'
                       % (tstr(r), nm, nm, offs))
        return out

    # -- Never program ---------------------------------------------------------------------
    def never_source(self, libpath):
        n = self.names
        lib = libpath
        sym = self.fname
        if self.libmode == "missing-lib":
            lib = libpath + ".does-not-exist.so"
        if self.libmode == "missing-symbol":
            sym = self.fname + "_absent"
        ps = ", ".join("a%d : %s" % (i, n.never_type(t)) for i, t in enumerate(self.params))
        rt = n.never_type(self.ret) if self.ret else "void"
        lay = self.layout
        assert lay in LAYOUTS, lay
        recs = [n.never_decls(outer_first=(lay == "records-outer-first"))] if n.order else []
        target = ['extern "%s" func %s(%s) -> %s' % (lib, sym, ps, rt)]
        helpers = ['extern "%s" func cptr(k : int) -> c_ptr' % libpath,
                   'extern "%s" func sinkf(v : float) -> int' % libpath,
                   'extern "%s" func sinkd(v : double) -> int' % libpath,
                   'extern "%s" func sinkp(v : c_ptr) -> int' % libpath]
        call = "%s(%s)" % (sym, ", ".join(never_lit(n, t, v) for t, v in zip(self.params, self.args)))
        body = ["    var nils = {[ 1 ]} : string;"]
        helper_fn = []
        # who makes the call: call() itself, a function nested in it, or another top-level function
        inner_rt = rt if self.ret is not None else "int"
        inner_body = call if self.ret is not None else "%s; 0" % call
        if lay.startswith("nested-caller"):
            body.append("    func inner() -> %s { func deeper() -> %s { %s }; deeper() };" % (inner_rt, inner_rt, inner_body))
            call = "inner()"
        elif lay.startswith("helper-caller"):
            helper_fn = ["func helper_%s() -> %s\n{\n    var nils = {[ 1 ]} : string;\n    %s\n}" % (self.cid, inner_rt, inner_body)]
            call = "helper_%s()" % self.cid
        if self.ret is None:
            body.append("    %s;" % call)
        else:
            body.append("    let r = %s;" % call)
            if self.expect == "call":
                exp = flat_values(self.ret, self.retval)
                paths = leaf_paths(self.ret, "r") if is_rec(self.ret) else [("r", self.ret)]
                for j, ((path, k), (_, v)) in enumerate(zip(paths, exp)):
                    if self.ret_check is not None and j not in self._ret_check_set():
                        continue
                    tag = 'prints("@R %d ");' % j
                    if k == "i":
                        body.append("    %s print(%s);" % (tag, path))
                    elif k == "l":
                        body.append("    %s printl(%s);" % (tag, path))
                    elif k == "b":
                        body.append("    %s printb(%s);" % (tag, path))
                    elif k == "c":
                        body.append("    %s print(ord(%s));" % (tag, path))
                    elif k == "f":
                        body.append("    %s print(if (%s == %s) { 1 } else { 0 }); sinkf(%s);"
                                    % (tag, path, never_lit(n, k, v), path))
                    elif k == "d":
                        body.append("    %s print(if (%s == %s) { 1 } else { 0 }); sinkd(%s);"
                                    % (tag, path, never_lit(n, k, v), path))
                    elif k == "s":
                        body.append('    %s prints(%s); prints("\\n");' % (tag, path))
                    elif k == "p":
                        body.append('    %s prints("\\n"); sinkp(%s);' % (tag, path))
        body.append('    prints("@DONE\\n");')
        body.append("    0")
        callfn = ["func call() -> int\n{\n%s\n}\ncatch (ffi_fail)\n{\n    prints(\"@FFI_FAIL\\n\");\n    0\n}" % "\n".join(body)]
        mainfn = ["func main() -> int { call() }"]
        if lay in ("default", "records-outer-first", "nested-caller"):
            lines = recs + target + helpers + callfn + mainfn
        elif lay in ("extern-after-callers", "nested-caller+extern-after"):
            lines = recs + helpers + callfn + mainfn + target
        elif lay == "extern-between-callers":
            lines = recs + helpers + callfn + target + mainfn
        elif lay == "helper-caller+extern-after":
            lines = recs + helpers + helper_fn + callfn + target + mainfn
        elif lay == "helper-caller+extern-between":
            lines = recs + helpers + helper_fn + target + callfn + mainfn
        else:
            raise ValueError(lay)
        return "\n".join(lines) + "\n"

    def _ret_check_set(self):
        if not hasattr(self, "_rcs"):
            self._rcs = set(self.ret_check)
        return self._rcs

    def header_options(self):
        """options of the nevrun batch header: huge records need a larger VM heap"""
        nl = sum(nleaves(t) for t in self.params) + (nleaves(self.ret) if self.ret is not None else 0)
        return " mem=%d stack=2000" % (40 * nl + 20000) if nl > 1000 else ""

    # -- the transcript required by the property ---------------------------------------------
    def expected(self):
        """list of '@' lines; '@S' image lines are not part of it (compared with the model)"""
        if self.expect == "ffi_fail":
            return ["@FFI_FAIL"]
        out = ["@C " + self.fname]
        for i, (t, v) in enumerate(zip(self.params, self.args)):
            if is_rec(t):
                for j, (k, x) in enumerate(flat_values(t, v)):
                    out.append("@A %d.%d %s" % (i, j, canon(k, x)))
            else:
                out.append("@A %d %s" % (i, canon(t, v)))
        out.append("@E")
        if self.ret is not None:
            for j, (k, v) in enumerate(flat_values(self.ret, self.retval)):
                if self.ret_check is not None and j not in self._ret_check_set():
                    continue
                if k in "il":
                    out.append("@R %d %d" % (j, v))
                elif k == "b":
                    out.append("@R %d %d" % (j, v))
                elif k == "c":
                    out.append("@R %d %d" % (j, schar(v)))
                elif k in "fd":
                    out.append("@R %d 1" % j)
                    out.append("@A K " + canon(k, v))
                elif k == "s":
                    out.append("@R %d %s" % (j, v))
                elif k == "p":
                    out.append("@R %d " % j)
                    out.append("@A K " + canon(k, v))
        out.append("@DONE")
        return [l.rstrip() for l in out]     # the check strips trailing blanks of observed lines too

    # -- model queries -----------------------------------------------------------------------
    def model_queries(self):
        """[(tag, query line)]"""
        q = []
        for r in self.names.order:
            q.append(("L", "L " + tstr(r)))
        for i, (t, v) in enumerate(zip(self.params, self.args)):
            if is_rec(t) and v is not None and nleaves(t) <= MODEL_IMAGE_MAX_LEAVES:
                q.append(("M%d" % i, "M %s %s" % (tstr(t), mval(t, v))))
        return q

    def decision_query(self, acc):
        if not self.params:
            args = "-"
        else:
            args = ";".join("%s=%s" % (tstr(t), mval(t, v)) for t, v in zip(self.params, self.args))
        lib = "0" if self.libmode == "missing-lib" else "1"
        sym = "0" if self.libmode == "missing-symbol" else "1"
        return "D %d 1 %s %s %s" % (1 if acc else 0, lib, sym, args)


# ------------------------------------------------------------------------------------------
# classification (statistics, stable keys)

def eightbyte_classes(t):
    """SysV classification of a by-value struct: list of 'INTEGER'/'SSE' per eightbyte, or
    ['MEMORY'] when larger than 16 bytes (statistics only)"""
    size, _, flat = py_layout(t)
    if size > 16:
        return ["MEMORY"]
    n = (size + 7) // 8
    cls = ["SSE"] * n
    for off, k in flat:
        if k not in "fd":
            cls[off // 8] = "INTEGER"
    return cls


def struct_class(t):
    size, _, flat = py_layout(t)
    kinds = set("sse" if k in "fd" else "int" for _, k in flat)
    mix = "mixed" if len(kinds) == 2 else kinds.pop()
    if size > 16:
        return "struct>16B"
    return "struct<=8B-%s" % mix if size <= 8 else "struct<=16B-%s" % mix


def passing(params, ret):
    """simulate SysV register assignment: ([ 'reg' | 'mem' per param ], gpr used, sse used)"""
    gpr, sse = 6, 8
    if ret is not None and is_rec(ret) and py_layout(ret)[0] > 16:
        gpr -= 1
    out = []
    for t in params:
        if is_rec(t):
            cls = eightbyte_classes(t)
            if cls == ["MEMORY"]:
                out.append("mem")
                continue
            ni, ns = cls.count("INTEGER"), cls.count("SSE")
            if ni <= gpr and ns <= sse:
                gpr -= ni
                sse -= ns
                out.append("reg")
            else:
                out.append("mem")
        elif t in "fd":
            if sse > 0:
                sse -= 1
                out.append("reg")
            else:
                out.append("mem")
        else:
            if gpr > 0:
                gpr -= 1
                out.append("reg")
            else:
                out.append("mem")
    return out, 6 - gpr, 8 - sse


def last_gpr_int_sse_struct(params, ret):
    """libffi 3.4.4 (x86-64) copies the whole remaining struct (not 8 bytes) into the GPR slot of
    an INTEGER eightbyte; when a by-value struct classified [INTEGER, SSE] gets the LAST integer
    register (r9) the excess bytes land in the slot of xmm0.  True when a signature has that
    shape (the damage is visible only if xmm0 carries an argument)."""
    gpr = 6
    if ret is not None and is_rec(ret) and py_layout(ret)[0] > 16:
        gpr -= 1
    sse = 8
    for t in params:
        if is_rec(t):
            cls = eightbyte_classes(t)
            if cls == ["MEMORY"]:
                continue
            ni, ns = cls.count("INTEGER"), cls.count("SSE")
            if ni <= gpr and ns <= sse:
                if cls == ["INTEGER", "SSE"] and gpr == 1:
                    return True
                gpr -= ni
                sse -= ns
        elif t in "fd":
            sse = max(0, sse - 1)
        else:
            gpr = max(0, gpr - 1)
    return False


def sig_class(case):
    """coarse, seed-independent class of a signature (prefix of violation keys)"""
    if case.libmode != "ok":
        return case.libmode
    if case.expect == "ffi_fail":
        return case.family
    recs = [t for t in case.params if is_rec(t)]
    big = [t for t in recs if py_layout(t)[0] > 16]
    if any(py_layout(t)[0] >= 65536 for t in big):
        return "struct-by-value>=64KiB"
    if big:
        return "struct-by-value>16B"
    if recs:
        return sorted(struct_class(t) for t in recs)[-1] + "-arg"
    if case.ret is not None and is_rec(case.ret) and py_layout(case.ret)[0] >= 65536:
        return "ret-struct>=64KiB"
    if case.ret is not None and is_rec(case.ret):
        return "ret-" + struct_class(case.ret)
    pas, _, _ = passing(case.params, case.ret)
    if "mem" in pas:
        return "scalars-stack-args"
    return "scalars-reg-args"


# ------------------------------------------------------------------------------------------
# random types

def rand_leaf(rng, kinds=LEAVES):
    return rng.choice(kinds)


def rand_record(rng, max_fields=5, max_depth=2, kinds=LEAVES, p_nest=0.25):
    n = rng.randrange(1, max_fields + 1)
    fs = []
    for _ in range(n):
        if max_depth > 0 and rng.random() < p_nest:
            fs.append(rand_record(rng, max(1, max_fields - 1), max_depth - 1, kinds, p_nest))
        else:
            fs.append(rand_leaf(rng, kinds))
    return rec(*fs)


def record_of_size(rng, target, tries=400):
    """a random record whose (generator-side) size is `target` bytes, int/float mixes, nested
    now and then; falls back to `target` chars"""
    pools = ["bilfdcsp", "ifc", "fd", "il", "cb", "ifdc", "cfi"]
    for _ in range(tries):
        t = rand_record(rng, max_fields=rng.choice([2, 3, 4, 6, 8]), max_depth=rng.choice([0, 1, 2]),
                        kinds=rng.choice(pools), p_nest=0.3)
        if py_layout(t)[0] == target:
            return t
    return rec(*["c"] * target)


def huge_record(rng, target):
    """a record tree of at least `target` bytes: level 0 = 4..8 leaves, every further level = 2..8 copies of the level
    below with a scalar in front of / between / behind them now and then (so that the rounding to the next member's
    alignment does real work at large offsets too)"""
    t = rec(*[rand_leaf(rng, "llddllddifcbi") for _ in range(rng.randrange(4, 9))])
    if rng.random() < 0.3:
        t = rec(*(list(t[1]) + [rng.choice("sp")]))
    while py_layout(t)[0] < target:
        size = py_layout(t)[0]
        k = max(2, min(rng.randrange(3, 9), -(-int(target * 1.25) // size)))
        fs = [t] * k
        if rng.random() < 0.7:
            fs.insert(rng.randrange(0, k + 1), rng.choice("cicdf"))
        t = rec(*fs)
    return t


def boundary_leaves(rng, t, extra=60):
    """flat indices of the leaves of t worth reading back one by one: around every multiple of 64 KiB, the first and
    the last ones, and some drawn at random (generator steering: the VALUES compared are the generated ones)"""
    flat = py_layout(t)[2]
    pick = set(range(min(4, len(flat)))) | set(range(max(0, len(flat) - 4), len(flat)))
    for j, (o, k) in enumerate(flat):
        m = (o + 32768) // 65536 * 65536
        if m > 0 and o + LEAF_SA[k][0] > m - 48 and o < m + 48:
            pick.add(j)
    for _ in range(extra):
        pick.add(rng.randrange(len(flat)))
    return sorted(pick)


# ------------------------------------------------------------------------------------------
# case families

def _mk(cid, family, rng, params, ret, expect="call", libmode="ok", args=None, note=""):
    if args is None:
        args = [rand_value(rng, t) for t in params]
    retval = rand_value(rng, ret, corner=0.3) if ret is not None else None
    if ret is not None:
        retval = _no_null_strings(ret, retval)
    return Case(cid, family, params, ret, args, retval, expect, libmode, note)


def _no_null_strings(t, v):
    return v   # rand_value never produces nil; kept as the single place to change that


def rand_ret(rng, allow_void=True, p_rec=0.0):
    if rng.random() < p_rec:
        return rand_record(rng, 4, 1)
    if allow_void and rng.random() < 0.08:
        return None
    return rand_leaf(rng)


def generate(rng, tier):
    """the generated cases of one run (the corpus is handled by the check)"""
    amax = 8 if tier == "quick" else 10
    scale = 1 if tier == "quick" else 20
    cases = []
    cnt = [0]

    def cid():
        cnt[0] += 1
        return "g%05d" % cnt[0]

    # 1. scalars: every arity 0..amax, random mixes of the 8 leaf types, every return type
    for ar in range(0, amax + 1):
        for _ in range(22 * scale):
            params = [rand_leaf(rng) for _ in range(ar)]
            cases.append(_mk(cid(), "scalars", rng, params, rand_ret(rng)))
    # every leaf type at every position of the maximal arity (position sweep)
    for k in LEAVES:
        for pos in range(amax):
            params = [rand_leaf(rng) for _ in range(amax)]
            params[pos] = k
            cases.append(_mk(cid(), "scalars-sweep", rng, params, k))
    # 2. register pressure: homogeneous and alternating signatures at the largest arities
    for ar in range(max(1, amax - 3), amax + 1):
        for pat in ["i", "l", "d", "f", "s", "p", "c", "b", "id", "fd", "il", "dl", "fi", "cs", "dddddddddi", "iiiiiid"]:
            params = [pat[j % len(pat)] for j in range(ar)]
            cases.append(_mk(cid(), "pressure", rng, params, rng.choice("ildf")))
    # 3. by-value struct arguments of every size 1..40 (two per size), alone and among scalars
    for size in range(1, 41):
        for rep in range(2 * scale):
            t = record_of_size(rng, size)
            before = [rand_leaf(rng) for _ in range(rng.randrange(0, 4))] if rep % 2 else []
            after = [rand_leaf(rng) for _ in range(rng.randrange(0, 3))] if rep % 2 else []
            cases.append(_mk(cid(), "struct-arg", rng, before + [t] + after, rand_ret(rng)))
    # 4. by-value struct returns of every size 1..40
    for size in range(1, 41):
        for rep in range(1 * scale):
            t = record_of_size(rng, size)
            params = [rand_leaf(rng) for _ in range(rng.randrange(0, 4))]
            cases.append(_mk(cid(), "struct-ret", rng, params, t))
    # 5. small structs under register pressure (struct falls to memory as a whole), several
    #    structs per call, struct in and struct out, deeper nesting
    for _ in range(60 * scale):
        ar = rng.randrange(2, amax + 1)
        params = []
        for _ in range(ar):
            if rng.random() < 0.45:
                params.append(record_of_size(rng, rng.randrange(1, 17)))
            else:
                params.append(rng.choice("ildfp"))
        cases.append(_mk(cid(), "struct-pressure", rng, params, rand_ret(rng, p_rec=0.3)))
    for _ in range(30 * scale):
        params = [rand_record(rng, 4, 3, p_nest=0.5) for _ in range(rng.randrange(1, 3))]
        cases.append(_mk(cid(), "struct-nested", rng, params, rand_ret(rng, p_rec=0.5)))
    # 6. ffi_fail: missing library / symbol
    for _ in range(6 * scale):
        params = [rand_leaf(rng) for _ in range(rng.randrange(0, 5))]
        cases.append(_mk(cid(), "missing-lib", rng, params, rand_ret(rng), "ffi_fail", "missing-lib"))
        cases.append(_mk(cid(), "missing-symbol", rng, params, rand_ret(rng), "ffi_fail", "missing-symbol"))
    # 7. a by-value struct classified [INTEGER, SSE] that receives the last integer register
    for _ in range(4 * scale):
        t = rng.choice([rec("l", "f"), rec("i", "d"), rec("c", "f", "f"), rec("p", "d"), rec("i", "i", "f")])
        lead = [rng.choice("fd")] + [rng.choice("ilp") for _ in range(5)]
        cases.append(_mk(cid(), "struct-last-gpr", rng, lead + [t], rng.choice("ildf")))
    #    nil string argument at every position among scalars
    for ar in range(1, 7):
        for pos in range(ar):
            params = [rng.choice("ildfcbp") for _ in range(ar)]
            params[pos] = "s"
            args = [rand_value(rng, t) for t in params]
            args[pos] = None
            cases.append(_mk(cid(), "nil-string", rng, params, rand_ret(rng), "ffi_fail", args=args))
    #    nil string before / after a (non-nil) record argument
    for _ in range(8 * scale):
        r = rand_record(rng, 3, 1, kinds="ildfc")
        extra = [rng.choice("ildf") for _ in range(rng.randrange(0, 3))]
        for order in ("string-then-record", "record-then-string"):
            params = (["s"] + extra + [r]) if order == "string-then-record" else ([r] + extra + ["s"])
            args = [rand_value(rng, t) for t in params]
            args[params.index("s")] = None
            cases.append(_mk(cid(), "nil-" + order, rng, params, rand_ret(rng), "ffi_fail", args=args))
    #    nil record argument (top level), followed by arguments of other types
    for _ in range(12 * scale):
        r = rand_record(rng, 4, 2, p_nest=0.4)
        before = [rand_leaf(rng) for _ in range(rng.randrange(0, 3))]
        after = [rand_leaf(rng) for _ in range(rng.randrange(0, 4))]
        params = before + [r] + after
        args = [rand_value(rng, t) for t in params]
        args[len(before)] = None
        cases.append(_mk(cid(), "nil-record", rng, params, rand_ret(rng), "ffi_fail", args=args))
    #    nil nested record / nil string inside a record, followed by other arguments
    for _ in range(24 * scale):
        inner = rand_record(rng, 3, 1, kinds="sdilcf", p_nest=0.3)
        fields = [rand_leaf(rng) for _ in range(rng.randrange(0, 3))] + [inner] + \
                 [rand_leaf(rng) for _ in range(rng.randrange(0, 3))]
        outer = rec(*fields)
        after = [rand_leaf(rng) for _ in range(rng.randrange(0, 4))]
        params = [outer] + after
        args = [rand_value(rng, t) for t in params]
        args[0][fields.index(inner)] = None
        cases.append(_mk(cid(), "nil-nested-record", rng, params, rand_ret(rng), "ffi_fail", args=args))
    for _ in range(12 * scale):
        fields = [rand_leaf(rng, "ildfcb") for _ in range(rng.randrange(0, 3))] + ["s"] + \
                 [rand_leaf(rng, "ildfcb") for _ in range(rng.randrange(0, 3))]
        outer = rec(*fields)
        after = [rand_leaf(rng) for _ in range(rng.randrange(0, 3))]
        params = [outer] + after
        args = [rand_value(rng, t) for t in params]
        args[0][fields.index("s")] = None
        cases.append(_mk(cid(), "nil-string-in-record", rng, params, rand_ret(rng), "ffi_fail", args=args))
    # 9. many arguments ("for any argument count and any mix of register- and memory-class arguments"): every arity
    #    9..amany x a by-value record of every size class (<= 8, 9..16: register classes; 17..24, 25..40: memory class)
    #    x its position (first / somewhere in the middle / last) — enumerated, not sampled; the other parameters are
    #    random leaves with a small or a second big record now and then.  Plus: several big records in one call (first
    #    AND last AND one in the middle), scalars only, and a record result
    amany = MANY_ARGS_MAX[tier]
    size_classes = [(1, 8), (9, 16), (17, 24), (25, 40)]

    def filler():
        r = rng.random()
        if r < 0.12:
            return record_of_size(rng, rng.randrange(1, 17))
        if r < 0.18:
            return record_of_size(rng, rng.randrange(17, 41))
        return rand_leaf(rng)

    for ar in range(9, amany + 1):
        for (lo, hi) in size_classes:
            for where in ("first", "middle", "last"):
                for _ in range(scale):
                    params = [filler() for _ in range(ar)]
                    pos = {"first": 0, "last": ar - 1, "middle": rng.randrange(1, ar - 1)}[where]
                    params[pos] = record_of_size(rng, rng.randrange(lo, hi + 1))
                    cases.append(_mk(cid(), "many-args", rng, params, rand_ret(rng, p_rec=0.15),
                                     note="record of %d..%d bytes %s of %d" % (lo, hi, where, ar)))
        for _ in range(scale):
            params = [filler() for _ in range(ar)]
            for pos in (0, ar - 1, rng.randrange(1, ar - 1)):
                params[pos] = record_of_size(rng, rng.randrange(17, 41))
            cases.append(_mk(cid(), "many-args", rng, params, rand_ret(rng, p_rec=0.15), note="several big records"))
            params = [rand_leaf(rng) for _ in range(ar)]
            cases.append(_mk(cid(), "many-args", rng, params, rand_ret(rng, p_rec=0.3), note="scalars only"))
    # 10. declaration order: the same call with the extern declared before / after / between its callers, the records
    #     outer-first, the call made by call() itself, by a function nested two levels deep, by another top-level
    #     function.  Every shape once per layout, with its twin in the default layout (a program that is rejected
    #     while its twin runs exactly is a failure of the property, not of the generator)
    shapes = [
        lambda: ([rand_record(rng, 4, 2, p_nest=0.5)], rand_leaf(rng)),                        # record parameter
        lambda: ([rand_leaf(rng) for _ in range(rng.randrange(0, 3))], rand_record(rng, 4, 2, p_nest=0.5)),   # record result
        lambda: ([rand_record(rng, 3, 1), rand_leaf(rng), rand_record(rng, 3, 2, p_nest=0.6)], rand_record(rng, 3, 1)),
        lambda: ([rand_leaf(rng), record_of_size(rng, rng.randrange(17, 41)), rand_leaf(rng)], rand_leaf(rng)),
        lambda: ([rec("i", rec("d", rec("c", "l")))], rec(rec("f", "f"), "i")),                  # nesting depth 3
        lambda: ([rand_leaf(rng) for _ in range(rng.randrange(1, 6))], rand_ret(rng)),           # scalars only
        lambda: (["s", "p", rec("s", "i")], "s"),
    ]
    for mk in shapes:
        for rep in range(scale):
            params, ret = mk()
            twin = _mk(cid(), "decl-order", rng, params, ret, note="default")
            cases.append(twin)
            for lay in LAYOUTS[1:]:
                c = Case(cid(), "decl-order", params, ret, twin.args, twin.retval, note=lay, layout=lay, twin=twin.cid)
                cases.append(c)
    # 11. huge records: layouts that cross 64 KiB and 128 KiB, by value in both directions (the layout theorem is
    #     unbounded; the tie must not stop at 40 bytes).  Every member of an argument is printed by the callee; of a
    #     result the members around every multiple of 64 KiB, the first / last ones and a random sample are read back
    for target in HUGE_TARGETS[tier]:
        t = huge_record(rng, target)
        note = "huge record: %d leaves, %d bytes" % (nleaves(t), py_layout(t)[0])
        cases.append(_mk(cid(), "huge-record", rng, [t], rng.choice("il"), note=note + ", argument"))
        c = _mk(cid(), "huge-record", rng, [rand_leaf(rng, "ildf") for _ in range(rng.randrange(0, 3))], t, note=note + ", result")
        c.ret_check = boundary_leaves(rng, t)
        cases.append(c)
        if target == HUGE_TARGETS[tier][0]:
            cases.append(_mk(cid(), "huge-record", rng, [rng.choice("il"), t, rng.choice("df")], rng.choice("il"),
                             note=note + ", argument among scalars"))
    # 8. inside ONE record argument: every position of a nil string field / nil nested record
    #    relative to non-nil nested records (before, after, between), at every depth <= 3
    for k, (t, v, where) in enumerate(nil_in_record_cases()):
        params = [t] + (["i"] if k % 3 == 0 else [])
        args = [v] + ([k] if k % 3 == 0 else [])
        cases.append(_mk(cid(), "nil-in-record", rng, params, "i", "ffi_fail", args=args, note=where))
    return cases


# ------------------------------------------------------------------------------------------
# systematic nil placement inside a record argument

_GOOD = [(rec("i"), [7]), (rec("s"), ["ok"]), (rec("i", rec("d")), [3, [2.5]]), (rec("p", "c"), [1, 65]),
         (rec("s", "i"), ["left", -1]), (rec(rec("s")), [["deep"]])]


def nil_in_record_cases():
    """[(record type, value with exactly one nil, description)]: the nil is a nil string field or
    a nil nested record; around it, at each level, sit non-nil nested records (and scalars) before,
    after, or on both sides.  Deterministic (no rng): every placement is present in every run."""
    counter = [0]

    def good(maxdepth):
        while True:
            counter[0] += 1
            g = _GOOD[counter[0] % len(_GOOD)]
            if depth(g[0]) <= maxdepth:
                return g

    def carriers(d):
        """(type of depth <= d, value with exactly one nil, description)"""
        out = [("s", None, "nil string")]
        if d == 0:
            return out
        out.append((rec("i", "s"), None, "nil record"))
        if d == 1:
            arrangements = ["c", "xc"]                       # no room for a nested record beside it
        elif d == 2:
            arrangements = ["c", "gc", "cg", "gcg"]
        else:
            arrangements = ["c", "gc", "cg", "gcg", "xc", "cxg"]
        for (ct, cv, cw) in carriers(d - 1):
            for arr in arrangements:
                fs, vs = [], []
                for ch in arr:
                    if ch == "c":
                        fs.append(ct)
                        vs.append(cv)
                    elif ch == "g":
                        gt, gv = good(d - 1)
                        fs.append(gt)
                        vs.append(gv)
                    else:
                        fs.append("l")
                        vs.append(counter[0])
                pos = {"c": "alone", "gc": "after a non-nil record", "cg": "before a non-nil record",
                       "gcg": "between non-nil records", "xc": "after a scalar",
                       "cxg": "before a scalar and a non-nil record"}[arr]
                out.append((rec(*fs), vs, "%s, %s in {%s}" % (cw, pos, arr)))
        return out

    res = []
    seen = set()
    for (t, v, w) in carriers(3):
        if is_rec(t) and v is not None and depth(t) <= 3:
            key = (tstr(t), json_key(v))
            if key not in seen:
                seen.add(key)
                res.append((t, v, w))
    return res


def json_key(v):
    import json as _json
    return _json.dumps(v)


# ------------------------------------------------------------------------------------------
# exhaustive layout shapes (model vs gcc)

def exhaustive_shapes(tier):
    """(description, list of record types): every flat record of <= N fields over the 8 leaf
    kinds, and every record of <= 3 fields over 6 leaves + the 12 inner records of <= 2 fields
    over {c,i,d}"""
    import itertools
    n = 4 if tier == "quick" else 6
    shapes = []
    for k in range(1, n + 1):
        for fs in itertools.product(LEAVES, repeat=k):
            shapes.append(rec(*fs))
    inner = [rec(a) for a in "cid"] + [rec(a, b) for a in "cid" for b in "cid"]
    alpha = list("cilfds") + inner
    m = 3
    nested = 0
    for k in range(1, m + 1):
        for fs in itertools.product(alpha, repeat=k):
            if any(is_rec(f) for f in fs):
                shapes.append(rec(*fs))
                nested += 1
    if tier != "quick":
        # depth 3: {x {y {z w}}} shapes over {c,i,d,f}
        for a in "cidf":
            for b in "cidf":
                for c in "cidf":
                    for d in "cidf":
                        shapes.append(rec(a, rec(b, rec(c, d))))
                        shapes.append(rec(rec(rec(c, d), b), a))
                        nested += 2
    desc = ("all flat records of 1..%d fields over {bool,int,long,float,double,char,string,c_ptr} "
            "(%d shapes) + all records of 1..3 fields over {char,int,long,float,double,string} and the "
            "12 inner records of 1..2 fields over {char,int,double} that contain at least one inner "
            "record (%d shapes incl. depth-3 chains in thorough)" % (n, sum(8 ** k for k in range(1, n + 1)), nested))
    return desc, n, shapes


def layout_c_source(shapes, chunk_id):
    """a C program printing `@L <type> <sizeof> <alignof> <offsetof leaves...>` per shape"""
    lines = ["#include <stdio.h>", "#include <stddef.h>", "#include <stdbool.h>"]
    names = Names("X%d" % chunk_id)
    for t in shapes:
        names.add(t)
    lines.append(names.c_decls())
    lines.append("int main(void)\n{")
    for t in shapes:
        nm = names.name(t)
        offs = "".join(' printf(" %%zu", offsetof(%s, %s));' % (nm, p) for p, _ in leaf_paths(t))
        lines.append('    printf("@L %s %%zu %%zu", sizeof(%s), _Alignof(%s));%s printf("\\n");'
                     % (tstr(t), nm, nm, offs))
    lines.append("    return 0;\n}")
    return "\n".join(lines) + "\n"
