#!/bin/bash
# tools/try_seed.sh <patch.diff> <property-id>... : apply a seeded change to a scratch copy of
# /repo, run the given checks against it (NEVER_REPO), print their VIOLATION lines and exit
# codes, remove the scratch copy.  (While other work uses /repo; the final confirmation applies
# the patch to /repo itself: git -C /repo apply … ; bin/check … ; git -C /repo checkout -- .)
set -uo pipefail
PATCH="$(readlink -f "$1")"; shift
VERIF="$(cd "$(dirname "$0")/.." && pwd)"
SCR="$(mktemp -d /var/tmp/nvseed.XXXXXX)"
trap 'rm -rf "$SCR"' EXIT
(cd /repo && tar --exclude=./_build --exclude=./.git -cf - .) | tar -xf - -C "$SCR"
(cd "$SCR" && git init -q . && { git apply --whitespace=nowarn "$PATCH" 2>/dev/null || patch -p1 --fuzz=3 --no-backup-if-mismatch < "$PATCH" >/dev/null; }) || { echo "PATCH DOES NOT APPLY"; exit 2; }
cd "$VERIF"
for id in "$@"; do
  start=$(date +%s)
  out="$(NEVER_REPO="$SCR" VERIF_TIER=${VERIF_TIER:-quick} timeout 1500 bin/check "$id" --tier ${VERIF_TIER:-quick} 2>&1)"; rc=$?
  echo "== $id rc=$rc wall=$(( $(date +%s) - start ))s"
  echo "$out" | grep -E "^(VIOLATION|KNOWN-FINDING|NOTE)" | cut -c1-400
done
