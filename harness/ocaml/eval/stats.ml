(* stats — what a generated program contains: constructor counts, sizes, closures and what they
   capture, shadowing depth.  Counted on the AST (not taken from the generator's intentions). *)
open Evalmodel
open Conv
module IS = Uniq.IS

type t = (string, int) Hashtbl.t

let create () : t = Hashtbl.create 97
let add (h : t) k n = Hashtbl.replace h k (n + (try Hashtbl.find h k with Not_found -> 0))
let setmax (h : t) k n = if n > (try Hashtbl.find h k with Not_found -> 0) then Hashtbl.replace h k n
let get (h : t) k = try Hashtbl.find h k with Not_found -> 0

let exn_short = Conv.exn_name
let globals : IS.t ref = ref IS.empty

(* env: names visible at this point, innermost first (with repetitions = shadowing) *)
let rec expr (h : t) (env : int list) (lvl : int) (e : expr) : unit =
  add h "nodes" 1;
  let go = expr h env lvl in
  match e with
  | EInt z -> add h "EInt" 1; if abs (int_of_z z) >= 32768 then add h "EInt.big" 1
  | EBool _ -> add h "EBool" 1
  | EVar _ -> add h "EVar" 1
  | ENeg a -> add h "ENeg" 1; go a
  | ENot a -> add h "ENot" 1; go a
  | EBNot a -> add h "EBNot" 1; go a
  | EBin (op, a, b) -> add h ("EBin." ^ Sexp.binop_name op) 1; go a; go b
  | ECond (c, a, b) -> add h "ECond" 1; go c; go a; go b
  | EIf (c, a) -> add h "EIf" 1; go c; go a
  | EAssign (l, r) ->
    add h "EAssign" 1;
    (match l with EVar _ -> add h "EAssign.var" 1 | EIndex _ -> add h "EAssign.elem" 1
                | EField _ -> add h "EAssign.field" 1 | _ -> add h "EAssign.other" 1);
    go l; go r
  | ECall (f, args) ->
    add h "ECall" 1;
    (match f with EVar _ -> () | ELambda _ -> add h "ECall.lambda" 1 | _ -> add h "ECall.computed" 1);
    setmax h "max_args" (List.length args);
    go f; List.iter go args
  | EBlock items -> add h "EBlock" 1; items_ h env lvl items
  | EWhile (c, b) -> add h "EWhile" 1; go c; go b
  | EDoWhile (b, c) -> add h "EDoWhile" 1; go b; go c
  | EFor (i, c, s, b) -> add h "EFor" 1; go i; go c; go s; go b
  | EForInRange (x, a, b, body) ->
    add h "EForIn" 1; add h "EForInRange" 1; go a; go b;
    binder h env (int_of_n x) "forin"; expr h (int_of_n x :: env) lvl body
  | EForInArr (x, a, body) ->
    add h "EForIn" 1; add h "EForInArr" 1; go a;
    binder h env (int_of_n x) "forin"; expr h (int_of_n x :: env) lvl body
  | ELambda fd -> add h "ELambda" 1; fdef h env lvl ~kind:"lambda" fd
  | EArrLit (es, _) -> add h "EArrLit" 1; List.iter go es
  | EIndex (a, i) -> add h "EIndex" 1; go a; go i
  | ERecNew (_, args) -> add h "ERecNew" 1; List.iter go args
  | ERecNil _ -> add h "ERecNil" 1
  | EField (a, _, _) -> add h "EField" 1; go a
  | EPrint a -> add h "EPrint" 1; go a

and binder h env x kind =
  let d = List.length (List.filter (fun y -> y = x) env) in
  add h ("binder." ^ kind) 1;
  if d > 0 then (add h "shadowing_binders" 1; add h ("shadowing." ^ kind) 1);
  setmax h "max_shadow_depth" d

and items_ h env lvl = function
  | [] -> ()
  | ILet (x, e) :: t -> add h "ILet" 1; expr h env lvl e; let x = int_of_n x in binder h env x "let"; items_ h (x :: env) lvl t
  | IVar (x, e) :: t -> add h "IVar" 1; expr h env lvl e; let x = int_of_n x in binder h env x "var"; items_ h (x :: env) lvl t
  | IFunc fd :: t ->
    add h "IFunc" 1;
    let x = int_of_n (fd_name fd) in
    binder h env x "func";
    fdef h (x :: env) lvl ~kind:"nested" fd; items_ h (x :: env) lvl t
  | IExpr e :: t -> add h "IExpr" 1; expr h env lvl e; items_ h env lvl t

and fdef h env lvl ~kind (FDef (_, params, _, body, catches, call) as fd) =
  add h ("fdef." ^ kind) 1;
  setmax h "max_fn_nesting" (lvl + 1);
  if kind <> "top" then begin
    let fv = Uniq.free_of_fdef ~named:(kind = "nested") fd in
    (* captured = free names that are not top-level functions (env holds those at its bottom with
       lvl 0; the caller passes them in `globals`) *)
    let captured = IS.filter (fun x -> not (IS.mem x !globals)) fv in
    let n = IS.cardinal captured in
    if n > 0 then add h "closures_capturing" 1;
    add h "captured_vars" n;
    setmax h "max_captured" n
  end;
  let env' = List.fold_left (fun env ((x, v), t) ->
      let x = int_of_n x in
      binder h env x "param";
      if v then add h "params.var" 1;
      (match t with TFun _ -> add h "params.fun" 1 | TArr _ -> add h "params.arr" 1 | TRec _ -> add h "params.rec" 1 | _ -> ());
      x :: env) env params in
  add h "params" (List.length params);
  items_ h env' (lvl + 1) body;
  List.iter (fun (ex, hb) -> add h ("catch." ^ exn_short ex) 1; items_ h env' (lvl + 1) hb) catches;
  (match call with Some hb -> add h "catch.all" 1; items_ h env' (lvl + 1) hb | None -> ());
  if catches <> [] || call <> None then add h "fdef.with_catch" 1


let program (p : program) : t =
  let h = create () in
  globals := List.fold_left (fun s fd -> IS.add (int_of_n (fd_name fd)) s) IS.empty p.p_funcs;
  let env = List.map (fun fd -> int_of_n (fd_name fd)) p.p_funcs in
  List.iter (fun fd -> fdef h env 0 ~kind:"top" fd) p.p_funcs;
  add h "records" (List.length p.p_recs);
  List.iter (fun (_, tys) -> List.iter (function
      | TFun _ -> add h "record_fields.fun" 1 | TRec _ -> add h "record_fields.rec" 1
      | TArr _ -> add h "record_fields.arr" 1 | _ -> add h "record_fields.scalar" 1) tys) p.p_recs;
  h

let merge (into : t) (h : t) =
  Hashtbl.iter (fun k v ->
      if String.length k >= 4 && String.sub k 0 4 = "max_" then setmax into k v else add into k v) h

let to_json (h : t) : string =
  let l = Hashtbl.fold (fun k v acc -> (k, v) :: acc) h [] in
  let l = List.sort compare l in
  "{" ^ String.concat ", " (List.map (fun (k, v) -> Printf.sprintf "\"%s\": %d" k v) l) ^ "}"
