(* Unfolding equations for the reference evaluator (Src/Eval.v), one per syntactic form, so
   that proofs never have to `simpl` the big mutual fixpoint.  The local helpers of `eval`
   (`eval_args`, `get_int`, `get_bool`, `fresh`) are given top-level names here; every
   equation below is proved by `reflexivity`, i.e. the named helpers are *convertible* with
   the local ones.  No axioms. *)
From Coq Require Import ZArith List Bool Lia.
From NV Require Import Src.Syntax Src.Eval.
Import ListNotations.
Local Open Scope Z_scope.

Definition get_int (st : state) (c : nat) : option Z :=
  match get_cell st c with Some (CInt z) => Some z | _ => None end.
Definition get_bool (st : state) (c : nat) : option bool :=
  match get_cell st c with Some (CBool b) => Some b | _ => None end.
Definition fresh (st : state) (v : cellval) : res * state :=
  let (c, st') := alloc st v in (ROk c, st').

(* right-to-left evaluation of an argument list, for an abstract one-expression evaluator *)
Definition eval_args_f (ev : state -> expr -> res * state) :=
  fix go (l : list expr) (st : state) : (option (list nat) * res) * state :=
  match l with
  | [] => ((Some [], ROk 0%nat), st)
  | a :: t =>
    match go t st with
    | ((Some cs, _), st1) =>
      match ev st1 a with
      | (ROk c, st2) => ((Some (c :: cs), ROk 0%nat), st2)
      | (r, st2) => ((None, r), st2)
      end
    | r => r
    end
  end.

Lemma eval_args_f_nil : forall ev st, eval_args_f ev [] st = ((Some [], ROk 0%nat), st).
Proof. reflexivity. Qed.
Lemma eval_args_f_cons : forall ev a t st, eval_args_f ev (a :: t) st =
    match eval_args_f ev t st with
    | ((Some cs, _), st1) =>
      match ev st1 a with
      | (ROk c, st2) => ((Some (c :: cs), ROk 0%nat), st2)
      | (r, st2) => ((None, r), st2)
      end
    | r => r
    end.
Proof. reflexivity. Qed.

(* the result of a non-short-circuit binary operator on two evaluated operand cells *)
Definition binop_result (op : binop) (c1 c2 : nat) (st2 : state) : res * state :=
  match get_int st2 c1, get_int st2 c2 with
  | Some z1, Some z2 =>
    match int_binop op z1 z2 with
    | Some v => fresh st2 v
    | None => (RExc ExDivision, st2)
    end
  | _, _ =>
    match op, get_bool st2 c1, get_bool st2 c2 with
    | Eq, Some b1, Some b2 => fresh st2 (CBool (Bool.eqb b1 b2))
    | Ne, Some b1, Some b2 => fresh st2 (CBool (negb (Bool.eqb b1 b2)))
    | _, _, _ =>
      match nil_cmp op (get_cell st2 c1) (get_cell st2 c2) with
      | Some b => fresh st2 (CBool b)
      | None => (RStuck, st2)
      end
    end
  end.

Definition index_result (st2 : state) (ca ci : nat) : res * state :=
  match get_cell st2 ca, get_int st2 ci with
  | Some (CArr None), Some _ => (RExc ExNil, st2)
  | Some (CArr (Some ar)), Some z =>
    match nth_error (arrs st2) ar with
    | Some elems =>
      if (z <? 0) || (Z.of_nat (length elems) <=? z) then (RExc ExIndexOob, st2)
      else match nth_error elems (Z.to_nat z) with
           | Some c => (ROk c, st2)
           | None => (RStuck, st2) end
    | None => (RStuck, st2) end
  | _, _ => (RStuck, st2) end.

Definition field_result (st1 : state) (ca : nat) (fld : nat) : res * state :=
  match get_cell st1 ca with
  | Some (CRec None) => (RExc ExNil, st1)
  | Some (CRec (Some r)) =>
    match nth_error (recs st1) r with
    | Some flds => match nth_error flds fld with Some c => (ROk c, st1) | None => (RStuck, st1) end
    | None => (RStuck, st1) end
  | _ => (RStuck, st1) end.

(* the environment and the store after binding a run of function items *)
Definition run_env (fds : list fdef) (e : env) (st : state) : env :=
  func_env fds (length (cells st)) e.
Definition run_state (fds : list fdef) (e : env) (st : state) : state :=
  add_cells st (map (fun f => CFun f (run_env fds e st)) fds).

Lemma run_rest_id : forall l, run_funcs l = [] -> run_rest l = l.
Proof. destruct l as [|[] l]; simpl; intros; auto; discriminate. Qed.
Lemma run_funcs_rest : forall l, run_funcs (run_rest l) = [].
Proof. induction l as [|[] l IH]; simpl; auto. Qed.
Lemma run_split : forall l, l = map IFunc (run_funcs l) ++ run_rest l.
Proof. induction l as [|[] l IH]; simpl; auto. now rewrite <- IH. Qed.

(* the for-in loop, one iteration at a time *)
Lemma forin_loop_O : forall ev s st, forin_loop ev 0 s st = (RFuel, st).
Proof. reflexivity. Qed.
Lemma forin_loop_S : forall ev n s st, forin_loop ev (S n) s st =
  match forin_step st s with
  | LsDone => fresh st (CInt 0)
  | LsFault r => (r, st)
  | LsBind c st1 s' =>
    match ev c st1 with
    | (ROk _, st2) => forin_loop ev n s' st2
    | r => r
    end
  end.
Proof. reflexivity. Qed.

Section Eqs.
Variable genv : env.

(* running the body of a function value in its environment, then its catch clauses *)
Definition call_body (k : nat) (fenv : env) (st2 : state) (fd : fdef) : res * state :=
  match eval_items genv k fenv st2 (fd_body fd) None with
  | (RExc ex, st3) => handlers genv k fenv st3 ex (fd_catches fd) (fd_catch_all fd)
  | r => r
  end.

Definition apply_fun (k : nat) (st2 : state) (cf : nat) (cs : list nat) : res * state :=
  match get_cell st2 cf with
  | Some (CFun fd cenv) =>
    match bind_params (fd_params fd) cs with
    | Some penv => call_body k (penv ++ cenv) st2 fd
    | None => (RStuck, st2) end
  | _ => (RStuck, st2) end.

Definition eval_args (k : nat) (e : env) := eval_args_f (fun st a => eval genv k e st a).

Lemma eval_O : forall e st x, eval genv 0 e st x = (RFuel, st).
Proof. reflexivity. Qed.
Lemma eval_items_O : forall e st l last, eval_items genv 0 e st l last = (RFuel, st).
Proof. reflexivity. Qed.
Lemma handlers_O : forall e st ex cs call, handlers genv 0 e st ex cs call = (RFuel, st).
Proof. reflexivity. Qed.

Lemma eval_EInt : forall k e st z, eval genv (S k) e st (EInt z) = fresh st (CInt (wrap32 z)).
Proof. reflexivity. Qed.
Lemma eval_EBool : forall k e st b, eval genv (S k) e st (EBool b) = fresh st (CBool b).
Proof. reflexivity. Qed.
Lemma eval_EVar : forall k e st v, eval genv (S k) e st (EVar v) =
  match lookup_var genv v e with Some c => (ROk c, st) | None => (RStuck, st) end.
Proof. reflexivity. Qed.
Lemma eval_ENeg : forall k e st a, eval genv (S k) e st (ENeg a) =
  match eval genv k e st a with
  | (ROk c, st1) => match get_int st1 c with Some z => fresh st1 (CInt (wrap32 (- z))) | None => (RStuck, st1) end
  | r => r end.
Proof. reflexivity. Qed.
Lemma eval_ENot : forall k e st a, eval genv (S k) e st (ENot a) =
  match eval genv k e st a with
  | (ROk c, st1) => match get_bool st1 c with Some b => fresh st1 (CBool (negb b)) | None => (RStuck, st1) end
  | r => r end.
Proof. reflexivity. Qed.
Lemma eval_EBNot : forall k e st a, eval genv (S k) e st (EBNot a) =
  match eval genv k e st a with
  | (ROk c, st1) => match get_int st1 c with Some z => fresh st1 (CInt (wrap32 (Z.lnot z))) | None => (RStuck, st1) end
  | r => r end.
Proof. reflexivity. Qed.
Lemma eval_EAnd : forall k e st a b, eval genv (S k) e st (EBin And a b) =
  match eval genv k e st a with
  | (ROk c, st1) =>
    match get_bool st1 c with
    | Some false => fresh st1 (CBool false)
    | Some true =>
      match eval genv k e st1 b with
      | (ROk c2, st2) => match get_bool st2 c2 with Some v => fresh st2 (CBool v) | None => (RStuck, st2) end
      | r => r end
    | None => (RStuck, st1) end
  | r => r end.
Proof. reflexivity. Qed.
Lemma eval_EOr : forall k e st a b, eval genv (S k) e st (EBin Or a b) =
  match eval genv k e st a with
  | (ROk c, st1) =>
    match get_bool st1 c with
    | Some true => fresh st1 (CBool true)
    | Some false =>
      match eval genv k e st1 b with
      | (ROk c2, st2) => match get_bool st2 c2 with Some v => fresh st2 (CBool v) | None => (RStuck, st2) end
      | r => r end
    | None => (RStuck, st1) end
  | r => r end.
Proof. reflexivity. Qed.
Lemma eval_EBin : forall op k e st a b, op <> And -> op <> Or ->
  eval genv (S k) e st (EBin op a b) =
  match eval genv k e st a with
  | (ROk c1, st1) =>
    match eval genv k e st1 b with
    | (ROk c2, st2) => binop_result op c1 c2 st2
    | r => r end
  | r => r end.
Proof. intros op k e st a b H1 H2; destruct op; try congruence; reflexivity. Qed.
Lemma eval_ECond : forall k e st c a b, eval genv (S k) e st (ECond c a b) =
  match eval genv k e st c with
  | (ROk cc, st1) =>
    match get_bool st1 cc with
    | Some true => eval genv k e st1 a
    | Some false => eval genv k e st1 b
    | None => (RStuck, st1) end
  | r => r end.
Proof. reflexivity. Qed.
Lemma eval_EIf : forall k e st c a, eval genv (S k) e st (EIf c a) =
  match eval genv k e st c with
  | (ROk cc, st1) =>
    match get_bool st1 cc with
    | Some true => eval genv k e st1 a
    | Some false => fresh st1 (CInt 0)
    | None => (RStuck, st1) end
  | r => r end.
Proof. reflexivity. Qed.
Lemma eval_EAssign : forall k e st lhs rhs, eval genv (S k) e st (EAssign lhs rhs) =
  match eval genv k e st lhs with
  | (ROk cl, st1) =>
    match eval genv k e st1 rhs with
    | (ROk cr, st2) =>
      match get_cell st2 cr with
      | Some v => (ROk cl, set_cell st2 cl v)
      | None => (RStuck, st2) end
    | r => r end
  | r => r end.
Proof. reflexivity. Qed.
Lemma eval_ECall : forall k e st f args, eval genv (S k) e st (ECall f args) =
  match eval_args k e args st with
  | ((Some cs, _), st1) =>
    match eval genv k e st1 f with
    | (ROk cf, st2) => apply_fun k st2 cf cs
    | r => r end
  | ((None, r), st1) => (r, st1)
  end.
Proof. reflexivity. Qed.
Lemma eval_EBlock : forall k e st items, eval genv (S k) e st (EBlock items) =
  eval_items genv k e st items None.
Proof. reflexivity. Qed.
Lemma eval_EWhile : forall k e st c body, eval genv (S k) e st (EWhile c body) =
  match eval genv k e st c with
  | (ROk cc, st1) =>
    match get_bool st1 cc with
    | Some true =>
      match eval genv k e st1 body with
      | (ROk _, st2) => eval genv k e st2 (EWhile c body)
      | r => r end
    | Some false => fresh st1 (CInt 0)
    | None => (RStuck, st1) end
  | r => r end.
Proof. reflexivity. Qed.
Lemma eval_EDoWhile : forall k e st body c, eval genv (S k) e st (EDoWhile body c) =
  match eval genv k e st body with
  | (ROk _, st1) =>
    match eval genv k e st1 c with
    | (ROk cc, st2) =>
      match get_bool st2 cc with
      | Some true => eval genv k e st2 (EDoWhile body c)
      | Some false => fresh st2 (CInt 0)
      | None => (RStuck, st2) end
    | r => r end
  | r => r end.
Proof. reflexivity. Qed.
Lemma eval_EFor : forall k e st init cond incr body, eval genv (S k) e st (EFor init cond incr body) =
  match eval genv k e st init with
  | (ROk _, st1) => eval genv k e st1 (EWhile cond (EBlock [IExpr body; IExpr incr]))
  | r => r end.
Proof. reflexivity. Qed.
Lemma eval_EForInRange : forall k e st x a b body, eval genv (S k) e st (EForInRange x a b body) =
  match eval genv k e st b with
  | (ROk cb, st1) =>
    match eval genv k e st1 a with
    | (ROk ca, st2) =>
      match get_int st2 ca, get_int st2 cb with
      | Some za, Some zb =>
        forin_loop (fun c s => eval genv k ((x, c) :: e) s body) k (range_src za zb) st2
      | _, _ => (RStuck, st2) end
    | r => r end
  | r => r end.
Proof. reflexivity. Qed.
Lemma eval_EForInArr : forall k e st x arr body, eval genv (S k) e st (EForInArr x arr body) =
  match eval genv k e st arr with
  | (ROk ca, st1) => forin_loop (fun c s => eval genv k ((x, c) :: e) s body) k (LArr ca 0) st1
  | r => r end.
Proof. reflexivity. Qed.
Lemma eval_ELambda : forall k e st fd, eval genv (S k) e st (ELambda fd) = fresh st (CFun fd e).
Proof. reflexivity. Qed.
Lemma eval_EArrLit : forall k e st es t, eval genv (S k) e st (EArrLit es t) =
  match eval_args k e es st with
  | ((Some cs, _), st1) => let (a, st2) := new_arr st1 cs in fresh st2 (CArr (Some a))
  | ((None, r), st1) => (r, st1)
  end.
Proof. reflexivity. Qed.
Lemma eval_EIndex : forall k e st a i, eval genv (S k) e st (EIndex a i) =
  match eval genv k e st a with
  | (ROk ca, st1) =>
    match eval genv k e st1 i with
    | (ROk ci, st2) => index_result st2 ca ci
    | r => r end
  | r => r end.
Proof. reflexivity. Qed.
Lemma eval_ERecNew : forall k e st rn args, eval genv (S k) e st (ERecNew rn args) =
  match eval_args k e args st with
  | ((Some cs, _), st1) => let (r, st2) := new_rec st1 cs in fresh st2 (CRec (Some r))
  | ((None, r), st1) => (r, st1)
  end.
Proof. reflexivity. Qed.
Lemma eval_ERecNil : forall k e st rn, eval genv (S k) e st (ERecNil rn) = fresh st (CRec None).
Proof. reflexivity. Qed.
Lemma eval_EField : forall k e st a rn fld, eval genv (S k) e st (EField a rn fld) =
  match eval genv k e st a with
  | (ROk ca, st1) => field_result st1 ca fld
  | r => r end.
Proof. reflexivity. Qed.
Lemma eval_EPrint : forall k e st a, eval genv (S k) e st (EPrint a) =
  match eval genv k e st a with
  | (ROk c, st1) =>
    match get_int st1 c with
    | Some z => fresh (print_num st1 z) (CInt z)
    | None => (RStuck, st1) end
  | r => r end.
Proof. reflexivity. Qed.

Lemma eval_items_nil : forall k e st last, eval_items genv (S k) e st [] last =
  match last with Some c => (ROk c, st) | None => (RStuck, st) end.
Proof. reflexivity. Qed.
Lemma eval_items_ILet : forall k e st x a t last, eval_items genv (S k) e st (ILet x a :: t) last =
  match eval genv k e st a with
  | (ROk c, st1) => eval_items genv k ((x, c) :: e) st1 t (Some c)
  | r => r end.
Proof. reflexivity. Qed.
Lemma eval_items_IVar : forall k e st x a t last, eval_items genv (S k) e st (IVar x a :: t) last =
  match eval genv k e st a with
  | (ROk c, st1) => eval_items genv k ((x, c) :: e) st1 t (Some c)
  | r => r end.
Proof. reflexivity. Qed.
(* a maximal run of adjacent function items *)
Lemma eval_items_IFunc : forall k e st fd t last, eval_items genv (S k) e st (IFunc fd :: t) last =
  eval_items genv k (run_env (fd :: run_funcs t) e st) (run_state (fd :: run_funcs t) e st)
             (run_rest t) (Some (length (run_funcs t) + length (cells st))%nat).
Proof. reflexivity. Qed.
(* a function item that is not followed by another one *)
Lemma eval_items_IFunc1 : forall k e st fd t last, run_funcs t = [] ->
  eval_items genv (S k) e st (IFunc fd :: t) last =
  let c := length (cells st) in
  let e' := (fd_name fd, c) :: e in
  eval_items genv k e' (add_cells st [CFun fd e']) t (Some c).
Proof.
  intros k e st fd t last H. rewrite eval_items_IFunc, (run_rest_id t H), H. reflexivity.
Qed.
Lemma eval_items_IExpr : forall k e st a t last, eval_items genv (S k) e st (IExpr a :: t) last =
  match eval genv k e st a with
  | (ROk c, st1) => eval_items genv k e st1 t (Some c)
  | r => r end.
Proof. reflexivity. Qed.

Lemma handlers_nil : forall k e st ex call, handlers genv (S k) e st ex [] call =
  match call with
  | Some body => eval_items genv k e st body None
  | None => (RExc ex, st)
  end.
Proof. reflexivity. Qed.
Lemma handlers_cons : forall k e st ex ex' body t call,
  handlers genv (S k) e st ex ((ex', body) :: t) call =
  if exn_eqb ex ex' then
    match eval_items genv k e st body None with
    | (RExc ex2, st1) => handlers genv k e st1 ex2 t call
    | r => r end
  else handlers genv k e st ex t call.
Proof. reflexivity. Qed.

End Eqs.

Global Opaque eval eval_items handlers.

(* the rewrite base used by the proofs *)
Global Hint Rewrite eval_EInt eval_EBool eval_EVar eval_ENeg eval_ENot eval_EBNot eval_EAnd eval_EOr
  eval_ECond eval_EIf eval_EAssign eval_ECall eval_EBlock eval_EWhile eval_EDoWhile eval_EFor
  eval_EForInRange eval_EForInArr
  eval_ELambda eval_EArrLit eval_EIndex eval_ERecNew eval_ERecNil eval_EField eval_EPrint
  eval_items_nil eval_items_ILet eval_items_IVar eval_items_IFunc eval_items_IExpr
  handlers_nil handlers_cons : evaleq.

(* ---- small store facts ------------------------------------------------------------ *)

Lemma list_upd_length : forall A (l : list A) i v, length (list_upd l i v) = length l.
Proof. induction l; destruct i; simpl; auto. Qed.

Lemma nth_error_list_upd_same : forall A (l : list A) i v, (i < length l)%nat ->
  nth_error (list_upd l i v) i = Some v.
Proof. induction l; destruct i; simpl; intros; try lia; auto. apply IHl; lia. Qed.

Lemma nth_error_list_upd_other : forall A (l : list A) i j v, i <> j ->
  nth_error (list_upd l i v) j = nth_error l j.
Proof. induction l; destruct i, j; simpl; intros; try congruence; auto. Qed.

Lemma list_upd_map : forall A B (f : A -> B) l i v,
  list_upd (map f l) i (f v) = map f (list_upd l i v).
Proof. induction l; destruct i; simpl; intros; auto. now rewrite IHl. Qed.

Lemma binop_cases : forall op, op = And \/ op = Or \/ (op <> And /\ op <> Or).
Proof. destruct op; auto; right; right; split; discriminate. Qed.

(* ---- runs of function items --------------------------------------------------------- *)

Lemma func_env_app : forall fds c e, exists p, func_env fds c e = p ++ e /\ length p = length fds.
Proof.
  induction fds as [|fd t IH]; intros c e; simpl.
  - exists []. auto.
  - destruct (IH (S c) ((fd_name fd, c) :: e)) as [p [E L]].
    exists (p ++ [(fd_name fd, c)]). rewrite E, <- app_assoc, app_length. simpl. split; auto. lia.
Qed.

(* a name that no function of the run has keeps its meaning *)
Lemma func_env_other : forall fds c e x, (forall f, In f fds -> fd_name f <> x) ->
  lookup x (func_env fds c e) = lookup x e.
Proof.
  induction fds as [|fd t IH]; intros c e x H; simpl; auto.
  rewrite IH by (intros f Hf; apply H; simpl; auto). simpl.
  destruct (N.eqb_spec x (fd_name fd)) as [->|]; auto.
  exfalso. apply (H fd); simpl; auto.
Qed.

(* the i-th function of the run is bound to the i-th new cell (unless a later one has its name) *)
Lemma func_env_nth : forall fds c e i f, nth_error fds i = Some f ->
  (forall j g, (i < j)%nat -> nth_error fds j = Some g -> fd_name g <> fd_name f) ->
  lookup (fd_name f) (func_env fds c e) = Some (c + i)%nat.
Proof.
  induction fds as [|fd t IH]; intros c e i f Hn Hl; destruct i as [|i]; simpl in Hn; try discriminate.
  - inversion Hn; subst. simpl. rewrite func_env_other.
    + simpl. rewrite N.eqb_refl. f_equal. lia.
    + intros g Hg. destruct (In_nth_error _ _ Hg) as [j Hj]. apply (Hl (S j) g); [lia|exact Hj].
  - simpl. rewrite (IH (S c) _ i f Hn).
    + f_equal. lia.
    + intros j g Hij Hj. apply (Hl (S j) g); [lia|exact Hj].
Qed.

Lemma run_state_cells : forall fds e st,
  cells (run_state fds e st) = cells st ++ map (fun f => CFun f (run_env fds e st)) fds.
Proof. reflexivity. Qed.

Lemma run_state_get_new : forall fds e st i f, nth_error fds i = Some f ->
  get_cell (run_state fds e st) (length (cells st) + i) = Some (CFun f (run_env fds e st)).
Proof.
  intros. unfold get_cell. rewrite run_state_cells, nth_error_app2 by lia.
  replace (length (cells st) + i - length (cells st))%nat with i by lia.
  rewrite nth_error_map, H. reflexivity.
Qed.

Lemma run_state_get_old : forall fds e st c, (c < length (cells st))%nat ->
  get_cell (run_state fds e st) c = get_cell st c.
Proof. intros. unfold get_cell. rewrite run_state_cells, nth_error_app1 by lia. reflexivity. Qed.
