"""C17 — foreign calls pass and return values intact.   (partial by nature)

Proved (coq/FFI/Layout.v, LayoutProofs.v, Properties/Properties_C17.v): the struct layout computed
by the running-offset loop of back/vmffi.c is the System V layout; marshal/unmarshal round trip;
writes stay inside the buffer; emit.c's descriptor stream re-parses and total_count skips exactly a
sub-tree; the ffi_fail decision logic.
Observed here (cannot be modelled: platform ABI, libffi, dlopen/dlsym, buffer ownership):
  1. layout model  vs  gcc offsetof/sizeof/_Alignof — EXHAUSTIVE over a stated finite set of shapes
     (sub-key `layout_exhaustive`), plus every record type used by the generated calls;
  2. generated callees (harness/ffi/ffigen.py): each call must deliver every argument in its
     declared position with its exact value and return the callee's result; by-value struct
     images are compared with the extracted model's marshal image; missing library / symbol and
     nil string / nil record arguments must raise ffi_fail without calling.  Arities 0..8 sampled densely; the
     many-args family enumerates every arity 9..20 x a by-value record of every size class (register / memory) x
     its position (first / middle / last), several big records per call, scalars only; the decl-order family puts
     the same call into every legal arrangement of the program (extern before / after / between its callers, records
     outer-first, the call made by a function nested two levels deep or by another top-level function) — a program
     rejected by the compiler while its default-order twin runs exactly is a violation
     (key declaration-order(<layout>):rejected-by-the-compiler); the huge-record family passes and returns records
     whose layout crosses 64 KiB and 128 KiB (10^4 leaves, nested; every leaf offset of the model vs gcc offsetof,
     every member of an argument printed by the callee, of a result the members around each multiple of 64 KiB,
     the first / last ones and a random sample read back; the model's marshal IMAGE is not computed for them);
  3. calls IN SEQUENCE (harness/ffi/ffiseq.c + ffiseqgen.py): several programs and VMs in one process; every
     generated library and the executable (= "host") export the same symbols with different constants; library
     names around the reserved word (prefixes, word + suffix, paths through it, aliases), existing and missing;
     histories = (missing symbol / symbol of another loaded library / missing library / nil string / nil record,
     caught or unhandled) x (same VM / other live VM / after vm_delete / second program) followed by valid calls,
     one identity history per name, random histories.  The transcript required of every operation is computed
     from the history alone: the DECLARED library is entered with the exact argument, a failing call enters none.
Oracle of the search = the property itself (exact transcript).  Every failure is a
ctx.violation with key "<signature class>:<failure kind>" (single calls) or
"sequence:<role of the deviating operation>:<failure kind>" (histories).
"""
LEVEL = "proof"

import collections
import hashlib
import json
import os
import random
import re
import shutil
import sys
import tempfile
import time
from concurrent.futures import ThreadPoolExecutor

from lib import common

sys.path.insert(0, os.path.join(common.VERIF, "harness", "ffi"))
import ffigen  # noqa: E402
import ffiseqgen  # noqa: E402
from checks.parts import hashtab  # noqa: E402

CORPUS = os.path.join(common.VERIF, "corpus", "C17")
MODEL = os.path.join(common.BUILD, "ocaml", "ffi", "run")
NPROC = 16


# ------------------------------------------------------------------------------------------
def run_model(tmp, queries):
    """one run of the extracted model over all query lines; answers in order"""
    if not queries:
        return []
    path = os.path.join(tmp, "model.%d.in" % len(os.listdir(tmp)))
    with open(path, "w") as f:
        f.write("\n".join(queries) + "\n")
    rc, so, se = common.sh([os.path.join(tmp, "ffimodel-run"), "run", path], timeout=600)
    ans = so.splitlines()
    if rc != 0 or len(ans) != len(queries):
        raise RuntimeError("model driver failed rc=%s answers=%d/%d %s" % (rc, len(ans), len(queries), se[-500:]))
    return ans


def parse_L(ans):
    """model answer `L size align wf offs ndesc total reparse` -> dict"""
    p = ans.split(" ")
    if p[0] != "L" or len(p) != 8:
        return None
    return {"size": int(p[1]), "align": int(p[2]), "wf": p[3] == "1",
            "offs": [int(x) for x in p[4].split(",")] if p[4] else [],
            "ndesc": int(p[5]), "total": int(p[6]), "reparse": p[7] == "1"}


def parse_gcc_L(line):
    p = line.split(" ")
    return p[1], {"size": int(p[2]), "align": int(p[3]), "offs": [int(x) for x in p[4:]]}


# ------------------------------------------------------------------------------------------
def layout_exhaustive(ctx, tmp):
    """model vs gcc over every shape of ffigen.exhaustive_shapes (complete enumeration)"""
    desc, n, shapes = ffigen.exhaustive_shapes(ctx.tier)
    per = max(1, (len(shapes) + 4 * NPROC - 1) // (4 * NPROC))
    chunks = [shapes[i:i + per] for i in range(0, len(shapes), per)]

    def build(ic):
        i, ch = ic
        src = os.path.join(tmp, "lay%d.c" % i)
        exe = os.path.join(tmp, "lay%d" % i)
        with open(src, "w") as f:
            f.write(ffigen.layout_c_source(ch, i))
        rc, so, se = common.sh("gcc -O0 -w -o %s %s && %s" % (exe, src, exe), timeout=300)
        if rc != 0:
            raise common.BuildError("layout probe failed: " + se[-1500:])
        return [l for l in so.splitlines() if l.startswith("@L ")]

    with ThreadPoolExecutor(NPROC) as ex:
        outs = list(ex.map(build, enumerate(chunks)))
    gcc = {}
    for o in outs:
        for l in o:
            k, v = parse_gcc_L(l)
            gcc[k] = v
    ans = run_model(tmp, ["L " + ffigen.tstr(t) for t in shapes])
    bad = None
    nontrivial = 0
    for t, a in zip(shapes, ans):
        ts = ffigen.tstr(t)
        m = parse_L(a)
        g = gcc.get(ts)
        ok = (m is not None and g is not None and m["wf"] and m["reparse"] and m["ndesc"] == m["total"]
              and m["size"] == g["size"] and m["align"] == g["align"] and m["offs"] == g["offs"])
        if g is not None and g["size"] != sum(ffigen.LEAF_SA[k][0] for k in ffigen.leaves(t)):
            nontrivial += 1          # a shape with padding
        if not ok and bad is None:
            bad = {"type": ts, "model": a, "gcc": g}
    ctx.coverage["layout_exhaustive"] = {
        "exhaustive": bad is None, "max_flat_fields_N": n, "shapes": len(shapes),
        "shapes_with_padding": nontrivial, "domain": desc,
        "compared": "sizeof, _Alignof, offsetof of every leaf (gcc x86-64) == sizeof, alignof, flat_offsets "
                    "(extracted model); model: wf, total_count = #descriptors, parse(emit t) = t"}
    ctx.count(evaluations=len(shapes), nontrivial=nontrivial)
    if bad is not None:
        ctx.correspondence_broken("layout-model-vs-gcc", bad)
    return gcc


# ------------------------------------------------------------------------------------------
class Outcome:
    def __init__(self):
        self.lines = []     # '@' lines other than images
        self.images = {}    # tag -> hex
        self.noise = []     # everything else the child wrote
        self.outcome = None
        self.status = None


def parse_nevrun(text):
    res = {}
    cur = None
    cid = None
    for line in text.splitlines():
        if line.startswith("@@BEGIN "):
            cid = line[8:].strip()
            cur = Outcome()
            res[cid] = cur
        elif cur is None:
            continue
        elif line.startswith("@@OUTCOME "):
            cur.outcome = line.split(" ", 2)[2] if line.count(" ") >= 2 else ""
        elif line.startswith("@@END "):
            m = re.search(r"status=(.*)$", line)
            cur.status = m.group(1).strip() if m else "?"
            cur = None
        elif line.startswith("@S "):
            p = line.split(" ")
            cur.images[p[1]] = p[2] if len(p) > 2 else ""
        elif line.startswith("@") and not line.startswith("@@"):
            cur.lines.append(line.rstrip())
        elif line.strip():
            cur.noise.append(line)
    return res


def crash_kind(o):
    txt = "\n".join(o.noise)
    if o.status == "timeout":
        return "timeout"
    # free() of a pointer that never came from malloc: ASan words it differently depending on
    # what the bytes in front of the (stack) address happen to look like
    if ("attempting free on address which was not malloc()-ed" in txt or "alloc-dealloc-mismatch" in txt
            or "attempting double-free" in txt or "SUMMARY: AddressSanitizer: bad-free" in txt):
        return "free-abort"
    if "heap-buffer-overflow" in txt:
        return "heap-overflow"
    if "heap-use-after-free" in txt:
        return "use-after-free"
    if "stack-buffer-overflow" in txt or "dynamic-stack-buffer-overflow" in txt:
        return "stack-overflow"
    if "SEGV" in txt or o.status == "signal 11":
        return "segv"
    if "Assertion" in txt or o.status == "signal 6":
        return "assert"
    if "LeakSanitizer" in txt:
        return "leak"
    if "runtime error:" in txt:
        return "ubsan"
    return "crash"


def build_chunk(tmp, idx, cases):
    """C callee library + layout probe + nevrun batch for a list of cases"""
    d = os.path.join(tmp, "chunk%d" % idx)
    os.makedirs(d, exist_ok=True)
    lib = os.path.join(d, "libcallee%d.so" % idx)
    src = os.path.join(d, "callee%d.c" % idx)
    with open(src, "w") as f:
        f.write(ffigen.C_PRELUDE)
        for c in cases:
            f.write(c.c_source())
        f.write("#ifdef LAYOUT_MAIN\nint main(void)\n{\n")
        for c in cases:
            f.write("\n".join(c.c_layout_lines()) + "\n")
        f.write("    return 0;\n}\n#endif\n")
    batch = os.path.join(d, "batch%d.txt" % idx)
    with open(batch, "w") as f:
        for c in cases:
            f.write("@@@ %s%s\n%s" % (c.cid, c.header_options(), c.never_source(lib)))
    return d, lib, src, batch


def run_chunk(nevrun, tmp, idx, cases):
    d, lib, src, batch = build_chunk(tmp, idx, cases)
    rc, so, se = common.sh("gcc -O0 -w -shared -fPIC -o %s %s && gcc -O0 -w -DLAYOUT_MAIN -o %s/lay %s && %s/lay"
                           % (lib, src, d, src, d), timeout=300)
    if rc != 0:
        raise common.BuildError("callee library failed to build (generator defect): " + se[-2000:])
    lay = [l for l in so.splitlines() if l.startswith("@L ")]
    env = dict(os.environ)
    env["ASAN_OPTIONS"] = "detect_leaks=1:abort_on_error=0:allocator_may_return_null=1"
    rc, so, se = common.sh([nevrun, "--timeout", "20", "--batch", batch], timeout=1200, env=env)
    return parse_nevrun(so), lay


def run_cases(nevrun, tmp, cases, tag):
    per = max(1, min(40, (len(cases) + 2 * NPROC - 1) // (2 * NPROC)))
    big = [c for c in cases if c.header_options()]          # huge records: seconds of gcc each, a chunk of their own
    rest = [c for c in cases if not c.header_options()]
    chunks = [[c] for c in big] + [rest[i:i + per] for i in range(0, len(rest), per)]
    base = len([x for x in os.listdir(tmp) if x.startswith("chunk")])
    with ThreadPoolExecutor(NPROC) as ex:
        outs = list(ex.map(lambda ic: run_chunk(nevrun, tmp, base + ic[0], ic[1]), enumerate(chunks)))
    res, lay = {}, []
    for r, l in outs:
        res.update(r)
        lay.extend(l)
    return res, lay


# ------------------------------------------------------------------------------------------
def judge(case, o):
    """property oracle on one case: None if it holds, else (kind, detail)"""
    exp = case.expected()
    if o is None or o.status is None:
        return "no-output", {"first_difference": "case produced no nevrun block"}
    if o.outcome is not None and o.outcome.startswith("COMPILE_ERROR"):
        return "compile-error", {"noise": o.noise[:8]}
    crashed = (o.status != "0") or (o.outcome is None) or (not o.outcome.startswith("RESULT"))
    called = any(l.startswith("@C ") for l in o.lines)
    if case.expect == "ffi_fail":
        if o.lines == exp and not crashed:
            return None
        if called:
            kind = "called"
        elif crashed:
            kind = crash_kind(o)
        else:
            kind = "no-ffi-fail"
        return kind, {"first_difference": {"expected": exp, "observed": o.lines[:6]}}
    if o.lines == exp and not crashed:
        return None
    # where does the transcript deviate?
    i = 0
    while i < len(exp) and i < len(o.lines) and exp[i] == o.lines[i]:
        i += 1
    e = exp[i] if i < len(exp) else None
    g = o.lines[i] if i < len(o.lines) else None
    diff = {"index": i, "expected": e, "observed": g}
    n_arg_lines = exp.index("@E") + 1
    if g == "@FFI_FAIL" and not crashed:
        return "unexpected-ffi-fail", {"first_difference": diff}
    if called and i < n_arg_lines and g is not None:
        # the callee was entered and printed something else than what was passed: this is
        # reported as such even when the process dies later (e.g. in ffi_decl_delete)
        diff["process_status"] = o.status
        return "arg-value", {"first_difference": diff}
    if crashed:
        kind = crash_kind(o)
        diff["arguments_delivered_intact_before_crash"] = o.lines[:n_arg_lines] == exp[:n_arg_lines]
        return kind, {"first_difference": diff}
    if i < n_arg_lines:
        return "arg-value", {"first_difference": diff}
    return "ret-value", {"first_difference": diff}


def leaf_mask(t, offs):
    """byte positions of the non-pointer leaves"""
    pos = set()
    for o, k in zip(offs, ffigen.leaves(t)):
        if k in "sp":
            continue
        for b in range(ffigen.LEAF_SA[k][0]):
            pos.add(o + b)
    return pos


def load_corpus():
    cases = []
    if os.path.isdir(CORPUS):
        for i, fn in enumerate(sorted(os.listdir(CORPUS))):
            if fn.endswith(".json") and not fn.startswith("seq_"):       # seq_*: histories, see run_sequences
                try:
                    j = json.load(open(os.path.join(CORPUS, fn)))
                    c = ffigen.Case.from_json(j["case"] if "case" in j else j, cid="k%03d" % i)
                    c.corpus_file = fn
                    cases.append(c)
                except Exception as e:   # a broken corpus file must not hide the rest
                    print("NOTE corpus file %s unreadable: %s" % (fn, e))
    return cases


def shrink(nevrun, tmp, case, key_of, key, budget=14):
    """drop parameters while the same key keeps firing"""
    cur = case
    n = 0
    changed = True
    while changed and n < budget:
        changed = False
        for i in range(len(cur.params)):
            if n >= budget:
                break
            ps = cur.params[:i] + cur.params[i + 1:]
            ar = cur.args[:i] + cur.args[i + 1:]
            if cur.expect == "ffi_fail" and cur.libmode == "ok" and \
                    not any(ffigen.contains_nil(t, a) for t, a in zip(ps, ar)):
                continue        # dropping this parameter would drop the reason for ffi_fail
            cand = ffigen.Case("s%03d" % n, cur.family, ps, cur.ret, ar, cur.retval, cur.expect, cur.libmode,
                               "shrunk from " + case.cid, layout=cur.layout, ret_check=cur.ret_check)
            n += 1
            try:
                res, _ = run_cases(nevrun, tmp, [cand], "shrink")
            except common.BuildError:
                continue
            v = judge(cand, res.get(cand.cid))
            if v is not None and key_of(cand, v[0]) == key:
                cur = cand
                changed = True
                break
    return cur


# ------------------------------------------------------------------------------------------
# calls in sequence (harness/ffi/ffiseq.c + ffiseqgen.py): several programs and VMs in one process, valid calls
# between calls that must end in ffi_fail, library names around the reserved word "host"
class SeqRun:
    def __init__(self, rc, out, err):
        self.rc, self.err = rc, err
        self.segs = []            # per announced operation: the lines up to the next announcement
        self.ended = False
        cur = None
        for line in out.splitlines():
            if line.startswith("@O "):
                cur = []
                self.segs.append(cur)
            elif line.startswith("@END "):
                self.ended = True
            elif cur is not None and line.strip():
                cur.append(line.rstrip())


def seq_crash_kind(r):
    o = Outcome()
    o.noise = r.err.splitlines()
    o.status = "0" if r.rc == 0 else ("signal %d" % -r.rc if r.rc < 0 else str(r.rc))
    return crash_kind(o)


def seq_judge(h, r):
    """property oracle over one history: None, or (key, op index, kind, detail) of the FIRST deviation"""
    exp = h.expected()
    for i, (op, e) in enumerate(zip(h.ops, exp)):
        if i >= len(r.segs):
            # the process ended inside the previous operation (reported there) or before announcing this one
            return ("sequence:%s:crash" % op[0], i, "crash", {"note": "the process ended before operation %d" % i})
        seg = r.segs[i]
        if any(l.startswith("@REFUSED") for l in seg):
            return ("harness:refused", i, "refused", {"segment": seg})
        died_here = (i == len(r.segs) - 1) and not r.ended
        if op[0] == "prog":
            if e["p"] not in seg:
                if died_here:
                    return ("sequence:compile:%s" % seq_crash_kind(r), i, seq_crash_kind(r), {"segment": seg[:6]})
                return ("harness:compile-error", i, "compile-error", {"segment": seg[:8], "stderr": r.err[-600:]})
            continue
        if op[0] != "call":
            if died_here:
                k = seq_crash_kind(r)
                return ("sequence:%s:%s" % (op[0], k), i, k, {"segment": seg[:6]})
            continue
        got_c = [l for l in seg if l.startswith("@C ")]
        got_x = [l for l in seg if l.startswith("@X ")]
        base = "sequence:%s" % e["role"]
        detail = {"operation": " ".join(str(x) for x in op), "library_as_declared": e["lib"], "library_name_class": e["cls"],
                  "expected": [x for x in (e["c"], e["x"] or "@X ret=<non-zero> res=-") if x], "observed": got_c + got_x}
        if e["why"] is None:
            if got_c == [e["c"]] and got_x == [e["x"]]:
                continue
            if not got_x:
                kind = seq_crash_kind(r) if died_here else "no-result"
                detail["callee_entered_with_exact_argument"] = got_c == [e["c"]]
            elif not got_c and (got_x[0] == "@X ret=0 res=%d" % ffiseqgen.SENTINEL or not got_x[0].startswith("@X ret=0 ")):
                kind = "unexpected-ffi-fail"
            elif got_c and got_c[0].split(" ")[1] != e["c"].split(" ")[1]:
                kind = "call-reached-another-library"
            elif got_c != [e["c"]]:
                kind = "arg-value"
            else:
                kind = "ret-value"
            return (base + ":" + kind, i, kind, detail)
        # the call must end in ffi_fail without entering any C function
        if got_c:
            return (base + ":called", i, "called", detail)
        if not got_x:
            kind = seq_crash_kind(r) if died_here else "no-result"
            return (base + ":" + kind, i, kind, detail)
        if (e["x"] is not None and got_x != [e["x"]]) or (e["x"] is None and got_x[0].startswith("@X ret=0 ")):
            return (base + ":no-ffi-fail", i, "no-ffi-fail", detail)
    if not r.ended or r.rc != 0:
        k = seq_crash_kind(r)
        return ("sequence:end-of-history:%s" % k, len(h.ops), k, {"exit_status": r.rc, "stderr_tail": r.err[-1500:]})
    return None


def run_sequences(ctx, lib, tmp):
    drv0 = common.cc_driver("ffiseq", ["ffi/ffiseq.c"], lib, extra="-rdynamic")
    drv = os.path.join(tmp, "ffiseq")
    with common.Lock("cc.ffiseq"):
        shutil.copy2(drv0, drv)
    rng = random.Random(ctx.seed * 1000003 + 1717)
    root = os.path.join(tmp, "seq")
    libdir = os.path.join(root, "libs")
    os.makedirs(libdir)
    libs, names, hs = ffiseqgen.generate(rng, ctx.tier, libdir)
    gen_n = len(hs)

    def build_libs(ls, d):
        def one(l):
            dst = os.path.join(d, l.relfile)
            os.makedirs(os.path.dirname(dst), exist_ok=True)
            src = os.path.join(d, "src_%s.c" % l.tag)
            with open(src, "w") as f:
                f.write(l.c_source())
            rc, so, se = common.sh(["gcc", "-O0", "-w", "-shared", "-fPIC", "-o", dst, src], timeout=120)
            if rc != 0:
                raise common.BuildError("sequence library failed to build (generator defect): " + se[-800:])
        with ThreadPoolExecutor(NPROC) as ex:
            list(ex.map(one, ls))

    build_libs(libs, libdir)
    # corpus: self-contained histories (their own libraries, in a directory of their own)
    dirs = {}
    corpus = []
    if os.path.isdir(CORPUS):
        for i, fn in enumerate(sorted(os.listdir(CORPUS))):
            if fn.startswith("seq_") and fn.endswith(".json"):
                try:
                    sh_ = ffiseqgen.StoredHistory("k%03d" % i, json.load(open(os.path.join(CORPUS, fn))))
                except Exception as e:
                    print("NOTE corpus file %s unreadable: %s" % (fn, e))
                    continue
                d = os.path.join(root, "corpus%d" % i)
                os.makedirs(d)
                build_libs(sh_.libs, d)
                dirs[sh_.hid] = d
                sh_.corpus_file = fn
                corpus.append(sh_)
    hs = corpus + hs

    counter = [0]

    def run_one(h):
        d = dirs.get(h.hid, libdir)
        counter[0] += 1
        tag = "%s_%d" % (h.hid, counter[0])
        files = []
        for k, p in enumerate(h.programs):
            fn = os.path.join(root, "%s_p%d.nev" % (tag, k))
            with open(fn, "w") as f:
                f.write(p.source().replace("@LIBDIR@", d))
            files.append(fn)
        sc = os.path.join(root, "%s.txt" % tag)
        with open(sc, "w") as f:
            f.write("\n".join(h.script(lambda k: files[k])) + "\n")
        env = dict(os.environ)
        env["ASAN_OPTIONS"] = "detect_leaks=1:abort_on_error=0:allocator_may_return_null=1"
        env["LD_LIBRARY_PATH"] = d
        rc, so, se = common.sh([drv, sc], timeout=120, env=env, cwd=d)
        return SeqRun(rc, so, se)

    with ThreadPoolExecutor(NPROC) as ex:
        runs = list(ex.map(run_one, hs))

    stats = {"role": collections.Counter(), "lib_name_class": collections.Counter(), "family": collections.Counter(),
             "operations": collections.Counter()}
    failing = {}
    calls = exact = 0
    distinct = set()
    broken = None
    for h, r in zip(hs, runs):
        stats["family"][h.family] += 1
        v = seq_judge(h, r)
        upto = v[1] if v else len(h.ops)
        for op, e in list(zip(h.ops, h.expected()))[:upto]:
            stats["operations"][op[0]] += 1
            if op[0] == "call":
                calls += 1
                exact += 1
                stats["role"][e["role"]] += 1
                stats["lib_name_class"][e["cls"] + ("" if e["why"] != "missing-lib" else " (missing)")] += 1
        if v is None:
            distinct.add(hashlib.sha1(json.dumps([h.to_json()["programs"], h.to_json()["ops"]]).encode()).hexdigest())
        elif v[0].startswith("harness:"):
            broken = broken or {"history": h.to_json(), "finding": v[0], "detail": v[3]}
        else:
            calls += 1
            if v[0] not in failing or len(h.ops) < len(failing[v[0]][0].ops):
                failing[v[0]] = (h, r, v)
    if broken:
        ctx.correspondence_broken("sequence-harness(generator defect)", broken)

    known = {k.get("key") for k in ctx.known if k.get("status", "known") == "known"}
    shrunk = 0
    for key in sorted(failing):
        h, r, v = failing[key]
        if key not in known and shrunk < 4 and not hasattr(h, "corpus_file"):
            shrunk += 1
            budget = 30
            changed = True
            while changed and budget > 0:
                changed = False
                for i in range(len(h.ops) - 1, -1, -1):
                    if budget <= 0:
                        break
                    cand = ffiseqgen.History(h.hid + "s", h.family, h.programs, h.ops[:i] + h.ops[i + 1:], h.note)
                    if not cand.valid():
                        continue
                    budget -= 1
                    r2 = run_one(cand)
                    v2 = seq_judge(cand, r2)
                    if v2 is not None and v2[0] == key:
                        h, r, v = cand, r2, v2
                        changed = True
                        break
        _, at, kind, detail = v
        exp = h.expected()
        e = exp[at] if at < len(exp) else None
        d = dirs.get(h.hid, libdir)
        used_libs = libs if not hasattr(h, "libs") else h.libs
        what = "C17 %s — operation %d (%s) of a history of %d operations: %s" % (
            key, at, " ".join(str(x) for x in h.ops[at]) if at < len(h.ops) else "end of history", len(h.ops),
            ("a valid call into library %r (name class: %s) must reach THAT library with the exact argument and return its "
             "value%s" % (e["lib"].replace(d, "<libdir>"), e["cls"], ", whatever failed before" if "after" in e["role"] else ""))
            if (e and e.get("why") is None and "lib" in e) else
            ("the call (%s, library %r, name class: %s) must raise ffi_fail without calling" % (
                e["why"], e["lib"].replace(d, "<libdir>"), e["cls"])) if (e and e.get("why")) else
            "the process must survive")
        ctx.violation(key, what + ": " + kind, {
            "case": {"operations": [" ".join(str(x) for x in o) for o in h.ops], "failing_operation": at,
                     "family": h.family, "note": h.note},
            "expected": detail.get("expected"), "observed": detail.get("observed"), "detail": detail,
            "expected_transcript_per_operation": exp,
            "observed_transcript_per_operation": r.segs, "observed_exit_status": r.rc, "observed_stderr_tail": r.err[-1500:],
            "replay_never_programs": [p.source().replace("@LIBDIR@", d) for p in h.programs],
            "replay_libraries": [{"file": l.relfile, "c": l.c_source()} for l in used_libs],
            "replay_how": "build each library (gcc -shared -fPIC -o <file>) inside one directory D; write the programs to files; "
                          "cd D; LD_LIBRARY_PATH=D <bin/repobuild asan>/ffiseq <script: prog <h> <file> / vm <v> / call <h> <v> <entry> <n> "
                          "/ vmdel <v> / progdel <h>> (harness/ffi/ffiseq.c, linked -rdynamic: the executable is the library \"host\")"})
        cf = os.path.join(CORPUS, "seq_" + re.sub(r"[^A-Za-z0-9_.-]", "_", key) + ".json")
        if key not in known and not hasattr(h, "corpus_file") and not os.path.exists(cf):
            try:
                os.makedirs(CORPUS, exist_ok=True)
                with open(cf, "w") as f:
                    json.dump(dict(ffiseqgen.store(h, libs, libdir), key=key), f, indent=1)
            except OSError:
                pass

    ctx.count(evaluations=calls, nontrivial=len(distinct))
    ctx.coverage.setdefault("parts", {})["calls_in_sequence"] = {
        "histories": len(hs), "generated": gen_n, "corpus": len(corpus), "families": dict(stats["family"]),
        "operations_judged": dict(stats["operations"]), "calls": calls, "calls_with_exact_transcript": exact,
        "calls_by_role": dict(stats["role"]), "calls_by_library_name_class": dict(stats["lib_name_class"]),
        "library_names": [repr(n).replace(libdir, "<libdir>") for n in names], "libraries_built": len(libs),
        "rule": "every library (and the executable = \"host\") exports c17_who/c17_len/c17_rec with its own constant and a "
                "private c17_only_<tag>; names: the reserved word, its proper prefixes, the word + suffix, paths through "
                "it, absolute paths, plain names, aliases (name and ./name), each class with existing and missing members. "
                "Histories: (failure kind: missing symbol / symbol of another loaded library / missing library / nil string "
                "/ nil record) x (caught / unhandled) x (same VM / another live VM / after vm_delete of the failing VM / two "
                "programs sharing the library, failing program and VM deleted) — enumerated; one identity history per name; "
                "random histories over 1..3 programs and up to 4 VMs.  Oracle: the transcript computed from the history alone "
                "(the DECLARED library's '@C' line with the exact argument and its value; no '@C' line and ffi_fail). "
                "non-trivial = distinct history whose every operation gave exactly the required transcript"}


# ------------------------------------------------------------------------------------------
def run(ctx):
    t_start = time.time()
    ctx.proofs()
    ctx.coverage["partial"] = (
        "PARTIAL BY NATURE. Proved on the model: layout_is_c_layout, marshal_within_bounds, "
        "marshal_unmarshal_roundtrip(_nested), marshal_ret_iff_nil, descriptor_stream_wellformed, sizeof_bound, "
        "nil_arg_is_ffi_fail (for `prep_vals |=`; _partial/_refuted for the assigning variant). NOT provable with "
        "this technique and only observed on generated callees: register/memory classification and the call itself "
        "(libffi, x86-64 System V), dlopen/dlsym, ownership of argument/return buffers (ffi_decl_delete), "
        "gc_alloc_string copies of returned strings. Tuples use the same BYTECODE_FUNC_FFI_RECORD path and are not "
        "generated (mixed-type tuple literals do not typecheck as record fields). Argument values are sampled "
        "(corner values + random), signatures are sampled up to arity %d and enumerated by (arity, record size class, "
        "record position) for arities 9..%d." % (8 if ctx.tier == "quick" else 10, ffigen.MANY_ARGS_MAX[ctx.tier]))
    lib = common.repobuild("asan")
    nevrun = common.cc_driver("nevrun", ["common/nevrun.c"], lib)
    ok, log = common.ocaml_build()
    if not ok or not os.path.exists(MODEL):
        ctx.correspondence_broken("ocaml-build", log[-2000:])
        return
    tmp = tempfile.mkdtemp(prefix="c17.", dir="/var/tmp")
    try:
        # private copy of the model runner: build/ocaml/ffi/run is re-linked whenever somebody
        # rebuilds the OCaml side
        with common.Lock("ocaml"):
            shutil.copy2(MODEL, os.path.join(tmp, "ffimodel-run"))
        _run(ctx, tmp, nevrun)
        run_null_results(ctx, lib, tmp)
        t0 = time.time()
        run_sequences(ctx, lib, tmp)
        ctx.coverage.setdefault("timing", {})["sequences_s"] = round(time.time() - t0, 1)
        # library handle cache (back/dlcache.c): model/proofs in coq/Hash, Properties_C17b.v
        t0 = time.time()
        hashtab.run_dlcache(ctx, lib)
        hashtab.run_dlcache_e2e(ctx, nevrun, tmp)
        ctx.coverage.setdefault("timing", {})["dlcache_s"] = round(time.time() - t0, 1)
    finally:
        shutil.rmtree(tmp, ignore_errors=True)
    ctx.coverage["wall_s_check"] = round(time.time() - t_start, 1)



# ------------------------------------------------------------------------------------------
# NULL `char *` results: a C function may return NULL where the extern says `string` (getenv does); the value
# arriving in the program is the nil string (== nil, length() raises nil_pointer), in a plain result and in a
# string field of a returned record; never a crash (fix 1f4ec86).  NULL and non-NULL c_ptr values survive being
# returned, assigned over each other (also c_null over a live pointer) and passed back; tuples nested in tuples
# with a record inside (extern parameter and result) are accepted and arrive field by field
NULL_C = """struct R { char * s; int x; };
struct Q { int a; char * s; char * t; };
char * null_str(void) { return 0; }
char * some_str(void) { return "abc"; }
struct R null_rec(void) { struct R r = { 0, 5 }; return r; }
struct Q mixed_rec(void) { struct Q q = { 7, "xy", 0 }; return q; }
static int cell;
void * some_ptr(void) { return &cell; }
void * null_ptr(void) { return 0; }
int is_null(void * p) { return p == 0; }
int is_cell(void * p) { return p == (void *)&cell; }
typedef struct PT { int x; int y; } PT;
typedef struct T1 { int a; PT p; } T1;
typedef struct T2 { int k; T1 t; } T2;
typedef struct T3 { int a; struct { int b; int c; } s; } T3;
int t1sum(T1 t) { return t.a * 10000 + t.p.x * 100 + t.p.y; }
int t2sum(T2 n) { return n.k * 1000000 + t1sum(n.t); }
int t3sum(T3 n) { return n.a * 10000 + n.s.b * 100 + n.s.c; }
T2 t2make(int k) { T2 n; n.k = k; n.t.a = k + 1; n.t.p.x = k + 2; n.t.p.y = k + 3; return n; }
"""
NULL_NEV = """record R { s : string; x : int; }
record Q { a : int; s : string; t : string; }
record PT { x : int; y : int; }
extern "%(lib)s" func null_str() -> string
extern "%(lib)s" func some_str() -> string
extern "%(lib)s" func null_rec() -> R
extern "%(lib)s" func mixed_rec() -> Q
extern "%(lib)s" func some_ptr() -> c_ptr
extern "%(lib)s" func null_ptr() -> c_ptr
extern "%(lib)s" func is_null(p : c_ptr) -> int
extern "%(lib)s" func is_cell(p : c_ptr) -> int
extern "%(lib)s" func t1sum(t : (int, PT)) -> int
extern "%(lib)s" func t2sum(t : (int, (int, PT))) -> int
extern "%(lib)s" func t3sum(t : (int, (int, int))) -> int
extern "%(lib)s" func t2make(k : int) -> (int, (int, PT))
func len(s : string) -> int { length(s) } catch (nil_pointer) { 0 - 1 }
func main() -> int
{
    let s = null_str();
    let t = some_str();
    let r = null_rec();
    let q = mixed_rec();
    print(len(t)); print(len(s)); print(r.x); print(len(r.s));
    if (s == nil) { print(1) } else { print(0) };
    if (t == nil) { print(1) } else { print(0) };
    print(q.a); print(len(q.s)); print(len(q.t));
    let again = null_str();
    print(len(again));
    var p = c_null;
    p = some_ptr();
    print(is_null(p) * 10 + is_cell(p));
    p = c_null;
    print(is_null(p) * 10 + is_cell(p));
    var w = c_null;
    w = null_ptr();
    print(is_null(w) * 10 + is_cell(w));
    w = some_ptr();
    print(is_null(w) * 10 + is_cell(w));
    w = p;
    print(is_null(w) * 10 + is_cell(w));
    let t1 = (7, PT(3, 4)) : (int, PT);
    let t2 = (9, (7, PT(3, 4)) : (int, PT)) : (int, (int, PT));
    let t3 = (5, (6, 7) : (int, int)) : (int, (int, int));
    print(t1sum(t1)); print(t2sum(t2)); print(t3sum(t3)); print(t2sum(t2make(2)));
    0
}
"""
NULL_EXPECT = ["3", "-1", "5", "-1", "1", "0", "7", "2", "-1", "-1", "1", "10", "10", "1", "10", "70304", "9070304", "50607", "2030405"]


def run_null_results(ctx, lib, tmp):
    d = os.path.join(tmp, "nullres")
    os.makedirs(d, exist_ok=True)
    so_path = os.path.join(d, "libnullres.so")
    with open(os.path.join(d, "nullres.c"), "w") as f:
        f.write(NULL_C)
    rc, so, se = common.sh(["gcc", "-O0", "-w", "-shared", "-fPIC", "-o", so_path, os.path.join(d, "nullres.c")], timeout=120)
    if rc != 0:
        raise common.BuildError("null-result callee failed to build: " + se[-1000:])
    src = NULL_NEV % {"lib": so_path}
    prog = os.path.join(d, "nullres.nev")
    with open(prog, "w") as f:
        f.write(src)
    env = dict(os.environ)
    env["ASAN_OPTIONS"] = "detect_leaks=1:abort_on_error=0:allocator_may_return_null=1"
    rc, so, se = common.sh([os.path.join(lib, "never"), "-f", prog], timeout=120, env=env, cwd=d)
    got = [l.strip() for l in so.replace("\r", "").splitlines() if l.strip()]
    ctx.count(evaluations=len(NULL_EXPECT), nontrivial=4)
    ctx.coverage["null_string_results"] = {"expected": NULL_EXPECT, "observed": got[:20], "status": rc}
    if got != NULL_EXPECT or rc != 0:
        ctx.violation("null-string-result",
                      "a foreign function returning a NULL char * (plain result / string field of a returned record): expected "
                      "the nil string (prints %s, status 0), observed %s, status %d %s"
                      % (" ".join(NULL_EXPECT), " ".join(got[:12]) or "<nothing>", rc, se[-300:].replace("\n", " | ")),
                      {"callee.c": NULL_C, "program": src, "observed": got, "status": rc, "stderr": se[-1500:],
                       "replay_how": "gcc -shared -fPIC -o libnullres.so callee.c; put its absolute path in the extern lines; never -f program"})


def _run(ctx, tmp, nevrun):
    timing = {}
    t0 = time.time()
    layout_exhaustive(ctx, tmp)
    timing["layout_exhaustive_s"] = round(time.time() - t0, 1)

    rng = random.Random(ctx.seed * 1000003 + 17)
    corpus = load_corpus()
    gen = ffigen.generate(rng, ctx.tier)
    cases = corpus + gen
    t0 = time.time()
    res, lay = run_cases(nevrun, tmp, cases, "main")
    timing["calls_s"] = round(time.time() - t0, 1)

    # ---- model queries for everything that ran ------------------------------------------
    t0 = time.time()
    queries, owners = [], []
    for c in cases:
        for tag, q in c.model_queries():
            queries.append(q)
            owners.append((c, tag))
        o = res.get(c.cid)
        if c.ret is not None and ffigen.is_rec(c.ret) and o is not None and "RI" in o.images \
                and ffigen.nleaves(c.ret) <= ffigen.MODEL_IMAGE_MAX_LEAVES:
            queries.append("U %s %s" % (ffigen.tstr(c.ret), o.images["RI"]))
            owners.append((c, "U"))
        if c.expect == "ffi_fail" or c.family in ("scalars", "struct-arg", "struct-nested"):
            for acc in (0, 1):
                queries.append(c.decision_query(acc))
                owners.append((c, "D%d" % acc))
    answers = run_model(tmp, queries)
    timing["model_s"] = round(time.time() - t0, 1)
    per_case = collections.defaultdict(dict)
    model_L = {}
    for (c, tag), q, a in zip(owners, queries, answers):
        if tag == "L":
            model_L[q[2:]] = parse_L(a)
        else:
            per_case[c.cid][tag] = a

    # ---- layout of every record type used by the calls: gcc vs model ---------------------
    n_lay, bad_lay = 0, None
    for l in lay:
        ts, g = parse_gcc_L(l)
        m = model_L.get(ts)
        n_lay += 1
        if m is None or (m["size"], m["align"], m["offs"]) != (g["size"], g["align"], g["offs"]):
            bad_lay = bad_lay or {"type": ts, "gcc": g, "model": m}
    if bad_lay:
        ctx.correspondence_broken("layout-model-vs-gcc(call types)", bad_lay)

    # ---- which decision variant does the tree implement? ---------------------------------
    probe = [c for c in cases if c.family == "nil-string-then-record"]
    acc_tree = 1 if probe and all(res.get(c.cid) is not None and res[c.cid].lines == ["@FFI_FAIL"] for c in probe) else 0

    # ---- verdicts ---------------------------------------------------------------------------
    def key_of(case, kind):
        if kind in ("compile-error", "rejected-by-the-compiler") and case.layout != "default":
            return "declaration-order(%s):rejected-by-the-compiler" % case.layout
        if kind == "arg-value" and case.expect == "call" and ffigen.last_gpr_int_sse_struct(case.params, case.ret):
            return "struct-INTEGER+SSE-in-last-gpr(libffi):arg-value"
        return "%s:%s" % (ffigen.sig_class(case), kind)

    stats = {"arity": collections.Counter(), "family": collections.Counter(), "outcome": collections.Counter(),
             "arg_class": collections.Counter(), "struct_arg_size": collections.Counter(),
             "struct_ret_size": collections.Counter(), "struct_arg_sysv": collections.Counter(),
             "leaf_kind_args": collections.Counter(), "ret_kind": collections.Counter()}
    failing = {}          # key -> (case, kind, detail)
    distinct = set()
    img_bad, img_n, unm_bad, unm_n, dec_bad, dec_n = None, 0, None, 0, None, 0
    ret_bad, ret_n, ret_nil_n = None, 0, 0
    compile_errors = []
    by_cid = {c.cid: c for c in cases}
    for c in cases:
        o = res.get(c.cid)
        stats["family"][c.family] += 1
        stats["arity"][len(c.params)] += 1
        pas, _, _ = ffigen.passing(c.params, c.ret)
        for p, t in zip(pas, c.params):
            stats["arg_class"][p] += 1
            if ffigen.is_rec(t):
                stats["struct_arg_size"][ffigen.py_layout(t)[0]] += 1
                stats["struct_arg_sysv"]["+".join(ffigen.eightbyte_classes(t))] += 1
            for k in ffigen.leaves(t):
                stats["leaf_kind_args"][k] += 1
        if c.ret is None:
            stats["ret_kind"]["void"] += 1
        elif ffigen.is_rec(c.ret):
            stats["ret_kind"]["struct"] += 1
            stats["struct_ret_size"][ffigen.py_layout(c.ret)[0]] += 1
        else:
            stats["ret_kind"][c.ret] += 1
        v = judge(c, o)
        if v is None:
            stats["outcome"]["ffi_fail-as-required" if c.expect == "ffi_fail" else "call-exact"] += 1
            distinct.add(hashlib.sha1((c.sig() + "|" + "\n".join(c.expected())).encode()).hexdigest())
        else:
            kind, detail = v
            if kind == "compile-error":
                tw = by_cid.get(c.twin) if c.twin else None
                if tw is None and c.layout != "default":        # corpus / shrunk case: make the twin now
                    tw = ffigen.Case(c.cid + "t", c.family, c.params, c.ret, c.args, c.retval, c.expect, c.libmode,
                                     "default-order twin of " + c.cid)
                    try:
                        res.update(run_cases(nevrun, tmp, [tw], "twin")[0])
                        by_cid[tw.cid] = tw
                    except common.BuildError:
                        tw = None
                if tw is not None and judge(tw, res.get(tw.cid)) is None:
                    # the same extern, records, values: only the ORDER of the declarations differs from a program that
                    # compiles and runs exactly -> the compiler rejects a valid program; the call the property demands
                    # never happens
                    detail = {"noise": detail.get("noise"), "twin_in_default_order": tw.cid,
                              "first_difference": {"expected": c.expected()[:3], "observed": "rejected by the compiler: %s" % "; ".join(
                                  x.split(": ", 1)[-1] for x in (detail.get("noise") or [])[:2])}}
                    k = key_of(c, "rejected-by-the-compiler")
                    stats["outcome"]["VIOLATION " + k] += 1
                    if k not in failing:
                        failing[k] = (c, "rejected-by-the-compiler", detail)
                    continue
                compile_errors.append({"case": c.to_json(), "noise": detail.get("noise")})
                stats["outcome"]["compile-error"] += 1
                continue
            k = key_of(c, kind)
            stats["outcome"]["VIOLATION " + k] += 1
            if k not in failing:
                failing[k] = (c, kind, detail)
        if o is None:
            continue
        # by-value struct images received by the callee  vs  the model's marshal image
        # marshal_ret_iff_nil: the model's `ret` of _record_value for every non-nil record argument
        # (= contains_nil, by the theorem) predicts whether the real call must end in ffi_fail
        for i, (t, a) in enumerate(zip(c.params, c.args)):
            if ffigen.is_rec(t) and a is not None and c.libmode == "ok":
                mp = per_case[c.cid].get("M%d" % i, "").split(" ")
                if len(mp) == 3:
                    ret_n += 1
                    model_ret = mp[1] == "1"
                    got_fail = o.lines[:1] == ["@FFI_FAIL"]
                    entered = any(l.startswith("@C ") for l in o.lines)
                    if model_ret:
                        ret_nil_n += 1
                    if (model_ret != ffigen.contains_nil(t, a) or (model_ret and (not got_fail or entered))) and ret_bad is None:
                        ret_bad = {"case": c.to_json(), "param": i, "model_record_value_ret": int(model_ret),
                                   "value_contains_nil": ffigen.contains_nil(t, a), "code_raised_ffi_fail": got_fail,
                                   "callee_entered": entered, "transcript": o.lines[:6], "status": o.status}
        libffi_damage = ffigen.last_gpr_int_sse_struct(c.params, c.ret)   # image is what libffi delivered
        for i, (t, a) in enumerate(zip(c.params, c.args)):
            if ffigen.is_rec(t) and a is not None and str(i) in o.images and not libffi_damage:
                ma = per_case[c.cid].get("M%d" % i, "")
                mp = ma.split(" ")
                m = model_L.get(ffigen.tstr(t))
                if len(mp) == 3 and m is not None and not ffigen.contains_nil(t, a):
                    img_n += 1
                    got, want = o.images[str(i)], mp[2]
                    mask = leaf_mask(t, m["offs"])
                    same = len(got) == len(want) and all(got[2 * b:2 * b + 2] == want[2 * b:2 * b + 2] for b in mask)
                    if not same and img_bad is None:
                        img_bad = {"case": c.to_json(), "param": i, "callee_image": got, "model_image": want,
                                   "compared_bytes": sorted(mask)}
        # struct returned by the callee: model unmarshal of its image  vs  the value it was built from
        if "U" in per_case[c.cid]:
            unm_n += 1
            want = ffigen.mval(c.ret, c.retval)
            got = per_case[c.cid]["U"][2:]
            wl = re.findall(r"[#$][0-9a-f~]+", want)
            gl = re.findall(r"[#$][0-9a-f~]+", got)
            kinds = ffigen.leaves(c.ret)
            same = len(wl) == len(gl) == len(kinds) and all(w == g for w, g, k in zip(wl, gl, kinds) if k not in "sp")
            if not same and unm_bad is None:
                unm_bad = {"case": c.to_json(), "image": o.images.get("RI"), "model_value": got, "built_from": want}
        # decision logic: model (variant observed on the tree)  vs  code
        if "D%d" % acc_tree in per_case[c.cid]:
            dec_n += 1
            model_says = per_case[c.cid]["D%d" % acc_tree][2:]
            observed = "FfiFail" if o.lines[:1] == ["@FFI_FAIL"] else "Called"
            if model_says != observed and dec_bad is None:
                dec_bad = {"case": c.to_json(), "model(accumulate=%d)" % acc_tree: model_says,
                           "code": observed, "transcript": o.lines[:5], "status": o.status}

    if img_bad:
        ctx.correspondence_broken("marshal-image-model-vs-code", img_bad)
    if unm_bad:
        ctx.correspondence_broken("unmarshal-model-vs-gcc", unm_bad)
    if dec_bad:
        ctx.correspondence_broken("ffi_fail-decision-model-vs-code", dec_bad)
    if ret_bad:
        ctx.correspondence_broken("marshal_ret_iff_nil-model-vs-code", ret_bad)
    if compile_errors:
        ctx.correspondence_broken("generated-program-rejected-by-the-compiler", compile_errors[0])

    # ---- violations (with shrinking for keys that are not known findings) -------------------
    known = {k.get("key") for k in ctx.known if k.get("status", "known") == "known"}
    t0 = time.time()
    shrunk = 0
    for k in sorted(failing):
        c, kind, detail = failing[k]
        small = c
        if k not in known and shrunk < 4 and not hasattr(c, "corpus_file"):
            small = shrink(nevrun, tmp, c, key_of, k)
            shrunk += 1
            if small is not c:
                r2, _ = run_cases(nevrun, tmp, [small], "final")
                v2 = judge(small, r2.get(small.cid))
                if v2 is None:
                    small = c
                else:
                    kind, detail = v2
                    res[small.cid] = r2.get(small.cid)
        o = res.get(small.cid)
        libname = "/var/tmp/c17-replay/libcallee.so"
        what = "C17 %s — %s %s: %s" % (k, small.sig(), "must raise ffi_fail without calling" if small.expect == "ffi_fail"
                                       else "must deliver exact values", kind)
        ctx.violation(k, what, {
            "case": small.to_json(), "original_case": c.to_json() if small is not c else None,
            "signature_class": ffigen.sig_class(small), "failure_kind": kind, "detail": detail,
            "expected_transcript": small.expected(),
            "observed_transcript": o.lines if o else None, "observed_status": o.status if o else None,
            "observed_other_output": (o.noise[:40] if o else None),
            "replay_callee_c": ffigen.C_PRELUDE + small.c_source(),
            "replay_never_program": small.never_source(libname),
            "replay_how": "gcc -shared -fPIC -o %s callee.c; nevrun --batch <file with '@@@ id' + program> "
                          "(ASan build of the tree)" % libname})
        if k not in known and not hasattr(c, "corpus_file") and not os.path.exists(os.path.join(CORPUS, re.sub(r"[^A-Za-z0-9_.-]", "_", k) + ".json")):
            try:
                os.makedirs(CORPUS, exist_ok=True)
                with open(os.path.join(CORPUS, re.sub(r"[^A-Za-z0-9_.-]", "_", k) + ".json"), "w") as f:
                    json.dump({"key": k, "case": small.to_json()}, f, indent=1)
            except OSError:
                pass
    timing["shrink_s"] = round(time.time() - t0, 1)

    # ---- evidence -------------------------------------------------------------------------------
    n_eval = len(cases) + n_lay + img_n + unm_n + dec_n + ret_n
    ctx.count(evaluations=n_eval, nontrivial=len(distinct))
    ctx.coverage["rule"] = (
        "layout: complete enumeration (see layout_exhaustive), non-trivial = shape with padding. calls: corpus first, "
        "then generated families (scalars of every arity, position sweep, register pressure, by-value struct args/returns "
        "of every size 1..40 bytes, small structs under register pressure, nested structs, missing lib/symbol, nil "
        "string / nil record at every level, many-args: every arity 9..%d x record size class x position, decl-order: 7 signature shapes x 8 program layouts, huge-record: layouts crossing 64 KiB / 128 KiB as argument and result, and — enumerated, not sampled — every placement of a nil string field / nil "
        "nested record before, after and between non-nil nested records inside one record argument at depth <= 3); non-trivial = distinct (signature, values) whose transcript was exactly "
        "the required one (callee entered with exact values in declared positions and exact result read back, or "
        "ffi_fail raised without a call).") % ffigen.MANY_ARGS_MAX[ctx.tier]
    ctx.coverage["calls"] = {
        "cases": len(cases), "corpus_cases": len(corpus), "generated": len(gen),
        "record_types_checked_against_gcc": n_lay, "struct_images_vs_model": img_n,
        "returned_struct_images_unmarshalled_by_model": unm_n, "decision_cases_vs_model": dec_n,
        "record_value_ret_vs_model(marshal_ret_iff_nil)": {"record_arguments": ret_n, "with_nil_inside(ret=1)": ret_nil_n},
        "tree_decision_variant": "accumulate (prep_vals |=)" if acc_tree else "assign (prep_vals =), see nil_arg_is_ffi_fail_refuted",
        "arity_histogram": dict(sorted(stats["arity"].items())),
        "families": dict(stats["family"]),
        "argument_passing_class(SysV simulation)": dict(stats["arg_class"]),
        "struct_arg_eightbyte_classes": dict(stats["struct_arg_sysv"]),
        "struct_arg_sizes": dict(sorted(stats["struct_arg_size"].items())),
        "struct_ret_sizes": dict(sorted(stats["struct_ret_size"].items())),
        "leaf_kinds_in_arguments": dict(stats["leaf_kind_args"]),
        "return_kinds": dict(stats["ret_kind"]),
        "outcomes": dict(stats["outcome"]),
        "compile_errors": len(compile_errors),
    }
    ctx.coverage["timing"] = timing
    for c in cases:
        o = res.get(c.cid)
        if o is not None and judge(c, o) is None and c.family in ("struct-pressure", "struct-nested", "nil-nested-record",
                                                                    "pressure", "struct-ret"):
            if not any(s.get("family") == c.family for s in ctx.coverage["samples"]):
                ctx.sample({"family": c.family, "signature": c.sig(), "args": c.args, "retval": c.retval,
                            "transcript": o.lines[:14], "struct_images": o.images}, limit=5)
