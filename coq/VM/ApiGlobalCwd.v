(* VM/ApiGlobalCwd.v — the third piece of PROCESS-global state behind the embedding API (property C15, isolation
   half): the working directory.  Definitions only (proofs: VM/ApiGlobalCwdProofs.v).  No axioms.

   VM/ApiGlobal.v threads the IEEE status word and the scanner's pending string buffer through a history of
   operations.  The working directory is process state of the same kind: front/scanner.l `fopen_path` resolves
   every `use <module>` by walking the elements of the environment variable NEVER_PATH with chdir():

       cwd = getcwd();
       for each element e of NEVER_PATH:
           if (chdir(e) == 0) {                      -- relative elements are resolved against the current directory
               if (fopen(module)) { chdir(cwd); break; }        -- (restore_on_found)
           }
           chdir(cwd);                                          -- (restore_on_miss)

   and everything that is given by a relative name afterwards — the file of a later nev_compile_file, the relative
   elements of NEVER_PATH in a later `use`, the host application's own files — is resolved against wherever the
   process was left.  The two chdir(cwd) calls are the policy; checks/c15.py observes getcwd() after every
   operation of every history on the real code (driver harness/api/apidrive.c, line `CWD`).

   The file system is a parameter: `rel d r` = where chdir of the relative name r from directory d leads (None: it
   fails), `has d f` = is there a readable file / module f in directory d. *)
From Coq Require Import List Bool.
From NV Require Import VM.ApiGlobal.
Import ListNotations.

Definition dir := nat.
Inductive elem := Abs (d : dir) | Rel (r : nat).       (* one element of NEVER_PATH *)

Record fsys := { rel : dir -> nat -> option dir; has : dir -> nat -> bool }.

Record cwd_policy := { restore_on_found : bool; restore_on_miss : bool }.
Definition pinned_cwd := {| restore_on_found := true; restore_on_miss := true |}.
(* seeded change C15-7: the chdir(cwd) of the "found" branch removed *)
Definition no_restore_on_found := {| restore_on_found := false; restore_on_miss := true |}.

Definition cwd_restoring (pol : cwd_policy) : bool := restore_on_found pol && restore_on_miss pol.

Definition enter (F : fsys) (cur : dir) (e : elem) : option dir :=
  match e with Abs d => Some d | Rel r => rel F cur r end.

(* the loop of fopen_path: home = getcwd() on entry, cur = where the process stands now;
   result: the directory the module was found in, and where the process stands afterwards *)
Fixpoint search (pol : cwd_policy) (F : fsys) (home cur : dir) (m : nat) (path : list elem) : option dir * dir :=
  match path with
  | [] => (None, cur)
  | e :: rest =>
      match enter F cur e with
      | Some d =>
          if has F d m then (Some d, if restore_on_found pol then home else d)
          else search pol F home (if restore_on_miss pol then home else d) m rest
      | None => search pol F home (if restore_on_miss pol then home else cur) m rest
      end
  end.

(* fopen_path: NEVER_PATH unset or empty -> the module is opened in the working directory *)
Definition resolve (pol : cwd_policy) (F : fsys) (cur : dir) (npath : option (list elem)) (m : nat) : option dir * dir :=
  match npath with
  | None => (if has F cur m then Some cur else None, cur)
  | Some p => search pol F cur cur m p
  end.

Fixpoint resolve_all (pol : cwd_policy) (F : fsys) (cur : dir) (npath : option (list elem)) (ms : list nat)
  : list (option dir) * dir :=
  match ms with
  | [] => ([], cur)
  | m :: ms' =>
      let '(r, c1) := resolve pol F cur npath m in
      let '(rs, c2) := resolve_all pol F c1 npath ms' in (r :: rs, c2)
  end.

(* the part of one compile that looks at the file system: nev_compile_file of a RELATIVE name (Some f; None for
   nev_compile_str and absolute names), the value of NEVER_PATH at that moment, the modules it uses in order *)
Inductive cop := CCompile (file : option nat) (npath : option (list elem)) (uses : list nat).
(* what the compile shows of it: did the file open; where was each module found *)
Inductive cobs := CObs (opened : bool) (found : list (option dir)).

Definition cstep (pol : cwd_policy) (F : fsys) (cur : dir) (o : cop) : cobs * dir :=
  match o with
  | CCompile file npath ms =>
      if match file with None => true | Some f => has F cur f end
      then let '(rs, c) := resolve_all pol F cur npath ms in (CObs true rs, c)
      else (CObs false [], cur)
  end.

Fixpoint crun (pol : cwd_policy) (F : fsys) (cur : dir) (os : list cop) : list cobs * dir :=
  match os with
  | [] => ([], cur)
  | o :: os' =>
      let '(ob, c1) := cstep pol F cur o in
      let '(obs, c2) := crun pol F c1 os' in (ob :: obs, c2)
  end.

(* ---- the process with all three components ---------------------------------------------------- *)
Record process3 := mkproc3 { glob : process; pcwd : dir }.

(* an operation of the API: its aspect on (status word, scanner buffer) and, for compiles, its file-system aspect *)
Inductive gop3 := Op3 (g : gop) (c : option cop).

Definition gstep3 (fp : fp_policy) (sp : scan_policy) (cp : cwd_policy) (F : fsys) (p : process3) (o : gop3)
  : (gobs * option cobs) * process3 :=
  match o with
  | Op3 g c =>
      let '(ob, q) := gstep fp sp (glob p) g in
      match c with
      | None => ((ob, None), mkproc3 q (pcwd p))
      | Some c' => let '(cb, d) := cstep cp F (pcwd p) c' in ((ob, Some cb), mkproc3 q d)
      end
  end.

Fixpoint grun3 (fp : fp_policy) (sp : scan_policy) (cp : cwd_policy) (F : fsys) (p : process3) (os : list gop3)
  : list (gobs * option cobs) * process3 :=
  match os with
  | [] => ([], p)
  | o :: os' =>
      let '(ob, p1) := gstep3 fp sp cp F p o in
      let '(obs, p2) := grun3 fp sp cp F p1 os' in (ob :: obs, p2)
  end.

(* a small file system for the necessity witnesses: directory 0 (where the process starts) holds file 9 and the
   sub-directory "0" = directory 1, which holds module 7 and nothing else *)
Definition witness_fs : fsys :=
  {| rel := fun d r => match d, r with 0, 0 => Some 1 | _, _ => None end;
     has := fun d f => match d, f with 1, 7 => true | 0, 9 => true | _, _ => false end |}.
