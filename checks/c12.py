"""C12 — indexing is bounds-checked and exact.

Proof side: coq/Properties/Properties_C12.v (ctx.proofs()): models Index/ArrIndex.v, SliceRange.v,
StrIndex.v, Shapes.v mirror back/object.c (object_arr_dim_mult/fits/addr, object_arr_can_add/mult) and
back/vmexec.c (vm_get_slice_range, MK_ARRAY and the *_deref / slice_* / op_*_arr handlers).

Tie (DESIGN.md §4.2, §5 C12):
 (1) direct calls — harness/index/indexdrive.c calls the tree's real object_arr_dim_mult,
     object_arr_dim_fits, object_arr_dim_addr, vm_get_slice_range, object_arr_can_add/mult (ASan/UBSan build) on a
     case file; build/ocaml/index/run (extracted model) prints the same lines; every difference
     is a broken correspondence.  Exhaustive part: all shapes with <= 3 dimensions and extents
     0..4 with every index tuple in [-1, extent] (-1 passed as the unsigned 0xFFFFFFFF), every
     range quadruple in [-1,5]^4, every pair of shapes (<= 3 dims, extents 1..3, + nil) for
     can_add/can_mult.  Boundary part (every seed): ranges next to INT_MAX / INT_MIN, ascending and
     descending, with indices and inner bounds of every magnitude (BOUND_RANGES, bound_indices):
     range_from +- index leaves the int range there; since fix acecad0 the sums are formed in 64 bits.
     Random part: 32-bit corner values (0, 1, 2^16+-1, 2^31+-1, 2^32-1, INT_MIN, INT_MAX, products
     that overflow 2^32), seeded ranges next to the limits.
 (2) handler level — generated Never probe programs run by harness/common/nevrun.c (ASan/UBSan):
     array deref with every index tuple in [-1, extent] (+ INT_MIN/INT_MAX), range deref, slice
     deref, slice of slice, range of range (each also on ranges next to +-2^31: kind `int-overflow`
     when range_from +- index does not fit an int; and on 2-D / 3-D arrays and ranges with ASYMMETRIC
     ranges per dimension: two and three levels, every direction combination per level and dimension,
     distinct bounds in every slot of a range vector, reads at every corner and just outside every face,
     whole-slice read-back -- programs nd_*; every bound NAME of 1-D, 2-D and 3-D slice and range
     parameters, ID_DIM_SLICE / VECREF_VEC_DEREF, used directly and from a closure -- program dim_names),
     write-through-slice/read-through-array, for-in over
     ranges and slices, string index, string slice, element-wise add/sub and matrix product with
     conforming and non-conforming shapes, MK_ARRAY and the matrix product with extents whose product
     does not fit unsigned int (kind `extent-product-overflow`, finding fixed by 1f9996a: wrong_array_size
     is demanded by the model, any orderly outcome by the property).  The outcome of every call (value | which exception |
     sanitizer report) is compared with the model's prediction (H-lines of the model runner).
 (3) checks/parts/exctab.py: exception-table search (for C03 (a)), same driver.

Property oracle (python, independent of the Coq model): arrays are literals holding 1000+p at
flat position p, so an in-range tuple must read 1000 + sum_k i_k*prod_{j>k} n_j computed here;
anything else must be the index_out_of_bounds clause and no sanitizer report; ranges denote
a, a+-1, .., b; [a..b][c..d] must lie inside [a..b] or raise; slices alias; s[i] exists iff
0 <= i < len, for strings of length 0 (literal, concatenation result), 1 and more; shapes must conform or
wrong_array_size is raised.
   real code != oracle -> ctx.violation(key = "<class>:<kind of input>")
   real code != model  -> ctx.correspondence_broken
"""
LEVEL = "proof"

import itertools
import json
import multiprocessing
import os
import random
import re
import time

from lib import common
from checks.parts import exctab

RUN = os.path.join(common.BUILD, "ocaml", "index", "run")
CORPUS = os.path.join(common.VERIF, "corpus", "C12")
NPROC = 16
ASAN_ENV = "detect_leaks=0:abort_on_error=0:exitcode=99:allocator_may_return_null=1"
U32 = 1 << 32
INT_MAX = 2147483647
INT_MIN = -2147483648

E_OOB, E_SIZE, E_NIL, E_OTHER = "-1000001", "-1000002", "-1000003", "-1000004"
CATCH = ("catch (index_out_of_bounds) { %s }\ncatch (wrong_array_size) { %s }\n"
         "catch (nil_pointer) { %s }\ncatch { %s }\n" % (E_OOB, E_SIZE, E_NIL, E_OTHER))
EXC_NAME = {E_OOB: "index_out_of_bounds", E_SIZE: "wrong_array_size", E_NIL: "nil_pointer",
            E_OTHER: "other exception"}
ERR_RE = re.compile(r"^<stdin>:\d+: error: (.*)$")
DIM_RE = re.compile(r"(array|range|slice) index (-?\d+) out of bounds")


def drv_env():
    env = dict(os.environ)
    env["ASAN_OPTIONS"] = ASAN_ENV
    env["UBSAN_OPTIONS"] = "print_stacktrace=0:halt_on_error=1"
    return env


# ==========================================================================================
# python's own notion of the property (knows nothing about the Coq model)
# ==========================================================================================
def prod(l):
    p = 1
    for x in l:
        p *= x
    return p


def row_major(exts, idx):
    k = 0
    for n, i in zip(exts, idx):
        k = k * n + i
    return k


def in_range(exts, idx):
    return len(exts) == len(idx) and all(0 <= i < n for n, i in zip(exts, idx))


def rlen(a, b):
    return abs(b - a) + 1


def rnth(a, b, k):
    return a + k if a < b else a - k


def rpositions(a, b):
    return [rnth(a, b, k) for k in range(rlen(a, b))]


def wraps(a, b, x):
    """does range_from +- x, as vm_get_slice_range forms it for [a..b], leave the int range?  (before fix
    acecad0 the sum was an int and wrapped: finding range_deref:int-overflow)"""
    v = a + x if a < b else a - x
    return x >= 0 and not INT_MIN <= v <= INT_MAX


# ranges next to the limits of int; the first two are the witnesses of the former finding
BOUND_RANGES = [
    (2147483640, 2147483647), (-2147483640, -2147483647),
    (INT_MAX - 1, INT_MAX), (0, INT_MAX), (-5, INT_MAX), (INT_MIN, INT_MAX), (INT_MIN, INT_MIN + 3),     # ascending
    (INT_MIN + 7, INT_MIN), (INT_MIN + 5, INT_MIN), (INT_MIN, INT_MIN), (INT_MAX, INT_MAX),               # descending
    (INT_MAX, INT_MAX - 3), (0, INT_MIN), (-1, INT_MIN), (INT_MAX, INT_MIN)]
BOUND_INNER = [(3, 20), (20, 3), (0, 7), (7, 0), (7, 7), (0, INT_MAX), (INT_MAX, 0), (INT_MAX, INT_MAX),
               (INT_MAX - 1, INT_MAX), (5, 1 << 30), (-1, 3), (3, INT_MIN)]


def is_int(v):
    return INT_MIN <= v <= INT_MAX


def bound_indices(a, b):
    """indices of every magnitude for [a..b]: around 0, around the length, far beyond, the int limits"""
    ln = rlen(a, b)
    out = []
    for v in (-1, 0, 1, ln - 2, ln - 1, ln, ln + 1, 20, 65536, 1 << 30, INT_MAX - 1, INT_MAX, INT_MIN):
        if is_int(v) and v not in out:
            out.append(v)
    return out


def seeded_bound_ranges(rng, n):
    """n seeded (range, index) pairs next to +-2^31, both directions"""
    out = []
    for _ in range(n):
        ln = rng.randrange(0, 40)
        if rng.random() < 0.5:
            hi = INT_MAX - rng.randrange(0, 40)
            a, b = hi - ln, hi
        else:
            lo = INT_MIN + rng.randrange(0, 40)
            a, b = lo, lo + ln
        if rng.random() < 0.5:
            a, b = b, a
        i = rng.choice([rng.randrange(0, ln + 1), ln + 1, ln + 1 + rng.randrange(0, 100), INT_MAX - rng.randrange(0, 100),
                        rng.randrange(0, INT_MAX + 1), (1 << 31) - ln - 1 + rng.randrange(0, 3)])
        out.append((a, b, min(max(i, 0), INT_MAX)))
    return out



# ---- n-dimensional compositions (range vectors [from0, to0, from1, to1, ..]) ----------------------------
def nd_levels(rng, exts, nlev, dirs):
    """nlev levels of ranges over an array of the given extents; dirs[k][d] = level k, dimension d runs
    upwards.  Every level has pairwise distinct bounds in all 2*dims slots of its vector (so that reading any
    other slot than the right one changes the result) and at least 2 positions per dimension."""
    for attempt in range(4000):
        levels, lens = [], list(exts)
        for k in range(nlev):
            lv = []
            for d, ln in enumerate(lens):
                lo = rng.randrange(0, max(1, ln // 2))
                hi = rng.randrange(max(lo + 1, ln // 2), ln)
                lv.append((lo, hi) if dirs[k][d] else (hi, lo))
            flat = [x for pr in lv for x in pr]
            if len(set(flat)) != len(flat) and attempt < 3500:
                break
            levels.append(lv)
            lens = [rlen(a, b) for a, b in lv]
            if min(lens) < 2:
                break
        if len(levels) == nlev and min(lens) >= 2:
            return levels
    raise RuntimeError("nd_levels: no case for %r %r" % (exts, dirs))


def nd_denote(levels, idx):
    """the position the index tuple denotes through the levels (outermost first), per dimension;
    None: some level's bounds are not indices of the level below, or the index is outside the last level"""
    dims = len(idx)
    for k in range(1, len(levels)):
        for d in range(dims):
            ln = rlen(*levels[k - 1][d])
            if not (0 <= levels[k][d][0] < ln and 0 <= levels[k][d][1] < ln):
                return None
    pos = []
    for d in range(dims):
        x = idx[d]
        if not 0 <= x < rlen(*levels[-1][d]):
            return None
        for lv in reversed(levels):
            x = rnth(lv[d][0], lv[d][1], x)
        pos.append(x)
    return pos


def nd_composes(levels):
    return nd_denote(levels, [0] * len(levels[0])) is not None


def nd_indices(rng, lens):
    """every corner, just outside every face (the other coordinates inside), one interior point"""
    out = [list(t) for t in itertools.product(*[(0, n - 1) for n in lens])]
    for d, n in enumerate(lens):
        for v in (-1, n):
            t = [rng.randrange(0, m) for m in lens]
            t[d] = v
            out.append(t)
    out.append([rng.randrange(0, m) for m in lens])
    return out


def flat_levels(levels):
    return [x for lv in levels for pr in lv for x in pr]

def nev_int(v):
    return str(v) if v >= 0 else "(0 - %d)" % (-v) if v > INT_MIN else "(0 - 2147483647 - 1)"


def literal(exts, base=1000, step=1):
    """nested array literal holding base+step*p at flat position p"""
    def go(d, off):
        if d == len(exts):
            return str(base + step * off)
        sub = prod(exts[d + 1:])
        return "[" + ",".join(go(d + 1, off + i * sub) for i in range(exts[d])) + "]"
    return go(0, 0) + " : int"


# ==========================================================================================
# (1) direct calls
# ==========================================================================================
CORNERS_U = [0, 1, 2, 3, 4, 5, 7, 255, 65535, 65536, 65537, 46341, 2147483647, 2147483648, 2147483649,
             4294967294, 4294967295, 1431655766, 3]
CORNERS_S = [INT_MIN, INT_MIN + 1, -65536, -2, -1, 0, 1, 2, 3, 5, 65535, INT_MAX - 1, INT_MAX]


def gen_direct(ctx):
    """-> (lines, n_exhaustive)"""
    lines = []
    # exhaustive: dims <= 3, extents 0..4, idx in [-1, extent]
    for dims in (1, 2, 3):
        for exts in itertools.product(range(0, 5), repeat=dims):
            lines.append("M " + " ".join(map(str, exts)))
            lines.append("F " + " ".join(map(str, exts)))
            lines.append("C " + " ".join(map(str, exts)))
            for idx in itertools.product(*[range(-1, n + 1) for n in exts]):
                lines.append("A %s | %s" % (" ".join(map(str, exts)),
                                            " ".join(str(i % U32) for i in idx)))
    for q in itertools.product(range(-1, 6), repeat=4):
        lines.append("R %d %d %d %d" % q)
    shapes = [()] + [s for d in (1, 2, 3) for s in itertools.product((1, 2, 3), repeat=d)]
    names = ["nil"] + [" ".join(map(str, s)) for s in shapes if s]
    for s1 in names:
        for s2 in names:
            lines.append("CA %s | %s" % (s1, s2))
            lines.append("CM %s | %s" % (s1, s2))
    nex = len(lines)
    # ranges next to +-2^31 (every seed): single indices (RANGE_DEREF / SLICE_DEREF call shape) and two bounds
    for (a, b) in BOUND_RANGES:
        for i in bound_indices(a, b):
            lines.append("R %d %d %d %d" % (a, b, i, i))
        for (c, d) in BOUND_INNER:
            lines.append("R %d %d %d %d" % (a, b, c, d))
    # random 32-bit corners
    rng = random.Random((ctx.seed << 4) ^ 0xC12)
    n = 20000 if ctx.tier == "quick" else 300000
    for (a, b, i) in seeded_bound_ranges(rng, n // 20):
        j = i if rng.random() < 0.6 else rng.choice([0, 1, rlen(a, b) - 1, min(i + 1, INT_MAX), INT_MAX])
        lines.append("R %d %d %d %d" % (a, b, i, j))

    def ru():
        r = rng.random()
        if r < 0.55:
            return rng.choice(CORNERS_U)
        if r < 0.8:
            return rng.randrange(0, 12)
        return rng.randrange(0, U32)

    def rs():
        r = rng.random()
        if r < 0.5:
            return rng.choice(CORNERS_S)
        if r < 0.8:
            return rng.randrange(-8, 9)
        return rng.randrange(INT_MIN, INT_MAX + 1)

    overflow = [(65536, 65536), (65536, 65537), (65537, 65537), (3, 1431655766), (2, 2147483648),
                (4294967295, 4294967295), (2, 3, 715827883), (1 << 16, 1 << 8, 1 << 8), (1 << 11, 1 << 11, 1 << 11),
                (46341, 46341, 2)]
    overflow += [(65535, 65537), (65536, 65535), (65535, 65535), (4294967295,), (4294967295, 1, 1), (2147483647, 3),
                 (2147483647, 2147483647, 2147483647), (65536, 65536, 0), (0, 65536, 65536), (46341, 92682)]
    for exts in overflow:
        lines.append("M " + " ".join(map(str, exts)))
        lines.append("F " + " ".join(map(str, exts)))
        for _ in range(6):
            idx = [rng.choice([0, 1, max(n - 1, 0), n, rng.randrange(0, max(n, 1))]) for n in exts]
            lines.append("A %s | %s" % (" ".join(map(str, exts)), " ".join(map(str, idx))))
    # shape copies (object_arr_dim_copy / object_arr_copy): up to 5 dimensions
    for _ in range(n // 10):
        d = rng.randint(1, 5)
        k = rng.random()
        if k < 0.4:
            lines.append("C " + " ".join(str(rng.choice([1, 2, 3, 4, 5, 7, ru() or 1])) for _ in range(d)))
        elif k < 0.7:
            lines.append("CD " + " ".join("%d %d" % (ru(), ru()) for _ in range(d)))
        else:
            exts = [rng.randint(1, 6) for _ in range(d)]
            lines.append("CO " + " ".join(map(str, exts)))
    for _ in range(n):
        k = rng.random()
        if k < 0.15:
            d = rng.randint(0, 6)
            lines.append(("%s " % rng.choice("MF") + " ".join(str(ru()) for _ in range(d))).strip())
        elif k < 0.2:
            # products next to 2^32 from both sides
            n1 = rng.choice([rng.randrange(1, 1 << 17), rng.randrange(1, 1 << 31), 65536, 3, 2])
            n2 = (U32 + n1 - 1) // n1 + rng.choice([-2, -1, 0, 0, 1])
            lines.append("F %d %d" % ((n1, max(n2, 1)) if rng.random() < 0.5 else (max(n2, 1), n1)))
        elif k < 0.45:
            d = rng.randint(1, 6)
            exts = [ru() for _ in range(d)]
            idx = [rng.choice([0, 1, max(0, e - 1), e, (e + 1) % U32, ru()]) for e in exts]
            lines.append("A %s | %s" % (" ".join(map(str, exts)), " ".join(map(str, idx))))
        elif k < 0.6:
            d = rng.randint(1, 6)
            dv = [(ru(), ru()) for _ in range(d)]
            idx = [rng.choice([0, 1, max(0, e - 1), e, ru()]) for e, _ in dv]
            lines.append("D %s | %s" % (" ".join("%d %d" % p for p in dv), " ".join(map(str, idx))))
        elif k < 0.9:
            lines.append("R %d %d %d %d" % (rs(), rs(), rs(), rs()))
        else:
            def sh():
                if rng.random() < 0.08:
                    return "nil"
                return " ".join(str(rng.choice([1, 2, 3, 65536, 4294967295, ru() or 1]))
                                for _ in range(rng.randint(1, 4)))
            a, b = sh(), sh()
            if rng.random() < 0.3:
                b = a
            lines.append("%s %s | %s" % (rng.choice(["CA", "CM"]), a, b))
    return lines, nex


def direct_oracle(line, out):
    """property oracle on one direct-call result of the REAL code -> None | (key, what, expected)"""
    t = line.split()
    o = out.split()
    cmd = t[0]
    try:
        if cmd in ("M", "A"):
            bar = t.index("|") if "|" in t else len(t)
            exts = [int(x) for x in t[1:bar]]
            exact = all(n > 0 for n in exts) and prod(exts) < U32
            if cmd == "M":
                if not exact:
                    return None           # wrap-around is covered at VM level (array_deref:extent-product-overflow)
                want = [prod(exts)] + [prod(exts[k + 1:]) for k in range(len(exts))]
                if [int(x) for x in o[1:]] != want:
                    return ("dim_mult:wrong-multiplier", "object_arr_dim_mult(%s) gives elems/multipliers %s, "
                            "row-major needs %s" % (exts, o[1:], want), want)
                return None
            idx = [int(x) for x in t[bar + 1:]]
            addr, oob = int(o[1]), int(o[2])
            bad = [k for k, (n, i) in enumerate(zip(exts, idx)) if i >= n]
            if bad:
                if oob != bad[0] or addr != 0:
                    return ("dim_addr:index-ge-extent", "object_arr_dim_addr(extents %s, index %s) -> addr %d oob %d; "
                            "dimension %d is out of range" % (exts, idx, addr, oob, bad[0]), "0 %d" % bad[0])
                return None
            if not exact:
                return None
            want = row_major(exts, idx)
            if oob != -1 or addr != want:
                return ("dim_addr:in-range", "object_arr_dim_addr(extents %s, index %s) -> addr %d oob %d; "
                        "row-major element is %d" % (exts, idx, addr, oob, want), "%d -1" % want)
            return None
        if cmd == "F":
            exts = [int(x) for x in t[1:]]
            if o[1] == "?" or not all(n > 0 for n in exts):
                return None               # no such function in the tree: the broken correspondence says so
            want = 1 if prod(exts) < U32 else 0
            if int(o[1]) != want:
                return ("dim_fits:wrong-answer", "object_arr_dim_fits(%s) = %s, the product %d %s unsigned int" % (
                    exts, o[1], prod(exts), "fits" if want else "does not fit"), str(want))
            return None
        if cmd in ("C", "CD", "CO"):
            nums = [int(x) for x in t[1:]]
            got = [int(x) for x in o[1:]]
            if cmd == "CD":
                if got != nums:
                    return ("dim_copy:not-a-copy", "object_arr_dim_copy of (extent, multiplier) pairs %s gives %s" % (
                        nums, got), " ".join(map(str, nums)))
                return None
            if not (all(n > 0 for n in nums) and prod(nums) < U32):
                return None
            want = []
            for k, n in enumerate(nums):
                want += [n, prod(nums[k + 1:])]
            if cmd == "CO":
                want = [len(nums), prod(nums)] + want
            if got != want:
                return ("dim_copy:wrong-multiplier", "%s of shape %s gives %s, a row-major array of that shape has %s" % (
                    "object_arr_copy" if cmd == "CO" else "object_arr_dim_copy", nums, got, want),
                    " ".join(map(str, want)))
            return None
        if cmd == "R":
            a, b, c, d = [int(x) for x in t[1:5]]
            if c < 0 or d < 0:
                if int(o[3]) != 1:
                    return ("slice_range:negative-inner-bound", "vm_get_slice_range([%d..%d][%d..%d]) does not report "
                            "oob for a negative inner bound (res %s..%s)" % (a, b, c, d, o[1], o[2]), "oob")
                return None
            rf, rt, oob = int(o[1]), int(o[2]), int(o[3])
            ln = rlen(a, b)
            if c >= ln or d >= ln:
                if oob != 1:
                    # range_from +- bound does not fit an int: the finding fixed by acecad0 (recorded at VM
                    # level under range_deref:int-overflow, see the bound_* probe programs)
                    key = "slice_range:bound-outside-outer-range"
                    if wraps(a, b, c) or wraps(a, b, d):
                        key = "slice_range:int-overflow"
                    return (key, "vm_get_slice_range([%d..%d][%d..%d]) does not "
                            "report oob (res %d..%d); the outer range has %d positions" % (a, b, c, d, rf, rt, ln), "oob")
                return None
            want = (rnth(a, b, c), rnth(a, b, d))
            if oob != 0 or (rf, rt) != want:
                return ("slice_range:wrong-positions", "vm_get_slice_range([%d..%d][%d..%d]) -> %d..%d oob %d; "
                        "denoted positions are %d..%d" % (a, b, c, d, rf, rt, oob, want[0], want[1]),
                        "%d %d 0" % want)
            return None
        if cmd in ("CA", "CM"):
            bar = t.index("|")
            s1, s2 = t[1:bar], t[bar + 1:]
            if s1 == ["nil"] or s2 == ["nil"]:
                want = 0
            elif cmd == "CA":
                want = 1 if s1 == s2 else 0
            else:
                want = 1 if (len(s1) == 2 and len(s2) == 2 and s1[1] == s2[0]) else 0
            if int(o[1]) != want:
                fn = "object_arr_can_add" if cmd == "CA" else "object_arr_can_mult"
                return ("shape:%s" % ("can_add" if cmd == "CA" else "can_mult"),
                        "%s(shape [%s], shape [%s]) = %s, conformance says %d" % (
                            fn, " ".join(s1), " ".join(s2), o[1], want), str(want))
            return None
    except (ValueError, IndexError):
        return ("harness:direct-output", "unparsable driver output %r for %r" % (out[:100], line[:100]), None)
    return None


def run_direct(ctx, drv):
    lines, nex = gen_direct(ctx)
    path = os.path.join(ctx.outdir, "direct_cases.txt")
    with open(path, "w") as f:
        f.write("\n".join(lines) + "\n")
    rc_c, out_c, err_c = common.sh([drv, path], timeout=900, env=drv_env())
    rc_m, out_m, err_m = common.sh([RUN, path], timeout=900)
    if rc_m != 0:
        ctx.correspondence_broken("direct-calls", {"error": "model runner failed", "stderr": err_m[-800:]})
        return
    lc, lm = out_c.split("\n"), out_m.split("\n")
    if rc_c != 0 or err_c.strip():
        k = max(0, min(len(lc) - 1, len(lines) - 1))
        ctx.violation("direct:sanitizer-or-crash", "a directly called indexing function crashed or tripped a "
                      "sanitizer (rc=%d)" % rc_c, {"case": lines[k], "stderr": err_c[-1500:]})
    first = None
    nontriv = set()
    for k, ln in enumerate(lines):
        c = lc[k] if k < len(lc) else "<missing>"
        m = lm[k] if k < len(lm) else "<missing>"
        if c != m and first is None:
            first = {"line": k, "case": ln, "code": c, "model": m, "exhaustive_part": k < nex}
        if c == "<missing>":
            continue
        v = direct_oracle(ln, c)
        if v is not None:
            ctx.violation(v[0], v[1], {"case": ln, "expected": v[2], "observed": c,
                                       "replay": "echo '%s' > f; indexdrive f" % ln})
        if ln[0] in "ARCF":
            nontriv.add(ln)
    if first is not None:
        ctx.correspondence_broken("direct-calls(dim_mult/dim_addr/get_slice_range/can_add/can_mult)", first)
    ctx.count(evaluations=len(lines), nontrivial=len(nontriv))
    ctx.coverage["exhaustive"] = True
    ctx.coverage.setdefault("parts", {})["direct"] = {
        "cases": len(lines), "exhaustive_cases": nex,
        "exhaustive_domain": "dims<=3, extents 0..4, index tuples in [-1,extent]^dims; range quadruples [-1,5]^4; "
                             "shape pairs (<=3 dims, extents 1..3, nil) for can_add/can_mult",
        "boundary_cases": sum(len(bound_indices(a, b)) + len(BOUND_INNER) for a, b in BOUND_RANGES),
        "boundary_domain": "15 ranges next to INT_MAX / INT_MIN (ascending, descending, single position, the two full "
                           "ranges) x indices around 0, around the length, 2^16, 2^30, INT_MAX-1, INT_MAX, INT_MIN and "
                           "12 inner ranges of every magnitude",
        "random_cases": len(lines) - nex}
    ctx.sample({"direct": lines[nex // 3], "code": lc[nex // 3] if nex // 3 < len(lc) else None})


# ==========================================================================================
# (2) probe programs
# ==========================================================================================
class Call(object):
    """one call of a probe function: the text printed between two '#' markers"""
    __slots__ = ("cls", "kind", "descr", "expr", "expect", "model_cmd", "model_map", "also_ok")

    def __init__(self, cls, kind, descr, expr, expect, model_cmd=None, model_map=None, also_ok=()):
        self.cls, self.kind, self.descr, self.expr = cls, kind, descr, expr
        self.expect = expect            # list of output lines demanded by the property
        self.also_ok = list(also_ok)    # other outcomes the property allows as well
        self.model_cmd = model_cmd      # H-line for the model runner (None: not modelled)
        self.model_map = model_map      # model answer -> list of lines | ("foreign",) | None


class Program(object):
    def __init__(self, pid, decls, mem=None, stack=None):
        self.pid, self.decls, self.calls, self.mem, self.stack = pid, decls, [], mem, stack

    def add(self, call):
        self.calls.append(call)

    def source(self, only=None):
        calls = self.calls if only is None else [only]
        body = "".join("    %s;\n    prints(\"#\\n\");\n" % c.expr for c in calls)
        return "%s\nfunc main() -> int\n{\n%s    0\n}\n" % (self.decls, body)


def elem_map(base=1000):
    def f(ans):
        a = ans.split()
        if a[0] == "ok":
            return [str(base + int(a[1]))]
        return {"oob": [E_OOB], "nil": [E_NIL], "size": [E_SIZE]}.get(a[0])
    return f


def args(vals):
    return ", ".join(nev_int(v) for v in vals)


def idx_domain(n, extra=True):
    d = list(range(-1, n + 1))
    return d


def kind_of_index(lens, idx):
    if all(0 <= i < n for n, i in zip(lens, idx)):
        return "in-range"
    if any(i < 0 for i in idx):
        return "negative-index"
    return "index-ge-extent"


def gen_programs(ctx):
    rng = random.Random((ctx.seed << 6) ^ 0x5C12)
    thorough = ctx.tier != "quick"
    progs = []

    # ---- arrays -----------------------------------------------------------------------------
    shapes = [(5,), (1,), (2, 3), (3, 1), (2, 3, 4), (1, 2, 1)]
    if thorough:
        shapes += [(4, 4), (3, 2, 2), (2, 2, 2, 2), (4, 1, 3)]
    for exts in shapes:
        names = ["i%d" % k for k in range(len(exts))]
        p = Program("arr_" + "x".join(map(str, exts)),
                    "func probe(%s) -> int\n{\n    let a = %s;\n    a[%s]\n}\n%s" % (
                        ", ".join(n + " : int" for n in names), literal(exts), ", ".join(names), CATCH))
        tuples = list(itertools.product(*[range(-1, n + 1) for n in exts]))
        for d in range(len(exts)):
            for big in (INT_MAX, INT_MIN, exts[d] + 1000):
                t = [rng.randrange(0, n) for n in exts]
                t[d] = big
                tuples.append(tuple(t))
        for idx in tuples:
            exp = [str(1000 + row_major(exts, idx))] if in_range(exts, idx) else [E_OOB]
            p.add(Call("array_deref", kind_of_index(exts, idx), "a%s%s" % (list(exts), list(idx)),
                       "print(probe(%s))" % args(idx), exp,
                       "HA %s | %s" % (" ".join(map(str, exts)), " ".join(map(str, idx))), elem_map()))
        progs.append(p)

    # nil array reference
    p = Program("arr_nil", "func probe(i : int) -> int\n{\n    var aa = {[ 2 ]} : [_] : int;\n    aa[0][i]\n}\n" + CATCH)
    for i in (0, 1, -1):
        p.add(Call("array_deref", "nil-array", "nil[%d]" % i, "print(probe(%s))" % nev_int(i),
                   [E_OOB] if i < 0 else [E_NIL], "HA nil | %d" % i, elem_map(),
                   also_ok=[[E_NIL]] if i < 0 else ()))      # nil and a negative index: either fault is in order
    progs.append(p)

    # ---- ranges -----------------------------------------------------------------------------
    ranges1 = [(1, 5), (5, 1), (3, 3), (-2, 2), (2, -2), (0, 0), (-1, 10), (7, 4)]
    p = Program("range1", "func probe(a : int, b : int, i : int) -> int\n{\n    [a .. b][i][0]\n}\n" + CATCH)
    for (a, b) in ranges1:
        for i in range(-1, rlen(a, b) + 1):
            ok = 0 <= i < rlen(a, b)
            p.add(Call("range_deref", kind_of_index([rlen(a, b)], [i]), "[%d..%d][%d]" % (a, b, i),
                       "print(probe(%s))" % args([a, b, i]), [str(rnth(a, b, i))] if ok else [E_OOB],
                       "HR %d %d | %d" % (a, b, i),
                       lambda ans: [ans.split()[1]] if ans.startswith("ok") else [E_OOB]))
    progs.append(p)
    p = Program("range2", "func probe(a : int, b : int, c : int, d : int, i : int, j : int) -> int\n{\n"
                "    let v = [a .. b, c .. d][i, j];\n    v[0] * 1000 + v[1]\n}\n" + CATCH)
    for (a, b), (c, d) in [((1, 4), (9, 7)), ((3, 0), (2, 2)), ((0, 2), (0, 3))]:
        for i in range(-1, rlen(a, b) + 1):
            for j in range(-1, rlen(c, d) + 1):
                ok = 0 <= i < rlen(a, b) and 0 <= j < rlen(c, d)
                p.add(Call("range_deref", kind_of_index([rlen(a, b), rlen(c, d)], [i, j]),
                           "[%d..%d, %d..%d][%d, %d]" % (a, b, c, d, i, j),
                           "print(probe(%s))" % args([a, b, c, d, i, j]),
                           [str(rnth(a, b, i) * 1000 + rnth(c, d, j))] if ok else [E_OOB],
                           "HR %d %d %d %d | %d %d" % (a, b, c, d, i, j),
                           lambda ans: [str(int(ans.split()[1]) * 1000 + int(ans.split()[2]))]
                           if ans.startswith("ok") else [E_OOB]))
    progs.append(p)

    # ---- slices of a 1-d array -----------------------------------------------------------------
    N = 8
    sl_ranges = [(0, 7), (7, 0), (2, 5), (5, 2), (3, 3), (0, 0), (7, 7), (-1, 3), (3, -1), (5, 9), (9, 5),
                 (-1, 10), (8, 8)]
    p = Program("slice1", "func probe(a0 : int, b0 : int, i : int) -> int\n{\n    let a = %s;\n"
                "    let s = a[a0 .. b0];\n    s[i]\n}\n%s" % (literal((N,)), CATCH))
    for (a, b) in sl_ranges:
        for i in range(-1, rlen(a, b) + 1):
            ok = 0 <= i < rlen(a, b) and 0 <= rnth(a, b, i) < N
            kind = kind_of_index([rlen(a, b)], [i])
            if kind == "in-range" and not ok:
                kind = "position-outside-array"
            p.add(Call("slice_deref", kind, "a[8][%d..%d][%d]" % (a, b, i), "print(probe(%s))" % args([a, b, i]),
                       [str(1000 + rnth(a, b, i))] if ok else [E_OOB],
                       "HS %d | %d %d | %d" % (N, a, b, i), elem_map()))
    progs.append(p)

    # ---- slices of a 2-d array -----------------------------------------------------------------
    S2 = (3, 4)
    p = Program("slice2", "func probe(a0 : int, b0 : int, c0 : int, d0 : int, i : int, j : int) -> int\n{\n"
                "    let a = %s;\n    let s = a[a0 .. b0, c0 .. d0];\n    s[i, j]\n}\n%s" % (literal(S2), CATCH))
    for (a, b), (c, d) in [((0, 2), (0, 3)), ((2, 0), (3, 1)), ((1, 1), (1, 3)), ((2, 1), (1, 4)), ((-1, 1), (3, 0))]:
        for i in range(-1, rlen(a, b) + 1):
            for j in range(-1, rlen(c, d) + 1):
                inr = 0 <= i < rlen(a, b) and 0 <= j < rlen(c, d)
                pos = (rnth(a, b, i), rnth(c, d, j))
                ok = inr and in_range(S2, pos)
                kind = kind_of_index([rlen(a, b), rlen(c, d)], [i, j])
                if kind == "in-range" and not ok:
                    kind = "position-outside-array"
                p.add(Call("slice_deref", kind, "a[3,4][%d..%d, %d..%d][%d, %d]" % (a, b, c, d, i, j),
                           "print(probe(%s))" % args([a, b, c, d, i, j]),
                           [str(1000 + row_major(S2, pos))] if ok else [E_OOB],
                           "HS 3 4 | %d %d %d %d | %d %d" % (a, b, c, d, i, j), elem_map()))
    progs.append(p)

    # ---- slice of slice, range of range (two-level composition, all four directions) -----------
    outer = [(2, 6), (6, 2), (0, 7), (7, 0), (4, 4), (-1, 10)]
    inner = [(0, 2), (2, 0), (1, 4), (4, 1), (0, 0), (3, 3), (0, 4), (4, 0), (1, 5), (5, 1), (-1, 2), (2, -1),
             (-2, -1), (-1, -1), (0, 11), (11, 0)]
    pss = Program("slice_slice", "func probe(a0 : int, b0 : int, c0 : int, d0 : int, k : int) -> int\n{\n"
                  "    let a = %s;\n    let s = a[a0 .. b0][c0 .. d0];\n    s[k]\n}\n%s" % (literal((N,)), CATCH))
    prr = Program("range_range", "func probe(a0 : int, b0 : int, c0 : int, d0 : int, k : int) -> int\n{\n"
                  "    [a0 .. b0][c0 .. d0][k][0]\n}\n" + CATCH)
    for (a, b) in outer:
        for (c, d) in inner:
            lo, hi = min(a, b), max(a, b)
            comp_ok = 0 <= c < rlen(a, b) and 0 <= d < rlen(a, b)
            ks = range(-1, rlen(c, d) + 1) if comp_ok else [0, 1]
            for k in ks:
                if c < 0 or d < 0:
                    kind = "negative-inner-bound"
                elif not comp_ok:
                    kind = "inner-bound-outside-outer-range"
                else:
                    kind = kind_of_index([rlen(c, d)], [k])
                if comp_ok and 0 <= k < rlen(c, d):
                    pos = rnth(a, b, rnth(c, d, k))
                    e_ss = [str(1000 + pos)] if 0 <= pos < N else [E_OOB]
                    if not 0 <= pos < N:
                        kind_ss = "position-outside-array"
                    else:
                        kind_ss = kind
                    e_rr = [str(pos)]
                else:
                    e_ss = e_rr = [E_OOB]
                    kind_ss = kind
                pss.add(Call("slice_slice", kind_ss, "a[8][%d..%d][%d..%d][%d]" % (a, b, c, d, k),
                             "print(probe(%s))" % args([a, b, c, d, k]), e_ss,
                             "HSS %d | %d %d | %d %d | %d" % (N, a, b, c, d, k), elem_map()))
                prr.add(Call("slice_range", kind, "[%d..%d][%d..%d][%d]" % (a, b, c, d, k),
                             "print(probe(%s))" % args([a, b, c, d, k]), e_rr,
                             "HRR %d %d | %d %d | %d" % (a, b, c, d, k),
                             lambda ans: [ans.split()[1]] if ans.startswith("ok") else [E_OOB]))
    progs.append(pss)
    progs.append(prr)

    # ---- slices alias the array: write through the slice, read the whole array ---------------
    p = Program("alias", "func probe(a0 : int, b0 : int, k : int) -> int\n{\n    var a = %s;\n"
                "    var s = a[a0 .. b0];\n    s[k] = 777;\n    for (e in a) print(e);\n    0\n}\n%s" % (
                    literal((N,)), CATCH))
    for (a, b) in [(2, 5), (5, 2), (0, 7), (7, 0), (3, 3), (6, 9)]:
        for k in range(-1, rlen(a, b) + 1):
            ok = 0 <= k < rlen(a, b) and 0 <= rnth(a, b, k) < N
            if ok:
                exp = [str(777 if q == rnth(a, b, k) else 1000 + q) for q in range(N)] + ["0"]
            else:
                exp = [E_OOB]

            def mm(ans, N=N):
                t = ans.split()
                if t[0] != "ok":
                    return [E_OOB]
                return [str(777 if q == int(t[1]) else 1000 + q) for q in range(N)] + ["0"]
            p.add(Call("slice_alias", "write-through-slice" if ok else "write-outside", "a[%d..%d][%d] = 777" % (a, b, k),
                       "print(probe(%s))" % args([a, b, k]), exp, "HS %d | %d %d | %d" % (N, a, b, k), mm))
    progs.append(p)
    # two-level: write through a slice of a slice
    p = Program("alias2", "func probe(k : int) -> int\n{\n    var a = %s;\n    var s = a[6 .. 1][1 .. 3];\n"
                "    s[k] = 777;\n    for (e in a) print(e);\n    0\n}\n%s" % (literal((N,)), CATCH))
    for k in range(-1, 4):
        ok = 0 <= k < 3
        pos = 6 - (1 + k)
        exp = [str(777 if q == pos else 1000 + q) for q in range(N)] + ["0"] if ok else [E_OOB]

        def mm2(ans, N=N):
            t = ans.split()
            if t[0] != "ok":
                return [E_OOB]
            return [str(777 if q == int(t[1]) else 1000 + q) for q in range(N)] + ["0"]
        p.add(Call("slice_alias", "write-through-slice-of-slice" if ok else "write-outside", "a[6..1][1..3][%d] = 777" % k,
                   "print(probe(%s))" % nev_int(k), exp, "HSS %d | 6 1 | 1 3 | %d" % (N, k), mm2))
    progs.append(p)

    # ---- for-in over ranges and slices (emitted loops over ARRAY_DEREF; not modelled) ----------
    p = Program("forin", "func fr(a : int, b : int) -> int\n{\n    for (e in [a .. b]) print(e);\n    0\n}\n%s"
                "func fs(a0 : int, b0 : int) -> int\n{\n    let a = %s;\n    for (e in a[a0 .. b0]) print(e);\n    0\n}\n%s" % (
                    CATCH, literal((N,)), CATCH))
    for (a, b) in [(1, 5), (5, 1), (3, 3), (-2, 2), (2, -2)]:
        p.add(Call("forin_range", "iteration", "for e in [%d..%d]" % (a, b), "print(fr(%s))" % args([a, b]),
                   [str(x) for x in rpositions(a, b)] + ["0"]))
    for (a, b) in [(0, 7), (7, 0), (2, 5), (5, 2), (4, 4)]:
        p.add(Call("forin_slice", "iteration", "for e in a[%d..%d]" % (a, b), "print(fs(%s))" % args([a, b]),
                   [str(1000 + x) for x in rpositions(a, b)] + ["0"]))
    for (a, b) in [(5, 9), (-1, 2)]:
        pre = []
        for x in rpositions(a, b):
            if 0 <= x < N:
                pre.append(str(1000 + x))
            else:
                break
        p.add(Call("forin_slice", "position-outside-array", "for e in a[%d..%d]" % (a, b),
                   "print(fs(%s))" % args([a, b]), pre + [E_OOB]))
    progs.append(p)

    # ---- strings --------------------------------------------------------------------------------
    word = "hello"
    chars = " ".join(str(ord(ch)) for ch in word)
    sdecl = "func probe(i : int) -> int\n{\n    let s = \"%s\";\n    ord(s[i])\n}\n%s" % (word, CATCH)

    def str_map(ans, word=word):
        t = ans.split()
        if t[0] != "ok":
            return [E_OOB]
        k = int(t[1])
        return [str(ord(word[k]))] if 0 <= k < len(word) else ("foreign",)
    p = Program("str_index", sdecl)
    for i in list(range(0, len(word) + 2)) + [INT_MAX]:
        ok = 0 <= i < len(word)
        p.add(Call("string_deref", kind_of_index([len(word)], [i]), "\"%s\"[%d]" % (word, i),
                   "print(probe(%s))" % nev_int(i), [str(ord(word[i]))] if ok else [E_OOB],
                   "HT %s | %d" % (chars, i), str_map))
    progs.append(p)
    # negative indices: one program each (before fix a6ffef6 str[i] was read and ASan aborted the process)
    for i in (-1, -2, -7, INT_MIN):
        p = Program("str_index_neg_%s" % str(i).replace("-", "m"), sdecl)
        p.add(Call("string_deref", "negative-index", "\"%s\"[%d]" % (word, i), "print(probe(%s))" % nev_int(i),
                   [E_OOB], "HT %s | %d" % (chars, i), str_map))
        progs.append(p)
    p = Program("str_slice", "func probe(a : int, b : int) -> int\n{\n    let s = \"%s\"[a .. b];\n"
                "    prints(s + \"\\n\");\n    length(s)\n}\n%s" % (word, CATCH))
    for a in range(-1, len(word) + 1):
        for b in range(-1, len(word) + 1):
            ok = 0 <= a < len(word) and 0 <= b < len(word)
            sub = "".join(word[x] for x in rpositions(a, b)) if ok else None
            kind = "in-range" if ok else ("negative-bound" if a < 0 or b < 0 else "bound-ge-length")

            def sm(ans):
                t = ans.split()
                if t[0] != "ok":
                    return [E_OOB]
                s = "".join(chr(int(x)) for x in t[1:])
                return [s, str(len(s))]
            p.add(Call("string_slice", kind, "\"%s\"[%d..%d]" % (word, a, b), "print(probe(%s))" % args([a, b]),
                       [sub, str(len(sub))] if ok else [E_OOB], "HU %s | %d %d" % (chars, a, b), sm))
    progs.append(p)

    # ---- element-wise and matrix arithmetic ---------------------------------------------------------
    show2 = ("func show(c[R, C] : int) -> int\n{\n    var i = 0;\n    var j = 0;\n    print(R); print(C);\n"
             "    for (i = 0; i < R; i = i + 1)\n        for (j = 0; j < C; j = j + 1)\n            print(c[i, j]);\n    0\n}\n")
    mats = {"A22": ((2, 2), 1), "B22": ((2, 2), 50), "A23": ((2, 3), 1), "B23": ((2, 3), 70), "A32": ((3, 2), 20),
            "A13": ((1, 3), 5), "A31": ((3, 1), 9), "A11": ((1, 1), 4), "A34": ((3, 4), 2)}
    decl = show2
    for op, sym in (("add", "+"), ("sub", "-"), ("mul", "*")):
        decl += "func %s2(a[D1, D2] : int, b[E1, E2] : int) -> int\n{\n    show(a %s b)\n}\n%s" % (op, sym, CATCH)
    decl += "func show1(c[R] : int) -> int\n{\n    print(R);\n    for (e in c) print(e);\n    0\n}\n"
    for op, sym in (("add", "+"), ("sub", "-")):
        decl += "func %s1(a[D1] : int, b[E1] : int) -> int\n{\n    show1(a %s b)\n}\n%s" % (op, sym, CATCH)
    p = Program("arith", decl)

    def vals(name):
        exts, base = mats[name]
        return [base + q for q in range(prod(exts))]

    def shape_model(kind_cmd, s1, s2, exp_ok):
        cmd = "%s %s | %s" % (kind_cmd, " ".join(map(str, s1)), " ".join(map(str, s2)))

        def mp(ans, exp_ok=exp_ok):
            t = ans.split()
            if t[0] == "size":
                return [E_SIZE]
            if t[0] != "ok" or exp_ok is None:
                return None
            # the model gives the result shape; the element values come from the oracle
            return [x for x in t[1:]] + exp_ok[len(t) - 1:]
        return cmd, mp
    names = sorted(mats)
    for n1 in names:
        for n2 in names:
            (s1, b1), (s2, b2) = mats[n1], mats[n2]
            for op, f in (("add", lambda x, y: x + y), ("sub", lambda x, y: x - y)):
                if s1 == s2:
                    exp = [str(s1[0]), str(s1[1])] + [str(f(x, y)) for x, y in zip(vals(n1), vals(n2))] + ["0"]
                    kind = "conforming"
                else:
                    exp, kind = [E_SIZE], "non-conforming"
                cmd, mp = shape_model("HP", s1, s2, exp if s1 == s2 else None)
                p.add(Call("arr_" + op, kind, "%s%s %s %s%s" % (n1, list(s1), op, n2, list(s2)),
                           "print(%s2(%s, %s))" % (op, literal(s1, b1), literal(s2, b2)), exp, cmd, mp))
            if s1[1] == s2[0]:
                v1, v2 = vals(n1), vals(n2)
                out = []
                for i in range(s1[0]):
                    for j in range(s2[1]):
                        out.append(sum(v1[i * s1[1] + k] * v2[k * s2[1] + j] for k in range(s1[1])))
                exp = [str(s1[0]), str(s2[1])] + [str(x) for x in out] + ["0"]
                kind = "conforming"
            else:
                exp, kind = [E_SIZE], "non-conforming"
            cmd, mp = shape_model("HQ", s1, s2, exp if kind == "conforming" else None)
            p.add(Call("arr_matmul", kind, "%s%s * %s%s" % (n1, list(s1), n2, list(s2)),
                       "print(mul2(%s, %s))" % (literal(s1, b1), literal(s2, b2)), exp, cmd, mp))
    for l1, l2 in [(3, 3), (3, 2), (1, 1), (1, 4), (5, 5), (4, 5)]:
        for op, f in (("add", lambda x, y: x + y), ("sub", lambda x, y: x - y)):
            if l1 == l2:
                exp = [str(l1)] + [str(f(10 + q, 100 + q)) for q in range(l1)] + ["0"]
            else:
                exp = [E_SIZE]
            cmd, mp = shape_model("HP", (l1,), (l2,), exp if l1 == l2 else None)
            p.add(Call("arr_" + op, "conforming" if l1 == l2 else "non-conforming", "v[%d] %s v[%d]" % (l1, op, l2),
                       "print(%s1(%s, %s))" % (op, literal((l1,), 10), literal((l2,), 100)), exp, cmd, mp))
    progs.append(p)

    # ---- arithmetic on 1..4-dimensional arrays: EVERY element of the result read back by index ---------
    def show_fn(rank):
        dn = ["Q%d" % k for k in range(rank)]
        ix = ["i%d" % k for k in range(rank)]
        body = "".join("    var %s = 0;\n" % v for v in ix) + "".join("    print(%s);\n" % d for d in dn)
        loops = "".join("    " + "    " * k + "for (%s = 0; %s < %s; %s = %s + 1)\n" % (ix[k], ix[k], dn[k], ix[k], ix[k])
                        for k in range(rank))
        body += loops + "    " + "    " * rank + "print(c[%s]);\n    0\n" % ", ".join(ix)
        return "func show%d(c[%s] : int) -> int\n{\n%s}\n" % (rank, ", ".join(dn), body)
    decl = ""
    for rank in (1, 2, 3, 4):
        da = ", ".join("A%d" % k for k in range(rank))
        db = ", ".join("B%d" % k for k in range(rank))
        decl += show_fn(rank)
        decl += "func add%d(a[%s] : int, b[%s] : int) -> int\n{\n    show%d(a + b)\n}\n%s" % (rank, da, db, rank, CATCH)
        decl += "func sub%d(a[%s] : int, b[%s] : int) -> int\n{\n    show%d(a - b)\n}\n%s" % (rank, da, db, rank, CATCH)
        decl += "func neg%d(a[%s] : int) -> int\n{\n    show%d(-a)\n}\n%s" % (rank, da, rank, CATCH)
        decl += "func smul%d(a[%s] : int) -> int\n{\n    show%d(3 * a)\n}\n%s" % (rank, da, rank, CATCH)
    p = Program("arith_nd", decl)
    nd_shapes = [(4,), (1,), (2, 3), (3, 1), (2, 3, 4), (3, 2, 2), (1, 2, 3), (2, 1, 2), (4, 3, 2),
                 (2, 2, 2, 2), (2, 3, 1, 2), (1, 2, 3, 2)]
    if thorough:
        nd_shapes += [(3, 3, 3), (2, 4, 3), (3, 2, 2, 2), (2, 2, 3, 2)]

    def shown(exts, vals):
        return [str(n) for n in exts] + [str(v) for v in vals] + ["0"]
    for e1 in nd_shapes:
        rank = len(e1)
        n1 = prod(e1)
        va = [1000 + q for q in range(n1)]
        sh = " ".join(map(str, e1))
        for fn, f in (("neg", lambda x: -x), ("smul", lambda x: 3 * x)):
            exp = shown(e1, [f(x) for x in va])
            cmd, mp = "HN " + sh, None

            def mpu(ans, exp=exp):
                t = ans.split()
                return [x for x in t[1:]] + exp[len(t) - 1:] if t[0] == "ok" else None
            p.add(Call("arr_" + fn, "result-read-back-%dd" % rank, "%s of a%s, every element" % (fn, list(e1)),
                       "print(%s%d(%s))" % (fn, rank, literal(e1)), exp, cmd, mpu))
        for e2 in nd_shapes:
            if len(e2) != rank:
                continue
            vb = [50 + 7 * q for q in range(prod(e2))]
            for fn, f in (("add", lambda x, y: x + y), ("sub", lambda x, y: x - y)):
                if e1 == e2:
                    exp, kind = shown(e1, [f(x, y) for x, y in zip(va, vb)]), "result-read-back-%dd" % rank
                else:
                    exp, kind = [E_SIZE], "non-conforming"
                cmd = "HP %s | %s" % (sh, " ".join(map(str, e2)))

                def mpb(ans, exp=exp, same=(e1 == e2)):
                    t = ans.split()
                    if t[0] == "size":
                        return [E_SIZE]
                    return [x for x in t[1:]] + exp[len(t) - 1:] if (t[0] == "ok" and same) else None
                p.add(Call("arr_" + fn, kind, "a%s %s b%s, every element" % (list(e1), fn, list(e2)),
                           "print(%s%d(%s, %s))" % (fn, rank, literal(e1), literal(e2, 50, 7)), exp, cmd, mpb))
    progs.append(p)

    # ---- 2-D and 3-D compositions with asymmetric ranges per dimension ---------------------------------------
    #      (seed C12-10: SLICE_SLICE read from_d of the second-level range from slot d instead of 2*d -- invisible
    #      in one dimension).  Base cases from a fixed generator (the same on every seed): every direction
    #      combination per level and dimension; extra cases from the run's seed.
    base = random.Random(0xC12D)
    extra = random.Random((ctx.seed << 8) ^ 0x2D)

    def nd_params(nlev, dims):
        return ["r%d%s%d" % (k, ab, d) for k in range(nlev) for d in range(dims) for ab in "ab"]

    def nd_ranges_expr(nlev, dims):
        return "".join("[" + ", ".join("r%da%d .. r%db%d" % (k, d, k, d) for d in range(dims)) + "]" for k in range(nlev))

    def nd_combos(nlev, dims):
        for bits in itertools.product((True, False), repeat=nlev * dims):
            yield [list(bits[k * dims:(k + 1) * dims]) for k in range(nlev)]

    def rng_map(dims):
        w = [10 ** (3 * (dims - 1 - d)) for d in range(dims)]

        def f(ans):
            t = ans.split()
            return [str(sum(int(v) * m for v, m in zip(t[1:], w)))] if t[0] == "ok" else [E_OOB]
        return f, w

    def nd_program(kind, exts, nlev, n_extra):
        """kind 's': a[..][..].. [idx] on an array literal of the given extents; 'r': [..][..]..[idx] on ranges"""
        dims = len(exts)
        names = nd_params(nlev, dims)
        ix = ["i%d" % d for d in range(dims)]
        pid = "nd_%s%dd_%dlev" % ("slice" if kind == "s" else "range", dims, nlev)
        sig = ", ".join(n + " : int" for n in names + ix)
        rmap, w = rng_map(dims)
        if kind == "s":
            body = "    let a = %s;\n    let s = a%s;\n    s[%s]\n" % (literal(exts), nd_ranges_expr(nlev, dims), ", ".join(ix))
        else:
            body = "    let v = %s[%s];\n    %s\n" % (nd_ranges_expr(nlev, dims), ", ".join(ix),
                                                     " + ".join("v[%d] * %d" % (d, w[d]) for d in range(dims)))
        # an array literal pushes all its elements: 336 for the 3-D one
        pr = Program(pid, "func probe(%s) -> int\n{\n%s}\n%s" % (sig, body, CATCH), stack=4000 if prod(exts) > 100 else None)
        cls = {("s", 2): "slice_slice", ("r", 2): "slice_range"}.get((kind, nlev), "slice_slice" if kind == "s" else "slice_range")
        cases = []
        for dirs in nd_combos(nlev, dims):
            cases.append((nd_levels(base, exts, nlev, dirs), None))
        for _ in range(n_extra):
            dirs = [[extra.random() < 0.5 for _ in range(dims)] for _ in range(nlev)]
            cases.append((nd_levels(extra, exts, nlev, dirs), None))
        # a bound of the last level outside the level below (too large / negative), in one dimension only
        for d in range(dims):
            for which in (0, 1):
                for bad in ("big", "neg"):
                    lv = nd_levels(base, exts, nlev, [[(d + k) % 2 == 0 for _ in range(dims)] for k in range(nlev)])
                    below = rlen(*lv[-2][d]) if nlev > 1 else exts[d]
                    pr_ = list(lv[-1][d])
                    pr_[which] = below if bad == "big" else -1
                    lv[-1][d] = tuple(pr_)
                    cases.append((lv, "inner-bound-outside-outer-range" if bad == "big" else "negative-inner-bound"))
        for levels, forced in cases:
            lens = [rlen(a, b) for a, b in levels[-1]]
            idxs = nd_indices(base, lens) if forced is None else [[0] * dims, [1] * dims]
            for idx in idxs:
                pos = nd_denote(levels, idx)
                if kind == "s":
                    inarr = pos is not None and in_range(exts, pos)
                    exp = [str(1000 + row_major(exts, pos))] if inarr else [E_OOB]
                else:
                    inarr = pos is not None
                    exp = [str(sum(v * m for v, m in zip(pos, w)))] if inarr else [E_OOB]
                if forced is not None and nlev > 1:
                    k = forced
                elif inarr:
                    k = "nd-in-range"
                elif pos is not None:
                    k = "nd-position-outside-array"
                else:
                    k = "nd-" + kind_of_index(lens, idx)
                descr = "%s%s[%s]" % ("a%s" % list(exts) if kind == "s" else "",
                                      "".join("[" + ", ".join("%d..%d" % pr_ for pr_ in lv) + "]" for lv in levels),
                                      ", ".join(map(str, idx)))
                groups = [" ".join(str(x) for pr_ in lv for x in pr_) for lv in levels] + [" ".join(map(str, idx))]
                if kind == "s":
                    cmd = "HSS %s | %s" % (" ".join(map(str, exts)), " | ".join(groups))
                    mp = elem_map()
                else:
                    cmd = "HRR " + " | ".join(groups)
                    mp = rmap
                pr.add(Call(cls, k, descr, "print(probe(%s))" % args(flat_levels(levels) + idx), exp, cmd, mp))
        return pr

    E2, E3 = (7, 8), (6, 7, 8)
    nx = 40 if thorough else 8
    progs.append(nd_program("s", E2, 2, nx))
    progs.append(nd_program("s", E2, 3, nx))
    progs.append(nd_program("s", E3, 2, nx))
    progs.append(nd_program("r", E2, 2, nx))
    progs.append(nd_program("r", E2, 3, nx))
    progs.append(nd_program("r", E3, 2, nx))

    # whole-slice read-back by index (for-in takes one-dimensional operands only): every element of a 2-D
    # slice of a slice, then of a slice of a slice of a slice; and for-in over a three-level 1-D slice / range
    decl = ("func all2(%s, n0 : int, n1 : int) -> int\n{\n    let a = %s;\n    let s = a%s;\n    var i = 0;\n    var j = 0;\n"
            "    for (i = 0; i < n0; i = i + 1)\n        for (j = 0; j < n1; j = j + 1)\n            print(s[i, j]);\n    0\n}\n%s"
            % (", ".join(n + " : int" for n in nd_params(2, 2)), literal(E2), nd_ranges_expr(2, 2), CATCH))
    decl += ("func all3(%s, n0 : int, n1 : int) -> int\n{\n    let a = %s;\n    let s = a%s;\n    var i = 0;\n    var j = 0;\n"
             "    for (i = 0; i < n0; i = i + 1)\n        for (j = 0; j < n1; j = j + 1)\n            print(s[i, j]);\n    0\n}\n%s"
             % (", ".join(n + " : int" for n in nd_params(3, 2)), literal(E2), nd_ranges_expr(3, 2), CATCH))
    decl += ("func it3s(%s) -> int\n{\n    let a = %s;\n    for (e in a%s) print(e);\n    0\n}\n%s"
             % (", ".join(n + " : int" for n in nd_params(3, 1)), literal((N,)), nd_ranges_expr(3, 1), CATCH))
    decl += ("func it3r(%s) -> int\n{\n    for (e in %s) print(e);\n    0\n}\n%s"
             % (", ".join(n + " : int" for n in nd_params(3, 1)), nd_ranges_expr(3, 1), CATCH))
    p = Program("nd_readback", decl)
    for nlev, fn in ((2, "all2"), (3, "all3")):
        combos = list(nd_combos(nlev, 2))
        if nlev == 3:
            combos = combos[::5] + [[[extra.random() < 0.5 for _ in range(2)] for _ in range(3)] for _ in range(4)]
        for dirs in combos:
            levels = nd_levels(base, E2, nlev, dirs)
            lens = [rlen(a, b) for a, b in levels[-1]]
            exp = [str(1000 + row_major(E2, nd_denote(levels, [i, j]))) for i in range(lens[0]) for j in range(lens[1])] + ["0"]
            p.add(Call("slice_slice", "nd-read-back", "every element of a%s%s" % (
                list(E2), "".join("[" + ", ".join("%d..%d" % pr_ for pr_ in lv) + "]" for lv in levels)),
                "print(%s(%s))" % (fn, args(flat_levels(levels) + lens)), exp))
    for dirs in nd_combos(3, 1):
        levels = nd_levels(base, (N,), 3, dirs)
        ln = rlen(*levels[-1][0])
        pos = [nd_denote(levels, [k])[0] for k in range(ln)]
        rl = [[(0, 40)]] + levels          # ranges: the same composition on top of [0..40] is the identity on positions
        p.add(Call("forin_slice_of_slice", "nd-iteration", "for e in a[8]%s" % "".join("[%d..%d]" % lv[0] for lv in levels),
                   "print(it3s(%s))" % args(flat_levels(levels)), [str(1000 + q) for q in pos] + ["0"]))
        lv3 = nd_levels(base, (41,), 3, dirs)
        ln3 = rlen(*lv3[-1][0])
        p.add(Call("forin_range_of_range", "nd-iteration", "for e in %s" % "".join("[%d..%d]" % lv[0] for lv in lv3),
                   "print(it3r(%s))" % args(flat_levels(lv3)),
                   [str(rnth(lv3[0][0][0], lv3[0][0][1], rnth(lv3[1][0][0], lv3[1][0][1], rnth(lv3[2][0][0], lv3[2][0][1], k))))
                    for k in range(ln3)] + ["0"]))
    progs.append(p)

    # ---- strings of length 0 and 1 (seed C12-14: `strlen(str) - 1` underflows for the empty string) ------------
    sx = [('""', ""), ('"" + ""', ""), ('("" + "") + ""', ""), ('"a"', "a"), ('"" + "b"', "b"), ('"xyz"[1 .. 1]', "y"),
          ('"pq"', "pq"), ('"pq"[1 .. 0]', "qp")]
    p = Program("str_short", "func at(s : string, i : int) -> int\n{\n    ord(s[i])\n}\n" + CATCH +
                "func sl(s : string, a : int, b : int) -> int\n{\n    let t = s[a .. b];\n    prints(t + \"\\n\");\n"
                "    length(t)\n}\n" + CATCH + "func len(s : string) -> int\n{\n    length(s)\n}\n" + CATCH)
    for expr, w in sx:
        wchars = " ".join(str(ord(ch)) for ch in w)
        p.add(Call("string_deref", "length", "length(%s)" % expr, "print(len(%s))" % expr, [str(len(w))]))
        for i in (0, 1, 2, -1, len(w) - 1, len(w), INT_MAX, INT_MIN):
            ok = 0 <= i < len(w)
            kind = ("empty-string" if not w else "one-char-string" if len(w) == 1 else "short-string") + ":" + kind_of_index([len(w)], [i])

            def smap(ans, w=w):
                t = ans.split()
                if t[0] != "ok":
                    return [E_OOB]
                return [str(ord(w[int(t[1])]))] if 0 <= int(t[1]) < len(w) else ("foreign",)
            p.add(Call("string_deref", kind, "(%s)[%d]" % (expr, i), "print(at(%s, %s))" % (expr, nev_int(i)),
                       [str(ord(w[i]))] if ok else [E_OOB], "HT %s | %d" % (wchars, i), smap))
        for a in (-1, 0, 1, 2):
            for b in (-1, 0, 1, 2):
                ok = 0 <= a < len(w) and 0 <= b < len(w)
                sub_ = "".join(w[x] for x in rpositions(a, b)) if ok else None
                kind = ("empty-string" if not w else "one-char-string" if len(w) == 1 else "short-string") + ":" + (
                    "in-range" if ok else "negative-bound" if a < 0 or b < 0 else "bound-ge-length")

                def sm2(ans):
                    t = ans.split()
                    if t[0] != "ok":
                        return [E_OOB]
                    q = "".join(chr(int(x)) for x in t[1:])
                    return [q, str(len(q))]
                p.add(Call("string_slice", kind, "(%s)[%d..%d]" % (expr, a, b), "print(sl(%s, %s))" % (expr, args([a, b])),
                           [sub_, str(len(sub_))] if ok else [E_OOB], ("HU %s | %d %d" % (wchars, a, b)).replace("  ", " "), sm2))
    progs.append(p)

    # ---- the names of the bounds of slice and range parameters (seed C02-15: ID_DIM_SLICE read the vector at
    #      dim/2, dim/2+1 instead of dim-1, dim -- invisible in one dimension).  A slice parameter
    #      s[n0 .. n1, n2 .. n3]: lower names are 0, upper names the last valid index of the dimension; a range
    #      parameter: the bounds themselves.  Same fixed generator: all direction combinations, distinct bounds.
    EXN = {1: (9,), 2: E2, 3: E3}
    decl = ""
    for dims in (1, 2, 3):
        nm = ["n%d" % k for k in range(2 * dims)]
        plist = ", ".join("%s .. %s" % (nm[2 * d], nm[2 * d + 1]) for d in range(dims))
        prn = "".join("    print(%s);\n" % x for x in nm)
        decl += "func sn%d(s[%s] : int) -> int\n{\n%s    0\n}\n" % (dims, plist, prn)
        decl += "func rn%d(r[%s] : range) -> int\n{\n%s    0\n}\n" % (dims, plist, prn)
        # the names used from a nested function (free variables of a closure)
        decl += ("func sc%d(s[%s] : int) -> int\n{\n    let f = let func g() -> int\n    {\n%s        0\n    };\n    f()\n}\n"
                 % (dims, plist, prn.replace("    print", "        print")))
        decl += ("func rc%d(r[%s] : range) -> int\n{\n    let f = let func g() -> int\n    {\n%s        0\n    };\n    f()\n}\n"
                 % (dims, plist, prn.replace("    print", "        print")))
        for nlev in (1, 2):
            sig = ", ".join(n + " : int" for n in nd_params(nlev, dims))
            for fn in ("sn", "sc"):
                decl += "func %s%d_%d(%s) -> int\n{\n    let a = %s;\n    %s%d(a%s)\n}\n%s" % (
                    fn, dims, nlev, sig, literal(EXN[dims]), fn, dims, nd_ranges_expr(nlev, dims), CATCH)
            for fn in ("rn", "rc"):
                decl += "func %s%d_%d(%s) -> int\n{\n    %s%d(%s)\n}\n%s" % (
                    fn, dims, nlev, sig, fn, dims, nd_ranges_expr(nlev, dims), CATCH)
    p = Program("dim_names", decl, stack=4000)
    for dims in (1, 2, 3):
        for nlev in (1, 2):
            combos = list(nd_combos(nlev, dims))
            combos += [[[extra.random() < 0.5 for _ in range(dims)] for _ in range(nlev)] for _ in range(6 if thorough else 2)]
            for ci, dirs in enumerate(combos):
                levels = nd_levels(base if ci < 2 ** (nlev * dims) else extra, EXN[dims], nlev, dirs)
                last = levels[-1]
                comp = []
                for d in range(dims):
                    lo = [0, rlen(*last[d]) - 1]
                    c = []
                    for x in lo:
                        for lv in reversed(levels):
                            x = rnth(lv[d][0], lv[d][1], x)
                        c.append(x)
                    comp.append(tuple(c))
                exp_s = [y for d in range(dims) for y in ("0", str(rlen(*last[d]) - 1))] + ["0"]
                exp_r = [str(y) for d in range(dims) for y in comp[d]] + ["0"]
                rtxt = "".join("[" + ", ".join("%d..%d" % pr_ for pr_ in lv) + "]" for lv in levels)
                groups = " | ".join(" ".join(str(x) for pr_ in lv for x in pr_) for lv in levels)
                fns = ("sn", "rn") if (ci % 3) else ("sn", "rn", "sc", "rc")
                for fn in fns:
                    isr = fn[0] == "r"
                    p.add(Call("slice_dim_name" if not isr else "range_dim_name",
                               "%dd-%dlev%s" % (dims, nlev, "-closure" if fn[1] == "c" else ""),
                               "bound names of %s%s%s" % ("" if isr else "a%s" % list(EXN[dims]), rtxt,
                                                           " in a nested function" if fn[1] == "c" else ""),
                               "print(%s%d_%d(%s))" % (fn, dims, nlev, args(flat_levels(levels))),
                               exp_r if isr else exp_s, ("HDR " if isr else "HDS ") + groups,
                               lambda ans: ans.split()[1:] + ["0"] if ans.startswith("ok") else [E_OOB]))
    progs.append(p)

    # ---- use after iteration: iterating a range / slice / array must not change what it denotes -----
    helpers = (
        "func at_s(s[f .. t] : int, i : int) -> int\n{\n    s[i]\n}\n" + CATCH +
        "func at_r(r[f .. t] : range, i : int) -> int\n{\n    r[i][0]\n}\n" + CATCH +
        "func sub_s(s[f .. t] : int, c : int, d : int, k : int) -> int\n{\n    s[c .. d][k]\n}\n" + CATCH +
        "func sub_r(r[f .. t] : range, c : int, d : int, k : int) -> int\n{\n    r[c .. d][k][0]\n}\n" + CATCH +
        "func it_s(s[f .. t] : int) -> int\n{\n    for (e in s) print(e);\n    0\n}\n" + CATCH +
        "func it_r(r[f .. t] : range) -> int\n{\n    for (e in r) print(e);\n    0\n}\n" + CATCH +
        "func lc_s(s[f .. t] : int) -> int\n{\n    let l = [ e | e in s ] : int;\n    for (x in l) print(x);\n    0\n}\n" + CATCH +
        "func lc_r(r[f .. t] : range) -> int\n{\n    let l = [ e | e in r ] : int;\n    for (x in l) print(x);\n    0\n}\n" + CATCH)

    def scenario(name, params, setup, sfx):
        """iterate; index all; iterate again; iterate through an alias in a callee; index through the
        alias; list comprehension; index again; sub-slices; finally the array must be unchanged"""
        x, at, it, lc, sub = "v", "at_" + sfx, "it_" + sfx, "lc_" + sfx, "sub_" + sfx
        idx_all = "    for (i = 0; i <= n; i = i + 1) print(%s(%%s, i));\n    prints(\"|\\n\");\n" % at
        body = (setup + "    let w = v;\n    var i = 0;\n"
                "    for (e in v) print(e);\n    prints(\"|\\n\");\n" + idx_all % "v" +
                "    for (e in v) print(e);\n    prints(\"|\\n\");\n"
                "    %s(w);\n    prints(\"|\\n\");\n" % it + idx_all % "w" +
                "    %s(v);\n    prints(\"|\\n\");\n" % lc + idx_all % "v" +
                "    print(%s(v, 0, n - 1, n - 1));\n    print(%s(w, n - 1, 0, n - 1));\n    print(%s(v, 0, n, 0));\n"
                "    prints(\"|\\n\");\n" % (sub, sub, sub) +
                "    for (e in v) print(e);\n    prints(\"|\\n\");\n"
                "    for (e in a) print(e);\n    0\n")
        return "func %s(%s, n : int) -> int\n{\n    let a = %s;\n%s}\n%s" % (
            name, ", ".join(q + " : int" for q in params), literal((N,)), body, CATCH)

    def scenario_expect(vals):
        n = len(vals)
        v = [str(x) for x in vals]
        allidx = v + [E_OOB]
        out = v + ["|"] + allidx + ["|"] + v + ["|"] + v + ["|"] + allidx + ["|"] + v + ["|"] + allidx + ["|"]
        out += [v[n - 1], v[0], E_OOB, "|"] + v + ["|"] + [str(1000 + q) for q in range(N)] + ["0"]
        return out
    decl = helpers
    decl += scenario("uai_slice", ["a0", "b0"], "    let v = a[a0 .. b0];\n", "s")
    decl += scenario("uai_slice2", ["a0", "b0", "c0", "d0"], "    let v = a[a0 .. b0][c0 .. d0];\n", "s")
    decl += scenario("uai_range", ["a0", "b0"], "    let v = [a0 .. b0];\n", "r")
    decl += scenario("uai_range2", ["a0", "b0", "c0", "d0"], "    let v = [a0 .. b0][c0 .. d0];\n", "r")
    decl += ("func uai_array(n : int) -> int\n{\n    let a = %s;\n    let w = a;\n    var i = 0;\n"
             "    for (e in a) print(e);\n    prints(\"|\\n\");\n"
             "    for (i = 0; i < n; i = i + 1) print(w[i]);\n    prints(\"|\\n\");\n"
             "    for (e in w) print(e);\n    prints(\"|\\n\");\n"
             "    let l = [ e | e in a ] : int;\n    for (x in l) print(x);\n    prints(\"|\\n\");\n"
             "    for (i = 0; i < n; i = i + 1) print(a[i]);\n    0\n}\n%s" % (literal((N,)), CATCH))
    p = Program("use_after_iteration", decl)
    one = [(1, 3), (3, 1), (0, 7), (7, 0), (4, 2), (2, 2), (0, 0), (7, 7), (5, 6), (6, 5)]
    for (a, b) in one:
        pos = rpositions(a, b)
        p.add(Call("forin_slice", "use-after-iteration", "s = a[%d..%d]: iterate, index, iterate again, alias, sub-slice" % (a, b),
                   "print(uai_slice(%s))" % args([a, b, len(pos)]), scenario_expect([1000 + q for q in pos])))
    for (a, b) in one + [(-3, 2), (2, -3), (-5, -5)]:
        pos = rpositions(a, b)
        p.add(Call("forin_range", "use-after-iteration", "r = [%d..%d]: iterate, index, iterate again, alias, sub-range" % (a, b),
                   "print(uai_range(%s))" % args([a, b, len(pos)]), scenario_expect(pos)))
    two = [((1, 6), (1, 3)), ((1, 6), (3, 1)), ((6, 1), (0, 2)), ((6, 1), (4, 2)), ((0, 7), (7, 0)), ((7, 0), (7, 0)),
           ((2, 5), (1, 1)), ((5, 2), (0, 3))]
    for (a, b), (c, d) in two:
        pos = [rnth(a, b, k) for k in rpositions(c, d)]
        p.add(Call("forin_slice_of_slice", "use-after-iteration",
                   "s = a[%d..%d][%d..%d]: iterate, index, iterate again, alias, sub-slice" % (a, b, c, d),
                   "print(uai_slice2(%s))" % args([a, b, c, d, len(pos)]), scenario_expect([1000 + q for q in pos])))
        p.add(Call("forin_range_of_range", "use-after-iteration",
                   "r = [%d..%d][%d..%d]: iterate, index, iterate again, alias, sub-range" % (a, b, c, d),
                   "print(uai_range2(%s))" % args([a, b, c, d, len(pos)]), scenario_expect(pos)))
    av = [str(1000 + q) for q in range(N)]
    p.add(Call("forin_array", "use-after-iteration", "a[8]: iterate, index through an alias, iterate the alias, comprehension",
               "print(uai_array(%d))" % N, av + ["|"] + av + ["|"] + av + ["|"] + av + ["|"] + av + ["0"]))
    progs.append(p)

    # ---- bounds are values at construction time: changing the variables afterwards changes nothing ---
    decl = ("func ba_slice(p0 : int, q0 : int, p1 : int, q1 : int, i : int) -> int\n{\n    let a = %s;\n"
            "    var p = p0 + 0;\n    var q = q0 + 0;\n    let s = a[p .. q];\n    p = p1;\n    q = q1;\n    s[i]\n}\n%s"
            "func ba_range(p0 : int, q0 : int, p1 : int, q1 : int, i : int) -> int\n{\n"
            "    var p = p0 + 0;\n    var q = q0 + 0;\n    let r = [p .. q];\n    p = p1;\n    q = q1;\n    r[i][0]\n}\n%s" % (
                literal((N,)), CATCH, CATCH))
    p = Program("bounds_alias", decl)
    for (p0, q0, p1, q1) in [(1, 4, 2, 4), (1, 4, 1, 2), (5, 2, 6, 2), (5, 2, 5, 4), (1, 4, 1, 4)]:
        for i in range(0, rlen(p0, q0) + 1):
            ok = i < rlen(p0, q0)
            kind = "bounds-alias-variables" if (p0, q0) != (p1, q1) else "bounds-unchanged"
            p.add(Call("slice", kind, "p=%d; q=%d; s = a[p..q]; p=%d; q=%d; s[%d]" % (p0, q0, p1, q1, i),
                       "print(ba_slice(%s))" % args([p0, q0, p1, q1, i]), [str(1000 + rnth(p0, q0, i))] if ok else [E_OOB]))
            p.add(Call("range", kind, "p=%d; q=%d; r = [p..q]; p=%d; q=%d; r[%d]" % (p0, q0, p1, q1, i),
                       "print(ba_range(%s))" % args([p0, q0, p1, q1, i]), [str(rnth(p0, q0, i))] if ok else [E_OOB]))
    progs.append(p)

    # ---- what the mirrored code does not guarantee (Properties_C12.v dim_mult_overflow_refuted) -----
    # MK_ARRAY with extents whose product does not fit unsigned int (finding array_deref:extent-product-overflow,
    # fixed by 1f9996a: wrong_array_size).  Before the fix {[65536, 65536]} got 0 cells and no value[] (the access
    # crashed), {[3, 1431655766]} got 2 cells and all multipliers 0 (every index reached cell 0: probew read the 7
    # written at [0, 0] back at [2, 5]).  Property: any orderly outcome except a wrong element; model: wrong_array_size.
    ovf_ok = [["0"], [E_OOB], [E_OTHER]]
    p = Program("overflow_product",
                "func probe(n : int, m : int, i : int, j : int) -> int\n{\n    let a = {[ n, m ]} : int;\n    a[i, j]\n}\n" + CATCH +
                "func probew(n : int, m : int, i : int, j : int) -> int\n{\n    var a = {[ n, m ]} : int;\n"
                "    a[0, 0] = 7;\n    a[i, j]\n}\n" + CATCH +
                "func probe3(n : int, m : int, k : int, i : int, j : int, l : int) -> int\n{\n"
                "    var a = {[ n, m, k ]} : int;\n    a[0, 0, 0] = 7;\n    a[i, j, l]\n}\n" + CATCH)

    def mk_map(first_is_7):
        def f(ans):
            t = ans.split()
            if t[0] == "ok":
                return ["7" if (first_is_7 and int(t[1]) == 0) else "0"]
            return {"oob": [E_OOB], "size": [E_SIZE]}.get(t[0])
        return f

    def mk_call(fn, exts, idx):
        fits = all(n > 0 for n in exts) and prod(exts) < U32
        if not all(n > 0 for n in exts):
            exp, kind = [E_OOB], "non-positive-extent"
        elif not fits:
            exp, kind = [E_SIZE], "extent-product-overflow"
        elif in_range(exts, idx):
            exp, kind = ["7" if (fn != "probe" and not any(idx)) else "0"], "created-in-range"
        else:
            exp, kind = [E_OOB], "created-" + kind_of_index(exts, idx)
        p.add(Call("array_deref", kind, "({[%s]} : int)[%s]%s" % (", ".join(map(str, exts)), ", ".join(map(str, idx)),
                                                               "" if fn == "probe" else " after a[0,..] = 7"),
                   "print(%s(%s))" % (fn, args(list(exts) + list(idx))), exp,
                   "HMA %s | %s" % (" ".join(map(str, exts)), " ".join(map(str, idx))), mk_map(fn != "probe"),
                   also_ok=ovf_ok if kind == "extent-product-overflow" else ()))
    mk_call("probe", (65536, 65536), (1, 1))                       # the recorded witness first
    for exts, idx in [((65537, 65537), (0, 0)), ((3, 1431655766), (2, 5)), ((1431655766, 3), (5, 2)), ((2147483647, 3), (1, 1)),
                      ((2147483647, 2147483647), (1, 1)), ((46341, 92682), (46340, 1)), ((65536, 65537), (65535, 65536)),
                      ((3, 4), (2, 3)), ((3, 4), (0, 0)), ((3, 4), (3, 0)), ((3, 4), (0, -1)), ((0, 4), (0, 0)), ((-1, 4), (0, 0)),
                      ((4, 0), (0, 0)), ((1, 1), (0, 0))]:
        mk_call("probew", exts, idx)
    for exts, idx in [((46341, 46341, 2), (1, 1, 1)), ((2048, 2048, 1024), (1, 1, 1)), ((65536, 256, 256), (0, 0, 1)),
                      ((2147483647, 2147483647, 2147483647), (0, 1, 0)), ((2, 3, 715827883), (1, 2, 3)),
                      ((2, 3, 4), (1, 2, 3)), ((2, 3, 4), (0, 0, 0)), ((2, 3, 4), (1, 3, 0)), ((2, 0, 4), (0, 0, 0))]:
        mk_call("probe3", exts, idx)
    for _ in range(60 if thorough else 12):                          # seeded: products just above 2^32
        n1 = rng.choice([rng.randrange(2, 1 << 17), rng.randrange(2, 1 << 31), 65536])
        n2 = (U32 + n1 - 1) // n1 + rng.randrange(0, 3)
        if not is_int(n2):
            continue
        exts = (n1, n2) if rng.random() < 0.5 else (n2, n1)
        mk_call("probew", exts, (exts[0] - 1, exts[1] - 1))
    progs.append(p)
    # the matrix product creates its result the same way: [n x 1] * [1 x n] has n * n cells
    p = Program("overflow_matmul", "func mm(n : int, i : int, j : int) -> int\n{\n    let a = {[ n, 1 ]} : int;\n"
                "    let b = {[ 1, n ]} : int;\n    let c = a * b;\n    c[i, j]\n}\n" + CATCH, mem=1500000)
    for n, i, j in [(65536, 1, 1), (3, 1, 1), (65537, 0, 0), (4, 3, 3), (4, 4, 0), (92682, 5, 5)]:
        big = n * n >= U32
        exp = [E_SIZE] if big else (["0"] if in_range((n, n), (i, j)) else [E_OOB])
        p.add(Call("arr_matmul", "extent-product-overflow" if big else "created-" + kind_of_index((n, n), (i, j)),
                   "({[%d, 1]} * {[1, %d]})[%d, %d]" % (n, n, i, j), "print(mm(%s))" % args([n, i, j]), exp,
                   "HQ %d 1 | 1 %d" % (n, n),
                   lambda ans, exp=exp: [E_SIZE] if ans.split()[0] == "size" else (exp if ans.split()[0] == "ok" else None),
                   also_ok=ovf_ok if big else ()))
    progs.append(p)
    # ---- ranges next to +-2^31: the sums range_from +- index do not fit an int (finding
    #      range_deref:int-overflow, fixed by acecad0; Properties_C12.v *_overflow_regression).
    #      Generated on every seed; the seeded part adds ranges at random distances from the limits.
    seeded = seeded_bound_ranges(rng, 200 if thorough else 40)

    def index_kind(a, b, i, ok, outside=False):
        if ok:
            return "in-range"
        if outside:
            return "position-outside-array"
        if wraps(a, b, i):
            return "int-overflow"
        return kind_of_index([rlen(a, b)], [i])
    val_map = lambda ans: [ans.split()[1]] if ans.startswith("ok") else [E_OOB]

    # RANGE_DEREF
    p = Program("bound_range", "func probe(a : int, b : int, i : int) -> int\n{\n    [a .. b][i][0]\n}\n" + CATCH)
    # the recorded witnesses of the finding first, then every magnitude
    cases = [(2147483640, 2147483647, 20), (-2147483640, -2147483647, 20)]
    cases += [(a, b, i) for (a, b) in BOUND_RANGES for i in bound_indices(a, b) if (a, b, i) not in cases] + seeded
    for (a, b, i) in cases:
        ok = 0 <= i < rlen(a, b)
        p.add(Call("range_deref", index_kind(a, b, i, ok), "[%d..%d][%d]" % (a, b, i),
                   "print(probe(%s))" % args([a, b, i]), [str(rnth(a, b, i))] if ok else [E_OOB],
                   "HR %d %d | %d" % (a, b, i), val_map))
    progs.append(p)
    # RANGE_DEREF, two dimensions: the overflowing dimension is the second one
    p = Program("bound_range2", "func probe(a : int, b : int, c : int, d : int, i : int, j : int) -> int\n{\n"
                "    let v = [a .. b, c .. d][i, j];\n    v[0] - v[1]\n}\n" + CATCH)
    for (c, d) in BOUND_RANGES[:4] + BOUND_RANGES[7:11]:
        for j in (0, rlen(c, d) - 1, rlen(c, d), 20, INT_MAX):
            if not is_int(j):
                continue
            for (a, b, i) in ((1, 5, 2), (5, 1, 9)):
                ok = 0 <= i < rlen(a, b) and 0 <= j < rlen(c, d)
                kind = "in-range" if ok else ("int-overflow" if i < rlen(a, b) and wraps(c, d, j) else "index-ge-extent")
                diff = rnth(a, b, i) - rnth(c, d, j)
                if ok and not is_int(diff):
                    continue
                p.add(Call("range_deref", kind, "[%d..%d, %d..%d][%d, %d]" % (a, b, c, d, i, j),
                           "print(probe(%s))" % args([a, b, c, d, i, j]), [str(diff)] if ok else [E_OOB],
                           "HR %d %d %d %d | %d %d" % (a, b, c, d, i, j),
                           lambda ans: [str(int(ans.split()[1]) - int(ans.split()[2]))] if ans.startswith("ok") else [E_OOB]))
    progs.append(p)

    # SLICE_DEREF: SLICE_ARRAY pairs the array with any range, the positions are checked at the access.
    # a[INT_MIN..INT_MIN][INT_MAX] reached a[1] and a[INT_MIN+5..INT_MIN][INT_MAX] reached a[6] before the fix.
    p = Program("bound_slice", "func probe(a0 : int, b0 : int, i : int) -> int\n{\n    let a = %s;\n"
                "    let s = a[a0 .. b0];\n    s[i]\n}\n%s" % (literal((N,)), CATCH))
    sl_bound = BOUND_RANGES + [(0, 7), (7, 0), (3, INT_MAX), (7, INT_MIN), (INT_MIN + 1, INT_MIN), (2, 2)]
    cases = [(a, b, i) for (a, b) in sl_bound for i in bound_indices(a, b) + [2, 5, 8]] + seeded
    for (a, b, i) in cases:
        inr = 0 <= i < rlen(a, b)
        ok = inr and 0 <= rnth(a, b, i) < N
        p.add(Call("slice_deref", index_kind(a, b, i, ok, outside=inr), "a[8][%d..%d][%d]" % (a, b, i),
                   "print(probe(%s))" % args([a, b, i]), [str(1000 + rnth(a, b, i))] if ok else [E_OOB],
                   "HS %d | %d %d | %d" % (N, a, b, i), elem_map()))
    progs.append(p)

    # SLICE_RANGE and SLICE_SLICE: [a..b][c..d][k]
    pss = Program("bound_slice_slice", "func probe(a0 : int, b0 : int, c0 : int, d0 : int, k : int) -> int\n{\n"
                  "    let a = %s;\n    let s = a[a0 .. b0][c0 .. d0];\n    s[k]\n}\n%s" % (literal((N,)), CATCH))
    prr = Program("bound_range_range", "func probe(a0 : int, b0 : int, c0 : int, d0 : int, k : int) -> int\n{\n"
                  "    [a0 .. b0][c0 .. d0][k][0]\n}\n" + CATCH)
    quads = [(a, b, c, d) for (a, b) in BOUND_RANGES for (c, d) in BOUND_INNER]
    quads += [(a, b, c, d) for (a, b) in [(0, 7), (7, 0), (3, INT_MAX), (7, INT_MIN), (INT_MIN + 1, INT_MIN)]
              for (c, d) in BOUND_INNER]
    for (a, b, i) in seeded:
        quads.append((a, b, i, rng.choice([i, 0, max(0, rlen(a, b) - 1), min(i + 1, INT_MAX), INT_MAX])))
    for (a, b, c, d) in quads:
        comp_ok = 0 <= c < rlen(a, b) and 0 <= d < rlen(a, b)
        if comp_ok:
            ks = [k for k in (-1, 0, 1, rlen(c, d) - 1, rlen(c, d), INT_MAX, INT_MIN) if is_int(k)]
            ks = [k for n, k in enumerate(ks) if k not in ks[:n]]
        else:
            ks = [0]
        for k in ks:
            kin = comp_ok and 0 <= k < rlen(c, d)
            pos = rnth(a, b, rnth(c, d, k)) if kin else None
            if c < 0 or d < 0:
                kind = "negative-inner-bound"
            elif not comp_ok:
                kind = "int-overflow" if (wraps(a, b, c) or wraps(a, b, d)) else "inner-bound-outside-outer-range"
            elif kin:
                kind = "in-range"
            else:
                rf, rt = rnth(a, b, c), rnth(a, b, d)
                kind = "int-overflow" if wraps(rf, rt, k) else kind_of_index([rlen(c, d)], [k])
            inarr = kin and 0 <= pos < N
            pss.add(Call("slice_slice", "position-outside-array" if (kin and not inarr) else kind,
                         "a[8][%d..%d][%d..%d][%d]" % (a, b, c, d, k), "print(probe(%s))" % args([a, b, c, d, k]),
                         [str(1000 + pos)] if inarr else [E_OOB],
                         "HSS %d | %d %d | %d %d | %d" % (N, a, b, c, d, k), elem_map()))
            prr.add(Call("slice_range", kind, "[%d..%d][%d..%d][%d]" % (a, b, c, d, k),
                         "print(probe(%s))" % args([a, b, c, d, k]), [str(pos)] if kin else [E_OOB],
                         "HRR %d %d | %d %d | %d" % (a, b, c, d, k), val_map))
    progs.append(pss)
    progs.append(prr)
    return progs


# ---- front end (front/tcheckarr.c): ill-formed literals / wrong index count are rejected ---------
COMPILE_PROBES = [
    ("ragged", "func main() -> int { let a = [[1,2],[3]] : int; 0 }", False),
    ("ragged3", "func main() -> int { let a = [[[1],[2]],[[3]]] : int; 0 }", False),
    ("too_few_indices", "func main() -> int { let a = [[1,2],[3,4]] : int; a[1] }", False),
    ("too_many_indices", "func main() -> int { let a = [1,2,3] : int; a[1, 1] }", False),
    ("well_formed", "func main() -> int { let a = [[1,2],[3,4]] : int; a[1, 0] }", True),
]


def run_batch(job):
    nevrun, path = job
    rc, out, err = common.sh([nevrun, "--timeout", "60", "--batch", path], timeout=900, env=drv_env())
    return out


def parse_batch(out):
    """-> {pid: (lines between BEGIN and OUTCOME/END, outcome, status)}"""
    res = {}
    cur, lines, outcome = None, [], None
    for ln in out.split("\n"):
        if ln.startswith("@@BEGIN "):
            cur, lines, outcome = ln[8:].strip(), [], None
        elif ln.startswith("@@OUTCOME ") and cur is not None:
            outcome = ln.split(" ", 2)[2] if ln.count(" ") >= 2 else ""
        elif ln.startswith("@@END ") and cur is not None:
            m = re.search(r"status=(.*)$", ln)
            res[cur] = (lines, outcome, m.group(1) if m else "?")
            cur = None
        elif cur is not None and outcome is None:
            lines.append(ln)
    return res


def segments(lines):
    """split program output at '#' marker lines -> list of (value lines, error messages); + tail"""
    segs, vals, errs = [], [], []
    for ln in lines:
        if ln == "#":
            segs.append((vals, errs))
            vals, errs = [], []
            continue
        m = ERR_RE.match(ln)
        if m:
            errs.append(m.group(1))
        elif ln != "":
            vals.append(ln)
    return segs, (vals, errs)


def sanitizer_summary(tail_lines):
    for ln in tail_lines:
        if "ERROR: AddressSanitizer" in ln or "runtime error:" in ln or "ERROR: UndefinedBehaviorSanitizer" in ln:
            return ln.strip()[:300]
    return None


def show_obs(vals):
    if len(vals) == 1 and vals[0] in EXC_NAME:
        return EXC_NAME[vals[0]]
    return " ".join(vals)[:300]


def run_probes(ctx, nevrun):
    progs = gen_programs(ctx)
    # corpus first (minimised failures kept from earlier runs; same JSON layout as a replay file)
    corpus = []
    if os.path.isdir(CORPUS):
        for fn in sorted(os.listdir(CORPUS)):
            if fn.endswith(".json"):
                try:
                    corpus.append(json.load(open(os.path.join(CORPUS, fn))))
                except ValueError:
                    pass
    # model predictions for every call, in one run of the model
    cmds = []
    for p in progs:
        for c in p.calls:
            if c.model_cmd:
                cmds.append(c.model_cmd)
    mpath = os.path.join(ctx.outdir, "handler_cases.txt")
    with open(mpath, "w") as f:
        f.write("\n".join(cmds) + "\n")
    rc, mout, merr = common.sh([RUN, mpath], timeout=600)
    if rc != 0:
        ctx.correspondence_broken("handlers", {"error": "model runner failed", "stderr": merr[-800:]})
        mans = {}
    else:
        mans = dict(zip(cmds, [ln.split(" ", 1)[1] if " " in ln else ln for ln in mout.split("\n")]))
    # batches
    allprogs = [(p.pid + (" mem=%d" % p.mem if p.mem else "") + (" stack=%d" % p.stack if p.stack else ""), p.source())
                for p in progs]
    allprogs += [("cc_" + n, s) for n, s, _ in COMPILE_PROBES]
    allprogs += [("corpus_%d" % k, c["src"]) for k, c in enumerate(corpus)]
    nb = min(NPROC, len(allprogs))
    order = sorted(range(len(allprogs)), key=lambda k: -len(allprogs[k][1]))
    buckets = [[] for _ in range(nb)]
    for r, k in enumerate(order):
        buckets[r % nb].append(allprogs[k])
    jobs = []
    for b, bucket in enumerate(buckets):
        path = os.path.join(ctx.outdir, "probes_%d.batch" % b)
        with open(path, "w") as f:
            for pid, src in bucket:
                hdr = "@@@ %s%s\n" % (pid, " compile-only" if pid.startswith("cc_") else "")
                f.write(hdr + src + ("\n" if not src.endswith("\n") else ""))
        jobs.append((nevrun, path))
    with multiprocessing.Pool(nb) as pool:
        outs = pool.map(run_batch, jobs)
    results = {}
    for o in outs:
        results.update(parse_batch(o))

    ncalls = 0
    raised = set()
    first_model_diff = {}
    per_class = {}

    # corpus cases: whole-program expectation
    for k, c in enumerate(corpus):
        r = results.get("corpus_%d" % k)
        if r is None:
            continue
        lines, outcome, status = r
        vals = [ln for ln in lines if ln and not ERR_RE.match(ln) and ln != "#"]
        ncalls += 1
        san = sanitizer_summary(lines)
        good = status == "0" and vals in c.get("expected_one_of", [])
        if c.get("accept_out_of_memory") and san is None and status == "1" and "out of memory" in "\n".join(lines):
            good = True
        if not good:
            ctx.violation(c["key"], c.get("what", "corpus case fails") + " — observed: " + (
                "crash: " + san if san else show_obs(vals) + " (status %s)" % status),
                          {"program": c["src"], "expected_one_of": [show_obs(e) for e in c.get("expected_one_of", [])],
                           "observed": vals[-3:], "sanitizer": san, "status": status, "corpus": True,
                           "run": "put '@@@ x' + program into a file; <asan build>/nevrun --batch file"})

    for p in progs:
        r = results.get(p.pid)
        if r is None:
            ctx.correspondence_broken("probe-run", {"program": p.pid, "error": "no result from nevrun"})
            continue
        lines, outcome, status = r
        if outcome is not None and outcome.startswith("COMPILE_ERROR"):
            ctx.correspondence_broken("probe-compile", {"program": p.pid, "output": lines[:8], "source": p.source()[:1500]})
            continue
        segs, tail = segments(lines)
        for k, c in enumerate(p.calls):
            ncalls += 1
            st = per_class.setdefault(c.cls, {"calls": 0, "exceptions": 0})
            st["calls"] += 1
            if k > len(segs):
                break                                       # an earlier call ended the process
            crashed = k == len(segs)
            san = sanitizer_summary(lines)
            if crashed:
                vals, errs = tail
                obs_lines = None
                obs_txt = "crash: " + (san or "process ended with status %s, output %r" % (status, vals[-2:]))
            else:
                vals, errs = segs[k]
                obs_lines, obs_txt = vals, show_obs(vals)
                if vals and vals[-1] in EXC_NAME:
                    st["exceptions"] += 1
                    raised.add((c.cls, c.kind))
            replay = {"program": p.source(only=c), "call": c.expr, "case": c.descr, "probe_program": p.pid,
                      "expected": show_obs(c.expect), "observed": obs_txt,
                      "run": "put '@@@ x' + program into a file; <asan build>/nevrun --batch file"}
            # -- the property --------------------------------------------------------------------
            if c.kind == "extent-product-overflow":
                # any orderly outcome is accepted: wrong_array_size (what the tree does since 1f9996a), a fresh
                # element, another exception, the VM's "out of memory" exit(1) -- not a crash, not a foreign element
                oom = crashed and san is None and "out of memory" in "\n".join(lines)
                if not (oom or obs_lines == c.expect or obs_lines in c.also_ok):
                    ctx.violation("%s:%s" % (c.cls, c.kind),
                                  "%s: %s instead of wrong_array_size (or another orderly outcome)" % (c.descr, obs_txt), replay)
            elif obs_lines != c.expect and obs_lines not in c.also_ok:
                ctx.violation("%s:%s" % (c.cls, c.kind),
                              "%s gives %s, the property demands %s" % (c.descr, obs_txt, show_obs(c.expect)), replay)
            # -- the model --------------------------------------------------------------------------
            if c.model_cmd and c.model_cmd in mans and c.cls not in first_model_diff:
                ans = mans[c.model_cmd]
                pred = c.model_map(ans)
                ok = True
                if pred is None:
                    ok = True
                elif pred == ("foreign",):
                    ok = True               # the model says memory outside the object is read: any outcome
                else:
                    ok = (obs_lines == pred)
                    if ok and ans.startswith("oob "):
                        d = int(ans.split()[1])
                        ds = [int(m.group(2)) for m in (DIM_RE.search(e) for e in errs) if m]
                        if (d >= 0 and ds != [d]) or (d < 0 and ds):
                            ok = False
                            pred = pred + ["(reported dimension %d)" % d]
                            obs_txt += " (reported dimensions %s)" % ds
                if not ok:
                    first_model_diff[c.cls] = {"case": c.descr, "call": c.expr, "model": ans, "model_lines": pred,
                                               "observed": obs_txt, "program": p.source(only=c)}
            if crashed:
                break

    for cls, d in first_model_diff.items():
        ctx.correspondence_broken("handler:" + cls, d)

    # front end
    for n, s, want_ok in COMPILE_PROBES:
        r = results.get("cc_" + n)
        ncalls += 1
        if r is None:
            continue
        lines, outcome, status = r
        ok = outcome is not None and outcome.startswith("COMPILED")
        if ok != want_ok:
            ctx.violation("tcheckarr:" + n, "front end %s the program %r" % ("accepts" if ok else "rejects", s),
                          {"program": s, "expected": "accepted" if want_ok else "rejected", "observed": outcome,
                           "output": lines[:6]})

    ctx.count(evaluations=ncalls, nontrivial=sum(d["calls"] for d in per_class.values()))
    ctx.coverage.setdefault("parts", {})["probes"] = {
        "programs": len(allprogs), "calls": ncalls, "per_class": per_class,
        "exception_raised_for": sorted("%s:%s" % x for x in raised)}
    for p in progs[:2]:
        c = p.calls[len(p.calls) // 2]
        ctx.sample({"probe": c.descr, "call": c.expr, "expected": show_obs(c.expect), "model": mans.get(c.model_cmd)})


def run(ctx):
    t0 = time.time()
    ctx.proofs()
    t1 = time.time()
    lib = common.repobuild("asan")
    ok, log = common.ocaml_build("index")
    if not ok or not os.path.exists(RUN):
        ctx.correspondence_broken("extraction-build", log[-3000:])
        return
    drv = common.cc_driver("indexdrive", ["index/indexdrive.c"], lib)
    nevrun = common.cc_driver("nevrun", ["common/nevrun.c"], lib)
    t2 = time.time()
    run_direct(ctx, drv)
    t3 = time.time()
    run_probes(ctx, nevrun)
    t4 = time.time()
    exctab.run_exctab(ctx, lib=lib, drv=drv)
    t5 = time.time()
    ctx.coverage["rule"] = (
        "direct calls: exhaustive small domain + seeded 32-bit corners, real function vs extracted model vs python "
        "oracle; probe programs: every index tuple in [-1,extent] per class, outcome (value|exception|sanitizer) vs "
        "model prediction vs python oracle; non-trivial = the call reaches the handler under test")
    ctx.notes["timing_s"] = {"proofs": round(t1 - t0, 1), "builds": round(t2 - t1, 1), "direct": round(t3 - t2, 1),
                             "probes": round(t4 - t3, 1), "exctab": round(t5 - t4, 1)}
