(* VM/ApiProofs.v — bookkeeping theorems over ALL histories of the embedding-API model VM/Api.v
   (property C15).  The instruction-level VM is the Section variable triple (gdepth, init, exec);
   every theorem holds for every such triple.  No axioms. *)
From Coq Require Import ZArith List Bool Lia.
From NV Require Import VM.Api.
Import ListNotations.
Local Open Scope Z_scope.

Section ApiProofs.
  Variables Module Entry Args G Value Exc : Type.
  Variable gdepth : Module -> Z.
  Variable init : Module -> init_outcome G * Z.
  Variable exec : Module -> Entry -> Args -> G -> outcome Value Exc * G * Z.
  Variable gnone : G.

  Notation run_stub := (Api.run_stub Module Entry Args G Value Exc exec).
  Notation execute := (Api.execute Module Entry Args G Value Exc gdepth init exec gnone).
  Notation run_calls := (Api.run_calls Module Entry Args G Value Exc gdepth init exec gnone).
  Notation states := (Api.states Module Entry Args G Value Exc gdepth init exec gnone).
  Notation api_step := (Api.api_step Module Entry Args G Value Exc gdepth init exec gnone).
  Notation died := (Api.died Value Exc).
  Notation result := (Api.result Value Exc).

  Definition result_of (o : outcome Value Exc) : result :=
    match o with Halted x => RHalt x | Unhandled ex => RUnhandled ex | Aborted _ => RAborted end.

  Definition is_halt (r : result) : Prop := exists x, r = RHalt x.

  (* ---------------------------------------------------------------------------------------- *)
  (* one call: what happens to sp, initialized, stack_size                                     *)
  (* ---------------------------------------------------------------------------------------- *)
  Lemma run_stub_spec : forall pol v m e a r pk v',
    run_stub pol v m e a = (r, pk, v') ->
    pk = sp v + snd (exec m e a (globals v)) /\
    ((r = RDied /\ v' = v /\ stack_size v <= pk) \/
     (r = result_of (fst (fst (exec m e a (globals v)))) /\ pk < stack_size v /\
      initialized v' = true /\ stack_size v' = stack_size v /\
      globals v' = snd (fst (exec m e a (globals v))) /\
      sp v' = match fst (fst (exec m e a (globals v))) with
              | Halted _ => if pop_at_halt pol then sp v else sp v + 1
              | Unhandled _ => if restore_on_error pol then sp v else sp v + 1
              | Aborted res => if restore_on_error pol then sp v else sp v + res
              end)).
  Proof.
    intros pol v m e a r pk v'. unfold Api.run_stub, over.
    destruct (exec m e a (globals v)) as [[o g'] pk0]. simpl.
    destruct (stack_size v <=? sp v + pk0) eqn:Hov.
    - intros H; inversion H; subst. split; [reflexivity|]. left.
      apply Z.leb_le in Hov. auto.
    - apply Z.leb_gt in Hov.
      destruct o; intros H; inversion H; subst; (split; [reflexivity|]); right; simpl; auto 10.
  Qed.

  Lemma result_of_not_died : forall o, result_of o <> RDied.
  Proof. destruct o; discriminate. Qed.

  Lemma result_of_not_initfailed : forall o, result_of o <> RInitFailed.
  Proof. destruct o; discriminate. Qed.

  (* **execute_stack_neutral**, per call: under the repaired policy an execute on an initialised
     VM leaves sp exactly where it was — whatever the module, the entry, the arguments, the
     globals, whatever the outcome (result, unhandled exception, failed assert, even death). *)
  Theorem execute_stack_neutral_call : forall pol v m e a r pk v',
    pop_at_halt pol = true -> restore_on_error pol = true ->
    initialized v = true ->
    execute pol v m e a = (r, pk, v') ->
    sp v' = sp v /\ initialized v' = true /\ stack_size v' = stack_size v.
  Proof.
    intros pol v m e a r pk v' Hp Hr Hi H. unfold Api.execute in H. rewrite Hi in H.
    apply run_stub_spec in H. destruct H as [_ [[_ [-> _]] | [_ [_ [Hi' [Hss [_ Hsp]]]]]]]; auto.
    rewrite Hp, Hr in Hsp. destruct (fst (fst (exec m e a (globals v)))); auto.
  Qed.

  (* the part that the one-line fix (pop at HALT) alone buys: calls that return a result *)
  Theorem halting_call_stack_neutral : forall pol v m e a x pk v',
    pop_at_halt pol = true ->
    initialized v = true ->
    execute pol v m e a = (RHalt x, pk, v') ->
    sp v' = sp v.
  Proof.
    intros pol v m e a x pk v' Hp Hi H. unfold Api.execute in H. rewrite Hi in H.
    apply run_stub_spec in H. destruct H as [_ [[Hd _] | [Hr [_ [_ [_ [_ Hsp]]]]]]]; [discriminate|].
    rewrite Hp in Hsp. destruct (fst (fst (exec m e a (globals v)))); simpl in Hr; try discriminate; auto.
  Qed.

  (* the pinned tree: every call that returns a result leaks exactly one slot *)
  Theorem no_pop_leaks_one_slot_per_call : forall pol v m e a x pk v',
    pop_at_halt pol = false ->
    initialized v = true ->
    execute pol v m e a = (RHalt x, pk, v') ->
    sp v' = sp v + 1.
  Proof.
    intros pol v m e a x pk v' Hp Hi H. unfold Api.execute in H. rewrite Hi in H.
    apply run_stub_spec in H. destruct H as [_ [[Hd _] | [Hr [_ [_ [_ [_ Hsp]]]]]]]; [discriminate|].
    rewrite Hp in Hsp. destruct (fst (fst (exec m e a (globals v)))); simpl in Hr; try discriminate; auto.
  Qed.

  (* without restore_on_error a call ending in an unhandled exception leaks one slot too *)
  Theorem no_restore_leaks_after_unhandled : forall pol v m e a ex pk v',
    restore_on_error pol = false ->
    initialized v = true ->
    execute pol v m e a = (RUnhandled ex, pk, v') ->
    sp v' = sp v + 1.
  Proof.
    intros pol v m e a ex pk v' Hp Hi H. unfold Api.execute in H. rewrite Hi in H.
    apply run_stub_spec in H. destruct H as [_ [[Hd _] | [Hr [_ [_ [_ [_ Hsp]]]]]]]; [discriminate|].
    rewrite Hp in Hsp. destruct (fst (fst (exec m e a (globals v)))); simpl in Hr; try discriminate; auto.
  Qed.

  (* ---------------------------------------------------------------------------------------- *)
  (* all histories: the invariant "an initialised VM sits at base m, a new one at -1"          *)
  (* ---------------------------------------------------------------------------------------- *)
  Definition at_base (ss : Z) (m : Module) (v : vm G) : Prop :=
    stack_size v = ss /\ sp v = (if initialized v then base gdepth m else -1).

  Lemma vm_new_at_base : forall ss m, at_base ss m (vm_new gnone ss).
  Proof. intros; split; reflexivity. Qed.

  (* one step, with a side condition `good r` on the outcome that lets the same proof serve the
     repaired policy (good = anything) and the pop-only policy (good = the call halted) *)
  Lemma execute_at_base_gen : forall pol ss m v e a r pk v',
    pop_at_halt pol = true ->
    (restore_on_error pol = true \/ is_halt r) ->
    at_base ss m v ->
    execute pol v m e a = (r, pk, v') ->
    at_base ss m v'.
  Proof.
    intros pol ss m v e a r pk v' Hp Hgood [Hss Hsp] H. unfold Api.execute in H.
    destruct (initialized v) eqn:Hi.
    - apply run_stub_spec in H.
      destruct H as [_ [[_ [-> _]] | [Hr [_ [Hi' [Hss' [_ Hsp']]]]]]].
      + split; auto. rewrite Hi; auto.
      + split; [congruence|]. rewrite Hi'. rewrite Hsp', Hp.
        destruct (fst (fst (exec m e a (globals v)))) eqn:Ho; simpl in Hr; auto;
          (destruct Hgood as [Hre | [x Hx]]; [rewrite Hre; auto | congruence]).
    - destruct (init m) as [io pk0]. destruct (over v (sp v) pk0).
      + inversion H; subst. split; auto. rewrite Hi; auto.
      + destruct io as [g | res].
        * destruct (run_stub pol (mkvm true (sp v + gdepth m) g (stack_size v)) m e a)
            as [[r2 pk2] v2] eqn:Hrs.
          assert (Hv2 : at_base ss m v2 \/ (restore_on_error pol = true /\ returns Value Exc r2 = false)).
          { apply run_stub_spec in Hrs. simpl in Hrs.
            destruct Hrs as [_ [[_ [-> _]] | [Hr [_ [Hi' [Hss' [_ Hsp']]]]]]].
            - left. split; simpl; auto. unfold base. lia.
            - destruct (restore_on_error pol) eqn:Hre.
              + destruct (returns Value Exc r2) eqn:Hret; [|right; auto].
                left. split; [congruence|]. rewrite Hi'. rewrite Hsp', Hp. unfold base.
                destruct (fst (fst (exec m e a g))) eqn:Ho; simpl in Hr; subst r2; simpl in Hret;
                  try discriminate; lia.
              + left. split; [congruence|]. rewrite Hi'. rewrite Hsp', Hp. unfold base.
                assert (Hrr : r2 = r) by (inversion H; auto).
                rewrite Hrr in Hr.
                destruct Hgood as [Hre' | [x Hx]]; [discriminate|].
                destruct (fst (fst (exec m e a g))) eqn:Ho; simpl in Hr; try congruence; lia. }
          inversion H; subst r2. clear H.
          destruct Hv2 as [Hv2 | [Hre Hret]].
          -- destruct (restore_on_error pol); [destruct (returns Value Exc r)|]; auto.
             split; auto. rewrite Hi; auto.
          -- rewrite Hre, Hret. split; auto. rewrite Hi; auto.
        * inversion H; subst. destruct Hgood as [Hre | [x Hx]]; [|discriminate].
          rewrite Hre. split; auto. rewrite Hi; auto.
  Qed.

  Lemma execute_at_base : forall pol ss m v e a r pk v',
    pop_at_halt pol = true -> restore_on_error pol = true ->
    at_base ss m v -> execute pol v m e a = (r, pk, v') -> at_base ss m v'.
  Proof. intros; eapply execute_at_base_gen; eauto. Qed.

  Lemma states_at_base : forall pol ss m cs v,
    pop_at_halt pol = true -> restore_on_error pol = true ->
    at_base ss m v -> Forall (at_base ss m) (states pol v m cs).
  Proof.
    intros pol ss m cs. induction cs as [| [e a] cs IH]; intros v Hp Hr Hv; simpl.
    - constructor; auto.
    - destruct (execute pol v m e a) as [[r pk] v'] eqn:He.
      assert (Hv' : at_base ss m v') by (eapply execute_at_base; eauto).
      destruct r; try (constructor; [auto | apply IH; auto]).
      constructor; auto.
  Qed.

  (* **execute_stack_neutral**: for every stack size, module and finite sequence of calls (any
     mix of entries and arguments, any outcomes) on a new VM, every state the VM goes through has
     sp = -1 before the global initialisation and sp = -1 + gdepth m ever after: sp after each
     execute on the initialised VM = sp before it. *)
  Theorem execute_stack_neutral : forall pol ss m cs,
    pop_at_halt pol = true -> restore_on_error pol = true ->
    Forall (fun v => stack_size v = ss /\ sp v = (if initialized v then base gdepth m else -1))
           (states pol (vm_new gnone ss) m cs).
  Proof. intros. apply states_at_base; auto. apply vm_new_at_base. Qed.

  Lemma run_calls_at_base_gen : forall pol ss m cs v rs v',
    pop_at_halt pol = true ->
    (restore_on_error pol = true \/ Forall (fun rp => is_halt (fst rp) \/ fst rp = RDied) rs) ->
    at_base ss m v -> run_calls pol v m cs = (rs, v') -> at_base ss m v'.
  Proof.
    intros pol ss m cs. induction cs as [| [e a] cs IH]; intros v rs v' Hp Hgood Hv H; simpl in H.
    - inversion H; subst; auto.
    - destruct (execute pol v m e a) as [[r pk] v1] eqn:He.
      assert (Hstep : (restore_on_error pol = true \/ is_halt r) \/ r = RDied).
      { destruct Hgood as [Hre | Hall]; [left; left; auto|].
        destruct r; try (right; reflexivity); left; right;
          destruct (run_calls pol v1 m cs) as [rs1 v2]; inversion H; subst rs;
          inversion Hall as [| ? ? [Hh | Hd] _]; simpl in *; first [assumption | discriminate]. }
      destruct Hstep as [Hstep | Hd].
      + assert (Hv1 : at_base ss m v1) by (eapply execute_at_base_gen; eauto).
        destruct r;
          try (destruct (run_calls pol v1 m cs) as [rs1 v2] eqn:Hrc; inversion H; subst rs v2;
               apply (IH v1 rs1 v' Hp);
               [ destruct Hgood as [Hre | Hall];
                 [left; exact Hre | right; inversion Hall; assumption]
               | exact Hv1 | exact Hrc ]).
        inversion H; subst; auto.
      + subst r. inversion H; subst.
        unfold Api.execute in He. destruct (initialized v) eqn:Hi.
        * apply run_stub_spec in He.
          destruct He as [_ [[_ [-> _]] | [Hr _]]]; auto.
          exfalso; eapply result_of_not_died; eauto.
        * destruct (init m) as [io pk0]. destruct (over v (sp v) pk0).
          -- inversion He; subst; auto.
          -- destruct io as [g | res].
             ++ destruct (run_stub pol (mkvm true (sp v + gdepth m) g (stack_size v)) m e a)
                  as [[r2 pk2] v2] eqn:Hrs.
                inversion He; subst r2. apply run_stub_spec in Hrs. simpl in Hrs.
                destruct Hrs as [_ [[_ [-> _]] | [Hr _]]].
                ** destruct Hv as [Hss Hsp]. rewrite Hi in Hsp.
                   destruct (restore_on_error pol); simpl; split; simpl; auto; unfold base; lia.
                ** exfalso; eapply result_of_not_died; eauto.
             ++ inversion He.
  Qed.

  (* what the one-line fix alone gives over histories: as long as every call returns a result
     (or kills the process) the VM stays at its base *)
  Theorem halting_history_stack_neutral : forall pol ss m cs rs v',
    pop_at_halt pol = true ->
    run_calls pol (vm_new gnone ss) m cs = (rs, v') ->
    Forall (fun rp => is_halt (fst rp) \/ fst rp = RDied) rs ->
    stack_size v' = ss /\ sp v' = (if initialized v' then base gdepth m else -1).
  Proof.
    intros pol ss m cs rs v' Hp H Hall.
    exact (run_calls_at_base_gen pol ss m cs (vm_new gnone ss) rs v' Hp (or_intror Hall)
             (vm_new_at_base ss m) H).
  Qed.

  (* under the repaired policy an initialised reachable VM IS the fresh VM primed with its globals *)
  Theorem reachable_is_primed : forall pol ss m cs rs v,
    pop_at_halt pol = true -> restore_on_error pol = true ->
    run_calls pol (vm_new gnone ss) m cs = (rs, v) ->
    initialized v = true ->
    v = primed gdepth ss m (globals v).
  Proof.
    intros pol ss m cs rs v Hp Hr H Hi.
    assert (Hb : at_base ss m v)
      by (apply (run_calls_at_base_gen pol ss m cs (vm_new gnone ss) rs v Hp (or_introl Hr)
                   (vm_new_at_base ss m) H)).
    destruct Hb as [Hss Hsp]. rewrite Hi in Hsp.
    destruct v as [i s g z]; simpl in *. unfold primed. congruence.
  Qed.

  (* execute_uses_no_more_stack_than_first: two VMs of the same program and size, reached by ANY
     two call histories (e.g. a short priming one and a long one), that hold the same globals use
     the same amount of stack for the same call: the k-th call's peak <= the first such call's. *)
  Theorem execute_uses_no_more_stack_than_first : forall pol ss m cs1 cs2 rs1 rs2 v1 v2 e a,
    pop_at_halt pol = true -> restore_on_error pol = true ->
    run_calls pol (vm_new gnone ss) m cs1 = (rs1, v1) ->
    run_calls pol (vm_new gnone ss) m cs2 = (rs2, v2) ->
    initialized v1 = true -> initialized v2 = true ->
    globals v1 = globals v2 ->
    snd (fst (execute pol v1 m e a)) <= snd (fst (execute pol v2 m e a)).
  Proof.
    intros pol ss m cs1 cs2 rs1 rs2 v1 v2 e a Hp Hr H1 H2 Hi1 Hi2 Hg.
    rewrite (reachable_is_primed pol ss m cs1 rs1 v1 Hp Hr H1 Hi1).
    rewrite (reachable_is_primed pol ss m cs2 rs2 v2 Hp Hr H2 Hi2).
    rewrite Hg. apply Z.le_refl.
  Qed.

  (* the first call on a new VM is the global initialisation followed by a call on the primed VM *)
  Theorem first_call_is_init_then_primed_call : forall pol ss m e a g pk0,
    init m = (InitOk g, pk0) -> over (vm_new gnone ss) (-1) pk0 = false ->
    execute pol (vm_new gnone ss) m e a =
      (let '(r, pk, v') := run_stub pol (primed gdepth ss m g) m e a in
       (r, Z.max (-1 + pk0) pk,
        if restore_on_error pol then (if returns Value Exc r then v' else vm_new gnone ss) else v')).
  Proof.
    intros pol ss m e a g pk0 Hin Hov. unfold Api.execute. simpl. rewrite Hin. simpl in Hov |- *.
    rewrite Hov. unfold primed, base. reflexivity.
  Qed.

  (* ---------------------------------------------------------------------------------------- *)
  (* repeatability                                                                              *)
  (* ---------------------------------------------------------------------------------------- *)
  Definition same_view (v1 v2 : vm G) : Prop :=
    initialized v1 = initialized v2 /\ globals v1 = globals v2.

  (* the k-th call's outcome is a function of module, entry, arguments and the globals left by
     the earlier calls — and of nothing else (not of sp, not of the stack size), unless the process
     dies of stack exhaustion *)
  Theorem execute_outcome_function_of_globals : forall pol v m e a r pk v',
    initialized v = true ->
    execute pol v m e a = (r, pk, v') ->
    r <> RDied ->
    r = result_of (fst (fst (exec m e a (globals v)))) /\
    globals v' = snd (fst (exec m e a (globals v))).
  Proof.
    intros pol v m e a r pk v' Hi H Hnd. unfold Api.execute in H. rewrite Hi in H.
    apply run_stub_spec in H. destruct H as [_ [[Hd _] | [Hr [_ [_ [_ [Hg _]]]]]]]; [contradiction|auto].
  Qed.

  Lemma execute_same_view : forall pol v1 v2 m e a r1 pk1 v1' r2 pk2 v2',
    same_view v1 v2 ->
    execute pol v1 m e a = (r1, pk1, v1') ->
    execute pol v2 m e a = (r2, pk2, v2') ->
    r1 = RDied \/ r2 = RDied \/ (r1 = r2 /\ same_view v1' v2').
  Proof.
    intros pol v1 v2 m e a r1 pk1 v1' r2 pk2 v2' [Hi Hg] H1 H2.
    unfold Api.execute in H1, H2. rewrite <- Hi in H2.
    destruct (initialized v1) eqn:Hi1.
    - apply run_stub_spec in H1. apply run_stub_spec in H2. rewrite <- Hg in H2.
      destruct H1 as [_ [[-> _] | [Hr1 [_ [Hi1' [_ [Hg1 _]]]]]]]; auto.
      destruct H2 as [_ [[-> _] | [Hr2 [_ [Hi2' [_ [Hg2 _]]]]]]]; auto.
      right; right. split; [congruence|]. split; congruence.
    - destruct (init m) as [io pk0].
      destruct (over v1 (sp v1) pk0); [inversion H1; auto|].
      destruct (over v2 (sp v2) pk0); [inversion H2; auto|].
      destruct io as [g | res].
      + destruct (run_stub pol (mkvm true (sp v1 + gdepth m) g (stack_size v1)) m e a)
          as [[ra pka] va] eqn:Ha.
        destruct (run_stub pol (mkvm true (sp v2 + gdepth m) g (stack_size v2)) m e a)
          as [[rb pkb] vb] eqn:Hb.
        inversion H1; subst ra. inversion H2; subst rb. clear H1 H2.
        apply run_stub_spec in Ha. apply run_stub_spec in Hb. simpl in Ha, Hb.
        destruct Ha as [_ [[-> _] | [Hr1 [_ [Hi1' [_ [Hg1 _]]]]]]]; auto.
        destruct Hb as [_ [[-> _] | [Hr2 [_ [Hi2' [_ [Hg2 _]]]]]]]; auto.
        right; right. split; [congruence|].
        rewrite Hr2, <- Hr1.
        destruct (restore_on_error pol); [destruct (returns Value Exc r1)|];
          split; simpl; congruence.
      + inversion H1; inversion H2; subst. right; right. split; auto.
        destruct (restore_on_error pol); split; simpl; auto; congruence.
  Qed.

  (* **execute_repeatable**: two VMs that agree on (initialized, globals) — e.g. two new VMs, or
     an old VM and a fresh one primed with the same global-variable effects; sp and stack size may
     differ — given the same sequence of calls agree call by call on every result and end with the
     same globals, as long as neither runs out of stack. *)
  Theorem execute_repeatable : forall pol m cs v1 v2 rs1 rs2 v1' v2',
    same_view v1 v2 ->
    run_calls pol v1 m cs = (rs1, v1') ->
    run_calls pol v2 m cs = (rs2, v2') ->
    died rs1 = false -> died rs2 = false ->
    map fst rs1 = map fst rs2 /\ same_view v1' v2'.
  Proof.
    intros pol m cs. induction cs as [| [e a] cs IH]; intros v1 v2 rs1 rs2 v1' v2' Hv H1 H2 Hd1 Hd2;
      simpl in H1, H2.
    - inversion H1; inversion H2; subst; auto.
    - destruct (execute pol v1 m e a) as [[r1 pk1] w1] eqn:He1.
      destruct (execute pol v2 m e a) as [[r2 pk2] w2] eqn:He2.
      destruct (execute_same_view _ _ _ _ _ _ _ _ _ _ _ _ Hv He1 He2) as [-> | [-> | [<- Hw]]].
      + inversion H1; subst. discriminate Hd1.
      + inversion H2; subst. discriminate Hd2.
      + destruct r1;
          try (destruct (run_calls pol w1 m cs) as [ra wa] eqn:Ha;
               destruct (run_calls pol w2 m cs) as [rb wb] eqn:Hb;
               inversion H1; inversion H2; subst;
               simpl in Hd1, Hd2;
               destruct (IH _ _ _ _ _ _ Hw Ha Hb Hd1 Hd2) as [Hm Hs];
               split; [simpl; congruence | auto]).
        inversion H1; subst; discriminate Hd1.
  Qed.

  (* ---------------------------------------------------------------------------------------- *)
  (* several VMs alive at once                                                                  *)
  (* ---------------------------------------------------------------------------------------- *)
  (* **vms_independent**: an operation on one VM record changes no other record *)
  Theorem vms_independent : forall pol p o k,
    k <> op_handle Module Entry Args o ->
    fst (api_step pol p o) k = p k.
  Proof.
    intros pol p o k Hk. destruct o as [h ss | h m e a | h]; simpl in *.
    - destruct (p h); simpl; auto. unfold pool_set. apply Nat.eqb_neq in Hk. rewrite Hk; auto.
    - destruct (p h); simpl; auto. destruct (execute pol v m e a) as [[r pk] v']. simpl.
      unfold pool_set. apply Nat.eqb_neq in Hk. rewrite Hk; auto.
    - destruct (p h); simpl; auto. unfold pool_set. apply Nat.eqb_neq in Hk. rewrite Hk; auto.
  Qed.

  Lemma api_step_local : forall pol p q o,
    p (op_handle Module Entry Args o) = q (op_handle Module Entry Args o) ->
    snd (api_step pol p o) = snd (api_step pol q o) /\
    fst (api_step pol p o) (op_handle Module Entry Args o) =
    fst (api_step pol q o) (op_handle Module Entry Args o).
  Proof.
    intros pol p q o H. destruct o as [h ss | h m e a | h]; simpl in *; rewrite <- H.
    - destruct (p h) eqn:Hph; simpl; unfold pool_set; rewrite ?Nat.eqb_refl; split; congruence.
    - destruct (p h) eqn:Hph; simpl; [destruct (execute pol v m e a) as [[r pk] v']; simpl|];
        unfold pool_set; rewrite ?Nat.eqb_refl; split; congruence.
    - destruct (p h) eqn:Hph; simpl; unfold pool_set; rewrite ?Nat.eqb_refl; split; congruence.
  Qed.

  (* the product machine's projections commute: operations on different VMs can be swapped without
     changing any record or any observation *)
  Theorem vms_commute : forall pol p o1 o2,
    op_handle Module Entry Args o1 <> op_handle Module Entry Args o2 ->
    snd (api_step pol (fst (api_step pol p o1)) o2) = snd (api_step pol p o2) /\
    snd (api_step pol (fst (api_step pol p o2)) o1) = snd (api_step pol p o1) /\
    forall k, fst (api_step pol (fst (api_step pol p o1)) o2) k =
              fst (api_step pol (fst (api_step pol p o2)) o1) k.
  Proof.
    intros pol p o1 o2 Hne.
    assert (H12 : fst (api_step pol p o1) (op_handle Module Entry Args o2) = p (op_handle Module Entry Args o2))
      by (apply vms_independent; auto).
    assert (H21 : fst (api_step pol p o2) (op_handle Module Entry Args o1) = p (op_handle Module Entry Args o1))
      by (apply vms_independent; auto).
    destruct (api_step_local pol _ _ o2 H12) as [Hs2 Hf2].
    destruct (api_step_local pol _ _ o1 H21) as [Hs1 Hf1].
    split; [auto | split; [auto|]].
    intros k.
    destruct (Nat.eq_dec k (op_handle Module Entry Args o2)) as [-> | Hk2].
    - rewrite Hf2. symmetry. apply vms_independent; auto.
    - destruct (Nat.eq_dec k (op_handle Module Entry Args o1)) as [-> | Hk1].
      + rewrite Hf1. apply vms_independent; auto.
      + rewrite !vms_independent; auto.
  Qed.
End ApiProofs.

(* -------------------------------------------------------------------------------------------- *)
(* refutations for the policies that do not restore sp (concrete instance of VM/Api.v, numbers  *)
(* as measured on the pinned tree with corpus/C15/probe.nev)                                    *)
(* -------------------------------------------------------------------------------------------- *)

(* pinned tree (no pop at HALT): a history of two calls of `main`, both returning a result, on a
   200-slot stack; the second call starts on an initialised VM with sp = 32 and ends with sp = 33 *)
Theorem execute_stack_neutral_refuted_pinned :
  exists (ss : Z) (cs : list (toy_entry * unit)) (v v' : vm nat) (r : result Z unit) (pk : Z),
    nth_error (toy_states pinned_policy ss cs) 1 = Some v /\
    initialized v = true /\
    toy_execute pinned_policy v tt TMain tt = (r, pk, v') /\
    sp v' <> sp v.
Proof.
  exists 200, [(TMain, tt); (TMain, tt)], (mkvm true 32 1%nat 200), (mkvm true 33 2%nat 200), (RHalt 1), 40.
  vm_compute. repeat split; try reflexivity. discriminate.
Qed.

(* ... and 300 such calls on the default 200-slot stack: the 162nd kills the process; with the
   result slot popped all 300 return *)
Theorem pinned_policy_dies_at_call_162 :
  death_call (fst (toy_run pinned_policy 200 (repeat (TMain, tt) 300))) = Some 162%nat /\
  death_call (fst (toy_run popfix_policy 200 (repeat (TMain, tt) 300))) = None /\
  death_call (fst (toy_run repaired_policy 200 (repeat (TMain, tt) 300))) = None.
Proof. vm_compute. auto. Qed.

(* pop-at-HALT only: a call that ends in an unhandled exception still leaves its slot behind *)
Theorem execute_stack_neutral_refuted_popfix :
  exists (ss : Z) (cs : list (toy_entry * unit)) (v v' : vm nat) (r : result Z unit) (pk : Z),
    nth_error (toy_states popfix_policy ss cs) 1 = Some v /\
    initialized v = true /\
    toy_execute popfix_policy v tt TThrow tt = (r, pk, v') /\
    sp v' <> sp v.
Proof.
  exists 200, [(TMain, tt); (TThrow, tt)], (mkvm true 31 1%nat 200), (mkvm true 32 2%nat 200), (RUnhandled tt), 40.
  vm_compute. repeat split; try reflexivity. discriminate.
Qed.

(* the hypotheses of the positive theorems are satisfiable and the conclusions non-trivial *)
Example repaired_history_stays_at_base :
  map (fun v => (initialized v, sp v))
      (toy_states repaired_policy 200 [(TMain, tt); (TThrow, tt); (TAssert, tt); (TMain, tt)])
  = [(false, -1); (true, 31); (true, 31); (true, 31); (true, 31)].
Proof. vm_compute. reflexivity. Qed.

Example pinned_history_climbs :
  map (fun v => (initialized v, sp v))
      (toy_states pinned_policy 200 [(TMain, tt); (TThrow, tt); (TAssert, tt); (TMain, tt)])
  = [(false, -1); (true, 32); (true, 33); (true, 46); (true, 47)].
Proof. vm_compute. reflexivity. Qed.
