(* VM/ValueVM3.v — stage 3 of VM/ValueVM.v (which stays, with the theorems proved on it, until the
   stage-3 proof closes): a VALUE-LEVEL small-step semantics of the stack VM of /repo/back/vmexec.c for
   exactly the opcodes that the code of the compiled core fragments uses (Src/Compile3.v).
   Definitions only (the theorems are in Src/CompileCorrect3*.v); `run` is executable and is
   extracted (Extract/ExtractCompile3.v) so that the harness can run it against the real VM.

   State (stage 3: frames).
     v_ip     instruction pointer (index into the module's code array)
     v_stk    the real stack from the top down to (not including) the header of the running
              activation, top first: temporaries, let/var slots, the parameters (first parameter
              nearest to the top, as `MARK; args right to left; CALL` leaves them) — and, while
              the activation prepares calls, the headers MARK pushed and the arguments above them.
              Slots are untyped words: heap addresses, and in a header the return ip and the saved
              fp (the real gc_stack is a tagged union; the tags matter to the collector only).
     v_heap   the cell table: address -> 32-bit payload (OBJECT_INT; bool is int 0/1; a function
              cell holds its code address, an (empty) environment vector holds 0).  gc_alloc_*
              returns a FRESH cell: the model allocates at `length v_heap` (the collector is
              outside this model — C04/C09 treat it).
     v_out    numbers printed so far, most recent first.
     v_fr     r_fp      the register fp, relative to v_stk: 0 = the header of the running
                        activation (it lies just below v_stk), h > 0 = the header MARK pushed when
                        v_stk had h - 5 slots (its return-ip slot is the h-th slot from the bottom)
              r_exc     machine->exception (set by a faulting handler).  MODELLING CHOICE: the real
                        register keeps the number of the last exception for ever; it is READ only by
                        PUSH_EXCEPT and UNHANDLED_EXCEPTION, which run between a dispatch and the next
                        RET, i.e. they always see the value the last raise wrote.  So that a call
                        that handled an exception leaves the modelled registers as it found them, the
                        model saves r_exc in the frame at CALL and restores it at RET (not at
                        RETHROW, which re-raises the current exception): every read sees the same
                        value as on the real machine.
              r_frames  the suspended activations, innermost first: for each its return ip, its
                        saved fp, its part of the stack (what v_stk was below the header when
                        CALL entered the callee) and r_exc at the CALL.
   The real flat stack is  v_stk ++ [5 header words] ++ below_1 ++ [5 header words] ++ below_2 …;
   `flat_len` is its length (real sp + 1), real fp = base + r_fp - 1 and real pp = base - 1 with
   base = the length of everything below v_stk.  gp (written by CALL, saved by MARK, restored by
   RET) is read only by ID_GLOBAL / COPYGLOB, which the fragments' code does not contain: not
   modelled (its header word is 0, like the line word).

   Handlers mirrored (back/vmexec.c):
     vm_execute_int            push a fresh cell holding the operand
     vm_execute_id_local       push stack[sp - (stack_level - index)]  — the SAME address
     vm_execute_op_neg_int, vm_execute_op_not_int            replace top by a fresh cell
     vm_execute_op_{add,sub,mul,lt,gt,lte,gte,eq,neq}_int,
     vm_execute_op_bin_{and,or,xor,shl,shr}_int              a = stack[sp-1], b = stack[sp];
                                                              fresh cell at sp-1; sp--
     vm_execute_op_{div,mod}_int   b == 0: running = VM_EXCEPTION, exception = DIVISION, nothing
                                   popped;  b == -1: -a resp. 0 (no idiv trap)
     vm_execute_op_ass_int     payload of stack[sp] copied into the cell stack[sp-1]; sp--
     vm_execute_jumpz          pops; ip += offset if the payload is 0   (ip already incremented:
     vm_execute_jump           target = addr + offset + 1)
     vm_execute_label/line/func_def   no effect on the modelled state
     vm_execute_slide {q,m}    q == 0: nothing; m == 0: sp -= q; else the top m slots are moved
                               down over the q slots below them
     vm_execute_mark           push pp, line, gp, fp, return ip (= the MARK's address + operand); fp = sp
     vm_execute_global_vec 0   push a fresh (empty vector) cell
     vm_execute_id_func_addr   replace it by a fresh function cell (payload: the code address of
                               function number <operand>, from x_ftab)
     vm_execute_id_func_entry  the same with the entry function's address (x_entry)
     vm_execute_push_param     box the program arguments, last first, and push them
     vm_execute_call           ip = the function's address, pp = fp, sp--: the slots above the
                               header fp points to are the callee's parameters.  With r_fp = 0
                               (no MARK since the activation was entered: a self tail call after
                               SLIDE) the activation's own header is reused.
     vm_execute_ret            result = stack[sp]; ip, fp, pp from the header at fp; the result
                               replaces the header's lowest word; sp = that slot
     vm_execute_rethrow        vm_execute_ret, then running = VM_EXCEPTION
     vm_execute_build_in       print only: prints the payload of the top, replaces it by a fresh
                               cell with the same payload
     vm_execute_clear_stack n  (first instruction of a catch clause) fp = pp, sp = fp + n: pending MARK
                               headers, temporaries and locals are dropped, the n parameters stay
     vm_execute_push_except    push a fresh cell holding machine->exception
     vm_execute_halt           the top of the stack is the program's result
     vm_execute_unhandled_exception   the program ends with machine->exception
   The loop of vm_execute: after a handler that set VM_EXCEPTION, ip = exception_tab_search(ip-1)
   where ip-1 is the address of the instruction (for RETHROW: one less than the restored return
   ip, i.e. the CALL); `hsearch` is the table lookup (greatest block_addr <= address).
   vm_check_stack (exit(1) when sp reaches the stack size) is NOT modelled: the stack is unbounded
   here; `flat_len` is what the real bound applies to, the harness compares its peak with the real
   VM's peak sp.  int arithmetic is 32-bit two's complement (`wrap32` of Src/Eval.v); the shift
   handlers use the count modulo 32 (x86 `shl/sar`; C leaves other counts undefined).

   No axioms. *)
From Coq Require Import ZArith List Bool Lia.
From NV Require Import Gen.Opcodes Verifier.Effect Src.Syntax Src.Eval.
Import ListNotations.
Local Open Scope Z_scope.

Record frame := { f_ret : nat; f_fp : nat; f_below : list nat; f_exc : option exn }.

Record fregs := { r_fp : nat; r_exc : option exn; r_frames : list frame }.

Record vstate := {
  v_ip : nat;
  v_stk : list nat;
  v_heap : list Z;
  v_out : list Z;
  v_fr : fregs
}.

(* what the VM needs besides the code array: the exception table (sorted by block address), the
   address of the entry function (prog->entry_addr), the program arguments, and the address of
   every function by index: the model runs the code in the RELATIVE form Src/Compile.v produces
   and links on the fly — MARK's operand is the distance to its return LABEL, ID_FUNC_ADDR's
   operand the index of the function; Compile.link does the same statically and the tie compares
   the linked image with the real module *)
Record xinfo := { x_tab : list (nat * nat); x_entry : nat; x_args : list Z; x_ftab : list nat }.

Inductive sres :=
| SNext (s : vstate)
| SExc (e : exn) (s : vstate)       (* UNHANDLED_EXCEPTION *)
| SRet (a : nat) (s : vstate)       (* HALT: a = the result slot *)
| SStuck.                           (* outside the modelled behaviour *)

Definition b2z (b : bool) : Z := if b then 1 else 0.

Inductive bres := BVal (z : Z) | BDivZero.

(* the binary int handlers: a = stack[sp-1], b = stack[sp] *)
Definition vm_binop (o : opcode) (a b : Z) : option bres :=
  match o with
  | BYTECODE_OP_ADD_INT => Some (BVal (wrap32 (a + b)))
  | BYTECODE_OP_SUB_INT => Some (BVal (wrap32 (a - b)))
  | BYTECODE_OP_MUL_INT => Some (BVal (wrap32 (a * b)))
  | BYTECODE_OP_DIV_INT =>
      Some (if b =? 0 then BDivZero
            else BVal (if b =? -1 then wrap32 (- a) else wrap32 (Z.quot a b)))
  | BYTECODE_OP_MOD_INT =>
      Some (if b =? 0 then BDivZero
            else BVal (if b =? -1 then 0 else wrap32 (Z.rem a b)))
  | BYTECODE_OP_LT_INT => Some (BVal (b2z (a <? b)))
  | BYTECODE_OP_GT_INT => Some (BVal (b2z (b <? a)))
  | BYTECODE_OP_LTE_INT => Some (BVal (b2z (a <=? b)))
  | BYTECODE_OP_GTE_INT => Some (BVal (b2z (b <=? a)))
  | BYTECODE_OP_EQ_INT => Some (BVal (b2z (a =? b)))
  | BYTECODE_OP_NEQ_INT => Some (BVal (b2z (negb (a =? b))))
  | BYTECODE_OP_BIN_AND_INT => Some (BVal (wrap32 (Z.land a b)))
  | BYTECODE_OP_BIN_OR_INT => Some (BVal (wrap32 (Z.lor a b)))
  | BYTECODE_OP_BIN_XOR_INT => Some (BVal (wrap32 (Z.lxor a b)))
  | BYTECODE_OP_BIN_SHL_INT => Some (BVal (wrap32 (Z.shiftl a (b mod 32))))
  | BYTECODE_OP_BIN_SHR_INT => Some (BVal (wrap32 (Z.shiftr a (b mod 32))))
  | _ => None
  end.

Definition vm_unop (o : opcode) (a : Z) : option Z :=
  match o with
  | BYTECODE_OP_NEG_INT => Some (wrap32 (- a))
  | BYTECODE_OP_NOT_INT => Some (b2z (a =? 0))
  | _ => None
  end.

Definition jump_target (ip : nat) (off : Z) : option nat :=
  let t := Z.of_nat ip + 1 + off in
  if t <? 0 then None else Some (Z.to_nat t).

Definition mkst (ip : nat) (stk : list nat) (h : list Z) (o : list Z) (fr : fregs) : vstate :=
  {| v_ip := ip; v_stk := stk; v_heap := h; v_out := o; v_fr := fr |}.

Definition set_fp (fr : fregs) (fp : nat) : fregs :=
  {| r_fp := fp; r_exc := r_exc fr; r_frames := r_frames fr |}.
Definition set_exc (fr : fregs) (e : exn) : fregs :=
  {| r_fp := r_fp fr; r_exc := Some e; r_frames := r_frames fr |}.

(* exception_tab_search: the handler of the last entry whose block address is <= ip *)
Fixpoint hsearch (tab : list (nat * nat)) (ip : nat) (cur : nat) : nat :=
  match tab with
  | [] => cur
  | (b, hd) :: t => if Nat.leb b ip then hsearch t ip hd else cur
  end.

(* vm_execute_ret on the modelled state: Some (return ip, stack, registers) *)
(* exception numbers of include/vm.h (except_no), as machine->exception holds them *)
Definition exn_no (e : exn) : Z :=
  match e with
  | ExDivision => 1 | ExArrSize => 2 | ExIndexOob => 3 | ExInvalid => 4 | ExOverflow => 5
  | ExUnderflow => 6 | ExInexact => 7 | ExNil => 8 | ExFfi => 9
  end.

(* vm_execute_ret on the modelled state: Some (return ip, stack, registers).  The result is
   stack[sp]; with nothing above the header (a RETHROW of a function without parameters right after
   CLEAR_STACK) that is the header's top word, the return ip *)
Definition do_ret (stk : list nat) (fr : fregs) : option (nat * list nat * fregs) :=
  if Nat.eqb (r_fp fr) 0 then
    match r_frames fr with
    | f :: fs => Some (f_ret f, match stk with res :: _ => res | [] => f_ret f end :: f_below f,
                       {| r_fp := f_fp f; r_exc := f_exc f; r_frames := fs |})
    | [] => None
    end
  else
    match stk with
    | res :: _ =>
      if Nat.ltb (r_fp fr) (length stk) then
        match skipn (length stk - r_fp fr) stk with
        | ret :: fpo :: _ :: _ :: _ :: below => Some (ret, res :: below, set_fp fr fpo)
        | _ => None
        end
      else None
    | [] => None
    end.

Definition step (X : xinfo) (prog : list rinstr) (s : vstate) : sres :=
  match nth_error prog (v_ip s) with
  | None => SStuck
  | Some i =>
    let next := S (v_ip s) in
    let stk := v_stk s in
    let h := v_heap s in
    let o := v_out s in
    let fr := v_fr s in
    match r_op i with
    | BYTECODE_INT => SNext (mkst next (length h :: stk) (h ++ [r_w0 i]) o fr)
    | BYTECODE_ID_LOCAL =>
        match zn (r_w0 i - r_w1 i) with
        | Some k => match nth_error stk k with
                    | Some a => SNext (mkst next (a :: stk) h o fr)
                    | None => SStuck end
        | None => SStuck end
    | BYTECODE_OP_NEG_INT | BYTECODE_OP_NOT_INT =>
        match stk with
        | a :: rest =>
          match nth_error h a with
          | Some z => match vm_unop (r_op i) z with
                      | Some v => SNext (mkst next (length h :: rest) (h ++ [v]) o fr)
                      | None => SStuck end
          | None => SStuck end
        | _ => SStuck end
    | BYTECODE_OP_ADD_INT | BYTECODE_OP_SUB_INT | BYTECODE_OP_MUL_INT
    | BYTECODE_OP_DIV_INT | BYTECODE_OP_MOD_INT
    | BYTECODE_OP_LT_INT | BYTECODE_OP_GT_INT | BYTECODE_OP_LTE_INT | BYTECODE_OP_GTE_INT
    | BYTECODE_OP_EQ_INT | BYTECODE_OP_NEQ_INT
    | BYTECODE_OP_BIN_AND_INT | BYTECODE_OP_BIN_OR_INT | BYTECODE_OP_BIN_XOR_INT
    | BYTECODE_OP_BIN_SHL_INT | BYTECODE_OP_BIN_SHR_INT =>
        match stk with
        | ab :: aa :: rest =>
          match nth_error h aa, nth_error h ab with
          | Some za, Some zb =>
            match vm_binop (r_op i) za zb with
            | Some (BVal v) => SNext (mkst next (length h :: rest) (h ++ [v]) o fr)
            | Some BDivZero =>
                SNext (mkst (hsearch (x_tab X) (v_ip s) 0) stk h o (set_exc fr ExDivision))
            | None => SStuck end
          | _, _ => SStuck end
        | _ => SStuck end
    | BYTECODE_OP_ASS_INT =>
        match stk with
        | ar :: al :: rest =>
          match nth_error h ar with
          | Some z => if Nat.ltb al (length h)
                      then SNext (mkst next (al :: rest) (list_upd h al z) o fr)
                      else SStuck
          | None => SStuck end
        | _ => SStuck end
    | BYTECODE_JUMPZ =>
        match stk with
        | a :: rest =>
          match nth_error h a with
          | Some z =>
            if z =? 0 then
              match jump_target (v_ip s) (r_w0 i) with
              | Some t => SNext (mkst t rest h o fr)
              | None => SStuck end
            else SNext (mkst next rest h o fr)
          | None => SStuck end
        | _ => SStuck end
    | BYTECODE_JUMP =>
        match jump_target (v_ip s) (r_w0 i) with
        | Some t => SNext (mkst t stk h o fr)
        | None => SStuck end
    | BYTECODE_LABEL | BYTECODE_LINE | BYTECODE_FUNC_DEF => SNext (mkst next stk h o fr)
    | BYTECODE_SLIDE =>
        match zn (r_w0 i), zn (r_w1 i) with
        | Some q, Some m =>
          if Nat.eqb q 0 then SNext (mkst next stk h o fr)
          else if Nat.leb (q + m) (length stk)
               then SNext (mkst next (firstn m stk ++ skipn (m + q) stk) h o fr)
               else SStuck
        | _, _ => SStuck end
    | BYTECODE_MARK =>
        match zn (Z.of_nat (v_ip s) + r_w0 i) with
        | Some t => SNext (mkst next (t :: r_fp fr :: 0%nat :: 0%nat :: 0%nat :: stk) h o
                                (set_fp fr (length stk + 5)))
        | None => SStuck end
    | BYTECODE_GLOBAL_VEC =>
        if r_w0 i =? 0 then SNext (mkst next (length h :: stk) (h ++ [0]) o fr) else SStuck
    | BYTECODE_ID_FUNC_ADDR =>
        match stk with
        | _ :: rest =>
            match zn (r_w0 i) with
            | Some k => SNext (mkst next (length h :: rest)
                                    (h ++ [Z.of_nat (nth k (x_ftab X) 0%nat)]) o fr)
            | None => SStuck end
        | _ => SStuck end
    | BYTECODE_ID_FUNC_ENTRY =>
        match stk with
        | _ :: rest => SNext (mkst next (length h :: rest) (h ++ [Z.of_nat (x_entry X)]) o fr)
        | _ => SStuck end
    | BYTECODE_PUSH_PARAM =>
        let n := length (x_args X) in
        SNext (mkst next (rev (seq (length h) n) ++ stk) (h ++ rev (map wrap32 (x_args X))) o fr)
    | BYTECODE_CALL =>
        match stk with
        | f :: rest0 =>
          match nth_error h f with
          | Some fa =>
            match zn fa with
            | Some target =>
              if Nat.eqb (r_fp fr) 0 then SNext (mkst target rest0 h o fr)
              else if Nat.leb (r_fp fr) (length rest0) then
                let d := (length rest0 - r_fp fr)%nat in
                match skipn d rest0 with
                | ret :: fpo :: _ :: _ :: _ :: below =>
                    SNext (mkst target (firstn d rest0) h o
                             {| r_fp := 0; r_exc := r_exc fr;
                                r_frames := {| f_ret := ret; f_fp := fpo; f_below := below;
                                                f_exc := r_exc fr |} :: r_frames fr |})
                | _ => SStuck end
              else SStuck
            | None => SStuck end
          | None => SStuck end
        | _ => SStuck end
    | BYTECODE_RET =>
        match do_ret stk fr with
        | Some (ret, stk', fr') => SNext (mkst ret stk' h o fr')
        | None => SStuck end
    | BYTECODE_RETHROW =>
        match do_ret stk fr with
        | Some (ret, stk', fr') =>
            SNext (mkst (hsearch (x_tab X) (Nat.pred ret) 0) stk' h o
                        {| r_fp := r_fp fr'; r_exc := r_exc fr; r_frames := r_frames fr' |})
        | None => SStuck end
    | BYTECODE_BUILD_IN =>
        if r_w0 i =? lib_math_print then
          match stk with
          | a :: rest =>
            match nth_error h a with
            | Some z => SNext (mkst next (length h :: rest) (h ++ [z]) (z :: o) fr)
            | None => SStuck end
          | _ => SStuck end
        else SStuck
    | BYTECODE_CLEAR_STACK =>
        match zn (r_w0 i) with
        | Some n => if Nat.leb n (length stk)
                    then SNext (mkst next (skipn (length stk - n) stk) h o (set_fp fr 0))
                    else SStuck
        | None => SStuck end
    | BYTECODE_PUSH_EXCEPT =>
        SNext (mkst next (length h :: stk)
                    (h ++ [match r_exc fr with Some e => exn_no e | None => 0 end]) o fr)
    | BYTECODE_HALT =>
        match stk with
        | a :: _ => SRet a s
        | _ => SStuck end
    | BYTECODE_UNHANDLED_EXCEPTION =>
        match r_exc fr with
        | Some e => SExc e s
        | None => SStuck end
    | _ => SStuck
    end
  end.

(* ---- execution ------------------------------------------------------------------------ *)

Inductive star (X : xinfo) (prog : list rinstr) : vstate -> vstate -> Prop :=
| star_refl : forall s, star X prog s s
| star_step : forall s s1 s2, step X prog s = SNext s1 -> star X prog s1 s2 -> star X prog s s2.

Inductive vres :=
| VRet (payload : Z) (printed : list Z)      (* HALT: the result cell's payload *)
| VExc (e : exn) (printed : list Z)          (* UNHANDLED_EXCEPTION *)
| VFuel
| VStuck.

Fixpoint run (X : xinfo) (prog : list rinstr) (fuel : nat) (s : vstate) : vres :=
  match fuel with
  | O => VFuel
  | S k =>
    match step X prog s with
    | SNext s' => run X prog k s'
    | SExc e s' => VExc e (rev (v_out s'))
    | SRet a s' => match nth_error (v_heap s') a with
                   | Some z => VRet z (rev (v_out s'))
                   | None => VStuck end
    | SStuck => VStuck
    end
  end.

(* length of the real flat stack (= real sp + 1) *)
Definition flat_len (s : vstate) : nat :=
  length (v_stk s) + fold_right (fun f n => 5 + length (f_below f) + n)%nat 0%nat (r_frames (v_fr s)).

(* the same run, also reporting the largest flat_len seen before an instruction executes (the real
   VM's peak sp + 1 as the per-instruction hook of harness/vm/bcdump.c sees it) and the number
   of instructions executed *)
Fixpoint run_peak (X : xinfo) (prog : list rinstr) (fuel : nat) (s : vstate) (pk steps : nat)
  : vres * (nat * nat) :=
  match fuel with
  | O => (VFuel, (pk, steps))
  | S k =>
    let pk' := Nat.max pk (flat_len s) in
    match step X prog s with
    | SNext s' => run_peak X prog k s' pk' (S steps)
    | SExc e s' => (VExc e (rev (v_out s')), (pk', S steps))
    | SRet a s' => (match nth_error (v_heap s') a with
                    | Some z => VRet z (rev (v_out s'))
                    | None => VStuck end, (pk', S steps))
    | SStuck => (VStuck, (pk', steps))
    end
  end.

Definition fr0 : fregs := {| r_fp := 0; r_exc := None; r_frames := [] |}.

(* the machine at the module's entry stub, after the global prelude (which leaves `nglob` slots —
   the closures of the stdlib and of the program's top-level functions — that the fragments' code
   never reads) *)
Definition boot_state (code_entry nglob : nat) : vstate :=
  mkst code_entry (repeat 0%nat nglob) [] [] fr0.
