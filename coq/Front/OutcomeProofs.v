(* Front/OutcomeProofs.v — the outcome classifier agrees with its declarative reading (C05).
   No axioms. *)
From Coq Require Import ZArith NArith Bool List Lia.
From NV Require Import Front.Outcome.
Import ListNotations.
Local Open Scope N_scope.

Lemma prefixb_spec : forall pat s, prefixb pat s = true <-> exists r, s = pat ++ r.
Proof.
  induction pat as [|a p IH]; intros s; cbn.
  - split; [intros _; now exists s|reflexivity].
  - destruct s as [|b s].
    + split; [discriminate|intros [r H]; discriminate].
    + rewrite andb_true_iff, N.eqb_eq, IH. split.
      * intros [-> [r ->]]. now exists r.
      * intros [r H]. inversion H; subst. split; [reflexivity|now exists r].
Qed.

Lemma containsb_spec : forall pat s, containsb pat s = true <-> Contains pat s.
Proof.
  intros pat. induction s as [|c s IH].
  - cbn. rewrite orb_false_r, prefixb_spec. split.
    + intros [r H]. exists [], r. exact H.
    + intros [a [r H]]. destruct a as [|x a]; [now exists r|discriminate].
  - cbn [containsb]. rewrite orb_true_iff, IH, prefixb_spec. split.
    + intros [[r H]|[a [r H]]].
      * exists [], r. exact H.
      * exists (c :: a), r. now rewrite H.
    + intros [a [r H]]. destruct a as [|x a].
      * left. now exists r.
      * right. inversion H; subst. now exists a, r.
Qed.

Lemma skip_digits_app : forall d t, Forall (fun c => is_digit c = true) d ->
  skip_digits (d ++ t) = skip_digits t.
Proof.
  induction d as [|c d IH]; intros t H; cbn; [reflexivity|].
  inversion H; subst. rewrite H2. now apply IH.
Qed.

Lemma skip_digits_split : forall s, exists d, Forall (fun c => is_digit c = true) d /\
  s = d ++ skip_digits s.
Proof.
  induction s as [|c s [d [Hd E]]]; cbn.
  - exists []. split; [constructor|reflexivity].
  - destruct (is_digit c) eqn:Ec.
    + exists (c :: d). split; [now constructor|]. cbn. now rewrite <- E.
    + exists []. split; [constructor|reflexivity].
Qed.

Lemma skip_digits_errtag r : skip_digits (ERRTAG ++ r) = ERRTAG ++ r.
Proof. reflexivity. Qed.

Lemma err_here_spec : forall s, err_here s = true <->
  exists d r, d <> [] /\ Forall (fun c => is_digit c = true) d /\ s = COLON :: d ++ ERRTAG ++ r.
Proof.
  intros s. split.
  - destruct s as [|c r0]; [discriminate|]. unfold err_here.
    rewrite !andb_true_iff, N.eqb_eq, prefixb_spec. intros [[-> Hd] [r Hr]].
    destruct (skip_digits_split r0) as [d [Fd E]]. rewrite Hr in E.
    exists d, r. split; [|split; [exact Fd|now rewrite E at 1]].
    intros ->. cbn in E. subst r0. cbn in Hd. discriminate.
  - intros [d [r [Hne [Fd ->]]]]. unfold err_here.
    rewrite N.eqb_refl. cbn [andb].
    destruct d as [|d0 d']; [congruence|]. inversion Fd; subst. cbn [app].
    rewrite H1. cbn [andb].
    change (d0 :: d' ++ ERRTAG ++ r) with ((d0 :: d') ++ ERRTAG ++ r).
    rewrite skip_digits_app by exact Fd. rewrite skip_digits_errtag.
    apply prefixb_spec. now exists r.
Qed.

Lemma error_lineb_spec : forall s, error_lineb s = true <-> ErrLine s.
Proof.
  induction s as [|c s IH].
  - cbn. split; [discriminate|]. intros [f [d [r [_ [_ H]]]]].
    destruct f; discriminate.
  - cbn [error_lineb]. rewrite orb_true_iff, IH, err_here_spec. split.
    + intros [[d [r [Hne [Fd E]]]]|[f [d [r [Hne [Fd E]]]]]].
      * exists [], d, r. auto.
      * exists (c :: f), d, r. split; [exact Hne|split; [exact Fd|now rewrite E]].
    + intros [f [d [r [Hne [Fd E]]]]]. destruct f as [|x f].
      * left. exists d, r. auto.
      * right. inversion E; subst. exists f, d, r. auto.
Qed.

Lemma existsb_false_iff {A} (f : A -> bool) l : existsb f l = false <-> forall x, In x l -> f x = false.
Proof.
  split.
  - intros H x Hx. destruct (f x) eqn:E; [|reflexivity].
    assert (existsb f l = true) by (apply existsb_exists; eauto). congruence.
  - intros H. destruct (existsb f l) eqn:E; [|reflexivity].
    apply existsb_exists in E. destruct E as [x [Hx Fx]]. rewrite H in Fx; [discriminate|exact Hx].
Qed.

Theorem classify_ok_iff : forall ret ls, classify ret ls = VOk <-> SpecOk ret ls.
Proof.
  intros ret ls. unfold classify, SpecOk. destruct (Z.eqb_spec ret 0) as [->|Hne].
  - destruct (existsb (containsb ERR) ls) eqn:E.
    + split; [discriminate|]. intros [_ H]. apply existsb_exists in E.
      destruct E as [l [Hl Cl]]. apply containsb_spec in Cl. exfalso. exact (H l Hl Cl).
    + split; [|reflexivity]. intros _. split; [reflexivity|].
      intros l Hl C. apply containsb_spec in C.
      rewrite (proj1 (existsb_false_iff _ _) E l Hl) in C. discriminate.
  - split; [destruct (existsb error_lineb ls); discriminate|]. intros [H _]. contradiction.
Qed.

Theorem classify_diagnosed_iff : forall ret ls, classify ret ls = VDiagnosed <-> SpecDiagnosed ret ls.
Proof.
  intros ret ls. unfold classify, SpecDiagnosed. destruct (Z.eqb_spec ret 0) as [->|Hne].
  - split; [destruct (existsb (containsb ERR) ls); discriminate|]. intros [H _]. contradiction.
  - destruct (existsb error_lineb ls) eqn:E.
    + split; [|reflexivity]. intros _. split; [exact Hne|].
      apply existsb_exists in E. destruct E as [l [Hl El]]. exists l. split; [exact Hl|].
      now apply error_lineb_spec.
    + split; [discriminate|]. intros [_ [l [Hl El]]]. apply error_lineb_spec in El.
      rewrite (proj1 (existsb_false_iff _ _) E l Hl) in El. discriminate.
Qed.

Theorem classify_inconsistent_iff : forall ret ls,
  classify ret ls = VInconsistent <-> (~ SpecOk ret ls /\ ~ SpecDiagnosed ret ls).
Proof.
  intros ret ls. rewrite <- classify_ok_iff, <- classify_diagnosed_iff.
  destruct (classify ret ls); split; try discriminate; try tauto; try congruence.
  - intros _. split; discriminate.
Qed.

(* total: every observation gets exactly one of the three verdicts ... *)
Theorem classify_total : forall ret ls,
  classify ret ls = VOk \/ classify ret ls = VDiagnosed \/ classify ret ls = VInconsistent.
Proof. intros ret ls. destruct (classify ret ls); auto. Qed.

(* ... and the two good shapes exclude each other *)
Theorem outcome_exclusive : forall ret ls, ~ (SpecOk ret ls /\ SpecDiagnosed ret ls).
Proof. intros ret ls [[H _] [H' _]]. contradiction. Qed.

(* an error line contains "error:", so `ok` really means "no error diagnostic at all" *)
Lemma errline_contains_err : forall l, ErrLine l -> Contains ERR l.
Proof.
  intros l [f [d [r [_ [_ ->]]]]]. exists (f ++ [COLON] ++ d ++ [58; 32]), r.
  rewrite <- !app_assoc. reflexivity.
Qed.

(* all four properties in one statement *)
Theorem outcome_classifier_correct : forall ret ls,
  (classify ret ls = VOk <-> SpecOk ret ls) /\
  (classify ret ls = VDiagnosed <-> SpecDiagnosed ret ls) /\
  (classify ret ls = VInconsistent <-> ~ SpecOk ret ls /\ ~ SpecDiagnosed ret ls) /\
  ~ (SpecOk ret ls /\ SpecDiagnosed ret ls).
Proof.
  intros. split; [apply classify_ok_iff|]. split; [apply classify_diagnosed_iff|].
  split; [apply classify_inconsistent_iff|apply outcome_exclusive].
Qed.

(* "<stdin>:3: error: x" / "a.nev:12: warning: y" *)
Example ex_diag : classify 1 [[60;115;116;100;105;110;62;58;51;58;32;101;114;114;111;114;58;32;120]] = VDiagnosed.
Proof. reflexivity. Qed.
Example ex_ret0_with_error : classify 0 [[60;115;116;100;105;110;62;58;51;58;32;101;114;114;111;114;58;32;120]] = VInconsistent.
Proof. reflexivity. Qed.
Example ex_ret1_silent : classify 1 [] = VInconsistent.
Proof. reflexivity. Qed.
Example ex_ok : classify 0 [[119;97;114;110;105;110;103;58]] = VOk.
Proof. reflexivity. Qed.
Example ex_split : split_lines [97; 10; 98; 99; 10; 10; 100] = [[97]; [98; 99]; []; [100]].
Proof. reflexivity. Qed.
