(* Mem/GcDelete.v — model of gc_delete (back/gc.c) over the collector model of GC/GCModel.v (C16).

     for (i = 0; i < collector->mem_size; i++)
         if (collector->mem[i].object_value != NULL)
             object_delete(collector->mem[i].object_value);
     free(mem); free(wb_list[0]); free(wb_list[1]); free(collector);

   The model returns the sequence of object_delete calls as (cell, object) pairs.  An object
   is identified by the cell holding it: in the model a cell holds its object by value, so
   "two cells share one malloc'ed object" is not expressible; that no two cells hold the same
   pointer is part of the collector's heap discipline (GC/GCSpec.v, C09) and is observed on
   the C code by the allocation-trace monitor.  Definitions only. *)
From Coq Require Import NArith List.
From NV Require Import Base.TMap GC.GCModel.
Import ListNotations.
Local Open Scope N_scope.

Definition nrange (n : N) : list N := map N.of_nat (seq 0 (N.to_nat n)).

Definition gc_delete_step (objs : tmap (option obj)) (freed : list (N * obj)) (i : N) : list (N * obj) :=
  match tget objs i with
  | Some o => freed ++ [(i, o)]
  | None => freed
  end.

Definition gc_delete_freed (g : gc) : list (N * obj) :=
  fold_left (gc_delete_step (g_obj g)) (nrange (g_size g)) [].

(* ---- the loop bounds as a parameter ----------------------------------------------------------
   for (i = lo; i < collector->mem_size - cut; i++) ...      the tree: lo = 0, cut = 0.
   checks/c16.py reads lo and cut from back/gc.c (gc_delete) and compares them with the hypothesis of
   gc_delete_bounds_complete; the heap-size sweep looks for the input when they differ. *)
Definition nrange_from (lo hi : N) : list N :=
  map (fun k => lo + N.of_nat k) (seq 0 (N.to_nat (hi - lo))).

Definition gc_delete_freed_bounds (lo cut : N) (g : gc) : list (N * obj) :=
  fold_left (gc_delete_step (g_obj g)) (nrange_from lo (g_size g - cut)) [].

(* a heap of `size` cells whose last cell holds an object, every other cell empty: what a run that filled
   the heap exactly to the brim leaves in cell size-1 *)
Definition brim_heap (size : N) : gc :=
  with_obj (gc_new size) (tset (tm_init None) (size - 1) (Some (OScalar 0 [7]))).
