(* tgen — generator of WELL-TYPED programs of the modelled core (Src/Syntax.v) for property C06.

   Only the static rules matter here (the programs are compiled, never run), so loops need not
   terminate and indices need not be in range.  The generator tracks what front/typecheck.c
   tracks: for every visible name its type and constness (let / non-var parameter / call result /
   while result = CONST; var / var parameter / record field / element of a non-const array /
   array literal / print result = VAR; literals, operators, ?:, record constructor, lambda,
   function name, for = TEMP).  `var x = e` and `var` parameters get non-CONST expressions,
   assignments get VAR left sides.  Shadowing in inner scopes is produced on purpose.
   Every choice derives from the Rng.t given. *)
open Tcmodel
open Conv

type gb = { nm : int; t : ty; k : int;                 (* k: 0 temp, 1 const, 2 var *)
            flags : bool list option }                 (* Some: a function definition's var flags *)

type st = { rng : Rng.t; mutable next : int; recs : (int * ty list) list; mutable fdepth : int }

type genv = gb list list                               (* scopes, innermost first *)

let fresh st = let k = st.next in st.next <- k + 1; k

let visible (env : genv) : gb list =
  let seen = Hashtbl.create 16 in
  List.concat_map (fun sc ->
      let here = List.filter (fun b -> not (Hashtbl.mem seen b.nm)) sc in
      List.iter (fun b -> Hashtbl.replace seen b.nm ()) sc; here) env

let first_class b = match b.flags with Some l -> not (List.exists (fun x -> x) l) | None -> true

let in_scope (env : genv) nm = match env with sc :: _ -> List.exists (fun b -> b.nm = nm) sc | [] -> false

(* a binder name: mostly fresh, sometimes the name of something visible in an outer scope *)
let pick_name st (env : genv) (avoid : int list) : int =
  if Rng.pct st.rng 15 then begin
    let c = List.filter (fun b -> not (in_scope env b.nm) && not (List.mem b.nm avoid) && b.nm <> 0) (visible env) in
    if c = [] then fresh st else (Rng.pick st.rng c).nm
  end else fresh st

let add (env : genv) (b : gb) : genv = match env with sc :: r -> (b :: sc) :: r | [] -> [[b]]

(* ---- types ------------------------------------------------------------------------------ *)
let base_ty st =
  let r = st.recs in
  Rng.weighted st.rng
    ([ (50, TInt); (25, TBool) ] @ (if r = [] then [] else [ (12, TRec (n_of_int (fst (Rng.pick st.rng r)))) ]))

let rec gen_ty st d : ty =
  Rng.weighted st.rng
    [ (45, `B); (10, `A); ((if d > 0 then 14 else 0), `F) ]
  |> function
  | `B -> base_ty st
  | `A -> TArr (base_ty st)
  | `F ->
    let n = Rng.range st.rng 0 2 in
    TFun (List.init n (fun _ -> gen_ty st (d - 1)), (if Rng.pct st.rng 80 then base_ty st else gen_ty st (d - 1)))

let fields_of st r = try List.assoc r st.recs with Not_found -> []

(* ---- closed default expression of a type -------------------------------------------------- *)
let rec dflt st (t : ty) : expr =
  match t with
  | TInt -> EInt (z_of_int (Rng.range st.rng 0 9))
  | TBool -> EBool (Rng.bool st.rng)
  | TArr e -> EArrLit ([dflt st e], e)
  | TRec r ->
    ERecNew (r, List.map (fun ft -> match ft with TRec _ -> ERecNil r | _ -> dflt st ft) (fields_of st (int_of_n r)))
  | TFun (args, ret) -> dflt_lambda st (List.map (fun a -> (false, a)) args) ret

and dflt_lambda st (ps : (bool * ty) list) (ret : ty) : expr =
  let params = List.map (fun (v, a) -> ((n_of_int (fresh st), v), a)) ps in
  ELambda (FDef (n_of_int (fresh st), params, ret, [IExpr (dflt st ret)], [], None))

let arith = [Add; Sub; Mul; Div; Mod; BAnd; BOr; BXor; Shl; Shr]
let cmps = [Lt; Le; Gt; Ge]

(* ---- expressions: returns (expr, constness) ------------------------------------------------ *)
let rec gen_expr st (env : genv) (t : ty) (d : int) ~(nil_ok : bool) : expr * int =
  let vis = visible env in
  let vars = List.filter (fun b -> b.t = t && first_class b) vis in
  let leaf () =
    if vars <> [] && Rng.pct st.rng 60 then (let b = Rng.pick st.rng vars in (EVar (n_of_int b.nm), b.k))
    else match t with
      | TRec r when nil_ok && Rng.pct st.rng 30 -> (ERecNil r, 0)
      | TArr _ -> (dflt st t, 2)
      | _ -> (dflt st t, 0) in
  if d <= 0 then leaf ()
  else begin
    let ge ?(nil_ok = false) t' = gen_expr st env t' (d - 1) ~nil_ok in
    let e1 t' = fst (ge t') in
    let funs = List.filter (fun b -> match b.t with TFun (_, r) -> r = t | _ -> false) vis in
    let arrs = List.filter (fun b -> b.t = TArr t) vis in
    let recs_with = List.concat_map (fun (r, fs) ->
        List.concat (List.mapi (fun i ft -> if ft = t then [(r, i)] else []) fs)) st.recs in
    let is_elem = (match t with TInt | TBool | TRec _ -> true | _ -> false) in
    let lvalues () =
      (List.map (fun b -> (10, `V b)) (List.filter (fun b -> b.k = 2) vars))
      @ (if is_elem then [ (4, `I) ] else [])
      @ (if recs_with <> [] then [ (4, `F) ] else []) in
    let common =
      [ ((if vars = [] then 0 else 30), `Var);
        ((if funs = [] then 0 else 16), `Call);
        (8, `Cond);
        (5, `Block);
        ((if is_elem then 5 else 0), `Index);
        ((if recs_with = [] then 0 else 6), `Field);
        ((if lvalues () = [] then 0 else 7), `Assign);
        ((if st.fdepth < 2 && d >= 2 then 2 else 0), `LamCall) ] in
    let specific = match t with
      | TInt -> [ (30, `Lit); (22, `Arith); (3, `Neg); (3, `BNot); (4, `If); (3, `While); (3, `DoWhile);
                  (3, `For); (5, `Print) ]
      | TBool -> [ (22, `Lit); (22, `Cmp); (10, `AndOr); (5, `Not); (8, `EqPrim); (3, `EqNil) ]
      | TFun _ -> [ ((if st.fdepth < 2 then 30 else 5), `Lambda); (5, `Lit) ]
      | TArr _ -> [ (30, `ArrLit) ]
      | TRec _ -> [ (30, `RecNew); ((if nil_ok then 10 else 0), `Nil) ] in
    match Rng.weighted st.rng (common @ specific) with
    | `Var -> let b = Rng.pick st.rng vars in (EVar (n_of_int b.nm), b.k)
    | `Lit -> leaf ()
    | `Call ->
      let b = Rng.pick st.rng funs in
      (ECall (EVar (n_of_int b.nm), gen_args st env b (d - 1)), 1)
    | `LamCall ->
      (* immediately applied lambda *)
      let n = Rng.range st.rng 0 2 in
      let ps = List.init n (fun _ -> (Rng.pct st.rng 25, gen_ty st 1)) in
      let fd = gen_fdef st env ~named:false (fresh st) ps t (d - 1) in
      let b = { nm = -1; t = TFun (List.map snd ps, t); k = 0; flags = Some (List.map fst ps) } in
      (ECall (ELambda fd, gen_args st env b (d - 1)), 1)
    | `Cond ->
      let c = e1 TBool in
      let a = e1 t and b = e1 t in
      let wrap e = if Rng.pct st.rng 30 then (match e with EBlock _ -> e | _ -> EBlock [IExpr e]) else e in
      (ECond (c, wrap a, wrap b), 0)
    | `Block -> let (its, k) = gen_block st env t (d - 1) ~nil_ok:false in (EBlock its, k)
    | `Index ->
      let (a, ka) =
        if arrs <> [] && Rng.pct st.rng 75 then (let b = Rng.pick st.rng arrs in (EVar (n_of_int b.nm), b.k))
        else ge (TArr t) in
      (EIndex (a, e1 TInt), (if ka = 1 then 1 else 2))
    | `Field ->
      let (r, pos) = Rng.pick st.rng recs_with in
      (EField (e1 (TRec (n_of_int r)), n_of_int r, nat_of_int pos), 2)
    | `Assign ->
      let lhs = match Rng.weighted st.rng (lvalues ()) with
        | `V b -> EVar (n_of_int b.nm)
        | `I ->
          let nc = List.filter (fun b -> b.k <> 1) arrs in
          let a = if nc <> [] then EVar (n_of_int (Rng.pick st.rng nc).nm) else dflt st (TArr t) in
          EIndex (a, e1 TInt)
        | `F -> let (r, pos) = Rng.pick st.rng recs_with in
          EField (e1 (TRec (n_of_int r)), n_of_int r, nat_of_int pos) in
      let (rhs, kr) = ge ~nil_ok:(match t with TRec _ -> true | _ -> false) t in
      (EAssign (lhs, rhs), kr)
    | `Arith ->
      (* a constant zero divisor is rejected by the constant folder (front/constred.c), which is
         not a typing rule: divisors are non-zero literals or plain int names *)
      let op = Rng.pick st.rng arith in
      let rhs = (match op with
          | Div | Mod ->
            let ints = List.filter (fun b -> b.t = TInt) vis in
            if ints <> [] && Rng.bool st.rng then EVar (n_of_int (Rng.pick st.rng ints).nm)
            else EInt (z_of_int (Rng.range st.rng 1 9))
          | _ -> e1 TInt) in
      (EBin (op, e1 TInt, rhs), 0)
    | `Neg -> (ENeg (e1 TInt), 0)
    | `BNot -> (EBNot (e1 TInt), 0)
    | `If -> (EIf (e1 TBool, e1 TInt), 0)
    | `While -> (EWhile (e1 TBool, e1 (any_ty st)), 1)
    | `DoWhile -> (EDoWhile (e1 (any_ty st), e1 TBool), 1)
    | `For -> (EFor (e1 (any_ty st), e1 TBool, e1 (any_ty st), e1 (any_ty st)), 0)
    | `Print -> (EPrint (e1 TInt), 2)
    | `Cmp -> (EBin (Rng.pick st.rng cmps, e1 TInt, e1 TInt), 0)
    | `AndOr -> (EBin ((if Rng.bool st.rng then And else Or), e1 TBool, e1 TBool), 0)
    | `Not -> (ENot (e1 TBool), 0)
    | `EqPrim ->
      let u = if Rng.bool st.rng then TInt else TBool in
      (EBin ((if Rng.bool st.rng then Eq else Ne), e1 u, e1 u), 0)
    | `EqNil ->
      let cands = List.filter (fun b -> match b.t with TRec _ | TArr _ -> true | TFun _ -> first_class b | _ -> false) vis in
      if cands = [] then leaf ()
      else begin
        let b = Rng.pick st.rng cands in
        let r0 = (match b.t with TRec r -> r | _ -> n_of_int 0) in
        let x = EVar (n_of_int b.nm) and nl = ERecNil r0 in
        (EBin ((if Rng.bool st.rng then Eq else Ne), (if Rng.bool st.rng then x else nl), (if Rng.bool st.rng then nl else x)), 0)
        |> fun (e, k) -> (match e with
            | EBin (op, ERecNil _, ERecNil _) -> (EBin (op, x, nl), k)   (* nil == nil is legal too, keep one side a value *)
            | EBin (op, EVar _, EVar _) -> (EBin (op, x, nl), k)         (* value == value is not comparable *)
            | _ -> (e, k))
      end
    | `Lambda ->
      (match t with
       | TFun (args, ret) ->
         (ELambda (gen_fdef st env ~named:false (fresh st) (List.map (fun a -> (false, a)) args) ret (d - 1)), 0)
       | _ -> leaf ())
    | `ArrLit ->
      (match t with
       | TArr e ->
         let n = Rng.range st.rng 1 3 in
         (EArrLit (List.init n (fun _ -> fst (ge ~nil_ok:true e)), e), 2)
       | _ -> leaf ())
    | `RecNew ->
      (match t with
       | TRec r -> (ERecNew (r, List.map (fun ft -> fst (ge ~nil_ok:true ft)) (fields_of st (int_of_n r))), 0)
       | _ -> leaf ())
    | `Nil -> (match t with TRec r -> (ERecNil r, 0) | _ -> leaf ())
  end

and any_ty st = if Rng.pct st.rng 70 then TInt else base_ty st

and gen_args st env (b : gb) d : expr list =
  match b.t with
  | TFun (args, _) ->
    let flags = (match b.flags with Some l -> l | None -> List.map (fun _ -> false) args) in
    List.map2 (fun a v -> if v then gen_nonconst st env a d else fst (gen_expr st env a d ~nil_ok:true)) args flags
  | _ -> []

(* an expression that is not CONST (for `var x = e` and var parameters) *)
and gen_nonconst st env (t : ty) d : expr =
  let rec try_ n =
    if n = 0 then None
    else let (e, k) = gen_expr st env t d ~nil_ok:false in if k <> 1 then Some e else try_ (n - 1) in
  match try_ 4 with
  | Some e -> e
  | None ->
    let (e, k) = gen_expr st env t d ~nil_ok:false in
    if k <> 1 then e
    else match t with
      | TInt -> EBin (Add, e, EInt Z0)
      | TBool -> EBin (And, e, EBool true)
      | _ -> dflt st t

(* the items of a `{ }` yielding type t; returns the constness of the last expression *)
and gen_block st (env : genv) (t : ty) (d : int) ~(nil_ok : bool) : item list * int =
  let env = ref ([] :: env) in
  let items = ref [] in
  let n = if d <= 0 then 0 else Rng.range st.rng 0 3 in
  for _ = 1 to n do
    match Rng.weighted st.rng [ (38, `Let); (30, `Var); ((if st.fdepth < 2 && d >= 1 then 12 else 0), `Func); (20, `Expr) ] with
    | `Let ->
      let ty = gen_ty st 1 in
      let (e, _) = gen_expr st !env ty d ~nil_ok:false in
      let x = pick_name st !env [] in
      items := ILet (n_of_int x, e) :: !items;
      env := add !env { nm = x; t = ty; k = 1; flags = None }
    | `Var ->
      let ty = gen_ty st 1 in
      let e = gen_nonconst st !env ty d in
      let x = pick_name st !env [] in
      items := IVar (n_of_int x, e) :: !items;
      env := add !env { nm = x; t = ty; k = 2; flags = None }
    | `Func ->
      (* one function, or a run of two that may call each other *)
      let k = if Rng.pct st.rng 30 then 2 else 1 in
      let sigs = List.init k (fun _ ->
          let np = Rng.range st.rng 0 3 in
          let ps = List.init np (fun _ -> (Rng.pct st.rng 25, gen_ty st 1)) in
          (0, ps, gen_ty st 1)) in
      let names = ref [] in
      let sigs = List.map (fun (_, ps, ret) ->
          (* consecutive function items are one run (declared together before any body is checked):
             a function that follows another function item must not reuse a name the earlier
             bodies may already refer to *)
          let after_func = (match !items with IFunc _ :: _ -> true | _ -> false) in
          let x = if after_func then fresh st else pick_name st !env !names in
          names := x :: !names; (x, ps, ret)) sigs in
      List.iter (fun (x, ps, ret) ->
          env := add !env { nm = x; t = TFun (List.map snd ps, ret); k = 0; flags = Some (List.map fst ps) }) sigs;
      List.iter (fun (x, ps, ret) ->
          items := IFunc (gen_fdef st !env ~named:true x ps ret (d - 1)) :: !items) sigs
    | `Expr ->
      let (e, _) = gen_expr st !env (any_ty st) d ~nil_ok:false in
      items := IExpr e :: !items
  done;
  let (e, k) = gen_expr st !env t d ~nil_ok in
  (List.rev (IExpr e :: !items), k)

and gen_fdef st (env : genv) ~(named : bool) (name : int) (ps : (bool * ty) list) (ret : ty) (d : int) : fdef =
  st.fdepth <- st.fdepth + 1;
  let pnames = ref [name] in
  let params = List.map (fun (v, t) ->
      let x = (if Rng.pct st.rng 12 then
                 (let c = List.filter (fun b -> not (List.mem b.nm !pnames) && b.nm <> 0) (visible env) in
                  if c = [] then fresh st else (Rng.pick st.rng c).nm)
               else fresh st) in
      pnames := x :: !pnames; (x, v, t)) ps in
  let self = { nm = name; t = TFun (List.map snd ps, ret); k = 0; flags = Some (List.map fst ps) } in
  let pb = List.map (fun (x, v, t) -> { nm = x; t; k = (if v then 2 else 1); flags = None }) params in
  let fenv = ((if named then [self] else []) @ pb) :: env in
  let body = fst (gen_block st fenv ret d ~nil_ok:true) in
  let catches, call =
    if Rng.pct st.rng 35 then begin
      let exs = Rng.shuffle st.rng all_exns in
      let n = Rng.range st.rng 0 2 in
      let named_c = List.filteri (fun i _ -> i < n) exs in
      let cs = List.map (fun ex -> (ex, fst (gen_block st fenv ret (min d 1) ~nil_ok:true))) named_c in
      let call = if n = 0 || Rng.pct st.rng 40 then Some (fst (gen_block st fenv ret (min d 1) ~nil_ok:true)) else None in
      (cs, call)
    end else ([], None) in
  st.fdepth <- st.fdepth - 1;
  FDef (n_of_int name, List.map (fun (x, v, t) -> ((n_of_int x, v), t)) params, ret, body, catches, call)

(* ---- whole programs ------------------------------------------------------------------------- *)
let gen_program (rng : Rng.t) : program =
  let nrec = Rng.range rng 0 3 in
  (* record k may mention records declared before it and itself *)
  let recs = ref [] in
  for i = 0 to nrec - 1 do
    let r = 900 + i in
    let nf = Rng.range rng 1 3 in
    let fs = List.init nf (fun _ ->
        Rng.weighted rng ([ (50, TInt); (20, TBool); (10, TArr TInt); (8, TRec (n_of_int r)) ]
                          @ (List.map (fun (q, _) -> (6, TRec (n_of_int q))) !recs))) in
    recs := !recs @ [ (r, fs) ]
  done;
  let st = { rng; next = 1; recs = !recs; fdepth = 0 } in
  let nf = Rng.range rng 1 4 in
  let sigs = List.init nf (fun _ ->
      let np = Rng.range rng 0 3 in
      (fresh st, List.init np (fun _ -> (Rng.pct rng 25, gen_ty st 2)), gen_ty st 1)) in
  let sigs = sigs @ [ (0, [], TInt) ] in
  let genv = [ List.map (fun (x, ps, ret) ->
      { nm = x; t = TFun (List.map snd ps, ret); k = 0; flags = Some (List.map fst ps) }) sigs ] in
  let funcs = List.map (fun (x, ps, ret) -> gen_fdef st genv ~named:true x ps ret 3) sigs in
  { p_recs = List.map (fun (r, fs) -> (n_of_int r, fs)) !recs; p_funcs = funcs; p_main = n_of_int 0 }
