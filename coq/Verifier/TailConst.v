(* C13, VM side: a self tail call (SLIDE;CALL with no MARK, i.e. a CALL executed with F = P)
   re-uses the running frame, hence the stack of a run is bounded by the number of NON-tail
   calls that are open (a fortiori: that were ever taken), whatever the number of tail transfers.

   Everything here is proved from
     - the definition of the shape machine (Verifier/Shape.v) and of the checker (Verifier/Verify.v),
     - the *statement* of C07's `verify_depth` (Properties/Properties_C07.v): every state reached
       along any observation sequence carries a certificate with the static depth.
   The section `FromC07` assumes exactly that statement; it is instantiated with
   VerifySound.verify_depth at the end of the file, so the final theorems have no hypotheses.
   (`verify_sound` itself is not needed: the bound is about the states of runs that did not crash.)

   Own invariant (independent of VerifyInv.v): the chain of frame headers below P
   (`chain`) and the headers of the MARKs still open in the running frame (`marks`); both only
   mention header slots, and every pop of the machine stays above F (the machine crashes with
   Underflow otherwise), so they survive every step.  No axioms. *)
From Coq Require Import List Arith Bool Lia.
From NV Require Import Gen.Opcodes Verifier.Shape Verifier.Effect Verifier.Verify Verifier.VerifySound.
Import ListNotations.

(* ------------------------------------------------------------------ lists *)

Lemma tc_nth_firstn {A} (l : list A) n i : i < n -> nth_error (firstn n l) i = nth_error l i.
Proof.
  revert l i. induction n; intros l i H; [lia|].
  destruct l; [now destruct i|]. destruct i; cbn; auto. apply IHn; lia.
Qed.

(* l' extends l below n: every slot of l below n is still there *)
Definition ext (l l' : list slot) (n : nat) :=
  forall i x, i < n -> nth_error l i = Some x -> nth_error l' i = Some x.

Lemma ext_le l l' n m : ext l l' n -> m <= n -> ext l l' m.
Proof. intros E H i x Hi. apply E. lia. Qed.

Lemma ext_repl l a r n : n <= a \/ length l <= a -> ext l (firstn a l ++ r) n.
Proof.
  intros H i x Hi Hx.
  assert (i < length l) by (apply nth_error_Some; congruence).
  rewrite nth_error_app1 by (rewrite firstn_length; lia).
  rewrite tc_nth_firstn by lia. exact Hx.
Qed.

Lemma ext_app l r n : ext l (l ++ r) n.
Proof.
  intros i x _ Hx. rewrite nth_error_app1; auto. apply nth_error_Some. congruence.
Qed.

Lemma ext_refl l n : ext l l n.
Proof. intros i x _ H. exact H. Qed.

(* ------------------------------------------------------------------ the machine, counters *)

Section Machine.
Variable code : nat -> option ainstr.
Variable handler : nat -> option nat.
Variable np : nat -> nat.
Variable is_entry : nat -> bool.
Variable entry : nat.

Local Notation step := (Shape.step code handler np is_entry entry).
Local Notation run := (Shape.run code handler np is_entry entry).

(* the CALL at (ip s) is taken (it does not fault) under the observation (ip', len') *)
Definition call_taken (s : st) (ip' len' : nat) : bool :=
  match code (ip s) with
  | Some ACall => is_entry ip' && (len' =? length (stk s) - 1)
  | _ => false
  end.

(* a non-tail call: CALL taken with a MARK open (F <> P): pushes a frame *)
Definition nontail_call (s : st) (ip' len' : nat) : bool :=
  call_taken s ip' len' && negb (F s =? P s).

(* a tail transfer: CALL taken with no MARK open (F = P) *)
Definition tail_transfer (s : st) (ip' len' : nat) : bool :=
  call_taken s ip' len' && (F s =? P s).

(* the step leaves the running frame: RET, or RETHROW with no MARK open *)
Definition frame_exit (s : st) : bool :=
  match code (ip s) with
  | Some (ARet _) => true
  | Some ARethrow => F s =? P s
  | _ => false
  end.

Definition tally_step (k : nat) (s : st) (ip' len' : nat) : nat :=
  if nontail_call s ip' len' then S k else if frame_exit s then pred k else k.

(* number of non-tail calls open after the observations (k open before) *)
Fixpoint open_calls (s : st) (k : nat) (obs : list (nat * nat)) : nat :=
  match obs with
  | [] => k
  | (ip', len') :: rest =>
    match step s ip' len' with
    | Next s' => open_calls s' (tally_step k s ip' len') rest
    | _ => k
    end
  end.

(* number of steps of a given kind along the run *)
Fixpoint count_steps (pr : st -> nat -> nat -> bool) (s : st) (obs : list (nat * nat)) : nat :=
  match obs with
  | [] => 0
  | (ip', len') :: rest =>
    match step s ip' len' with
    | Next s' => (if pr s ip' len' then 1 else 0) + count_steps pr s' rest
    | _ => 0
    end
  end.

Definition nontail_calls := count_steps nontail_call.
Definition tail_transfers := count_steps tail_transfer.

Lemma open_le_taken : forall obs s k, open_calls s k obs <= k + nontail_calls s obs.
Proof.
  unfold nontail_calls.
  induction obs as [|[ip' len'] rest IH]; intros s k; cbn [open_calls count_steps]; [lia|].
  destruct (step s ip' len') as [s'| | | |]; try lia.
  specialize (IH s' (tally_step k s ip' len')). unfold tally_step in *.
  destruct (nontail_call s ip' len'); [lia|]. destruct (frame_exit s); lia.
Qed.

Lemma run_app : forall o1 o2 s,
  run s (o1 ++ o2) = match run s o1 with Next s' => run s' o2 | o => o end.
Proof.
  induction o1 as [|[ip' len'] rest IH]; intros o2 s; cbn [run app]; auto.
  destruct (step s ip' len'); auto.
Qed.

(* ---------------- tail_call_keeps_frame: pure machine fact *)

Lemma tail_call_keeps_frame_m s ip' len' s' :
  step s ip' len' = Next s' -> tail_transfer s ip' len' = true ->
  P s' = P s /\ F s' = F s /\ length (stk s') = P s + np ip' /\
  ip s' = ip' /\ cur s' = ip' /\
  stk s' = firstn (P s + np ip') (stk s) /\ firstn (P s) (stk s') = firstn (P s) (stk s).
Proof.
  unfold tail_transfer, call_taken, Shape.step. intros H T.
  destruct (code (ip s)) as [[]|]; try discriminate T.
  apply andb_true_iff in T. destruct T as [T TF]. apply Nat.eqb_eq in TF.
  cbv zeta in H.
  destruct (length (stk s) - F s <? 1) eqn:E1; [discriminate|]. apply Nat.ltb_ge in E1.
  destruct (negb (top_is_val (stk s))); [discriminate|].
  rewrite T in H.
  destruct (length (stk s) - 1 - F s =? np ip') eqn:E2; [|discriminate].
  apply Nat.eqb_eq in E2. injection H as <-. cbn [P F stk ip cur].
  assert (L : length (stk s) - 1 = P s + np ip') by lia.
  rewrite firstn_length, L.
  repeat split; try lia.
  rewrite firstn_firstn. f_equal. lia.
Qed.

(* ---------------- the header invariant *)

Variable M : nat.     (* bound on the size of one frame: length (stk s) <= P s + M *)

(* headers of the MARKs open in the frame based at p, up to the F register *)
Inductive marks (l : list slot) (p : nat) : nat -> Prop :=
| marks_nil : marks l p p
| marks_cons f f0 :
    p + 5 <= f -> nth_error l (f - 5) = Some (SPP p) -> nth_error l (f - 2) = Some (SFP f0) ->
    f0 + 5 <= f -> marks l p f0 -> marks l p f.

(* chain l p n: n frames are suspended below the frame based at p *)
Inductive chain (l : list slot) : nat -> nat -> Prop :=
| chain_top : chain l 0 0
| chain_frame p p0 f0 n :
    5 <= p -> nth_error l (p - 5) = Some (SPP p0) -> nth_error l (p - 2) = Some (SFP f0) ->
    f0 + 5 <= p -> p <= p0 + M -> marks l p0 f0 -> chain l p0 n -> chain l p (S n).

Lemma marks_le l p f : marks l p f -> p <= f.
Proof. induction 1; lia. Qed.

Lemma marks_ext l l' p f : marks l p f -> ext l l' f -> marks l' p f.
Proof.
  induction 1 as [|f f0 H1 H2 H3 H4 H5 IH]; intros E; [constructor|].
  eapply marks_cons; eauto; try (apply E; auto; lia).
  apply IH. eapply ext_le; eauto. lia.
Qed.

Lemma chain_ext l l' p n : chain l p n -> ext l l' p -> chain l' p n.
Proof.
  induction 1 as [|p p0 f0 n H1 H2 H3 H4 H5 H6 H7 IH]; intros E; [constructor|].
  pose proof (marks_le _ _ _ H6).
  eapply chain_frame; eauto; try (apply E; auto; lia).
  - eapply marks_ext; eauto. eapply ext_le; eauto. lia.
  - apply IH. eapply ext_le; eauto. lia.
Qed.

Lemma chain_bound l p n : chain l p n -> p <= M * n.
Proof. induction 1; lia. Qed.

Record SInv (s : st) (k : nat) : Prop := {
  inv_F : F s <= length (stk s);
  inv_marks : marks (stk s) (P s) (F s);
  inv_chain : chain (stk s) (P s) k
}.

Lemma SInv_init : SInv init 0.
Proof. split; cbn; [lia|constructor|constructor]. Qed.

(* same frame: keep the first a >= F slots, append anything *)
Lemma sinv_keep s k a r x :
  SInv s k -> F s <= a -> a <= length (stk s) ->
  SInv (setip s x (firstn a (stk s) ++ r)) k.
Proof.
  intros [HF HM HC] H1 H2. pose proof (marks_le _ _ _ HM).
  split; cbn [setip stk P F].
  - rewrite app_length, firstn_length. lia.
  - eapply marks_ext; eauto. apply ext_repl. lia.
  - eapply chain_ext; eauto. apply ext_repl. lia.
Qed.

Lemma sinv_same s k x : SInv s k -> SInv (setip s x (stk s)) k.
Proof. intros [HF HM HC]. split; cbn [setip stk P F]; auto. Qed.

(* what a step can do to the stack length, for the certificate argument *)
Definition grows (s s' : st) : Prop :=
  (exists reads pops pushes, code (ip s) = Some (AOp reads pops pushes) /\ ip s' = S (ip s) /\
      P s' = P s /\ pops <= length (stk s) /\ length (stk s') = length (stk s) - pops + pushes) \/
  (exists r, code (ip s) = Some (AMark r) /\ ip s' = S (ip s)) \/
  (code (ip s) = Some APushParam /\ ip s' = S (ip s) /\ P s' = P s /\
      length (stk s') = length (stk s) + np entry) \/
  (exists r, code (ip s) = Some (AFfi r) /\ ip s' = r) \/
  is_entry (ip s') = true.

Definition bounded (s : st) : Prop := length (stk s) <= P s + M.

Lemma fault_inv s k pops ip' len' s' :
  SInv s k -> bounded s -> pops <= length (stk s) - F s ->
  fault handler s pops ip' len' = Next s' -> SInv s' k /\ bounded s'.
Proof.
  intros I B Hp H. unfold fault in H. destruct (handler (ip s)) as [h|]; [|discriminate].
  destruct ((h =? ip') && (length (stk s) - pops <=? len') && (len' <=? length (stk s))) eqn:E; [|discriminate].
  injection H as <-. apply andb_true_iff in E. destruct E as [E E3]. apply andb_true_iff in E.
  destruct E as [E1 E2]. apply Nat.leb_le in E2, E3. pose proof (inv_F _ _ I).
  split.
  - rewrite <- (app_nil_r (firstn len' (stk s))). apply sinv_keep; auto. lia.
  - unfold bounded in *. cbn [setip stk P]. rewrite firstn_length. lia.
Qed.

Ltac tally_other Hc :=
  unfold tally_step, nontail_call, call_taken, frame_exit; rewrite Hc; cbn [andb].

(* header read by unwind *)
Lemma unwind_inv s fr k s' :
  unwind s fr k = Next s' ->
  5 <= fr /\ exists p0 f0 a c,
    nth_error (stk s) (fr - 5) = Some (SPP p0) /\ nth_error (stk s) (fr - 2) = Some (SFP f0) /\
    k a (firstn (fr - 5) (stk s) ++ [SVal]) p0 f0 c = Next s'.
Proof.
  unfold unwind. destruct (fr <? 5) eqn:E; [discriminate|]. apply Nat.ltb_ge in E.
  destruct (nth_error (stk s) (fr - 5)) as [[]|]; try discriminate.
  destruct (nth_error (stk s) (fr - 4)) as [[]|]; try discriminate.
  destruct (nth_error (stk s) (fr - 3)) as [[]|]; try discriminate.
  destruct (nth_error (stk s) (fr - 2)) as [[]|]; try discriminate.
  destruct (nth_error (stk s) (fr - 1)) as [[]|]; try discriminate.
  intros H. split; auto. eauto 10.
Qed.

(* leaving the frame based at fr = P s = F s through its header *)
Lemma exit_frame s k p0 f0 x c :
  SInv s k -> F s = P s -> 5 <= P s ->
  nth_error (stk s) (P s - 5) = Some (SPP p0) -> nth_error (stk s) (P s - 2) = Some (SFP f0) ->
  let s' := {| ip := x; stk := firstn (P s - 5) (stk s) ++ [SVal]; P := p0; F := f0; cur := c |} in
  SInv s' (pred k) /\ bounded s'.
Proof.
  intros [HF HM HC] E H5 Hp Hf s'.
  inversion HC as [Z|p p0' f0' n A1 A2 A3 A4 A5 A6 A7 Ep]; [lia|]. subst.
  rewrite Hp in A2. injection A2 as <-. rewrite Hf in A3. injection A3 as <-.
  pose proof (marks_le _ _ _ A6). cbn [pred].
  assert (L : length (firstn (P s - 5) (stk s)) = P s - 5) by (rewrite firstn_length; lia).
  split; [split|]; subst s'; cbn [stk P F]; unfold bounded; cbn [stk P].
  - rewrite app_length, L. cbn. lia.
  - eapply marks_ext; eauto. apply ext_repl. lia.
  - eapply chain_ext; eauto. apply ext_repl. lia.
  - rewrite app_length, L. cbn. lia.
Qed.

Theorem machine_step s k ip' len' s' :
  SInv s k -> bounded s -> step s ip' len' = Next s' ->
  SInv s' (tally_step k s ip' len') /\ (bounded s' \/ grows s s').
Proof.
  intros I B H. pose proof (inv_F _ _ I) as HF. pose proof (marks_le _ _ _ (inv_marks _ _ I)) as HPF.
  unfold Shape.step in H. cbv zeta in H.
  destruct (code (ip s)) as [i|] eqn:Hc; [|discriminate].
  destruct i as [reads pops pushes|t|t|r| |ffi| |n|q m|g| |r| | |].
  - (* AOp *)
    tally_other Hc.
    destruct (negb (forallb (read_ok (stk s) (P s)) reads)); [discriminate|].
    destruct (length (stk s) - F s <? pops) eqn:E1; [discriminate|]. apply Nat.ltb_ge in E1.
    destruct (ip' =? S (ip s)) eqn:E2.
    + destruct (len' =? length (stk s) - pops + pushes); [|discriminate]. injection H as <-.
      split; [apply sinv_keep; auto; lia|]. right. left. exists reads, pops, pushes.
      cbn [setip ip stk P]. rewrite app_length, firstn_length, repeat_length.
      repeat split; auto; lia.
    + destruct (fault_inv _ _ _ _ _ _ I B E1 H). auto.
  - (* AJump *)
    tally_other Hc. destruct ((ip' =? t) && (len' =? length (stk s))); [|discriminate].
    injection H as <-. split; [apply sinv_same; auto|]. left. exact B.
  - (* AJumpz *)
    tally_other Hc.
    destruct (length (stk s) - F s <? 1) eqn:E1; [discriminate|]. apply Nat.ltb_ge in E1.
    destruct (negb (top_is_val (stk s))); [discriminate|].
    destruct (((ip' =? t) || (ip' =? S (ip s))) && (len' =? length (stk s) - 1)); [|discriminate].
    injection H as <-. split.
    + rewrite <- (app_nil_r (firstn _ (stk s))). apply sinv_keep; auto; lia.
    + left. unfold bounded in *. cbn [setip stk P]. rewrite firstn_length. lia.
  - (* AMark *)
    tally_other Hc.
    destruct ((ip' =? S (ip s)) && (len' =? length (stk s) + 5)); [|discriminate].
    injection H as <-. split.
    + destruct I as [_ HM HC]. split; cbn [stk P F].
      * rewrite app_length. cbn. lia.
      * eapply marks_cons with (f0 := F s); try lia.
        -- rewrite nth_error_app2 by lia.
           replace (length (stk s) + 5 - 5 - length (stk s)) with 0 by lia. reflexivity.
        -- rewrite nth_error_app2 by lia.
           replace (length (stk s) + 5 - 2 - length (stk s)) with 3 by lia. reflexivity.
        -- eapply marks_ext; eauto. apply ext_app.
      * eapply chain_ext; eauto. apply ext_app.
    + right. right. left. exists r. auto.
  - (* ACall *)
    destruct (length (stk s) - F s <? 1) eqn:E1; [discriminate|]. apply Nat.ltb_ge in E1.
    destruct (negb (top_is_val (stk s))); [discriminate|].
    destruct (is_entry ip' && (len' =? length (stk s) - 1)) eqn:E2.
    + destruct (length (stk s) - 1 - F s =? np ip') eqn:E3; [|discriminate].
      injection H as <-.
      split; [|right; do 4 right; cbn [ip]; apply andb_true_iff in E2; tauto].
      unfold tally_step, nontail_call, call_taken, frame_exit. rewrite Hc, E2. cbn [andb].
      destruct I as [_ HM HC].
      assert (L : length (firstn (length (stk s) - 1) (stk s)) = length (stk s) - 1)
        by (rewrite firstn_length; lia).
      assert (X : forall n, n <= length (stk s) - 1 ->
                  ext (stk s) (firstn (length (stk s) - 1) (stk s)) n).
      { intros n Hn. rewrite <- (app_nil_r (firstn _ (stk s))). apply ext_repl. lia. }
      destruct (F s =? P s) eqn:E4; cbn [negb].
      * apply Nat.eqb_eq in E4. split; cbn [stk P F]; [lia|constructor|].
        rewrite E4. eapply chain_ext; eauto. apply X. lia.
      * apply Nat.eqb_neq in E4. split; cbn [stk P F]; [lia|constructor|].
        inversion HM as [Z|f f0 A1 A2 A3 A4 A5 Ef]; [lia|]. subst f.
        eapply chain_frame with (p0 := P s) (f0 := f0); try lia.
        -- apply (X (F s)); [lia|lia|exact A2].
        -- apply (X (F s)); [lia|lia|exact A3].
        -- unfold bounded in B. lia.
        -- eapply marks_ext; eauto. apply X. lia.
        -- eapply chain_ext; eauto. apply X. lia.
    + assert (T : tally_step k s ip' len' = k).
      { unfold tally_step, nontail_call, call_taken, frame_exit. rewrite Hc, E2. reflexivity. }
      rewrite T. destruct (fault_inv _ _ _ _ _ _ I B E1 H). auto.
  - (* ARet *)
    destruct (negb (F s =? P s)) eqn:E1; [discriminate|].
    apply negb_false_iff, Nat.eqb_eq in E1.
    destruct (negb (length (stk s) =? P s + (if ffi then 0 else np (cur s)) + 1)); [discriminate|].
    destruct (negb (top_is_val (stk s))); [discriminate|].
    apply unwind_inv in H. destruct H as (H5 & p0 & f0 & a & c & Hp & Hf & H).
    destruct ((ip' =? a) && (len' =? length (firstn (P s - 5) (stk s) ++ [SVal]))); [|discriminate].
    injection H as <-.
    assert (T : tally_step k s ip' len' = pred k).
    { unfold tally_step, nontail_call, call_taken, frame_exit. rewrite Hc. reflexivity. }
    rewrite T. destruct (exit_frame s k p0 f0 a c I E1 H5 Hp Hf). auto.
  - (* ARethrow *)
    apply unwind_inv in H. destruct H as (H5 & p0 & f0 & a & c & Hp & Hf & H).
    destruct (handler (a - 1)) as [h|]; [|discriminate].
    destruct ((1 <=? a) && (ip' =? h) && (len' =? length (firstn (F s - 5) (stk s) ++ [SVal]))); [|discriminate].
    injection H as <-.
    unfold tally_step, nontail_call, call_taken, frame_exit. rewrite Hc. cbn [andb].
    destruct (F s =? P s) eqn:E1.
    + apply Nat.eqb_eq in E1. rewrite E1 in *.
      destruct (exit_frame s k p0 f0 h c I E1 H5 Hp Hf). auto.
    + apply Nat.eqb_neq in E1. destruct I as [_ HM HC].
      inversion HM as [Z|f f0' A1 A2 A3 A4 A5 Ef]; [lia|]. subst f.
      rewrite Hp in A2. injection A2 as ->. rewrite Hf in A3. injection A3 as <-.
      pose proof (marks_le _ _ _ A5).
      assert (L : length (firstn (F s - 5) (stk s)) = F s - 5) by (rewrite firstn_length; lia).
      split; [split|left; unfold bounded in *]; cbn [stk P F].
      * rewrite app_length, L. cbn. lia.
      * eapply marks_ext; eauto. apply ext_repl. lia.
      * eapply chain_ext; eauto. apply ext_repl. lia.
      * rewrite app_length, L. cbn. lia.
  - (* AClear *)
    tally_other Hc.
    destruct (length (stk s) <? P s + n) eqn:E1; [discriminate|]. apply Nat.ltb_ge in E1.
    destruct ((ip' =? S (ip s)) && (len' =? P s + n)); [|discriminate].
    injection H as <-. destruct I as [_ HM HC].
    split; [split|left; unfold bounded in *]; cbn [stk P F].
    + rewrite firstn_length. lia.
    + constructor.
    + eapply chain_ext; eauto. rewrite <- (app_nil_r (firstn _ (stk s))). apply ext_repl. lia.
    + rewrite firstn_length. lia.
  - (* ASlide *)
    tally_other Hc.
    destruct (q =? 0).
    { destruct ((ip' =? S (ip s)) && (len' =? length (stk s))); [|discriminate].
      injection H as <-. split; [apply sinv_same; auto|]. left. exact B. }
    destruct (length (stk s) - F s <? q + m) eqn:E1; [discriminate|]. apply Nat.ltb_ge in E1.
    destruct (negb (forallb (read_ok (stk s) (P s)) (seq 0 m))); [discriminate|].
    destruct ((ip' =? S (ip s)) && (len' =? length (stk s) - q)); [|discriminate].
    injection H as <-. split; [apply sinv_keep; auto; lia|].
    left. unfold bounded in *. cbn [setip stk P]. rewrite app_length, firstn_length, skipn_length. lia.
  - (* AMkFunc *)
    tally_other Hc.
    destruct (length (stk s) - F s <? 1); [discriminate|].
    destruct (negb (top_is_val (stk s))); [discriminate|].
    destruct (negb (is_entry g)); [discriminate|].
    destruct ((ip' =? S (ip s)) && (len' =? length (stk s))); [|discriminate].
    injection H as <-. split; [apply sinv_same; auto|]. left. exact B.
  - (* APushParam *)
    tally_other Hc.
    destruct ((ip' =? S (ip s)) && (len' =? length (stk s) + np entry)); [|discriminate].
    injection H as <-. split.
    + rewrite <- (firstn_all (stk s)) at 1. apply sinv_keep; auto.
    + right. right. right. left. cbn [setip ip stk P]. rewrite app_length, repeat_length. auto.
  - (* AFfi *)
    tally_other Hc.
    destruct (negb (F s =? P s)) eqn:E1; [discriminate|].
    apply negb_false_iff, Nat.eqb_eq in E1.
    destruct (negb (length (stk s) =? P s + np (cur s))) eqn:E2; [discriminate|].
    apply negb_false_iff, Nat.eqb_eq in E2.
    destruct ((ip' =? r) && (len' =? P s + 1)) eqn:E3.
    + injection H as <-. split; [apply sinv_keep; auto; lia|].
      right. right. right. right. left. exists r. auto.
    + assert (Hp : np (cur s) <= length (stk s) - F s) by lia.
      destruct (fault_inv _ _ _ _ _ _ I B Hp H). auto.
  - discriminate.
  - discriminate.
  - discriminate.
Qed.

End Machine.

(* ------------------------------------------------------------------ the frame-size bound M *)

Definition cert_depth (metas : list fmeta) (c : acert) : nat :=
  match c with CNorm f d _ => base metas f + d | _ => 0 end.

(* the largest certified frame size (frame base + depth) of the module: what
   build/ocaml/verifier/run prints per function as MAXDEPTH, maximised over the functions *)
Definition maxdepth (metas : list fmeta) (certs : list acert) : nat :=
  fold_right Nat.max 0 (map (cert_depth metas) certs).

Lemma fold_max_ge l x : In x l -> x <= fold_right Nat.max 0 l.
Proof.
  induction l as [|y l IH]; intros H; [destruct H|]. cbn [fold_right].
  destruct H as [->|H]; [lia|]. specialize (IH H). lia.
Qed.

Lemma maxdepth_ge metas certs a f d os :
  cert certs a = CNorm f d os -> base metas f + d <= maxdepth metas certs.
Proof.
  unfold cert. intros H. destruct (Nat.lt_ge_cases a (length certs)) as [Hl|Hl].
  - apply fold_max_ge. apply in_map_iff. exists (nth a certs CNone). split.
    + rewrite H. reflexivity.
    + apply nth_In. exact Hl.
  - rewrite nth_overflow in H by exact Hl. discriminate.
Qed.

Ltac bsplit := repeat match goal with
  | H : _ && _ = true |- _ => apply andb_true_iff in H; destruct H
  end.

Lemma tc_avail_le d os : avail d os <= d.
Proof. destruct os; cbn; lia. Qed.

Lemma tc_find_meta_in : forall l g m, find_meta l g = Some m -> In m l /\ m_addr m = g.
Proof.
  induction l as [|x l IH]; intros g m H; cbn in H; [discriminate|].
  destruct (m_addr x =? g) eqn:E.
  - injection H as <-. apply Nat.eqb_eq in E. split; [now left|exact E].
  - destruct (IH _ _ H). split; [now right|assumption].
Qed.

(* ------------------------------------------------------------------ from the statement of C07 *)

Section FromC07.

(* exactly the statement of Properties_C07.verify_depth *)
Hypothesis verify_depth_stmt :
  forall prog exct metas entry certs,
    check_all prog exct metas entry certs = true ->
    forall obs s,
      run (code prog) (handler exct) (np metas) (is_entry metas) entry init obs = Next s ->
      match cert certs (ip s) with
      | CNorm f d os => cur s = f /\ length (stk s) = P s + base metas f + d
      | CExc f => cur s = f /\ P s + base metas f <= length (stk s)
      | CNone => False
      end.

Section OneModule.
Variable prog : list rinstr.
Variable exct : list (nat * nat).
Variable metas : list fmeta.
Variable entry : nat.
Variable certs : list acert.
Hypothesis CHK : check_all prog exct metas entry certs = true.

Local Notation cert := (Verify.cert certs).
Local Notation code := (Verify.code prog).
Local Notation np := (Verify.np metas).
Local Notation base := (Verify.base metas).
Local Notation is_entry := (Verify.is_entry metas).
Local Notation handler := (Verify.handler exct).
Local Notation stepm := (Shape.step code handler np is_entry entry).
Local Notation runm := (Shape.run code handler np is_entry entry).
Local Notation M := (maxdepth metas certs).
Local Notation SInvm := (SInv M).
Local Notation boundedm := (bounded M).
Local Notation tally := (tally_step code is_entry).
Local Notation opens := (open_calls code handler np is_entry entry).

Definition Reach (s : st) : Prop := exists obs, runm init obs = Next s.

Lemma reach_init : Reach init.
Proof. exists []. reflexivity. Qed.

Lemma reach_step s ip' len' s' : Reach s -> stepm s ip' len' = Next s' -> Reach s'.
Proof.
  intros [obs H] Hs. exists (obs ++ [(ip', len')]). rewrite run_app, H. cbn [run]. now rewrite Hs.
Qed.

Lemma reach_cert s : Reach s ->
  match cert (ip s) with
  | CNorm f d os => cur s = f /\ length (stk s) = P s + base f + d
  | CExc f => cur s = f /\ P s + base f <= length (stk s)
  | CNone => False
  end.
Proof. intros [obs H]. exact (verify_depth_stmt _ _ _ _ _ CHK obs s H). Qed.

Lemma chk_at a : cert a <> CNone -> check_at prog exct metas entry certs a = true.
Proof.
  intros H. unfold check_all in CHK. bsplit.
  match goal with H : forallb _ (seq 0 (length prog)) = true |- _ =>
    rewrite forallb_forall in H; apply H end.
  apply in_seq. split; [lia|]. cbn.
  match goal with H : (length certs =? length prog) = true |- _ => apply Nat.eqb_eq in H; rewrite <- H end.
  destruct (Nat.lt_ge_cases a (length certs)) as [Hl|Hl]; auto.
  exfalso. apply H. unfold Verify.cert. now apply nth_overflow.
Qed.

Lemma entry_cert g : is_entry g = true -> exists d, cert g = CNorm g d [].
Proof.
  unfold Verify.is_entry. destruct (find_meta metas g) as [m|] eqn:E; [|discriminate]. intros _.
  destruct (tc_find_meta_in _ _ _ E) as [Hin Ha].
  unfold check_all in CHK. bsplit.
  match goal with H : forallb _ metas = true |- _ => rewrite forallb_forall in H; specialize (H m Hin) end.
  unfold check_meta in *. bsplit. rewrite Ha in *.
  match goal with H : entry_cert_ok _ _ _ = true |- _ => unfold entry_cert_ok in H end.
  destruct (cert g) as [|g' d os|]; try discriminate. bsplit.
  match goal with H : (g =? g') = true |- _ => apply Nat.eqb_eq in H; subst g' end.
  destruct os; [|discriminate]. eauto.
Qed.

Lemma cert_step s k ip' len' s' :
  Reach s -> SInvm s k -> boundedm s -> stepm s ip' len' = Next s' ->
  SInvm s' (tally k s ip' len') /\ boundedm s'.
Proof.
  intros R I B H.
  destruct (machine_step code handler np is_entry entry M s k ip' len' s' I B H) as [I' [B'|G]]; [auto|].
  split; [exact I'|].
  pose proof (reach_cert s' (reach_step _ _ _ _ R H)) as C'.
  destruct (cert (ip s')) as [|f' d' os'|f'] eqn:Ec'; [destruct C'| |].
  { (* the new state is at a normal certificate: its depth is static *)
    destruct C' as [_ L]. unfold bounded. rewrite L.
    pose proof (maxdepth_ge metas certs _ _ _ _ Ec'). lia. }
  (* the new state is at a handler entry: the step did not grow the stack *)
  pose proof (reach_cert s R) as C.
  assert (K : check_at prog exct metas entry certs (ip s) = true).
  { apply chk_at. intros E. rewrite E in C. exact C. }
  unfold check_at in K. unfold bounded in *.
  destruct G as [(reads & pops & pushes & Hc & Hip & HP & Hpl & HL)|[(r & Hc & Hip)|[(Hc & Hip & HP & HL)|[(r & Hc & Hip)|He]]]].
  - rewrite Hc in K. destruct (cert (ip s)) as [|f d os|f] eqn:Ec; [destruct C| |].
    + unfold check_norm in K. bsplit.
      match goal with H : succ_ok _ _ _ _ _ = true |- _ => unfold succ_ok in H; rewrite <- Hip, Ec' in H end.
      bsplit.
      match goal with H : (_ - _ + _ =? 0) = true |- _ => apply Nat.eqb_eq in H end.
      rewrite HP, HL. lia.
    + unfold check_exc in K. destruct reads; [|discriminate]. destruct pops; [|discriminate].
      destruct pushes; [|discriminate]. rewrite HP, HL. lia.
  - rewrite Hc in K. destruct (cert (ip s)) as [|f d os|f] eqn:Ec; [destruct C| |].
    + unfold check_norm in K. bsplit.
      match goal with H : succ_ok _ _ _ _ (_ :: _) = true |- _ => unfold succ_ok in H; rewrite <- Hip, Ec' in H end.
      bsplit.
      match goal with H : (_ + 5 =? 0) = true |- _ => apply Nat.eqb_eq in H; lia end.
    + discriminate K.
  - rewrite Hc in K. destruct (cert (ip s)) as [|f d os|f] eqn:Ec; [destruct C| |].
    + unfold check_norm in K. bsplit.
      match goal with H : succ_ok _ _ _ _ _ = true |- _ => unfold succ_ok in H; rewrite <- Hip, Ec' in H end.
      bsplit.
      match goal with H : (_ + _ =? 0) = true |- _ => apply Nat.eqb_eq in H end.
      rewrite HP, HL. lia.
    + discriminate K.
  - rewrite Hc in K. destruct (cert (ip s)) as [|f d os|f] eqn:Ec; [destruct C| |].
    + unfold check_norm in K. bsplit. rewrite <- Hip, Ec' in *. discriminate.
    + discriminate K.
  - destruct (entry_cert _ He) as [d Hd]. rewrite Hd in Ec'. discriminate.
Qed.

Lemma run_inv : forall obs s k s',
  Reach s -> SInvm s k -> boundedm s -> runm s obs = Next s' ->
  SInvm s' (opens s k obs) /\ boundedm s'.
Proof.
  induction obs as [|[ip' len'] rest IH]; intros s k s' R I B H; cbn [run open_calls] in *.
  - injection H as <-. auto.
  - destruct (stepm s ip' len') as [s1| | | |] eqn:Hs; try discriminate.
    destruct (cert_step _ _ _ _ _ R I B Hs) as [I1 B1].
    eapply IH; eauto. eapply reach_step; eauto.
Qed.

Lemma bound_open obs s :
  runm init obs = Next s ->
  length (stk s) <= P s + M /\ P s <= M * opens init 0 obs.
Proof.
  intros H.
  destruct (run_inv obs init 0 s reach_init (SInv_init M)) as [I B]; auto.
  { unfold bounded. cbn. lia. }
  split; [exact B|]. eapply chain_bound. exact (inv_chain _ _ _ I).
Qed.

End OneModule.
End FromC07.

(* ------------------------------------------------------------------ the theorems of C13 (VM side)
   instantiated with VerifySound.verify_depth: no hypothesis left *)

(* A CALL taken with F = P (no MARK open: the SLIDE;CALL of a self tail call) keeps P and F,
   pushes no header, and leaves above P exactly the callee's parameters; the suspended
   frames below P are untouched. *)
Theorem tail_call_keeps_frame :
  forall code handler np is_entry entry s ip' len' s',
    Shape.step code handler np is_entry entry s ip' len' = Next s' ->
    tail_transfer code is_entry s ip' len' = true ->
    P s' = P s /\ F s' = F s /\ length (stk s') = P s + np ip' /\
    ip s' = ip' /\ cur s' = ip' /\
    stk s' = firstn (P s + np ip') (stk s) /\ firstn (P s) (stk s') = firstn (P s) (stk s).
Proof. exact tail_call_keeps_frame_m. Qed.

(* In an accepted module, along every observation sequence: the running frame is never larger
   than M = maxdepth, and the frame base is at most M times the number of non-tail calls that
   are currently open (taken and not yet returned from).  Tail transfers do not count. *)
Theorem stack_bounded_by_open_calls :
  forall prog exct metas entry certs,
    check_all prog exct metas entry certs = true ->
    forall obs s,
      run (code prog) (handler exct) (np metas) (is_entry metas) entry init obs = Next s ->
      length (stk s) <= P s + maxdepth metas certs /\
      P s <= maxdepth metas certs *
             open_calls (code prog) (handler exct) (np metas) (is_entry metas) entry init 0 obs.
Proof.
  intros prog exct metas entry certs CHK obs s H.
  exact (bound_open VerifySound.verify_depth prog exct metas entry certs CHK obs s H).
Qed.

(* ... a fortiori by the number of non-tail calls taken so far in the run *)
Theorem stack_bounded_by_nontail_calls :
  forall prog exct metas entry certs,
    check_all prog exct metas entry certs = true ->
    forall obs s,
      run (code prog) (handler exct) (np metas) (is_entry metas) entry init obs = Next s ->
      length (stk s) <= P s + maxdepth metas certs /\
      P s <= (maxdepth metas certs + 5) *
             nontail_calls (code prog) (handler exct) (np metas) (is_entry metas) entry init obs.
Proof.
  intros prog exct metas entry certs CHK obs s H.
  destruct (stack_bounded_by_open_calls _ _ _ _ _ CHK obs s H) as [H1 H2]. split; [exact H1|].
  pose proof (open_le_taken (code prog) (handler exct) (np metas) (is_entry metas) entry obs init 0) as L.
  cbn [plus] in L. nia.
Qed.

(* The peak stack of a run depends on its non-tail calls only: with at most k of them and ANY
   number of tail transfers (`tail_transfers ... obs` is unconstrained) the stack never
   exceeds (k+1)*(M+5) slots. *)
Theorem tail_call_constant_stack :
  forall prog exct metas entry certs,
    check_all prog exct metas entry certs = true ->
    forall obs s k,
      run (code prog) (handler exct) (np metas) (is_entry metas) entry init obs = Next s ->
      nontail_calls (code prog) (handler exct) (np metas) (is_entry metas) entry init obs <= k ->
      length (stk s) <= (k + 1) * (maxdepth metas certs + 5).
Proof.
  intros prog exct metas entry certs CHK obs s k H Hk.
  destruct (stack_bounded_by_nontail_calls _ _ _ _ _ CHK obs s H) as [H1 H2]. nia.
Qed.

(* the sharper form: (open calls + 1) frames of at most M slots *)
Theorem tail_call_constant_stack_open :
  forall prog exct metas entry certs,
    check_all prog exct metas entry certs = true ->
    forall obs s,
      run (code prog) (handler exct) (np metas) (is_entry metas) entry init obs = Next s ->
      length (stk s) <=
      (open_calls (code prog) (handler exct) (np metas) (is_entry metas) entry init 0 obs + 1) *
      maxdepth metas certs.
Proof.
  intros prog exct metas entry certs CHK obs s H.
  destruct (stack_bounded_by_open_calls _ _ _ _ _ CHK obs s H) as [H1 H2]. nia.
Qed.
