/* c15ffi_b.so — second library of the pool programs ffi.nev / ffi2.nev (property C15) */
int c15_inc(int x) { return x + 1; }
