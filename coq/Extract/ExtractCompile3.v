(* Extraction of the stage-3 compiler model (Src/Compile3.v: whole module image, calls, self tail
   calls) and of the value-level VM with frames (VM/ValueVM3.v) for the tie
   harness/ocaml/compile3 + checks/parts/compiletie.py level 3 (C02, compile correctness).
   ExtrOcamlBasic only: nat, N, Z, positive stay extracted datatypes.
   Model sources: NV.Src.Syntax NV.Src.Eval NV.Src.Compile3 NV.VM.ValueVM3 NV.Gen.Opcodes NV.Verifier.Effect *)
From Coq Require Import ExtrOcamlBasic.
From NV Require Import Gen.Opcodes Verifier.Effect Src.Syntax Src.Eval Src.Compile3 VM.ValueVM3.

Extraction "compilemodel.ml"
  fd_name fd_params fd_ret fd_body fd_catches fd_catch_all
  N_of_opcode opcode_of_N
  wrap32 run_program
  compile_program exc_table code_entry main_addr prog_in_F run_vm run_vm_peak.
