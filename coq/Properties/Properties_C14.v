(* C14 — exhausting the stack or the heap is reported, not suffered.
   Only statements here; every proof is `exact <lemma>` into VM/StackBoundProofs.v,
   VM/StackBoundRun.v (which restates the heap part from GC/GCProofs.v).

   The model (VM/StackBound.v) mirrors every handler of back/vmexec.c, back/libvm.c and
   back/vmffi.c as a write plan: its sp movements, its slot writes and its vm_check_stack call
   in program order.  Five handlers (MARK, DUP, ALLOC, RECORD_UNPACK, builtin read) exist in two
   forms, `*_pinned` (write first) and `*_checked` (check first); checks/c14.py decides by probing
   the real VM which form /repo's tree has and reports which of the two theorem sets below
   applies:  tree checks first   ->  no_write_outside_stack (every handler)
             tree writes first   ->  no_write_outside_stack_refuted + .._partial, and a VIOLATION. *)
From Coq Require Import ZArith List Arith Bool.
From NV Require Import Gen.Opcodes Verifier.Shape Verifier.Effect.
From NV Require Import VM.StackBound VM.StackBoundProofs VM.StackBoundRun VM.StackBoundSound.
From NV Require Import Verifier.Verify.
From NV Require Import Base.TMap GC.GCModel GC.GCSpec.
Import ListNotations.
Local Open Scope Z_scope.

(* ---- one handler ------------------------------------------------------------------------- *)

(* Check-first tree, every opcode, every configured size, every sp inside the stack (the
   operands the handler pops being present): no write lands outside [0, stack_size), and
   "stack too large" is reported exactly when the instruction's final sp would be >= stack_size. *)
Theorem no_write_outside_stack :
  forall i fault delta S sp,
    -1 <= sp < S ->
    no_underflow sp (plan_checked i fault delta) = true ->
    shape_delta_ok (shape_at i fault delta) = true ->
    (forall idx, exec_writes S sp (plan_checked i fault delta) <> OobWrite idx) /\
    (exec_writes S sp (plan_checked i fault delta) = LimitReported <->
     S <= sp + net (plan_checked i fault delta)).
Proof. exact StackBoundProofs.no_write_outside_stack. Qed.
Print Assumptions no_write_outside_stack.

(* Any mixture of the two forms: the same for every opcode whose handler the variant has in
   check-first form (all regular opcodes always are). *)
Theorem no_write_outside_stack_variant :
  forall (v : variant) i fault delta S sp,
    (forall c, irregular_of i = Some c -> v c = true) ->
    -1 <= sp < S ->
    no_underflow sp (plan v i fault delta) = true ->
    shape_delta_ok (shape_at i fault delta) = true ->
    (forall idx, exec_writes S sp (plan v i fault delta) <> OobWrite idx) /\
    (exec_writes S sp (plan v i fault delta) = LimitReported <-> S <= sp + net (plan v i fault delta)).
Proof. exact StackBoundProofs.no_write_outside_stack_variant. Qed.
Print Assumptions no_write_outside_stack_variant.

(* Write-first (pinned) tree: every opcode EXCEPT MARK, DUP, ALLOC, RECORD_UNPACK and
   BUILD_IN{lib_math_read} (= 12, regenerated from front/libmath.h). *)
Theorem no_write_outside_stack_partial :
  forall i fault delta S sp,
    ~ In (r_op i) [BYTECODE_MARK; BYTECODE_DUP; BYTECODE_ALLOC; BYTECODE_RECORD_UNPACK] ->
    ~ (r_op i = BYTECODE_BUILD_IN /\ r_w0 i = lib_math_read) ->
    -1 <= sp < S ->
    no_underflow sp (plan_pinned i fault delta) = true ->
    shape_delta_ok (shape_at i fault delta) = true ->
    (forall idx, exec_writes S sp (plan_pinned i fault delta) <> OobWrite idx) /\
    (exec_writes S sp (plan_pinned i fault delta) = LimitReported <->
     S <= sp + net (plan_pinned i fault delta)).
Proof. exact StackBoundProofs.no_write_outside_stack_partial. Qed.
Print Assumptions no_write_outside_stack_partial.

(* ... and for those five the statement is false on the pinned tree: MARK at sp = size-3 writes
   slot size+2; DUP and read at sp = size-1 write slot size; ALLOC 30 on a 5-slot stack writes
   slot 5; RECORD_UNPACK 3 at sp = size-2 writes slot size. *)
Theorem no_write_outside_stack_refuted :
  exec_writes 10 7 (plan_pinned (ri BYTECODE_MARK 0) false 5) = OobWrite 12 /\
  exec_writes 10 9 (plan_pinned (ri BYTECODE_DUP 1) false 1) = OobWrite 10 /\
  exec_writes 5 (-1) (plan_pinned (ri BYTECODE_ALLOC 30) false 30) = OobWrite 5 /\
  exec_writes 10 8 (plan_pinned (ri BYTECODE_RECORD_UNPACK 3) false 2) = OobWrite 10 /\
  exec_writes 10 9 (plan_pinned (ri BYTECODE_BUILD_IN lib_math_read) false 1) = OobWrite 10.
Proof. exact StackBoundProofs.no_write_outside_stack_refuted. Qed.
Print Assumptions no_write_outside_stack_refuted.

(* the same five states on the check-first tree: the limit is reported *)
Theorem witnesses_checked_report_limit :
  exec_writes 10 7 (plan_checked (ri BYTECODE_MARK 0) false 5) = LimitReported /\
  exec_writes 10 9 (plan_checked (ri BYTECODE_DUP 1) false 1) = LimitReported /\
  exec_writes 5 (-1) (plan_checked (ri BYTECODE_ALLOC 30) false 30) = LimitReported /\
  exec_writes 10 8 (plan_checked (ri BYTECODE_RECORD_UNPACK 3) false 2) = LimitReported /\
  exec_writes 10 9 (plan_checked (ri BYTECODE_BUILD_IN lib_math_read) false 1) = LimitReported.
Proof. exact StackBoundProofs.witnesses_checked_report_limit. Qed.
Print Assumptions witnesses_checked_report_limit.

(* ---- a traced run (what the extracted model is run on) ------------------------------------- *)

(* smaller limits never change a run that fits *)
Theorem run_plans_monotone : forall v tr S S' i,
  S <= S' -> run_plans v S tr i = LDone -> run_plans v S' tr i = LDone.
Proof. exact StackBoundProofs.run_plans_monotone. Qed.
Print Assumptions run_plans_monotone.

(* a run fits exactly the sizes from its demand upward: S* = trace_demand *)
Theorem run_plans_demand : forall v tr S i, 0 <= S ->
  Forall (operands_present v) tr ->
  (run_plans v S tr i = LDone <-> trace_demand v tr <= S).
Proof. exact StackBoundProofs.run_plans_demand. Qed.
Print Assumptions run_plans_demand.

(* check-first handlers: the run stops with the limit exactly at the first step whose resulting
   sp is >= size (first_need), and no step writes outside *)
Theorem run_plans_fires_iff_needed : forall v tr S sp i,
  chained sp tr -> sp < S ->
  Forall (fun t => step_consistent v t = true) tr ->
  Forall (variant_covers v) tr ->
  run_plans v S tr i = first_need S tr i.
Proof. exact StackBoundProofs.run_plans_fires_iff_needed. Qed.
Print Assumptions run_plans_fires_iff_needed.

(* ---- the shape machine with a configured stack size ----------------------------------------- *)

(* A run that does not hit the limit under S is the same run (same states, same outcome) under
   every S' >= S and on the unlimited machine. *)
Theorem limit_monotone_stack :
  forall prog handler np is_entry entry v obs S S' s i r,
    S <= S' ->
    run_limited prog handler np is_entry entry v S s obs i = r ->
    (forall j, r <> LimitAt j) -> (forall j idx, r <> OobAt j idx) ->
    run_limited prog handler np is_entry entry v S' s obs i = r /\
    lift (srun prog handler np is_entry entry s obs) = r.
Proof. exact StackBoundRun.limit_monotone_stack. Qed.
Print Assumptions limit_monotone_stack.

Theorem limit_monotone_completes :
  forall prog handler np is_entry entry v obs S S' s s' i,
    S <= S' ->
    run_limited prog handler np is_entry entry v S s obs i = LNext s' ->
    run_limited prog handler np is_entry entry v S' s obs i = LNext s' /\
    srun prog handler np is_entry entry s obs = Next s'.
Proof. exact StackBoundRun.limit_monotone_completes. Qed.
Print Assumptions limit_monotone_completes.

(* The run under S reports the limit at step i iff i is the first step at which the unlimited
   run's instruction needs sp >= S; otherwise the two runs coincide.  (all_consistent: the plan
   table agrees with every observed step and the variant has that handler in check-first form
   -- checked by the lock-step driver on every real trace.) *)
Theorem limit_fires_iff_needed :
  forall prog handler np is_entry entry v obs S s i,
    sp_of s < S -> all_consistent prog handler np is_entry entry v s obs ->
    run_limited prog handler np is_entry entry v S s obs i =
    first_need_obs prog handler np is_entry entry S s obs i.
Proof. exact StackBoundRun.limit_fires_iff_needed. Qed.
Print Assumptions limit_fires_iff_needed.

Theorem limited_run_never_oob :
  forall prog handler np is_entry entry v obs S s i j idx,
    sp_of s < S -> all_consistent prog handler np is_entry entry v s obs ->
    run_limited prog handler np is_entry entry v S s obs i <> OobAt j idx.
Proof. exact StackBoundRun.limited_run_never_oob. Qed.
Print Assumptions limited_run_never_oob.

(* ---- discharging the consistency hypothesis; verified code -------------------------------------- *)

(* The write-plan table agrees with the stack-effect table of the shape machine (Effect.decode, the
   table C07's lock-step ties to the real VM): every step the shape machine accepts is consistent
   with the plan of the executed instruction -- for every program, every state, every observation. *)
Theorem all_consistent_checked :
  forall prog handler np is_entry entry obs s,
    all_consistent prog handler np is_entry entry checked s obs.
Proof. exact StackBoundSound.all_consistent_checked. Qed.
Print Assumptions all_consistent_checked.

(* so, for the check-first tree, without any hypothesis on the run: *)
Theorem limit_fires_iff_needed_checked :
  forall prog handler np is_entry entry obs S s i,
    sp_of s < S ->
    run_limited prog handler np is_entry entry checked S s obs i =
    first_need_obs prog handler np is_entry entry S s obs i.
Proof. exact StackBoundSound.limit_fires_iff_needed_checked. Qed.
Print Assumptions limit_fires_iff_needed_checked.

(* Verified code (C07's check_all) under ANY configured stack size, along EVERY observation
   sequence: no step writes outside the stack, the machine never crashes, and "stack too large"
   is reported exactly at the first step whose resulting sp is >= the size. *)
Theorem verified_run_under_limit :
  forall prog exct metas entry certs,
    check_all prog exct metas entry certs = true ->
    forall S obs, 0 <= S ->
      let r := run_limited prog (Verify.handler exct) (Verify.np metas) (Verify.is_entry metas) entry checked S init obs 0 in
      (forall j idx, r <> OobAt j idx) /\ (forall c, r <> LOther (Crash c)) /\
      r = first_need_obs prog (Verify.handler exct) (Verify.np metas) (Verify.is_entry metas) entry S init obs 0.
Proof. exact StackBoundSound.verified_run_under_limit. Qed.
Print Assumptions verified_run_under_limit.

(* ---- heap -------------------------------------------------------------------------------------- *)

(* gc_alloc_any reports out of memory exactly when no cell is free, and then nothing has been
   written (no new heap exists); otherwise it changes exactly one cell, which was free. *)
Theorem oom_reported : forall g o, WF g ->
  (gc_alloc_any g o = None <-> (forall a, in_range g a -> allocated g a)) /\
  (forall g' a, gc_alloc_any g o = Some (g', a) ->
     in_range g a /\ ~ allocated g a /\ tget (g_obj g') a = Some o /\
     (forall b, b <> a -> tget (g_obj g') b = tget (g_obj g) b)).
Proof. exact StackBoundRun.oom_reported. Qed.
Print Assumptions oom_reported.

(* ---- the hypotheses are satisfiable; the definitions compute ----------------------------------- *)

(* INT 1; INT 2; OP_ADD_INT from an empty stack needs exactly 2 slots *)
Definition ex_prog : list rinstr := [ri BYTECODE_INT 1; ri BYTECODE_INT 2; ri BYTECODE_OP_ADD_INT 0].
Definition ex_trace : list tstep :=
  [ {| t_instr := ri BYTECODE_INT 1; t_fault := false; t_sp := -1; t_sp' := 0 |};
    {| t_instr := ri BYTECODE_INT 2; t_fault := false; t_sp := 0; t_sp' := 1 |};
    {| t_instr := ri BYTECODE_OP_ADD_INT 0; t_fault := false; t_sp := 1; t_sp' := 0 |} ].

Example ex_consistent : forallb (step_consistent checked) ex_trace = true.
Proof. reflexivity. Qed.
Example ex_demand : trace_demand checked ex_trace = 2.
Proof. reflexivity. Qed.
Example ex_fits : run_plans checked 2 ex_trace 0 = LDone.
Proof. reflexivity. Qed.
Example ex_limit : run_plans checked 1 ex_trace 0 = LLimit 1.
Proof. reflexivity. Qed.
Example ex_size0 : run_plans checked 0 ex_trace 0 = LLimit 0.
Proof. reflexivity. Qed.

(* the same on the shape machine *)
Definition ex_obs : list (nat * nat) := [(1, 1); (2, 2); (3, 1)]%nat.
Example ex_limited_fits :
  match run_limited ex_prog (fun _ => None) (fun _ => O) (fun _ => false) O checked 2 init ex_obs 0 with
  | LNext s => ip s = 3%nat /\ length (stk s) = 1%nat
  | _ => False
  end.
Proof. vm_compute. auto. Qed.
Example ex_limited_limit :
  run_limited ex_prog (fun _ => None) (fun _ => O) (fun _ => false) O checked 1 init ex_obs 0 = LimitAt 1.
Proof. vm_compute. reflexivity. Qed.
Example ex_all_consistent :
  all_consistent ex_prog (fun _ => None) (fun _ => O) (fun _ => false) O checked init ex_obs.
Proof. vm_compute. repeat split; discriminate. Qed.

(* pinned MARK: writes outside exactly in the top five slots *)
Example ex_mark_window : forall S sp, -1 <= sp < S ->
  ((exists idx, exec_writes S sp mark_pinned = OobWrite idx) <-> S <= sp + 5).
Proof. exact StackBoundProofs.mark_pinned_oob_iff. Qed.
