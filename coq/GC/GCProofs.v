(* C09 — proofs of the statements of Properties/Properties_C09.v about the collector model
   GC/GCModel.v (back/gc.c).  No axioms. *)
From Coq Require Import NArith List Bool Lia.
From NV Require Import Base.TMap GC.GCModel GC.GCSpec GC.GCLemmasBase GC.GCLemmasSweep
                       GC.GCLemmasMark GC.GCLemmasHeap.
Import ListNotations.
Local Open Scope N_scope.

(* ---- gc_new, gc_alloc_any, conservation (proved in GCLemmasBase) ------------------------ *)

Lemma gc_new_wf : forall size, 2 <= size -> WF (gc_new size) /\ Closed (gc_new size).
Proof. exact GCLemmasBase.gc_new_wf. Qed.

Lemma alloc_hands_out_a_free_cell : forall g o g' a, WF g -> gc_alloc_any g o = Some (g', a) ->
  in_range g a /\ ~ allocated g a /\ tget (g_obj g') a = Some o /\
  (forall b, b <> a -> tget (g_obj g') b = tget (g_obj g) b).
Proof. exact GCLemmasBase.alloc_hands_out_a_free_cell. Qed.

Lemma alloc_oom_iff_full : forall g o, WF g ->
  (gc_alloc_any g o = None <-> forall a, in_range g a -> allocated g a).
Proof. exact GCLemmasBase.alloc_oom_iff_full. Qed.

Lemma cells_conserved : forall g, WF g ->
  exists fl, free_list g = Some fl /\
             N.of_nat (length fl) + N.of_nat (length (cur_list g)) = g_size g - 1.
Proof. exact GCLemmasBase.cells_conserved. Qed.

(* ---- fuel ------------------------------------------------------------------------------ *)

Lemma cur_length_le g : WF g -> N.of_nat (length (cur_list g)) <= g_size g - 1.
Proof.
  intros W. destruct (GCLemmasBase.cells_conserved g W) as (fl & _ & H). lia.
Qed.

Lemma fuel_ok g m : WF g -> (cnt (cur_list g) m + 2 <= mark_fuel g)%nat.
Proof.
  intros W. pose proof (cur_length_le g W) as Hl. pose proof (wf_size g W) as Hs.
  pose proof (cntl_le_length m (cur_list g)) as Hc. unfold cnt, mark_fuel. lia.
Qed.

Lemma cur_covers g : WF g -> forall a, tget (g_obj g) a <> None -> In a (cur_list g).
Proof.
  intros W a Ha. apply (wf_cur g W). split; [apply alloc_in_range; assumption|exact Ha].
Qed.

(* ---- gc_collect / gc_run ------------------------------------------------------------------ *)

Lemma collect_inv g roots g' : gc_collect g roots = COk g' ->
  exists m', mark_access (mark_fuel g) (g_obj g) roots (g_mark g) = MOk m' /\
             g' = gc_sweep_all (with_mark g m').
Proof.
  unfold gc_collect. destruct (mark_access _ _ _ _) as [m'| |]; try discriminate.
  intros H. inversion H; subst. exists m'. auto.
Qed.

Lemma collect_total : forall g roots, WF g -> Closed g -> roots_ok g roots ->
  exists g', gc_collect g roots = COk g'.
Proof.
  intros g roots W C HR. unfold gc_collect.
  destruct (mark_access_total (g_obj g) (Closed_refs g C) (Closed_kind g C) (cur_list g)
              (cur_covers g W) (mark_fuel g) roots (g_mark g) (fuel_ok g _ W)) as (m' & E).
  rewrite E. eexists; reflexivity.
Qed.

Lemma collect_all g roots g' : WF g -> Closed g -> roots_ok g roots ->
  gc_collect g roots = COk g' ->
  WF g' /\ Closed g' /\ g_size g' = g_size g /\
  (forall a, allocated g' a <-> reach g roots a) /\
  (forall a, reach g roots a -> tget (g_obj g') a = tget (g_obj g) a).
Proof.
  intros W C HR H. destruct (collect_inv _ _ _ H) as (m' & Em & ->).
  apply collect_core; try assumption.
  apply (mark_access_spec (g_obj g) (Closed_refs g C) _ _ _ _ Em).
Qed.

Lemma collect_exact : forall g roots g', WF g -> Closed g -> roots_ok g roots ->
  gc_collect g roots = COk g' ->
  (forall a, allocated g' a <-> reach g roots a) /\
  (forall a, reach g roots a -> tget (g_obj g') a = tget (g_obj g) a).
Proof.
  intros g roots g' W C HR H.
  destruct (collect_all g roots g' W C HR H) as (_ & _ & _ & H1 & H2). split; assumption.
Qed.

Lemma run_inv g roots gv g' : gc_run g roots gv = COk g' ->
  (gc_trigger g = false /\ g' = g) \/
  (gc_trigger g = true /\ exists m1 m2,
     mark_access (mark_fuel g) (g_obj g) roots (g_mark g) = MOk m1 /\
     (if 0 <? gv then mark (mark_fuel g) (g_obj g) m1 gv else MOk m1) = MOk m2 /\
     g' = gc_sweep_all (with_mark g m2)).
Proof.
  unfold gc_run. destruct (gc_trigger g).
  - destruct (mark_access _ _ _ _) as [m1| |]; try discriminate.
    destruct (if 0 <? gv then mark (mark_fuel g) (g_obj g) m1 gv else MOk m1) as [m2| |] eqn:E2;
      try discriminate.
    intros H. inversion H; subst. right. split; [reflexivity|]. exists m1, m2. auto.
  - intros H. inversion H; subst. left. auto.
Qed.

Lemma run_all g roots gv g' : WF g -> Closed g -> roots_ok g (gv :: roots) ->
  gc_run g roots gv = COk g' ->
  (gc_trigger g = false /\ g' = g) \/
  (gc_trigger g = true /\
   WF g' /\ Closed g' /\ g_size g' = g_size g /\
   (forall a, allocated g' a <-> reach g (gv :: roots) a) /\
   (forall a, reach g (gv :: roots) a -> tget (g_obj g') a = tget (g_obj g) a)).
Proof.
  intros W C HR H. destruct (run_inv _ _ _ _ H) as [Hl|(Ht & m1 & m2 & E1 & E2 & ->)];
    [left; exact Hl|right]. split; [exact Ht|].
  apply collect_core; try assumption.
  pose proof (Closed_refs g C) as Hrefs.
  apply SpecL_snoc with (m1 := m1).
  - apply (mark_access_spec (g_obj g) Hrefs _ _ _ _ E1).
  - destruct (N.ltb_spec 0 gv) as [Hgv|Hgv].
    + apply (mark_spec (g_obj g) Hrefs _ _ _ _ E2).
    + inversion E2; subst. apply Spec_trivial. left. lia.
Qed.

Lemma run_exact : forall g roots gv g', WF g -> Closed g -> roots_ok g (gv :: roots) ->
  gc_run g roots gv = COk g' ->
  (gc_trigger g = false /\ g' = g) \/
  (gc_trigger g = true /\
   (forall a, allocated g' a <-> reach g (gv :: roots) a) /\
   (forall a, reach g (gv :: roots) a -> tget (g_obj g') a = tget (g_obj g) a)).
Proof.
  intros g roots gv g' W C HR H.
  destruct (run_all g roots gv g' W C HR H) as [Hl|(Ht & _ & _ & _ & H1 & H2)];
    [left; exact Hl|right]. split; [exact Ht|]. split; assumption.
Qed.

(* ---- every operation preserves the invariants -------------------------------------------- *)

Lemma roots_ok_of_forallb g roots : forallb (ref_ok g any_obj) roots = true -> roots_ok g roots.
Proof.
  intros H r Hr. rewrite forallb_forall in H. specialize (H r Hr). apply ref_ok_inv in H.
  destruct H as [H|(o & Ho & _)]; [now left|right]. unfold allocated. rewrite Ho. discriminate.
Qed.

(* what a successful step does to the bookkeeping: invariants, heap size, and the length of
   the current list (grows by one exactly for an allocation, unchanged by every other
   non-collecting operation) *)
Definition is_alloc_op (o : op) : bool := match o with OpAlloc _ => true | _ => false end.
Definition non_collecting (o : op) : Prop :=
  match o with OpCollect _ | OpRun _ _ => False | _ => True end.

Lemma step_ok_full g o g' r : WF g -> Closed g -> step g o = SOk g' r ->
  WF g' /\ Closed g' /\ g_size g' = g_size g /\
  (non_collecting o ->
   length (cur_list g') = (length (cur_list g) + (if is_alloc_op o then 1 else 0))%nat).
Proof.
  intros W C H.
  assert (U : forall a oold onew, tget (g_obj g) a = Some oold -> same_kind oold onew ->
                obj_ok g onew = true ->
                g' = with_obj g (tset (g_obj g) a (Some onew)) ->
                forall o', is_alloc_op o' = false ->
                WF g' /\ Closed g' /\ g_size g' = g_size g /\
                (non_collecting o' ->
                 length (cur_list g') =
                 (length (cur_list g) + (if is_alloc_op o' then 1 else 0))%nat)).
  { intros a oold onew Ha Hk Hok -> o' Ho'.
    destruct (update_preserves g a oold onew W C Ha Hk Hok) as (U1 & U2 & U3 & U4).
    split; [exact U1|]. split; [exact U2|]. split; [exact U3|]. rewrite U4, Ho'. intros _. lia. }
  destruct o as [ob|a i v|a i v|a v|a rr|a v|a p|roots|roots gv]; cbn [step] in H.
  - (* alloc *)
    destruct (obj_ok g ob) eqn:Eok; [|discriminate].
    destruct (gc_alloc_any g ob) as [[g1 a1]|] eqn:Ea; [|discriminate].
    inversion H; subst g1 a1.
    destruct (alloc_preserves g ob g' r W C Eok Ea) as (W' & C').
    destruct (alloc_lists g ob g' r Ea) as (Hc & _ & Hs).
    split; [exact W'|]. split; [exact C'|]. split; [exact Hs|].
    intros _. rewrite Hc, app_length. reflexivity.
  - (* set vec *)
    destruct (tget (g_obj g) a) as [[kd p|r0|l|r0|d l|r0|v0 ip]|] eqn:Ea; try discriminate.
    destruct (ref_ok g any_obj v) eqn:Ev; [|discriminate].
    destruct (list_set l (N.to_nat i) v) as [l'|] eqn:El; [|discriminate].
    injection H as Hg Hr.
    apply (U a (OVec l) (OVec l') Ea); [repeat split| |symmetry; exact Hg|reflexivity].
    cbn [obj_ok]. apply (list_set_forallb _ l (N.to_nat i) v l' El); [|exact Ev].
      exact (C a _ Ea).
  - (* set arr *)
    destruct (tget (g_obj g) a) as [[kd p|r0|l|r0|d l|r0|v0 ip]|] eqn:Ea; try discriminate.
    destruct (ref_ok g any_obj v) eqn:Ev; [|discriminate].
    destruct (list_set l (N.to_nat i) v) as [l'|] eqn:El; [|discriminate].
    injection H as Hg Hr.
    apply (U a (OArr d l) (OArr d l') Ea); [repeat split| |symmetry; exact Hg|reflexivity].
    cbn [obj_ok]. apply (list_set_forallb _ l (N.to_nat i) v l' El); [|exact Ev].
      exact (C a _ Ea).
  - (* append *)
    destruct (tget (g_obj g) a) as [[kd p|r0|l|r0|d l|r0|v0 ip]|] eqn:Ea; try discriminate.
    destruct d as [|d0 [|d1 dt]]; try discriminate.
    destruct (ref_ok g any_obj v) eqn:Ev; [|discriminate].
    injection H as Hg Hr.
    apply (U a (OArr [d0] l) (OArr [d0 + 1] (l ++ [v])) Ea); [repeat split| |symmetry; exact Hg|reflexivity].
    cbn [obj_ok]. rewrite forallb_app. cbn [forallb]. rewrite Ev.
      pose proof (C a _ Ea) as Hl. cbn [obj_ok] in Hl. rewrite Hl. reflexivity.
  - (* set ref *)
    destruct (tget (g_obj g) a) as [[kd p|r0|l|r0|d l|r0|v0 ip]|] eqn:Ea; try discriminate.
    + destruct (ref_ok g is_str rr) eqn:Ev; [|discriminate]. injection H as Hg Hr.
      apply (U a (OStrRef r0) (OStrRef rr) Ea); [repeat split|assumption|symmetry; exact Hg|reflexivity].
    + destruct (ref_ok g is_vec rr) eqn:Ev; [|discriminate]. injection H as Hg Hr.
      apply (U a (OVecRef r0) (OVecRef rr) Ea); [repeat split|assumption|symmetry; exact Hg|reflexivity].
    + destruct (ref_ok g is_arr rr) eqn:Ev; [|discriminate]. injection H as Hg Hr.
      apply (U a (OArrRef r0) (OArrRef rr) Ea); [repeat split|assumption|symmetry; exact Hg|reflexivity].
  - (* set func vec *)
    destruct (tget (g_obj g) a) as [[kd p|r0|l|r0|d l|r0|v0 ip]|] eqn:Ea; try discriminate.
    destruct (ref_ok g is_vec v) eqn:Ev; [|discriminate]. injection H as Hg Hr.
    apply (U a (OFunc v0 ip) (OFunc v ip) Ea); [repeat split|assumption|symmetry; exact Hg|reflexivity].
  - (* set scalar *)
    destruct (tget (g_obj g) a) as [[kd p0|r0|l|r0|d l|r0|v0 ip]|] eqn:Ea; try discriminate.
    injection H as Hg Hr.
    apply (U a (OScalar kd p0) (OScalar kd p) Ea); [repeat split|reflexivity|symmetry; exact Hg|reflexivity].
  - (* collect *)
    destruct (forallb (ref_ok g any_obj) roots) eqn:Er; [|discriminate].
    destruct (gc_collect g roots) as [g1| |] eqn:Ec; try discriminate.
    inversion H; subst g1 r.
    destruct (collect_all g roots g' W C (roots_ok_of_forallb g roots Er) Ec)
      as (W' & C' & Hs & _).
    split; [exact W'|]. split; [exact C'|]. split; [exact Hs|]. intros [].
  - (* run *)
    destruct (forallb (ref_ok g any_obj) roots && ref_ok g any_obj gv) eqn:Er; [|discriminate].
    apply andb_true_iff in Er. destruct Er as [Er Egv].
    destruct (gc_run g roots gv) as [g1| |] eqn:Ec; try discriminate.
    inversion H; subst g1 r.
    assert (HR : roots_ok g (gv :: roots)).
    { apply roots_ok_of_forallb. cbn [forallb]. rewrite Egv, Er. reflexivity. }
    destruct (run_all g roots gv g' W C HR Ec) as [(_ & ->)|(_ & W' & C' & Hs & _)].
    + split; [exact W|]. split; [exact C|]. split; [reflexivity|]. intros [].
    + split; [exact W'|]. split; [exact C'|]. split; [exact Hs|]. intros [].
Qed.

Lemma gc_wf_step : forall g o g' r, WF g -> Closed g -> step g o = SOk g' r -> WF g' /\ Closed g'.
Proof.
  intros g o g' r W C H. destruct (step_ok_full g o g' r W C H) as (W' & C' & _).
  split; assumption.
Qed.

Lemma step_st_wf g o : WF g -> Closed g -> WF (step_st g o) /\ Closed (step_st g o).
Proof.
  intros W C. unfold step_st. destruct (step g o) as [g' r| | | |] eqn:E; try (split; assumption).
  apply (gc_wf_step g o g' r W C E).
Qed.

Lemma fold_step_wf : forall ops g, WF g -> Closed g ->
  WF (fold_left step_st ops g) /\ Closed (fold_left step_st ops g).
Proof.
  induction ops as [|o ops IH]; intros g W C; cbn [fold_left]; [split; assumption|].
  destruct (step_st_wf g o W C) as (W' & C'). apply IH; assumption.
Qed.

Lemma gc_wf_history : forall size ops, 2 <= size ->
  WF (run_history size ops) /\ Closed (run_history size ops).
Proof.
  intros size ops Hs. destruct (gc_new_wf size Hs) as (W & C).
  unfold run_history. apply fold_step_wf; assumption.
Qed.

(* ---- bounded live data never runs out of memory -------------------------------------------- *)

Definition count_alloc (ops : list op) : nat := length (filter is_alloc_op ops).

Lemma fold_step_count : forall pre g, WF g -> Closed g ->
  (forall o, In o pre -> non_collecting o) ->
  let gp := fold_left step_st pre g in
  WF gp /\ Closed gp /\ g_size gp = g_size g /\
  (length (cur_list gp) <= length (cur_list g) + count_alloc pre)%nat.
Proof.
  induction pre as [|o pre IH]; intros g W C Hnc; cbn zeta.
  - cbn [fold_left]. unfold count_alloc. cbn. split; [exact W|]. split; [exact C|].
    split; [reflexivity|lia].
  - cbn [fold_left].
    assert (Hno : non_collecting o) by (apply Hnc; now left).
    assert (Hnc' : forall o', In o' pre -> non_collecting o') by (intros o' Ho'; apply Hnc; now right).
    assert (Hca : count_alloc (o :: pre) = ((if is_alloc_op o then 1 else 0) + count_alloc pre)%nat).
    { unfold count_alloc. cbn [filter]. destruct (is_alloc_op o); reflexivity. }
    assert (Est : step_st g o = match step g o with SOk g1 _ => g1 | _ => g end) by reflexivity.
    destruct (step g o) as [g1 r| | | |] eqn:E; rewrite Est.
    + destruct (step_ok_full g o g1 r W C E) as (W1 & C1 & S1 & L1). specialize (L1 Hno).
      destruct (IH g1 W1 C1 Hnc') as (W2 & C2 & S2 & L2).
      split; [exact W2|]. split; [exact C2|]. split; [congruence|]. rewrite Hca. lia.
    + destruct (IH g W C Hnc') as (W2 & C2 & S2 & L2).
      split; [exact W2|]. split; [exact C2|]. split; [exact S2|]. rewrite Hca. lia.
    + destruct (IH g W C Hnc') as (W2 & C2 & S2 & L2).
      split; [exact W2|]. split; [exact C2|]. split; [exact S2|]. rewrite Hca. lia.
    + destruct (IH g W C Hnc') as (W2 & C2 & S2 & L2).
      split; [exact W2|]. split; [exact C2|]. split; [exact S2|]. rewrite Hca. lia.
    + destruct (IH g W C Hnc') as (W2 & C2 & S2 & L2).
      split; [exact W2|]. split; [exact C2|]. split; [exact S2|]. rewrite Hca. lia.
Qed.

Lemma step_oom_inv g o : non_collecting o -> step g o = SOom ->
  exists ob, o = OpAlloc ob /\ gc_alloc_any g ob = None.
Proof.
  intros Hnc H. destruct o as [ob|a i v|a i v|a v|a rr|a v|a p|roots|roots gv]; cbn [step] in H;
    try (exfalso; exact Hnc).
  - destruct (obj_ok g ob); [|discriminate].
    destruct (gc_alloc_any g ob) as [[g1 a1]|] eqn:Ea; [discriminate|]. exists ob. auto.
  - exfalso. destruct (tget (g_obj g) a) as [[kd p|r0|l|r0|d l|r0|v0 ip]|]; try discriminate.
    destruct (ref_ok g any_obj v); [|discriminate].
    destruct (list_set l (N.to_nat i) v); discriminate.
  - exfalso. destruct (tget (g_obj g) a) as [[kd p|r0|l|r0|d l|r0|v0 ip]|]; try discriminate.
    destruct (ref_ok g any_obj v); [|discriminate].
    destruct (list_set l (N.to_nat i) v); discriminate.
  - exfalso. destruct (tget (g_obj g) a) as [[kd p|r0|l|r0|d l|r0|v0 ip]|]; try discriminate.
    destruct d as [|d0 [|d1 dt]]; try discriminate.
    destruct (ref_ok g any_obj v); discriminate.
  - exfalso. destruct (tget (g_obj g) a) as [[kd p|r0|l|r0|d l|r0|v0 ip]|]; try discriminate.
    + destruct (ref_ok g is_str rr); discriminate.
    + destruct (ref_ok g is_vec rr); discriminate.
    + destruct (ref_ok g is_arr rr); discriminate.
  - exfalso. destruct (tget (g_obj g) a) as [[kd p|r0|l|r0|d l|r0|v0 ip]|]; try discriminate.
    destruct (ref_ok g is_vec v); discriminate.
  - exfalso. destruct (tget (g_obj g) a) as [[kd p0|r0|l|r0|d l|r0|v0 ip]|]; discriminate.
Qed.

Lemma full_cur_length g : WF g -> g_free g = 0 ->
  N.of_nat (length (cur_list g)) = g_size g - 1.
Proof.
  intros W Hf. destruct (wf_free g W) as (fl & Hch & Hnd & Hfl).
  pose proof (wf_count g fl W Hnd Hfl) as Hc.
  rewrite Hf in Hch. apply chain_head_zero in Hch. subst fl. cbn [length] in Hc. lia.
Qed.

Lemma bounded_live_never_oom : forall g roots g' ops, WF g -> Closed g -> roots_ok g roots ->
  gc_collect g roots = COk g' ->
  (forall o, In o ops -> match o with OpCollect _ | OpRun _ _ => False | _ => True end) ->
  N.of_nat (length (filter (fun o => match o with OpAlloc _ => true | _ => false end) ops))
     + N.of_nat (length (cur_list g')) <= g_size g - 1 ->
  forall pre o post, ops = pre ++ o :: post -> step (fold_left step_st pre g') o <> SOom.
Proof.
  intros g roots g' ops W C HR Hc Hnc Hbound pre o post Hops Hoom.
  destruct (collect_all g roots g' W C HR Hc) as (W' & C' & Hs' & _).
  change (fun o => match o with OpAlloc _ => true | _ => false end) with is_alloc_op in Hbound.
  fold (count_alloc ops) in Hbound.
  assert (Hnc_pre : forall o', In o' pre -> non_collecting o').
  { intros o' Ho'. apply Hnc. rewrite Hops. apply in_or_app. now left. }
  assert (Hnc_o : non_collecting o).
  { apply Hnc. rewrite Hops. apply in_or_app. right. now left. }
  destruct (fold_step_count pre g' W' C' Hnc_pre) as (Wp & Cp & Sp & Lp).
  set (gp := fold_left step_st pre g') in *.
  destruct (step_oom_inv gp o Hnc_o Hoom) as (ob & -> & Hnone).
  assert (Hfree : g_free gp = 0).
  { unfold gc_alloc_any in Hnone. destruct (N.eqb_spec (g_free gp) 0) as [E|E]; [exact E|discriminate]. }
  pose proof (full_cur_length gp Wp Hfree) as Hfull.
  assert (Hcount : count_alloc ops = (count_alloc pre + 1 + count_alloc post)%nat).
  { rewrite Hops. unfold count_alloc. rewrite filter_app, app_length. cbn [filter is_alloc_op length]. lia. }
  pose proof (wf_size g W) as Hsz.
  rewrite Hcount in Hbound. lia.
Qed.
