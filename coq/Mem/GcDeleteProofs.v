(* Mem/GcDeleteProofs.v — gc_delete frees the object of every allocated cell exactly once,
   in every collector state (no well-formedness needed: the statement is per cell).  No axioms. *)
From Coq Require Import NArith List Lia FinFun.
From NV Require Import Base.TMap GC.GCModel GC.GCSpec Mem.GcDelete.
Import ListNotations.
Local Open Scope N_scope.

Lemma in_nrange n i : In i (nrange n) <-> i < n.
Proof.
  unfold nrange. rewrite in_map_iff. split.
  - intros [k [<- Hk]]. apply in_seq in Hk. lia.
  - intros H. exists (N.to_nat i). split; [lia|]. apply in_seq. lia.
Qed.

Lemma nodup_nrange n : NoDup (nrange n).
Proof.
  unfold nrange. apply FinFun.Injective_map_NoDup; [|apply seq_NoDup].
  intros a b H. now apply Nat2N.inj.
Qed.

Definition cell_objs (objs : tmap (option obj)) (i : N) : list (N * obj) :=
  match tget objs i with Some o => [(i, o)] | None => [] end.

Lemma fold_is_flat_map objs : forall l acc,
  fold_left (gc_delete_step objs) l acc = acc ++ flat_map (cell_objs objs) l.
Proof.
  induction l as [|i l IH]; intros acc; cbn.
  - now rewrite app_nil_r.
  - rewrite IH. unfold gc_delete_step, cell_objs. destruct (tget objs i); cbn.
    + now rewrite <- app_assoc.
    + reflexivity.
Qed.

Lemma in_flat objs l i o : In (i, o) (flat_map (cell_objs objs) l) <-> In i l /\ tget objs i = Some o.
Proof.
  rewrite in_flat_map. unfold cell_objs. split.
  - intros [j [Hj Hin]]. destruct (tget objs j) eqn:E; [|destruct Hin].
    destruct Hin as [Hin|[]]. inversion Hin; subst. auto.
  - intros [Hi E]. exists i. split; [exact Hi|]. rewrite E. now left.
Qed.

Lemma nodup_flat objs : forall l, NoDup l -> NoDup (map fst (flat_map (cell_objs objs) l)).
Proof.
  induction l as [|i l IH]; intros H; cbn; [constructor|].
  inversion H as [|? ? Hni Hl]; subst. rewrite map_app. unfold cell_objs at 1.
  destruct (tget objs i) eqn:E; cbn; [|now apply IH].
  constructor; [|now apply IH].
  intros Hin. apply in_map_iff in Hin. destruct Hin as [[j o'] [Hj Hin]]. cbn in Hj; subst j.
  apply in_flat in Hin. tauto.
Qed.

(* every allocated cell's object is handed to object_delete exactly once, nothing else is *)
Theorem gc_delete_frees_each_object_once : forall g,
  NoDup (map fst (gc_delete_freed g)) /\
  (forall i o, In (i, o) (gc_delete_freed g) <-> i < g_size g /\ tget (g_obj g) i = Some o).
Proof.
  intros g. unfold gc_delete_freed. rewrite fold_is_flat_map. cbn [app]. split.
  - apply nodup_flat, nodup_nrange.
  - intros i o. rewrite in_flat, in_nrange. reflexivity.
Qed.

(* the same as a count: cell i is freed once if it is allocated and inside the table, never otherwise *)
Corollary gc_delete_count : forall g i,
  count_occ N.eq_dec (map fst (gc_delete_freed g)) i =
  (if (i <? g_size g) then match tget (g_obj g) i with Some _ => 1 | None => 0 end else 0)%nat.
Proof.
  intros g i. destruct (gc_delete_frees_each_object_once g) as [ND HI].
  assert (Hin : In i (map fst (gc_delete_freed g)) <-> i < g_size g /\ allocated g i).
  { rewrite in_map_iff. unfold allocated. split.
    - intros [[j o] [Hj Hin]]. cbn in Hj; subst j. apply HI in Hin. destruct Hin as [Hl E].
      split; [exact Hl|congruence].
    - intros [Hl Ha]. destruct (tget (g_obj g) i) as [o|] eqn:E; [|congruence].
      exists (i, o). split; [reflexivity|]. apply HI. auto. }
  destruct (N.ltb_spec i (g_size g)) as [Hl|Hl].
  - destruct (tget (g_obj g) i) as [o|] eqn:E.
    + apply NoDup_count_occ'; [exact ND|]. apply Hin. split; [exact Hl|]. unfold allocated. congruence.
    + apply count_occ_not_In. intros C. apply Hin in C. unfold allocated in C. tauto.
  - apply count_occ_not_In. intros C. apply Hin in C. lia.
Qed.

Example gc_delete_two :
  let g := {| g_free := 0; g_size := 4; g_obj := tset (tset (tm_init None) 1 (Some (OScalar 1 [7]))) 3 (Some (OVec [1]));
              g_next := tm_init 0; g_mark := tm_init false; g_w := false; g_l0 := [1; 3]; g_l1 := [] |} in
  map fst (gc_delete_freed g) = [1; 3].
Proof. vm_compute. reflexivity. Qed.

(* ---- the loop bounds as a parameter ------------------------------------------------------------ *)
Lemma in_nrange_from lo hi i : In i (nrange_from lo hi) <-> lo <= i /\ i < hi.
Proof.
  unfold nrange_from. rewrite in_map_iff. split.
  - intros [k [<- Hk]]. apply in_seq in Hk. lia.
  - intros [H1 H2]. exists (N.to_nat (i - lo)). split; [lia|]. apply in_seq. lia.
Qed.

Lemma gc_delete_bounds_freed : forall lo cut g i o,
  In (i, o) (gc_delete_freed_bounds lo cut g) <-> (lo <= i /\ i < g_size g - cut) /\ tget (g_obj g) i = Some o.
Proof.
  intros lo cut g i o. unfold gc_delete_freed_bounds. rewrite fold_is_flat_map. cbn [app].
  rewrite in_flat, in_nrange_from. reflexivity.
Qed.

(* starting at cell 0 or 1 and running to mem_size, the loop releases the object of every allocated cell of a heap
   whose nil cell is empty (GCSpec.wf_nil_empty: cell 0 never holds an object) *)
Theorem gc_delete_bounds_complete : forall lo cut g,
  lo <= 1 -> cut = 0 -> tget (g_obj g) 0 = None ->
  forall i o, i < g_size g -> tget (g_obj g) i = Some o -> In (i, o) (gc_delete_freed_bounds lo cut g).
Proof.
  intros lo cut g Hlo Hcut Hnil i o Hi E. apply gc_delete_bounds_freed. subst cut.
  split; [|exact E]. split; [|lia].
  destruct (N.eq_dec i 0) as [->|Hn]; [congruence|lia].
Qed.

(* ... and any other upper bound loses the object of the last cell(s): the heap filled to the brim *)
Theorem gc_delete_cut_leaks : forall lo cut size,
  0 < cut -> 1 < size ->
  tget (g_obj (brim_heap size)) 0 = None /\
  exists o, tget (g_obj (brim_heap size)) (size - 1) = Some o /\
            ~ In (size - 1, o) (gc_delete_freed_bounds lo cut (brim_heap size)).
Proof.
  intros lo cut size Hc Hs. unfold brim_heap; cbn [g_obj with_obj]. split.
  - rewrite tget_set_other by lia. reflexivity.
  - exists (OScalar 0 [7]). split; [apply tget_set_same|].
    intro H. apply gc_delete_bounds_freed in H. cbn [g_size with_obj gc_new] in H. lia.
Qed.
