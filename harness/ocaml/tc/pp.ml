(* pp — Src.Syntax AST -> Never source text.  (copy of harness/ocaml/eval/pp.ml for the C06 harness:
   opens Tcmodel, and records the first/last line of one watched expression / item and the lines of
   all catch clauses, so that the mutator knows the line of a mutation site.)

   Layout is stable: every record field list is one line, every function header is one line,
   `{` and `}` of a function body / catch clause / block stand on their own lines and every item
   of a block is printed starting on a line of its own, so the line of every item is known
   (`item_lines` returns them).  Compound subexpressions are always parenthesised, so the
   printer does not depend on the operator precedences of front/parser.y.

   Names: ident k < 1000 is `v<k>`; larger idents (used by the injective renaming) are spelled
   with letters, `_` and one digit, which can never be a keyword or a library function.  The entry
   function is always printed as `main`.  Record r is `R<r>` / `R<letters>`, its fields
   `f<pos>` / `f<letters>_<pos>`.  Array dimension names (`t[D3] : int`) are numbered in print
   order; they are binders of the concrete syntax only. *)
open Tcmodel
open Conv

let letters k =
  let b = Buffer.create 8 in
  let rec go k = Buffer.add_char b (Char.chr (97 + k mod 26)); if k >= 26 then go (k / 26 - 1) in
  go k; Buffer.contents b

let name_of_int k =
  if k < 1000 then "v" ^ string_of_int k
  else letters (k - 1000) ^ "_" ^ string_of_int (k mod 10)

let rec_name k = if k < 1000 then "R" ^ string_of_int k else "R" ^ letters (k - 1000) ^ "_" ^ string_of_int (k mod 10)
let field_name r pos = if r < 1000 then "f" ^ string_of_int pos else "f" ^ letters (r - 1000) ^ "_" ^ string_of_int pos

let binop_str = function
  | Add -> "+" | Sub -> "-" | Mul -> "*" | Div -> "/" | Mod -> "%"
  | Lt -> "<" | Le -> "<=" | Gt -> ">" | Ge -> ">=" | Eq -> "==" | Ne -> "!="
  | And -> "&&" | Or -> "||" | BAnd -> "&&&" | BOr -> "|||" | BXor -> "^^^"
  | Shl -> "<<<" | Shr -> ">>>"

(* the node whose lines are wanted (physical equality) *)
let watch_e : expr option ref = ref None
let watch_i : item option ref = ref None
let hit : (int * int) option ref = ref None

type pr = {
  b : Buffer.t;
  mutable line : int;            (* current line, 1-based *)
  mutable dims : int;            (* next array dimension name *)
  main : int;
  mutable items : (int * string) list;   (* line of each item, with its kind *)
  mutable catches : (int * string) list; (* line of each `catch (name)` header *)
}

let nl p = Buffer.add_char p.b '\n'; p.line <- p.line + 1
let str p s = Buffer.add_string p.b s
let indent p n = for _ = 1 to n do str p "    " done

let vname p x = let k = int_of_n x in if k = p.main then "main" else name_of_int k

let dim p = p.dims <- p.dims + 1; "D" ^ string_of_int p.dims

(* a type in "unnamed parameter" position: return types, function type arguments, array element *)
let rec ty_str p = function
  | TInt -> "int"
  | TBool -> "bool"
  | TFun (args, ret) -> "(" ^ String.concat ", " (List.map (ty_str p) args) ^ ") -> " ^ ty_str p ret
  | TArr t -> let d = dim p in "[" ^ d ^ "] : " ^ ty_str p t
  | TRec r -> rec_name (int_of_n r)

(* a named parameter / record field *)
let param_str p name t =
  match t with
  | TInt | TBool | TRec _ -> name ^ " : " ^ ty_str p t
  | TFun (args, ret) -> name ^ "(" ^ String.concat ", " (List.map (ty_str p) args) ^ ") -> " ^ ty_str p ret
  | TArr e -> let d = dim p in name ^ "[" ^ d ^ "] : " ^ ty_str p e

let atomic = function
  | EInt z -> (match z with Zneg _ -> false | _ -> true)
  | EBool _ | EVar _ | EIndex _ | EField _ | EPrint _ | ERecNew _ | ERecNil _ -> true
  | ECall (ELambda _, _) -> false
  | ECall _ -> true
  | _ -> false

let rec expr p ind e =
  let w = (match !watch_e with Some w -> w == e | None -> false) in
  let l0 = p.line in
  expr0 p ind e;
  if w then hit := Some (l0, p.line)

and expr0 p ind e =
  match e with
  | EInt z ->
    let k = int_of_z z in
    if k >= 0 then str p (string_of_int k)
    else if k = -2147483648 then str p "-2147483647 - 1"
    else str p ("-" ^ string_of_int (- k))
  | EBool true -> str p "true"
  | EBool false -> str p "false"
  | EVar x -> str p (vname p x)
  | ENeg a -> str p "-"; sub p ind a
  | ENot a -> str p "!"; sub p ind a
  | EBNot a -> str p "~~~"; sub p ind a
  | EBin (op, a, b) -> sub p ind a; str p (" " ^ binop_str op ^ " "); sub p ind b
  | ECond (c, a, b) ->
    (match a, b with
     | EBlock _, _ | _, EBlock _ ->
       str p "if ("; expr p ind c; str p ")"; nl p; braced p ind a;
       nl p; indent p ind; str p "else"; nl p; braced p ind b
     | _ -> sub p ind c; str p " ? "; sub p ind a; str p " : "; sub p ind b)
  | EIf (c, a) -> str p "if ("; expr p ind c; str p ")"; nl p; braced p ind a
  | EAssign (l, r) -> sub p ind l; str p " = "; sub p ind r
  | ECall (f, args) ->
    (match f with
     | EVar _ -> expr p ind f
     | ELambda fd -> lambda p ind fd
     | _ -> str p "("; expr p ind f; str p ")");
    str p "("; commas p ind args; str p ")"
  | EBlock items -> block p ind items
  | EWhile (c, body) -> str p "while ("; expr p ind c; str p ")"; nl p; braced p ind body
  | EDoWhile (body, c) -> str p "do"; nl p; braced p ind body; nl p; indent p ind; str p "while ("; expr p ind c; str p ")"
  | EFor (i, c, s, body) ->
    str p "for ("; expr p ind i; str p "; "; expr p ind c; str p "; "; expr p ind s; str p ")"; nl p;
    braced p ind body
  | EForInRange (x, a, b, body) ->
    str p ("for (" ^ vname p x ^ " in ["); sub p ind a; str p " .. "; sub p ind b; str p "])"; nl p;
    braced p ind body
  | EForInArr (x, a, body) ->
    str p ("for (" ^ vname p x ^ " in "); (match a with EArrLit _ -> expr p ind a | _ -> sub p ind a); str p ")"; nl p;
    braced p ind body
  | ELambda fd -> lambda p ind fd
  | EArrLit (es, t) -> str p "["; commas p ind es; str p "] : "; str p (ty_str p t)
  | EIndex (a, i) -> sub p ind a; str p "["; expr p ind i; str p "]"
  | ERecNew (r, args) -> str p (rec_name (int_of_n r)); str p "("; commas p ind args; str p ")"
  | ERecNil _ -> str p "nil"
  | EField (a, r, pos) -> sub p ind a; str p "."; str p (field_name (int_of_n r) (int_of_nat pos))
  | EPrint a -> str p "print("; expr p ind a; str p ")"

and sub p ind e = if atomic e then expr p ind e else (str p "("; expr p ind e; str p ")")

and commas p ind es =
  List.iteri (fun i a -> if i > 0 then str p ", "; expr p ind a) es

(* `{` on the current (already indented or fresh) line: the caller has just emitted a newline *)
and braced p ind e =
  match e with
  | EBlock items -> indent p ind; block p ind items
  | _ -> indent p ind; block p ind [IExpr e]

(* prints `{ NL items NL ind }` ; the opening brace goes where the cursor is *)
and block p ind items =
  str p "{"; nl p;
  let n = List.length items in
  List.iteri (fun i it ->
      indent p (ind + 1);
      item p (ind + 1) it;
      if i < n - 1 then str p ";";
      nl p) items;
  indent p ind; str p "}"

and item p ind it =
  let w = (match !watch_i with Some w -> w == it | None -> false) in
  let l0 = p.line in
  item0 p ind it;
  if w then hit := Some (l0, p.line)

and item0 p ind it =
  match it with
  | ILet (x, e) -> p.items <- (p.line, "let") :: p.items; str p ("let " ^ vname p x ^ " = "); expr p ind e
  | IVar (x, e) -> p.items <- (p.line, "var") :: p.items; str p ("var " ^ vname p x ^ " = "); expr p ind e
  | IFunc fd -> p.items <- (p.line, "func") :: p.items; fdef p ind (Some (fd_name fd)) fd
  | IExpr e -> p.items <- (p.line, "expr") :: p.items; expr p ind e

and lambda p ind fd = str p "let "; fdef p ind None fd

and fdef p ind name fd =
  let FDef (_, params, ret, body, catches, call) = fd in
  let ps = List.map (fun ((x, isvar), t) -> (if isvar then "var " else "") ^ param_str p (vname p x) t) params in
  let ps = String.concat ", " ps in
  str p ("func " ^ (match name with Some x -> vname p x | None -> "") ^ "(" ^ ps ^ ") -> " ^ ty_str p ret);
  nl p; indent p ind; block p ind body;
  List.iter (fun (ex, h) ->
      nl p; indent p ind; p.catches <- (p.line, exn_name ex) :: p.catches; str p ("catch (" ^ exn_name ex ^ ")"); nl p; indent p ind; block p ind h) catches;
  (match call with
   | Some h -> nl p; indent p ind; str p "catch"; nl p; indent p ind; block p ind h
   | None -> ())

let record_decl p (r, tys) =
  str p ("record " ^ rec_name (int_of_n r) ^ " { ");
  List.iteri (fun i t -> str p (param_str p (field_name (int_of_n r) i) t); str p "; ") tys;
  str p "}"; nl p

let print_program_lines (prog : program) : string * (int * string) list =
  let p = { b = Buffer.create 4096; line = 1; dims = 0; main = int_of_n prog.p_main; items = []; catches = [] } in
  List.iter (record_decl p) prog.p_recs;
  List.iter (fun fd -> fdef p 0 (Some (fd_name fd)) fd; nl p) prog.p_funcs;
  (Buffer.contents p.b, List.rev p.items)

let print_program (prog : program) : string = fst (print_program_lines prog)

(* text, lines (first, last) of the watched node if it was printed, lines of the catch headers *)
let print_watch (prog : program) (we : expr option) (wi : item option)
  : string * (int * int) option * (int * string) list =
  watch_e := we; watch_i := wi; hit := None;
  let p = { b = Buffer.create 4096; line = 1; dims = 0; main = int_of_n prog.p_main; items = []; catches = [] } in
  List.iter (record_decl p) prog.p_recs;
  List.iter (fun fd -> fdef p 0 (Some (fd_name fd)) fd; nl p) prog.p_funcs;
  let h = !hit in
  watch_e := None; watch_i := None; hit := None;
  (Buffer.contents p.b, h, List.rev p.catches)
