(* Extraction of the embedding-API model (VM/Api.v) for the C15 correspondence run.
   ExtrOcamlBasic only; Z/positive/nat stay extracted datatypes and are converted by
   harness/ocaml/api/apirun.ml, which instantiates the Section variables (gdepth, init, exec) by
   replaying the per-call outcomes observed on the real VM. *)
From Coq Require Import ExtrOcamlBasic.
From NV Require Import VM.Api.

Extraction "apimodel.ml" execute run_calls states api_step run_history vm_new pool_empty
  pinned_policy popfix_policy repaired_policy death_call.
